#!/bin/sh
# builds libriti.a from /repo's current working tree (own target dir) and the C driver in two flavours
set -e
cd "$(dirname "$0")"
export CARGO_NET_OFFLINE=true
(cd /repo && cargo build --release --offline --target-dir /verif/ffi/target >/dev/null 2>&1) || (cd /repo && cargo build --release --offline --target-dir /verif/ffi/target)
LIB=/verif/ffi/target/release/libriti.a
clang -O1 -g -gdwarf-4 -Wall -I/repo/include driver.c "$LIB" -lpthread -ldl -lm -o driver_plain
clang -O1 -g -Wall -fsanitize=address -fno-omit-frame-pointer -I/repo/include driver.c "$LIB" -lpthread -ldl -lm -o driver_asan
echo ffi-build-done
