/* C19 driver: executes a script of calls against the C interface of libriti.a and prints what
 * every read-out returned, in the canonical token format of the harness.  Run under valgrind and
 * AddressSanitizer/LeakSanitizer by the harness (stream c19).
 *
 * script lines:
 *   cfg <id> <layout> <bits11>     riti_config_new + the 15 setters (database dir = $RITI_DATA)
 *   cfgfree <id>
 *   ctx <id> <cfgid>               riti_context_new_with_config
 *   ctxfree <id>
 *   key <ctx> <code> <mod> <sel> <slot>    suggestion pointer kept in <slot>
 *   bs <ctx> <ctrl> <slot>
 *   commit <ctx> <index> | finish <ctx> | update <ctx> <cfgid> | ongoing <ctx>
 *   read <slot>                    every accessor, every index; strings freed afterwards
 *   readkeep <slot>                same, but the C strings are kept until `strfree`
 *   strfree                        frees all kept strings
 *   sugfree <slot>
 *   nullfree                       riti_string_free(NULL)
 */
#include <stdio.h>
#include <stdlib.h>
#include <string.h>
#include <stdint.h>
#include "riti.h"

#define MAXH 4096
static Config *cfgs[MAXH];
static RitiContext *ctxs[MAXH];
static Suggestion *sugs[MAXH];
static char *kept[1 << 16];
static int nkept = 0;

static int valid_utf8(const unsigned char *s) {
    while (*s) {
        int n;
        uint32_t cp;
        if (*s < 0x80) { s++; continue; }
        else if ((*s & 0xE0) == 0xC0) { n = 1; cp = *s & 0x1F; }
        else if ((*s & 0xF0) == 0xE0) { n = 2; cp = *s & 0x0F; }
        else if ((*s & 0xF8) == 0xF0) { n = 3; cp = *s & 0x07; }
        else return 0;
        s++;
        for (int i = 0; i < n; i++) { if ((*s & 0xC0) != 0x80) return 0; cp = (cp << 6) | (*s & 0x3F); s++; }
        if (cp < 0x80 || (n == 2 && cp < 0x800) || (n == 3 && cp < 0x10000) || cp > 0x10FFFF || (cp >= 0xD800 && cp <= 0xDFFF)) return 0;
    }
    return 1;
}

static void put_token(const char *s) {
    if (!s) { fputs("\\NULL", stdout); return; }
    if (!valid_utf8((const unsigned char *)s)) { fputs("\\BADUTF8", stdout); return; }
    if (!*s) { fputs("\\e", stdout); return; }
    for (; *s; s++) {
        switch (*s) {
            case ' ': fputs("\\s", stdout); break;
            case '\\': fputs("\\\\", stdout); break;
            case '\n': fputs("\\n", stdout); break;
            case '\t': fputs("\\t", stdout); break;
            case '\r': fputs("\\r", stdout); break;
            default: fputc(*s, stdout);
        }
    }
}

static void out_str(char *s, int keep) {
    put_token(s);
    if (keep && nkept < (1 << 16)) kept[nkept++] = s; else riti_string_free(s);
}

static void read_sug(int slot, int keep) {
    Suggestion *s = sugs[slot];
    printf("R %d ", slot);
    if (riti_suggestion_is_lonely(s)) {
        fputs("S ", stdout);
        fputs(riti_suggestion_is_empty(s) ? "1 " : "0 ", stdout);
        out_str(riti_suggestion_get_lonely_suggestion(s), keep);
        fputc(' ', stdout);
        out_str(riti_suggestion_get_pre_edit_text(s, 0), keep);
    } else {
        uintptr_t n = riti_suggestion_get_length(s);
        printf("F %s %lu ", riti_suggestion_is_empty(s) ? "1" : "0", (unsigned long)riti_suggestion_previously_selected_index(s));
        out_str(riti_suggestion_get_auxiliary_text(s), keep);
        printf(" %lu", (unsigned long)n);
        for (uintptr_t i = 0; i < n; i++) { fputc(' ', stdout); out_str(riti_suggestion_get_suggestion(s, i), keep); }
        for (uintptr_t i = 0; i < n; i++) { fputc(' ', stdout); out_str(riti_suggestion_get_pre_edit_text(s, i), keep); }
    }
    fputc('\n', stdout);
}

int main(int argc, char **argv) {
    if (argc < 2) { fprintf(stderr, "usage: driver <script>\n"); return 2; }
    FILE *f = fopen(argv[1], "r");
    if (!f) { perror("script"); return 2; }
    const char *data = getenv("RITI_DATA");
    if (!data) data = "/repo/data";
    char line[4096], op[32], a1[2048], a2[2048];
    long lineno = 0;
    while (fgets(line, sizeof line, f)) {
        lineno++;
        int id, id2, code, mod, sel, slot, ctrl;
        unsigned long idx;
        if (sscanf(line, "%31s", op) != 1) continue;
        if (!strcmp(op, "cfg")) {
            if (sscanf(line, "%*s %d %2047s %2047s", &id, a1, a2) != 3) goto bad;
            Config *c = riti_config_new();
            if (!riti_config_set_layout_file(c, a1)) { printf("E layout rejected\n"); }
            if (!riti_config_set_database_dir(c, data)) { printf("E data dir rejected\n"); }
            const char *b = a2;
            riti_config_set_suggestion_include_english(c, b[0] == '1');
            riti_config_set_phonetic_suggestion(c, b[1] == '1');
            riti_config_set_fixed_suggestion(c, b[2] == '1');
            riti_config_set_fixed_auto_vowel(c, b[3] == '1');
            riti_config_set_fixed_auto_chandra(c, b[4] == '1');
            riti_config_set_fixed_traditional_kar(c, b[5] == '1');
            riti_config_set_fixed_old_reph(c, b[6] == '1');
            riti_config_set_fixed_numpad(c, b[7] == '1');
            riti_config_set_fixed_old_kar_order(c, b[8] == '1');
            riti_config_set_ansi_encoding(c, b[9] == '1');
            riti_config_set_smart_quote(c, b[10] == '1');
            cfgs[id] = c;
        } else if (!strcmp(op, "cfgfree")) { if (sscanf(line, "%*s %d", &id) != 1) goto bad; riti_config_free(cfgs[id]); cfgs[id] = NULL; }
        else if (!strcmp(op, "ctx")) { if (sscanf(line, "%*s %d %d", &id, &id2) != 2) goto bad; ctxs[id] = riti_context_new_with_config(cfgs[id2]); }
        else if (!strcmp(op, "ctxfree")) { if (sscanf(line, "%*s %d", &id) != 1) goto bad; riti_context_free(ctxs[id]); ctxs[id] = NULL; }
        else if (!strcmp(op, "key")) { if (sscanf(line, "%*s %d %d %d %d %d", &id, &code, &mod, &sel, &slot) != 5) goto bad; sugs[slot] = riti_get_suggestion_for_key(ctxs[id], (uint16_t)code, (uint8_t)mod, (uint8_t)sel); }
        else if (!strcmp(op, "bs")) { if (sscanf(line, "%*s %d %d %d", &id, &ctrl, &slot) != 3) goto bad; sugs[slot] = riti_context_backspace_event(ctxs[id], ctrl != 0); }
        else if (!strcmp(op, "commit")) { if (sscanf(line, "%*s %d %lu", &id, &idx) != 2) goto bad; riti_context_candidate_committed(ctxs[id], (uintptr_t)idx); }
        else if (!strcmp(op, "finish")) { if (sscanf(line, "%*s %d", &id) != 1) goto bad; riti_context_finish_input_session(ctxs[id]); }
        else if (!strcmp(op, "update")) { if (sscanf(line, "%*s %d %d", &id, &id2) != 2) goto bad; riti_context_update_engine(ctxs[id], cfgs[id2]); }
        else if (!strcmp(op, "ongoing")) { if (sscanf(line, "%*s %d", &id) != 1) goto bad; printf("O %d %d\n", id, riti_context_ongoing_input_session(ctxs[id]) ? 1 : 0); }
        else if (!strcmp(op, "read")) { if (sscanf(line, "%*s %d", &slot) != 1) goto bad; read_sug(slot, 0); }
        else if (!strcmp(op, "readkeep")) { if (sscanf(line, "%*s %d", &slot) != 1) goto bad; read_sug(slot, 1); }
        else if (!strcmp(op, "strfree")) { for (int i = 0; i < nkept; i++) riti_string_free(kept[i]); nkept = 0; }
        else if (!strcmp(op, "sugfree")) { if (sscanf(line, "%*s %d", &slot) != 1) goto bad; riti_suggestion_free(sugs[slot]); sugs[slot] = NULL; }
        else if (!strcmp(op, "nullfree")) { riti_string_free(NULL); }
        else goto bad;
        continue;
    bad:
        fprintf(stderr, "bad script line %ld: %s", lineno, line);
        return 2;
    }
    fclose(f);
    fflush(stdout);
    /* forget every handle: whatever the script did not free becomes unreachable, i.e. a reportable leak */
    memset(cfgs, 0, sizeof cfgs); memset(ctxs, 0, sizeof ctxs); memset(sugs, 0, sizeof sugs); memset(kept, 0, sizeof kept);
    return 0;
}
