//! One PRNG (splitmix64) from which every random choice derives, plus input generators.
#[derive(Clone)]
pub struct Rng(pub u64);
impl Rng {
    pub fn new(seed: u64) -> Rng { Rng(seed.wrapping_mul(0x9E3779B97F4A7C15) ^ 0xD1B54A32D192ED03) }
    pub fn next(&mut self) -> u64 {
        self.0 = self.0.wrapping_add(0x9E3779B97F4A7C15);
        let mut z = self.0;
        z = (z ^ (z >> 30)).wrapping_mul(0xBF58476D1CE4E5B9);
        z = (z ^ (z >> 27)).wrapping_mul(0x94D049BB133111EB);
        z ^ (z >> 31)
    }
    pub fn below(&mut self, n: usize) -> usize { if n == 0 { 0 } else { (self.next() % n as u64) as usize } }
    pub fn chance(&mut self, pct: u32) -> bool { (self.next() % 100) < pct as u64 }
    pub fn pick<'a, T>(&mut self, xs: &'a [T]) -> &'a T { &xs[self.below(xs.len())] }
    pub fn fork(&mut self) -> Rng { Rng::new(self.next()) }
}

pub const PUNCT27: &str = "-]~!@#%&*()_=+[{}'\";<>/?|.,";
pub const TYPEABLE: &str = "`~1234567890!@#$%^&*()_+-=abcdefghijklmnopqrstuvwxyzABCDEFGHIJKLMNOPQRSTUVWXYZ[]\\{}|;':\",./<>?";

/// an Avro-flavoured random word: digraph-biased letters
pub fn avro_word(r: &mut Rng, max: usize) -> String {
    const PARTS: &[&str] = &["a", "i", "u", "e", "o", "k", "kh", "g", "gh", "Ng", "c", "ch", "j", "jh", "NG", "T", "Th", "D", "Dh", "N",
        "t", "th", "d", "dh", "n", "p", "ph", "f", "b", "bh", "v", "m", "z", "r", "l", "sh", "S", "s", "h", "R", "Rh", "y", "Y",
        "rri", "OI", "OU", "oi", "ou", "aa", "ii", "uu", "ee", "oo", "kk", "kkh", "ng", "w", "x", "q", "Z", "I", "U", "O", "A", "E",
        "ar", "er", "ra", "ri", "ta", "ti", "na", "ni", "ka", "ko", "ba", "bi", "ma", "mi", "sa", "ha", "la", "pa", "0", "1", "2", "9"];
    let n = 1 + r.below(max.max(1));
    let mut s = String::new();
    while s.chars().count() < n { let p: &&str = r.pick(PARTS); s.push_str(p); }
    s.chars().take(n).collect()
}

pub fn from_alphabet(r: &mut Rng, alpha: &str, len: usize) -> String {
    let a: Vec<char> = alpha.chars().collect();
    (0..len).map(|_| *r.pick(&a)).collect()
}
