//! In-process driver of the real library.
use riti::config::Config;
use riti::context::RitiContext;
use riti::suggestion::Suggestion;
use std::ffi::CString;
use std::os::raw::c_char;
use std::panic::{catch_unwind, AssertUnwindSafe};
use std::path::{Path, PathBuf};
use std::sync::Mutex;
use std::time::Instant;

extern "C" {
    fn riti_config_set_layout_file(ptr: *mut Config, path: *const c_char) -> bool;
    fn riti_config_set_database_dir(ptr: *mut Config, path: *const c_char) -> bool;
    fn riti_config_set_suggestion_include_english(ptr: *mut Config, option: bool);
    fn riti_config_set_phonetic_suggestion(ptr: *mut Config, option: bool);
}

pub const PHONETIC: &str = "avro_phonetic";
pub const DATA_DIR: &str = "/repo/data";
pub const PROBHAT: &str = "/repo/data/Probhat.json";

/// the 11 booleans, in the order of the Lean `Cfg` structure
#[derive(Clone, Copy, Debug, PartialEq, Eq, Hash)]
pub struct Opts {
    pub english: bool,
    pub phonetic_suggestion: bool,
    pub fixed_suggestion: bool,
    pub vowel: bool,
    pub chandra: bool,
    pub kar: bool,
    pub old_reph: bool,
    pub numpad: bool,
    pub kar_order: bool,
    pub ansi: bool,
    pub smart_quote: bool,
}

impl Opts {
    pub fn from_bits(b: u32) -> Opts {
        let g = |i: u32| (b >> i) & 1 == 1;
        Opts { english: g(0), phonetic_suggestion: g(1), fixed_suggestion: g(2), vowel: g(3), chandra: g(4), kar: g(5),
               old_reph: g(6), numpad: g(7), kar_order: g(8), ansi: g(9), smart_quote: g(10) }
    }
    pub fn arr(&self) -> [bool; 11] {
        [self.english, self.phonetic_suggestion, self.fixed_suggestion, self.vowel, self.chandra, self.kar,
         self.old_reph, self.numpad, self.kar_order, self.ansi, self.smart_quote]
    }
    pub fn bits_str(&self) -> String { self.arr().iter().map(|&b| if b { '1' } else { '0' }).collect() }
    pub fn none() -> Opts { Opts::from_bits(0) }
}

static ENV_LOCK: Mutex<()> = Mutex::new(());

/// Build a `Config`: `Config::default()` (reads XDG_DATA_HOME) + C setters.  `xdg` is the value
/// given to XDG_DATA_HOME, so the user directory is `<xdg>/openbangla-keyboard`.
pub fn mk_config(layout: &str, o: &Opts, xdg: &Path) -> Config {
    let _g = ENV_LOCK.lock().unwrap_or_else(|e| e.into_inner());
    std::env::set_var("XDG_DATA_HOME", xdg);
    let mut c = Config::default();
    let l = CString::new(layout).unwrap();
    let d = CString::new(DATA_DIR).unwrap();
    // the order in which a front-end calls the setters must not matter: half of the option space sets ANSI before English
    let ansi_first = o.smart_quote != o.numpad;
    if ansi_first { c.set_ansi_encoding(o.ansi); }
    unsafe {
        assert!(riti_config_set_layout_file(&mut c, l.as_ptr()), "layout path rejected: {}", layout);
        assert!(riti_config_set_database_dir(&mut c, d.as_ptr()));
        riti_config_set_suggestion_include_english(&mut c, o.english);
        riti_config_set_phonetic_suggestion(&mut c, o.phonetic_suggestion);
    }
    c.set_fixed_suggestion(o.fixed_suggestion);
    c.set_fixed_automatic_vowel(o.vowel);
    c.set_fixed_automatic_chandra(o.chandra);
    c.set_fixed_traditional_kar(o.kar);
    c.set_fixed_old_reph(o.old_reph);
    c.set_fixed_numpad(o.numpad);
    c.set_fixed_old_kar_order(o.kar_order);
    if !ansi_first { c.set_ansi_encoding(o.ansi); }
    c.set_smart_quote(o.smart_quote);
    c
}

pub fn user_dir(xdg: &Path) -> PathBuf { xdg.join("openbangla-keyboard") }

/// What one API call returned, read through every accessor.
#[derive(Clone, Debug, PartialEq, Eq)]
pub enum Obs {
    Panic,
    Unit,
    Single { ansi: bool, text: String, pre: Option<String> },
    Full { ansi: bool, aux: String, sel: usize, cands: Vec<String>, pres: Vec<Option<String>>, accessor_panic: bool },
}

impl Obs {
    pub fn is_empty_suggestion(&self) -> bool {
        matches!(self, Obs::Single { text, .. } if text.is_empty())
    }
    pub fn cands(&self) -> &[String] {
        match self { Obs::Full { cands, .. } => cands, _ => &[] }
    }
}

pub fn observe(s: &Suggestion) -> Obs {
    match s {
        Suggestion::Single { suggestion, ansi } => {
            let pre = catch_unwind(AssertUnwindSafe(|| s.get_pre_edit_text(0))).ok();
            let lonely_ok = catch_unwind(AssertUnwindSafe(|| s.is_lonely() && s.get_lonely_suggestion() == suggestion)).unwrap_or(false);
            assert!(lonely_ok);
            Obs::Single { ansi: *ansi, text: suggestion.clone(), pre }
        }
        Suggestion::Full { auxiliary, suggestions, selection, ansi } => {
            // read everything through the accessors, as a front-end would
            let r = catch_unwind(AssertUnwindSafe(|| {
                let n = s.len();
                let sel = s.previously_selected_index();
                let aux = s.get_auxiliary_text().to_string();
                let cands: Vec<String> = s.get_suggestions().to_vec();
                (n, sel, aux, cands, s.is_lonely())
            }));
            let accessor_panic = match &r {
                Ok((n, sel, aux, cands, lonely)) => !(*n == suggestions.len() && sel == selection && aux == auxiliary && cands == suggestions && !*lonely),
                Err(_) => true,
            };
            let pres = (0..suggestions.len())
                .map(|i| catch_unwind(AssertUnwindSafe(|| s.get_pre_edit_text(i))).ok())
                .collect();
            Obs::Full { ansi: *ansi, aux: auxiliary.clone(), sel: *selection, cands: suggestions.clone(), pres, accessor_panic }
        }
    }
}

pub struct Imp {
    pub ctx: RitiContext,
    /// slowest single call so far, seconds
    pub slowest: f64,
    pub poisoned: bool,
    /// journal mode (RITI_HARNESS_JOURNAL=<dir>): every call is written and flushed BEFORE it is made, so that a
    /// call that aborts the process (stack overflow, abort) or never returns can be identified afterwards
    journal: Option<std::fs::File>,
}

use std::sync::atomic::{AtomicU64, Ordering};
/// start time (ms since process start, 0 = idle) of the call each worker thread is currently making
static INFLIGHT: [AtomicU64; 64] = [const { AtomicU64::new(0) }; 64];
static NEXT_SLOT: AtomicU64 = AtomicU64::new(0);
static NEXT_JOURNAL: AtomicU64 = AtomicU64::new(0);
thread_local! { static SLOT: usize = (NEXT_SLOT.fetch_add(1, Ordering::SeqCst) % 64) as usize; }
fn now_ms() -> u64 { static START: std::sync::OnceLock<Instant> = std::sync::OnceLock::new(); START.get_or_init(Instant::now).elapsed().as_millis() as u64 + 1 }

/// watchdog: a call that does not return within `limit_s` ends the process with exit code 97 (a hang is a C01 violation;
/// the check then re-runs the stream in journal mode to find the call)
pub fn start_watchdog(limit_s: u64) {
    let _ = now_ms();
    std::thread::spawn(move || loop {
        std::thread::sleep(std::time::Duration::from_millis(500));
        let now = now_ms();
        for s in INFLIGHT.iter() {
            let t = s.load(Ordering::SeqCst);
            if t != 0 && now.saturating_sub(t) > limit_s * 1000 {
                eprintln!("HARNESS-WATCHDOG: a library call has not returned for {} s", limit_s);
                std::process::exit(97);
            }
        }
    });
}

impl Imp {
    pub fn new(cfg: &Config) -> Option<Imp> {
        let r = catch_unwind(AssertUnwindSafe(|| RitiContext::new_with_config(cfg)));
        r.ok().map(|ctx| Imp { ctx, slowest: 0.0, poisoned: false, journal: None })
    }
    /// journal mode: describe the context (layout, options) and start a journal file for it
    pub fn describe(&mut self, desc: &str) {
        if self.journal.is_some() { self.note(desc); return; }
        if let Ok(dir) = std::env::var("RITI_HARNESS_JOURNAL") {
            let _ = std::fs::create_dir_all(&dir);
            let n = NEXT_JOURNAL.fetch_add(1, Ordering::SeqCst);
            if let Ok(mut f) = std::fs::File::create(format!("{}/{}-{}.journal", dir, std::process::id(), n)) {
                use std::io::Write; let _ = writeln!(f, "{}", desc); let _ = f.flush();
                self.journal = Some(f);
            }
        }
    }
    fn note(&mut self, line: &str) {
        if let Some(f) = self.journal.as_mut() { use std::io::Write; let _ = writeln!(f, "{}", line); let _ = f.flush(); }
    }
    fn timed<T>(&mut self, f: impl FnOnce(&mut RitiContext) -> T) -> Option<T> {
        // CPU time of this thread, not wall time: the time budget of C01 is about the work an event does; a busy machine (16 shards,
        // other checks running) must not turn a descheduled thread into a "slow event" (calls that never return are the watchdog's)
        let t = thread_cpu_s();
        let slot = SLOT.with(|s| *s);
        INFLIGHT[slot].store(now_ms(), Ordering::SeqCst);
        let r = catch_unwind(AssertUnwindSafe(|| f(&mut self.ctx)));
        INFLIGHT[slot].store(0, Ordering::SeqCst);
        self.note("ok");
        let dt = thread_cpu_s() - t;
        if dt > self.slowest { self.slowest = dt; }
        match r { Ok(v) => Some(v), Err(_) => { self.poisoned = true; None } }
    }
    pub fn key(&mut self, code: u16, modifier: u8, sel: u8) -> Obs {
        if self.journal.is_some() { self.note(&format!("key {} {} {}", code, modifier, sel)); }
        match self.timed(|c| c.get_suggestion_for_key(code, modifier, sel)) { Some(s) => observe(&s), None => Obs::Panic }
    }
    pub fn backspace(&mut self, ctrl: bool) -> Obs {
        if self.journal.is_some() { self.note(&format!("bs {}", ctrl as u8)); }
        match self.timed(|c| c.backspace_event(ctrl)) { Some(s) => observe(&s), None => Obs::Panic }
    }
    pub fn commit(&mut self, i: usize) -> Obs {
        if self.journal.is_some() { self.note(&format!("commit {}", i)); }
        match self.timed(|c| c.candidate_committed(i)) { Some(()) => Obs::Unit, None => Obs::Panic }
    }
    pub fn finish(&mut self) -> Obs {
        if self.journal.is_some() { self.note("finish"); }
        match self.timed(|c| c.finish_input_session()) { Some(()) => Obs::Unit, None => Obs::Panic }
    }
    pub fn update(&mut self, cfg: &Config) -> Obs {
        if self.journal.is_some() { self.note("update (see the following describe line)"); }
        match self.timed(|c| c.update_engine(cfg)) { Some(()) => Obs::Unit, None => Obs::Panic }
    }
    pub fn ongoing(&mut self) -> bool {
        self.timed(|c| c.ongoing_input_session()).unwrap_or(false)
    }
}

/// silence the default panic hook (panics are expected observations, not noise)
#[repr(C)] struct Timespec { tv_sec: i64, tv_nsec: i64 }
extern "C" { fn clock_gettime(clk: i32, ts: *mut Timespec) -> i32; }
/// CLOCK_THREAD_CPUTIME_ID (Linux): CPU time consumed by the calling thread, seconds
pub fn thread_cpu_s() -> f64 {
    let mut ts = Timespec { tv_sec: 0, tv_nsec: 0 };
    let rc = unsafe { clock_gettime(3, &mut ts) };
    if rc != 0 { return 0.0; }
    ts.tv_sec as f64 + ts.tv_nsec as f64 * 1e-9
}

pub fn quiet_panics() {
    // panics of the library under test are expected and caught; a panic of the harness itself (its source paths are relative:
    // `src/…`) is a defect of the machinery and must be visible
    std::panic::set_hook(Box::new(|info| {
        if let Some(l) = info.location() { if l.file().starts_with("src/") || std::env::var_os("RITI_HARNESS_SHOW_PANICS").is_some() { eprintln!("HARNESS PANIC at {}:{}: {}", l.file(), l.line(), info); } }
    }));
}
