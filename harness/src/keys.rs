//! Key table transcribed by hand from include/riti.h (independent of src/keycodes.rs).
//! (name, code, ASCII character produced in phonetic mode — None for keys without one)
pub const KEYS: &[(&str, u16, Option<char>)] = &[
    ("VC_GRAVE", 41, Some('`')), ("VC_TILDE", 1, Some('~')),
    ("VC_1", 2, Some('1')), ("VC_2", 3, Some('2')), ("VC_3", 4, Some('3')), ("VC_4", 5, Some('4')), ("VC_5", 6, Some('5')),
    ("VC_6", 7, Some('6')), ("VC_7", 8, Some('7')), ("VC_8", 9, Some('8')), ("VC_9", 10, Some('9')), ("VC_0", 11, Some('0')),
    ("VC_EXCLAIM", 59, Some('!')), ("VC_AT", 60, Some('@')), ("VC_HASH", 61, Some('#')), ("VC_DOLLAR", 62, Some('$')),
    ("VC_PERCENT", 63, Some('%')), ("VC_CIRCUM", 64, Some('^')), ("VC_AMPERSAND", 65, Some('&')), ("VC_ASTERISK", 66, Some('*')),
    ("VC_PAREN_LEFT", 67, Some('(')), ("VC_PAREN_RIGHT", 68, Some(')')), ("VC_UNDERSCORE", 87, Some('_')), ("VC_PLUS", 88, Some('+')),
    ("VC_MINUS", 12, Some('-')), ("VC_EQUALS", 13, Some('=')),
    ("VC_A", 41110, Some('a')), ("VC_B", 41111, Some('b')), ("VC_C", 41112, Some('c')), ("VC_D", 41113, Some('d')),
    ("VC_E", 41114, Some('e')), ("VC_F", 41115, Some('f')), ("VC_G", 41116, Some('g')), ("VC_H", 41117, Some('h')),
    ("VC_I", 41118, Some('i')), ("VC_J", 41119, Some('j')), ("VC_K", 41120, Some('k')), ("VC_L", 41121, Some('l')),
    ("VC_M", 41122, Some('m')), ("VC_N", 41123, Some('n')), ("VC_O", 41124, Some('o')), ("VC_P", 41125, Some('p')),
    ("VC_Q", 41126, Some('q')), ("VC_R", 41127, Some('r')), ("VC_S", 41128, Some('s')), ("VC_T", 41129, Some('t')),
    ("VC_U", 41130, Some('u')), ("VC_V", 41131, Some('v')), ("VC_W", 41132, Some('w')), ("VC_X", 41133, Some('x')),
    ("VC_Y", 41134, Some('y')), ("VC_Z", 41135, Some('z')),
    ("VC_A_SHIFT", 41140, Some('A')), ("VC_B_SHIFT", 41141, Some('B')), ("VC_C_SHIFT", 41142, Some('C')), ("VC_D_SHIFT", 41143, Some('D')),
    ("VC_E_SHIFT", 41144, Some('E')), ("VC_F_SHIFT", 41145, Some('F')), ("VC_G_SHIFT", 41146, Some('G')), ("VC_H_SHIFT", 41147, Some('H')),
    ("VC_I_SHIFT", 41148, Some('I')), ("VC_J_SHIFT", 41149, Some('J')), ("VC_K_SHIFT", 41150, Some('K')), ("VC_L_SHIFT", 41151, Some('L')),
    ("VC_M_SHIFT", 41152, Some('M')), ("VC_N_SHIFT", 41153, Some('N')), ("VC_O_SHIFT", 41154, Some('O')), ("VC_P_SHIFT", 41155, Some('P')),
    ("VC_Q_SHIFT", 41156, Some('Q')), ("VC_R_SHIFT", 41157, Some('R')), ("VC_S_SHIFT", 41158, Some('S')), ("VC_T_SHIFT", 41159, Some('T')),
    ("VC_U_SHIFT", 41160, Some('U')), ("VC_V_SHIFT", 41161, Some('V')), ("VC_W_SHIFT", 41162, Some('W')), ("VC_X_SHIFT", 41163, Some('X')),
    ("VC_Y_SHIFT", 41164, Some('Y')), ("VC_Z_SHIFT", 41165, Some('Z')),
    ("VC_BRACKET_LEFT", 26, Some('[')), ("VC_BRACKET_RIGHT", 27, Some(']')), ("VC_BACK_SLASH", 43, Some('\\')),
    ("VC_BRACE_LEFT", 91, Some('{')), ("VC_BRACE_RIGHT", 92, Some('}')), ("VC_BAR", 93, Some('|')),
    ("VC_SEMICOLON", 39, Some(';')), ("VC_APOSTROPHE", 40, Some('\'')), ("VC_COMMA", 51, Some(',')), ("VC_PERIOD", 52, Some('.')),
    ("VC_SLASH", 53, Some('/')), ("VC_COLON", 99, Some(':')), ("VC_QUOTE", 100, Some('"')), ("VC_LESS", 101, Some('<')),
    ("VC_GREATER", 102, Some('>')), ("VC_QUESTION", 103, Some('?')),
    ("VC_KP_DIVIDE", 3637, Some('/')), ("VC_KP_MULTIPLY", 55, Some('*')), ("VC_KP_SUBTRACT", 74, Some('-')),
    ("VC_KP_EQUALS", 3597, None), ("VC_KP_ADD", 78, Some('+')), ("VC_KP_ENTER", 3612, None), ("VC_KP_DECIMAL", 83, Some('.')),
    ("VC_KP_1", 79, Some('1')), ("VC_KP_2", 80, Some('2')), ("VC_KP_3", 81, Some('3')), ("VC_KP_4", 75, Some('4')),
    ("VC_KP_5", 76, Some('5')), ("VC_KP_6", 77, Some('6')), ("VC_KP_7", 71, Some('7')), ("VC_KP_8", 72, Some('8')),
    ("VC_KP_9", 73, Some('9')), ("VC_KP_0", 82, Some('0')),
];

/// layout entry name of a key, by the naming rule of the layout files (transcribed from riti.h names).
/// Returns (entry name, is numpad).
pub fn entry_name(vc: &str) -> Option<(String, bool)> {
    let n = vc.strip_prefix("VC_")?;
    if let Some(k) = n.strip_prefix("KP_") {
        let m = match k {
            "DIVIDE" => "NumDivide", "MULTIPLY" => "NumMultiply", "SUBTRACT" => "NumSubtract", "ADD" => "NumAdd",
            "DECIMAL" => "NumDecimal", "EQUALS" | "ENTER" => return None,
            d if d.len() == 1 => return Some((format!("Num{}", d), true)),
            _ => return None,
        };
        return Some((m.to_string(), true));
    }
    if n.len() == 1 {
        let c = n.chars().next().unwrap();
        return Some((if c.is_ascii_digit() { n.to_string() } else { n.to_ascii_lowercase() }, false));
    }
    if let Some(l) = n.strip_suffix("_SHIFT") { return Some((l.to_string(), false)); }
    let m = match n {
        "GRAVE" => "Grave", "TILDE" => "Tilde", "EXCLAIM" => "Exclaim", "AT" => "At", "HASH" => "Hash", "DOLLAR" => "Dollar",
        "PERCENT" => "Percent", "CIRCUM" => "Circum", "AMPERSAND" => "Ampersand", "ASTERISK" => "Asterisk",
        "PAREN_LEFT" => "ParenLeft", "PAREN_RIGHT" => "ParenRight", "UNDERSCORE" => "UnderScore", "PLUS" => "Plus",
        "MINUS" => "Minus", "EQUALS" => "Equals", "BRACKET_LEFT" => "BracketLeft", "BRACKET_RIGHT" => "BracketRight",
        "BACK_SLASH" => "BackSlash", "BRACE_LEFT" => "BraceLeft", "BRACE_RIGHT" => "BraceRight", "BAR" => "Bar",
        "SEMICOLON" => "Semicolon", "APOSTROPHE" => "Apostrophe", "COMMA" => "Comma", "PERIOD" => "Period", "SLASH" => "Slash",
        "COLON" => "Colon", "QUOTE" => "Quote", "LESS" => "Less", "GREATER" => "Greater", "QUESTION" => "Question",
        _ => return None,
    };
    Some((m.to_string(), false))
}

/// key code that types an ASCII character in phonetic mode (main block, not the keypad)
pub fn code_for_char(c: char) -> Option<u16> {
    KEYS.iter().find(|(n, _, ch)| *ch == Some(c) && !n.starts_with("VC_KP_")).map(|k| k.1)
}
