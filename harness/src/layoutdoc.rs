//! layoutdoc — tie for the Lean model of the layout FILE and the data FILES (lean/RitiModel/Model/JsonValue.lean).
//!
//! * `emit_layout_read`: trace line `layout-read <hex bytes> <verdict>`, verdict `-` (riti's steps give None) or `= k1 v1 k2 v2 …`
//!   (sorted), computed with serde_json by exactly the steps of `Config::get_layout` + `Layout::parse`
//!   (`from_utf8` → `from_str::<Value>` → `["layout"]` → `from_value::<HashMap<String,String>>`).  Emitted for every layout file a
//!   trace registers (hook in `Trace::layout`) and for the generated documents below.  The Lean driver recomputes every line with
//!   `Riti.JsonValue.layoutOfFile`.
//! * `typed-read <hex> <+|-> <+|->`: what `from_slice::<HashMap<String,String>>` / `<HashMap<String,Vec<String>>>` (the readers of
//!   `Data::new`) say about a generated document; recomputed with `stringMapOfFile` / `tableOfFile`.
//! * `data-file <kind> <path>`: the driver reads the REAL suffix.json / autocorrect.json / dictionary.json with the Lean reader and
//!   compares every entry with the TSV table dumped from serde_json's reading.
//! * `run`: a seeded stream of documents around the accept/reject border; for a sample of them riti ITSELF is asked: the bytes are
//!   written to a file, a fixed-method context is created over it (`Sess::new`, the route of stream c04; the trace line
//!   `layout-file <path> <hex>` makes the model read the same bytes with its own reader), a few keys are pressed and the text is
//!   compared (a) by the driver with the model, (b) here with `map.get(name).filter(non-empty)` on the map serde_json gave;
//!   for a document riti's steps reject, creating the context must panic.
use crate::gen::Rng;
use crate::imp::*;
use crate::keys::*;
use crate::oracle::Report;
use crate::trace::*;
use serde_json::json;
use std::collections::{BTreeMap, HashMap};
use std::path::Path;

/// `Config::get_layout` + `Layout::parse`, step by step, on the bytes of the file
pub fn layout_verdict(bytes: &[u8]) -> Option<BTreeMap<String, String>> {
    let s = std::str::from_utf8(bytes).ok()?;                                   // read_to_string(path).ok()
    let v = serde_json::from_str::<serde_json::Value>(s).ok()?;                 // .and_then(|s| from_str::<Value>(&s).ok())
    let l = v["layout"].to_owned();                                             // .map(|v| v["layout"].to_owned())
    let m: HashMap<String, String> = serde_json::from_value(l).ok()?;           // Layout::parse
    Some(m.into_iter().collect())
}

pub fn emit_layout_read(t: &mut Trace, bytes: &[u8]) -> bool {
    let mut l = format!("layout-read {} ", if bytes.is_empty() { "\\e".to_string() } else { hex(bytes) });
    let v = layout_verdict(bytes);
    match &v {
        None => l.push('-'),
        Some(m) => { l.push('='); for (k, v) in m { l.push(' '); l.push_str(&esc(k)); l.push(' '); l.push_str(&esc(v)); } }
    }
    t.line(&l);
    v.is_some()
}

pub fn emit_typed_read(t: &mut Trace, bytes: &[u8]) -> (bool, bool) {
    let a = serde_json::from_slice::<HashMap<String, String>>(bytes).is_ok();
    let b = serde_json::from_slice::<HashMap<String, Vec<String>>>(bytes).is_ok();
    t.line(&format!("typed-read {} {} {}", if bytes.is_empty() { "\\e".to_string() } else { hex(bytes) }, if a { '+' } else { '-' }, if b { '+' } else { '-' }));
    (a, b)
}

// ---------------------------------------------------------------------------------------------------------------- generator

fn pk(r: &mut Rng, xs: &[&'static str]) -> &'static str { xs[r.below(xs.len())] }

fn ws(r: &mut Rng) -> &'static str {
    match r.below(14) { 0 => " ", 1 => "\n", 2 => "\t", 3 => "\r\n", 4 => "  ", 5 => "\n    ", 6 => " \t \r \n ", _ => "" }
}

const PLAIN: &[&str] = &["a", "x", "Q", "ক", "খ", "া", "ি", "্", "র", "০", "😀", "é", "\u{200c}", "/", "'", "<", " ", "1", "-", "E", "layout", "\u{7f}", "\u{10ffff}", "\u{d7ff}"];
const ESC_OK: &[&str] = &["\\n", "\\\"", "\\\\", "\\/", "\\b", "\\f", "\\r", "\\t", "\\u09be", "\\u0995", "\\u0041", "\\u00e9", "\\ud83d\\ude00", "\\uD83D\\uDE00", "\\u0000", "\\u001f", "\\uFFFF", "\\ud7ff", "\\ue000"];
const ESC_BAD: &[&str] = &["\\x41", "\\u12G4", "\\ud800", "\\udc00", "\\ud83d\\u0041", "\\ud83dx", "\\u12", "\\", "\n", "\t", "\u{1}", "\\a", "\\U0041", "\\ud83d\\ud83d"];

fn string_body(r: &mut Rng, bad_pct: u32) -> String {
    let mut s = String::new();
    let n = r.below(5);
    for _ in 0..n {
        if r.chance(bad_pct) { s.push_str(pk(r, ESC_BAD)); }
        else if r.chance(35) { s.push_str(pk(r, ESC_OK)); }
        else { s.push_str(pk(r, PLAIN)); }
    }
    s
}
fn string_lit(r: &mut Rng, bad_pct: u32) -> String { format!("\"{}\"", string_body(r, bad_pct)) }

/// number texts of every grammar shape; `.1` = may be outside the region the model supports (many digits / long exponent)
const NUMBERS: &[(&str, bool)] = &[
    ("0", false), ("-0", false), ("1", false), ("-1", false), ("42", false), ("1.5", false), ("-0.5", false), ("0.0", false), ("1.5e+10", false), ("1e5", false), ("1E5", false),
    ("2E-3", false), ("-0.1e+00", false), ("0e0", false), ("1e99", false), ("9e99", false), ("1e-99", false), ("18446744073709551615", false), ("18446744073709551616", false),
    ("-9223372036854775808", false), ("-9223372036854775809", false), ("123456789012345678901234567890", false), ("0.000000000000000000000000000001", false),
    ("1.7976931348623157e99", false), ("3.141592653589793238462643383279502884197", false),
    // not numbers
    ("01", false), ("00", false), ("-01", false), ("1.", false), (".5", false), ("1e", false), ("1e+", false), ("1e-", false), ("-", false), ("--1", false), ("+1", false), ("1.e5", false),
    ("1.5.3", false), ("1e5e5", false), ("0x10", false), ("1_000", false), ("1,5", false), ("-.5", false), ("1.-5", false), ("1e.5", false), ("NaN", false), ("Infinity", false), ("-Infinity", false),
    ("0e", false), ("0.", false), ("-0.", false), ("1E", false), ("1e+-5", false), ("١", false),
    // outside the supported region (three or more exponent digits; more than 200 integer digits): counted, not compared
    ("1e999", true), ("1e308", true), ("2e308", true), ("1e-999", true), ("0e999", true), ("1e0010", true), ("1.7976931348623157e308", true), ("1e+100", true), ("-1E400", true), ("1e99999999999999999999", true),
];

fn number(r: &mut Rng, big: &mut bool) -> String {
    match r.below(100) {
        // around the 200-integer-digit border of the modelled region (all of these are < 1e308: serde_json accepts them)
        0 | 1 => { *big = true; let n = 195 + r.below(12); let mut s = String::from("1"); for _ in 1..n { s.push((b'0' + r.below(10) as u8) as char); } if r.chance(30) { s.push_str("e99"); } s }
        2..=40 => {
            // random composition by the grammar
            let mut s = String::new();
            if r.chance(30) { s.push('-'); }
            if r.chance(25) { s.push('0'); } else { s.push((b'1' + r.below(9) as u8) as char); for _ in 0..r.below(6) { s.push((b'0' + r.below(10) as u8) as char); } }
            if r.chance(40) { s.push('.'); for _ in 0..(1 + r.below(5)) { s.push((b'0' + r.below(10) as u8) as char); } }
            if r.chance(40) { s.push(if r.chance(50) { 'e' } else { 'E' }); match r.below(3) { 0 => s.push('+'), 1 => s.push('-'), _ => {} } for _ in 0..(1 + r.below(2)) { s.push((b'0' + r.below(10) as u8) as char); } }
            s
        }
        _ => loop { let (s, b) = *r.pick(NUMBERS); if b && !r.chance(25) { continue; } if b { *big = true; } break s.to_string(); }
    }
}

fn value(r: &mut Rng, depth: usize, big: &mut bool) -> String {
    let k = if depth == 0 { r.below(6) } else { r.below(9) };
    match k {
        0 => "null".into(), 1 => "true".into(), 2 => "false".into(),
        3 => number(r, big),
        4 | 5 => string_lit(r, 0),
        6 => {
            let n = r.below(4);
            let mut s = format!("[{}", ws(r));
            for i in 0..n { if i > 0 { s.push_str(ws(r)); s.push(','); s.push_str(ws(r)); } s.push_str(&value(r, depth - 1, big)); }
            s.push_str(ws(r)); s.push(']'); s
        }
        _ => {
            let n = r.below(4);
            let mut s = format!("{{{}", ws(r));
            for i in 0..n {
                if i > 0 { s.push_str(ws(r)); s.push(','); s.push_str(ws(r)); }
                s.push_str(&string_lit(r, 0)); s.push_str(ws(r)); s.push(':'); s.push_str(ws(r)); s.push_str(&value(r, depth - 1, big));
            }
            s.push_str(ws(r)); s.push('}'); s
        }
    }
}

fn entry_names() -> Vec<String> {
    let mut v = crate::layouts::all_entry_names();
    v.extend(["Key_a_Shift", "key_a_normal", "Key_a", "", "Key__Normal", "layout", "Num", "Key_ক_Normal", "Key_a_Normal ", "KEY_A_NORMAL"].iter().map(|s| s.to_string()));
    v
}

/// the text of a string literal whose VALUE is `s` (escaping done by serde_json, sometimes with \u escapes on top)
fn lit_of(r: &mut Rng, s: &str) -> String {
    if r.chance(15) {
        let mut o = String::from("\"");
        for c in s.chars() { let mut b = [0u16; 2]; for u in c.encode_utf16(&mut b) { o.push_str(&format!("\\u{:04x}", u)); } }
        o.push('"'); o
    } else { serde_json::to_string(s).unwrap() }
}

const VALUES: &[&str] = &["ক", "খ", "া", "ি", "র্", "্য", "ক্ষ", "", "x", "<a>", "😀", "\"", "\\", "০", "ত্ত্ব", "১/২", " ", "é", "\u{200d}", "\n", "A B", "ঁ", "ং", "ৎ"];

/// `{ "k": "v", … }` with entry names; returns the text
fn layout_object(r: &mut Rng, names: &[String], nonstring_pct: u32, big: &mut bool) -> String {
    let n = r.below(7);
    let mut s = format!("{{{}", ws(r));
    let mut prev: Option<String> = None;
    for i in 0..n {
        if i > 0 { s.push_str(ws(r)); s.push(','); s.push_str(ws(r)); }
        let name = if prev.is_some() && r.chance(15) { prev.clone().unwrap() } else if r.chance(80) { names[r.below(names.len().min(200))].clone() } else { r.pick(names).clone() };
        s.push_str(&lit_of(r, &name)); s.push_str(ws(r)); s.push(':'); s.push_str(ws(r));
        if r.chance(nonstring_pct) { s.push_str(&value(r, 2, big)); } else if r.chance(70) { let v = pk(r, VALUES); s.push_str(&lit_of(r, v)); } else { s.push_str(&string_lit(r, 0)); }
        prev = Some(name);
    }
    s.push_str(ws(r)); s.push('}'); s
}

/// a layout document: `{ "info": …, "layout": {…}, … }`, members in random order
fn layout_doc(r: &mut Rng, names: &[String], big: &mut bool) -> String {
    let mut members: Vec<String> = vec![];
    if r.chance(85) { members.push(format!("\"info\"{}:{}{}", ws(r), ws(r), value(r, 3, big))); }
    members.push(format!("\"layout\"{}:{}{}", ws(r), ws(r), layout_object(r, names, 4, big)));
    for _ in 0..r.below(3) { members.push(format!("{}{}:{}{}", string_lit(r, 0), ws(r), ws(r), value(r, 2, big))); }
    // shuffle
    for i in (1..members.len()).rev() { let j = r.below(i + 1); members.swap(i, j); }
    let mut s = format!("{}{{{}", ws(r), ws(r));
    for (i, m) in members.iter().enumerate() { if i > 0 { s.push_str(ws(r)); s.push(','); s.push_str(ws(r)); } s.push_str(m); }
    s.push_str(ws(r)); s.push('}'); s.push_str(ws(r));
    if r.chance(20) {
        // the same through serde_json's printers (compact / pretty), when it is a document at all
        if let Ok(v) = serde_json::from_str::<serde_json::Value>(&s) { return if r.chance(50) { serde_json::to_string_pretty(&v).unwrap() } else { serde_json::to_string(&v).unwrap() }; }
    }
    s
}

fn nest(r: &mut Rng, levels: usize, inner: &str) -> String {
    let mode = r.below(3);
    let mut open = String::new(); let mut close = String::new();
    for i in 0..levels {
        let arr = match mode { 0 => true, 1 => false, _ => (i + r.below(2)) % 2 == 0 };
        if arr { open.push('['); close.insert(0, ']'); } else { open.push_str("{\"a\":"); close.insert(0, '}'); }
    }
    format!("{}{}{}", open, inner, close)
}

const GARBAGE: &[&str] = &["x", "{}", ",", "]", "}", " null", "\0", "\u{feff}", "\u{a0}", "\u{b}", "\u{c}", "//c", "/**/", "\"", "0", " 1", "\n\n[]", "e", "\u{2028}"];
const TOKENS: &[&str] = &["{", "}", "[", "]", ",", ":", "\"a\"", "\"layout\"", "null", "true", "false", "nul", "nulll", "True", "tru", "falsee", "1", "-", "0", " ", "\n", "'a'", "a", "\"", "\\", "1.5", "e", "\u{feff}", "\u{a0}", "\u{c}"];
const BAD_UTF8: &[&[u8]] = &[&[0x80], &[0xC0, 0x80], &[0xC1, 0xBF], &[0xED, 0xA0, 0x80], &[0xED, 0xBF, 0xBF], &[0xE0, 0x80, 0x80], &[0xF0, 0x80, 0x80, 0x80], &[0xF4, 0x90, 0x80, 0x80], &[0xFF], &[0xFE], &[0xE0, 0xA6], &[0xF0, 0x9F, 0x98], &[0xC3], &[0xF8, 0x88, 0x80, 0x80, 0x80]];

fn mutate(r: &mut Rng, b: &mut Vec<u8>, big: &mut bool) {
    if b.is_empty() { b.push(b' '); }
    match r.below(11) {
        0 => { let i = r.below(b.len()); b[i] ^= 1 << r.below(8); }                                      // bit flip
        1 => { let i = r.below(b.len()); b[i] = r.below(256) as u8; }                                    // byte replaced
        2 => { let i = r.below(b.len() + 1); b.truncate(i); }                                            // truncation
        3 => { let i = r.below(b.len()); b.remove(i); }                                                  // byte deleted
        4 => { let i = r.below(b.len() + 1); let t = pk(r, TOKENS); for (k, x) in t.bytes().enumerate() { b.insert(i + k, x); } }   // token inserted
        5 => { let g = pk(r, GARBAGE); b.extend_from_slice(g.as_bytes()); }                      // trailing garbage
        6 => { let i = r.below(b.len() + 1); let u: &&[u8] = r.pick(BAD_UTF8); for (k, x) in u.iter().enumerate() { b.insert(i + k, *x); } } // invalid UTF-8
        7 => { let mut n = vec![0xEF, 0xBB, 0xBF]; n.extend_from_slice(b); *b = n; }                     // BOM
        8 => { let i = r.below(b.len() + 1); let n = number(r, big); for (k, x) in n.bytes().enumerate() { b.insert(i + k, x); } }           // a number somewhere
        9 => { let i = r.below(b.len()); let j = (i + 1 + r.below(12)).min(b.len()); let sl: Vec<u8> = b[i..j].to_vec(); for (k, x) in sl.iter().enumerate() { b.insert(j + k, *x); } } // slice doubled
        _ => { let i = r.below(b.len() + 1); let e = pk(r, ESC_BAD); for (k, x) in e.bytes().enumerate() { b.insert(i + k, x); } }  // bad escape / raw control somewhere
    }
}

/// one generated document: (bytes, kind, may contain a number outside the region the model supports)
pub fn gen_doc(r: &mut Rng, names: &[String], base: &[u8]) -> (Vec<u8>, &'static str, bool) {
    let mut big = false;
    let k = r.below(100);
    let (bytes, kind): (Vec<u8>, &'static str) = if k < 22 {
        (layout_doc(r, names, &mut big).into_bytes(), "layout-document")
    } else if k < 42 {
        let mut b = layout_doc(r, names, &mut big).into_bytes();
        for _ in 0..(1 + r.below(2)) { mutate(r, &mut b, &mut big); }
        (b, "layout-document-mutated")
    } else if k < 52 {
        // numbers of every shape: as info, as a layout value, as the document
        let n = number(r, &mut big);
        let lay = layout_object(r, names, 0, &mut big);
        let s = match r.below(5) {
            0 => n,
            1 => format!("{{\"layout\":{},\"n\":{}}}", lay, n),
            2 => format!("{{\"info\":[{}{}{}],\"layout\":{}}}", ws(r), n, ws(r), lay),
            3 => format!("{{\"layout\":{{\"Key_a_Normal\":{}}}}}", n),
            _ => format!("{{\"info\":{{\"v\":{}}},{}\"layout\":{}}}", n, ws(r), lay),
        };
        (s.into_bytes(), "number-shapes")
    } else if k < 59 {
        // recursion limit: 125 … 130 containers
        let levels = 124 + r.below(7);
        let lay = layout_object(r, names, 0, &mut big);
        let s = match r.below(4) {
            0 => nest(r, levels, "1"),
            1 => format!("{{\"info\":{},\"layout\":{}}}", nest(r, levels - 1, "null"), lay),
            2 => format!("{{\"layout\":{},\"z\":{}}}", lay, nest(r, levels - 1, "\"x\"")),
            _ => nest(r, levels - 1, &format!("{{\"layout\":{}}}", lay)),
        };
        (s.into_bytes(), "deep-nesting")
    } else if k < 70 {
        // the shape of `layout`
        let lay = layout_object(r, names, 0, &mut big);
        let other = value(r, 2, &mut big);
        let s = match r.below(9) {
            0 => format!("{{\"layout\":{},{}\"layout\":{}}}", other, ws(r), lay),                 // duplicate: last wins
            1 => format!("{{\"layout\":{},{}\"layout\":{}}}", lay, ws(r), other),
            2 => format!("{{\"layout\":{}}}", other),                                           // any value
            3 => format!("{{\"Layout\":{},\"layout \":{}}}", lay, lay),                         // no such member
            4 => format!("[{}]", lay),                                                          // not an object
            5 => format!("{{\"layout\":{}}}", layout_object(r, names, 40, &mut big)),           // member values that are not strings
            6 => format!("{{\"layout\":{{\"Key_a_Normal\":{},{}\"Key_a_Normal\":\"x\"}}}}", other, ws(r)),   // a shadowed member that is not a string
            7 => format!("{{\"layout\":{{\"Key_a_Normal\":\"x\",\"Key_a_Normal\":{}}}}}", other),
            _ => format!("{{\"l\\u0061yout\":{}}}", lay),                                       // the name written with an escape
        };
        (s.into_bytes(), "layout-member-shapes")
    } else if k < 80 {
        // truncations and byte flips of a valid layout FILE (a pretty-printed one / the bundled one's head and tail)
        let mut b = base.to_vec();
        if r.chance(50) { let i = r.below(b.len() + 1); b.truncate(i); } else { let i = r.below(b.len()); b[i] ^= 1 << r.below(8); }
        (b, "file-truncated-or-flipped")
    } else if k < 90 {
        // documents for the typed readers: maps of strings / of lists of strings, duplicates, one wrong member
        let n = r.below(5);
        let lists = r.chance(50);
        let mut s = format!("{}{{{}", ws(r), ws(r));
        let mut prev = String::from("\"a\"");
        for i in 0..n {
            if i > 0 { s.push(','); s.push_str(ws(r)); }
            let key = if r.chance(25) { prev.clone() } else { string_lit(r, 0) };
            s.push_str(&key); s.push_str(ws(r)); s.push(':'); s.push_str(ws(r));
            if r.chance(8) { s.push_str(&value(r, 2, &mut big)); }
            else if lists { let m = r.below(4); s.push('['); for j in 0..m { if j > 0 { s.push(','); s.push_str(ws(r)); } if r.chance(5) { s.push_str(&value(r, 1, &mut big)); } else { s.push_str(&string_lit(r, 0)); } } s.push_str(ws(r)); s.push(']'); }
            else { s.push_str(&string_lit(r, 1)); }
            prev = key;
        }
        s.push_str(ws(r)); s.push('}'); s.push_str(ws(r));
        let mut b = s.into_bytes();
        if r.chance(15) { mutate(r, &mut b, &mut big); }
        (b, "typed-map-documents")
    } else {
        // token soup and small values
        let mut s = String::new();
        if r.chance(50) { s = value(r, 3, &mut big); if r.chance(30) { s.push_str(pk(r, GARBAGE)); } }
        else { for _ in 0..(1 + r.below(8)) { s.push_str(pk(r, TOKENS)); } }
        (s.into_bytes(), "small-values-and-token-soup")
    };
    // a mutation may have produced a long run of digits or a long exponent by accident: recognised syntactically
    let big = big || long_number_run(&bytes);
    (bytes, kind, big)
}

/// more than 150 consecutive digits, or an `e`/`E` (with optional sign) followed by three or more digits
fn long_number_run(b: &[u8]) -> bool {
    let mut run = 0usize;
    for (i, x) in b.iter().enumerate() {
        if x.is_ascii_digit() { run += 1; if run > 150 { return true; } } else { run = 0; }
        if *x == b'e' || *x == b'E' {
            let mut j = i + 1;
            if j < b.len() && (b[j] == b'+' || b[j] == b'-') { j += 1; }
            let mut d = 0; while j < b.len() && b[j].is_ascii_digit() { d += 1; j += 1; }
            if d >= 3 { return true; }
        }
    }
    false
}

// ------------------------------------------------------------------------------------------------------------------- stream

fn expected(layout: &BTreeMap<String, String>, code: u16, m: u8, numpad: bool) -> Option<String> {
    let k = KEYS.iter().find(|k| k.1 == code)?;
    let (name, is_num) = entry_name(k.0)?;
    let v = if is_num { if numpad { layout.get(&name) } else { None } }
            else { layout.get(&format!("Key_{}_{}", name, if m & 2 == 2 { "AltGr" } else { "Normal" })) };
    v.filter(|s| !s.is_empty()).cloned()
}

/// keys whose entry is in the map, then a few others
fn keys_for(r: &mut Rng, map: &BTreeMap<String, String>) -> Vec<(u16, u8)> {
    let mut out: Vec<(u16, u8)> = vec![];
    for (vc, code, _) in KEYS {
        if let Some((n, num)) = entry_name(vc) {
            if num { if map.contains_key(&n) { out.push((*code, 0)); } }
            else {
                if map.contains_key(&format!("Key_{}_Normal", n)) { out.push((*code, if r.chance(50) { 0 } else { 1 })); }
                if map.contains_key(&format!("Key_{}_AltGr", n)) { out.push((*code, if r.chance(50) { 2 } else { 3 })); }
            }
        }
    }
    while out.len() > 5 { let i = r.below(out.len()); out.remove(i); }
    for _ in 0..2 { let k = r.pick(KEYS); out.push((k.1, *r.pick(&[0u8, 2, 1, 0xFF]))); }
    out
}

pub fn run(out: &Path, tsv: &Path, scratch: &Path, data: &Data, seed: u64, quick: bool) -> Report {
    let shards = if quick { 4 } else { 16 };
    let per_shard = if quick { 1000 } else { 6000 };
    let ctx_every = if quick { 5 } else { 12 };
    let names = entry_names();
    // the base files for truncations / flips: a pretty-printed synthetic file and the head of the bundled Probhat file
    let probhat = std::fs::read(PROBHAT).unwrap();
    let small = {
        let v = json!({ "info": { "type": "fixed", "version": "2", "layout": { "name": "verif \"synthetic\" é", "n": [1, -0.5, 1e5, true, null] } },
                        "layout": { "Key_a_Normal": "ক", "Key_a_AltGr": "া", "Key_b_Normal": "\u{1F600}", "Num1": "১", "Key_q_Normal": "", "Key_1_AltGr": "১/২\n" } });
        serde_json::to_string_pretty(&v).unwrap().into_bytes()
    };
    let reps = crate::par::par_map(shards, |si| {
        let mut rep = Report::new("c04");
        let mut r = Rng::new(seed ^ 0x6c61796f7574 ^ ((si as u64) << 40));
        let mut t = Trace::create(&out.join(format!("c04.layoutdoc{}.trace", si)), tsv);
        t.line(&format!("case layoutdoc-{}", si));
        if si == 0 {
            // the real data files against the tables serde_json read (the 4 MB dictionary takes the list-based reader about a second)
            t.line(&format!("data-file suffix {}/suffix.json", DATA_DIR));
            t.line(&format!("data-file autocorrect {}/autocorrect.json", DATA_DIR));
            t.line(&format!("data-file dictionary {}/dictionary.json", DATA_DIR));
            // the bundled layout file and the base file as they are
            emit_layout_read(&mut t, &probhat); emit_layout_read(&mut t, &small);
        }
        let mut slowest = 0.0f64;
        for di in 0..per_shard {
            let base: &[u8] = if r.chance(70) { &small } else if r.chance(50) { &probhat[..700] } else { &probhat[probhat.len() - 600..] };
            let (bytes, kind, big) = gen_doc(&mut r, &names, base);
            let verdict = layout_verdict(&bytes);
            emit_layout_read(&mut t, &bytes);
            rep.count(&format!("layoutdoc:{}:{}", kind, if verdict.is_some() { "accepted" } else { "rejected" }));
            if big { rep.count("layoutdoc:may-hold-a-number-outside-the-modelled-range"); }
            let nk = format!("layoutdoc:{}:{}", si, di);
            rep.eval(if verdict.is_some() { Some(&nk) } else { None });
            if kind == "typed-map-documents" || di % 4 == 0 {
                let (a, b) = emit_typed_read(&mut t, &bytes);
                rep.count(if a { "typed-read:map-of-strings-accepted" } else if b { "typed-read:map-of-lists-accepted" } else { "typed-read:rejected" });
            }
            // riti itself over the same bytes
            if big || di % ctx_every != 0 && !(verdict.is_some() && di % 2 == 0 && kind != "layout-document") { continue; }
            let path = scratch.join(format!("layoutdoc-{}-{}.json", si, di));
            std::fs::write(&path, &bytes).unwrap();
            let lp = path.to_str().unwrap();
            let xdg = scratch.join(format!("layoutdoc-xdg-{}", si));
            let _ = std::fs::remove_dir_all(&xdg);
            std::fs::create_dir_all(user_dir(&xdg)).unwrap();
            let mut opts = Opts::none();
            opts.numpad = r.chance(50);
            t.line(&format!("layout-file {} {}", esc(lp), if bytes.is_empty() { "\\e".to_string() } else { hex(&bytes) }));
            let sess = Sess::new(&mut t, data, "c", lp, opts, &xdg);
            match (&verdict, sess) {
                (None, None) => { rep.count("layoutdoc:context-creation-panics-on-a-rejected-file"); }
                (None, Some(_)) => {
                    rep.violation("C04", "layout-file-reading", format!("a context was created over a layout file that Config::get_layout + Layout::parse (serde_json, step by step) reject: {}", hex(&bytes)),
                        json!({"stream": "c04", "layout_file_hex": hex(&bytes), "opts": opts.bits_str(), "events": [], "expected": "panic in FixedMethod::new", "observed": "context created"}));
                }
                (Some(_), None) => {
                    rep.violation("C04", "layout-file-reading", format!("creating a context panicked over a layout file that Config::get_layout + Layout::parse (serde_json, step by step) accept: {}", hex(&bytes)),
                        json!({"stream": "c04", "layout_file_hex": hex(&bytes), "opts": opts.bits_str(), "events": [], "expected": "context created", "observed": "panic"}));
                }
                (Some(map), Some(mut s)) => {
                    rep.count("layoutdoc:context-created-over-an-accepted-file");
                    for (code, m) in keys_for(&mut r, map) {
                        let exp = expected(map, code, m, opts.numpad);
                        let o = s.key(&mut t, code, m, 0);
                        let ongoing = s.imp.ongoing();
                        let got: Option<String> = match &o { Obs::Single { text, .. } => if text.is_empty() { None } else { Some(text.clone()) }, _ => Some("<not-a-single-suggestion>".into()) };
                        let kk = format!("{}:{}:{}", nk, code, m);
                        rep.eval(if exp.is_some() { Some(&kk) } else { None });
                        rep.count(if exp.is_some() { "layoutdoc:key-with-value-from-the-file" } else { "layoutdoc:key-without-value-in-the-file" });
                        if !(got == exp && ongoing == exp.is_some()) {
                            let first_is_kar = exp.as_ref().and_then(|e| e.chars().next()).map(|c| "\u{09BE}\u{09BF}\u{09C0}\u{09C1}\u{09C2}\u{09C3}\u{09C7}\u{09C8}\u{09CB}\u{09CC}\u{09C4}".contains(c)).unwrap_or(false);
                            let class = if first_is_kar && exp.as_ref().map(|e| e.chars().count() > 1).unwrap_or(false)
                                && got.as_deref() == exp.as_ref().map(|e| e.chars().take(1).collect::<String>()).as_deref() { "multi-codepoint-value-starting-with-vowel-sign" } else { "layout-file-reading" };
                            rep.violation("C04", class, format!("layout file {}: key {} modifier {} numpad {}: the file assigns {:?}, got {:?}, ongoing {}", hex(&bytes), code, m, opts.numpad, exp, got, ongoing),
                                json!({"stream": "c04", "layout_file_hex": hex(&bytes), "opts": opts.bits_str(), "events": [format!("key {} {} 0", code, m)], "expected": exp, "observed": got}));
                        }
                        if got.is_some() || ongoing { s.finish(&mut t); }
                    }
                    if s.imp.slowest > slowest { slowest = s.imp.slowest; }
                    t.line("drop c");
                }
            }
            let _ = std::fs::remove_file(&path);
        }
        rep.slowest_event_s = slowest;
        t.flush();
        rep
    });
    let mut rep = Report::new("c04");
    for r in reps { rep.merge(r); }
    rep.notes.push(format!("layout FILE reading: {} generated documents around the accept/reject border of Config::get_layout + Layout::parse (numbers of every shape, recursion limit, duplicate / ill-shaped `layout` members, whitespace, BOM, invalid UTF-8, truncations, byte flips, trailing garbage), each read by serde_json step by step and by the Lean reader; for a sample, riti itself creates a context over the bytes and keys are pressed", shards * per_shard));
    rep
}
