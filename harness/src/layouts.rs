//! Synthetic layout files written by the harness.
use crate::keys::*;
use std::collections::BTreeMap;
use std::path::{Path, PathBuf};

pub fn all_entry_names() -> Vec<String> {
    let mut v = vec![];
    for (vc, _, _) in KEYS {
        if let Some((n, num)) = entry_name(vc) {
            if num { v.push(n); } else { v.push(format!("Key_{}_Normal", n)); v.push(format!("Key_{}_AltGr", n)); }
        }
    }
    v
}

fn write_layout(path: &Path, m: &BTreeMap<String, String>) {
    let v = serde_json::json!({ "info": { "type": "fixed", "version": "2", "layout": { "name": "verif synthetic" } }, "layout": m });
    std::fs::write(path, serde_json::to_string_pretty(&v).unwrap()).unwrap();
}

fn probhat() -> BTreeMap<String, String> {
    let v: serde_json::Value = serde_json::from_str(&std::fs::read_to_string(crate::imp::PROBHAT).unwrap()).unwrap();
    v["layout"].as_object().unwrap().iter().map(|(k, v)| (k.clone(), v.as_str().unwrap().to_string())).collect()
}

/// probe layout: every entry name has a unique ASCII value
pub fn write_probe(dir: &Path) -> PathBuf {
    let mut m = BTreeMap::new();
    for n in all_entry_names() { m.insert(n.clone(), format!("<{}>", n)); }
    let p = dir.join("probe-layout.json");
    write_layout(&p, &m);
    p
}

/// sparse probe layout: like the probe, but with holes in every pattern — the AltGr entry ABSENT while the Normal one has a value,
/// the Normal entry absent while the AltGr one has a value, an entry present but empty, both absent, number-pad entries absent
pub fn write_probe_sparse(dir: &Path) -> PathBuf {
    let mut m = BTreeMap::new();
    let mut i = 0usize;
    for (vc, _, _) in KEYS {
        if let Some((n, num)) = entry_name(vc) {
            i += 1;
            if num { if i % 3 != 0 { m.insert(n.clone(), format!("<{}>", n)); } else if i % 2 == 0 { m.insert(n.clone(), String::new()); } continue; }
            let (kn, ka) = (format!("Key_{}_Normal", n), format!("Key_{}_AltGr", n));
            match i % 6 {
                0 => { m.insert(kn.clone(), format!("<{}>", kn)); }                                                  // AltGr absent
                1 => { m.insert(ka.clone(), format!("<{}>", ka)); }                                                  // Normal absent
                2 => { m.insert(kn.clone(), format!("<{}>", kn)); m.insert(ka.clone(), String::new()); }             // AltGr empty
                3 => { m.insert(kn.clone(), String::new()); m.insert(ka.clone(), format!("<{}>", ka)); }             // Normal empty
                4 => {}                                                                                              // both absent
                _ => { m.insert(kn.clone(), format!("<{}>", kn)); m.insert(ka.clone(), format!("<{}>", ka)); }
            }
        }
    }
    let p = dir.join("probe-sparse-layout.json");
    write_layout(&p, &m);
    p
}

/// S1: Probhat with multi-code-point values, empty and missing entries
pub fn write_s1(dir: &Path) -> PathBuf {
    let mut m = probhat();
    m.insert("Key_z_Normal".into(), "র্".into());          // reph
    m.insert("Key_Z_Normal".into(), "্য".into());          // zo-fola
    m.insert("Key_x_Normal".into(), "্র".into());          // ro-fola
    m.insert("Key_X_Normal".into(), "ক্ষ".into());         // conjunct
    m.insert("Key_q_Normal".into(), "".into());            // empty entry
    m.insert("Key_Q_Normal".into(), "".into());
    m.remove("Key_q_AltGr");                               // missing entry
    m.insert("Num5".into(), "".into());
    m.remove("Num6");
    m.insert("Key_w_Normal".into(), "াং".into());          // sign-first two-code-point value
    m.insert("Key_W_Normal".into(), "ত্ত্ব".into());
    m.insert("Key_1_AltGr".into(), "১/২".into());
    let p = dir.join("s1-layout.json");
    write_layout(&p, &m);
    p
}

/// S2: one key per character class the composition rules distinguish.  Returns path and the
/// list (key char, value) of the bound main-block keys (all in the Normal plane).
pub fn s2_bindings() -> Vec<(char, &'static str)> {
    vec![
        ('k', "ক"), ('r', "র"), ('t', "ত"), ('T', "ৎ"), ('o', "অ"), ('e', "এ"),
        ('a', "া"), ('i', "ি"), ('I', "ী"), ('u', "ু"), ('U', "ূ"), ('R', "ৃ"), ('E', "ে"), ('O', "ৈ"), ('w', "ো"), ('W', "ৌ"), ('L', "ৄ"),
        ('h', "্"), ('c', "ঁ"), ('n', "ং"), ('j', "\u{200D}"), ('J', "\u{200C}"), ('1', "১"), ('m', "-"), ('.', "।"), ('l', "ৗ"),
        ('x', "্র"), ('y', "্য"), ('z', "র্"), ('K', "ক্ষ"), ('\'', "'"), ('"', "\""), ('(', "("), (')', ")"), (':', ":"),
        ('g', "গ"), ('s', "ষ"), ('b', "ব"), ('d', "দ"),
        ('^', "^"),          // a word character that the layout passes through unchanged (typed text = composed text)
    ]
}

pub fn write_s2(dir: &Path) -> PathBuf {
    let mut m = BTreeMap::new();
    for (c, v) in s2_bindings() {
        let vc = KEYS.iter().find(|k| k.2 == Some(c) && !k.0.starts_with("VC_KP_")).unwrap().0;
        let (n, _) = entry_name(vc).unwrap();
        m.insert(format!("Key_{}_Normal", n), v.to_string());
    }
    let p = dir.join("s2-layout.json");
    write_layout(&p, &m);
    p
}

/// a layout made from a list of values: they are bound, in order, to the Normal and then the AltGr entries of the main-block keys.
/// Returns the path and, per value, the (key code, modifier byte) that types it.
pub fn write_values(dir: &Path, name: &str, values: &[String]) -> (PathBuf, Vec<(u16, u8)>) {
    let mut m = BTreeMap::new();
    let mut how = vec![];
    let mut slots: Vec<(String, u16, u8)> = vec![];
    for plane in ["Normal", "AltGr"] {
        for (vc, code, _) in KEYS {
            if vc.starts_with("VC_KP_") { continue; }
            if let Some((n, num)) = entry_name(vc) { if !num { slots.push((format!("Key_{}_{}", n, plane), *code, if plane == "AltGr" { 2 } else { 0 })); } }
        }
    }
    assert!(values.len() <= slots.len(), "too many values for one layout: {} > {}", values.len(), slots.len());
    for (v, (n, code, md)) in values.iter().zip(slots.iter()) { m.insert(n.clone(), v.clone()); how.push((*code, *md)); }
    let p = dir.join(format!("{}-layout.json", name));
    write_layout(&p, &m);
    (p, how)
}
