//! Harness: drives the real riti library in-process (public Rust API, `Config` built through the
//! exported `riti_config_*` C symbols), writes traces for the Lean driver, and hosts the
//! independent property oracles.
pub mod imp;
pub mod trace;
pub mod oracle;
pub mod gen;
pub mod keys;
pub mod layouts;
pub mod par;
pub mod layoutdoc;
