use riti_harness::gen::*;
use riti_harness::imp::*;
use riti_harness::keys::*;
use riti_harness::oracle::*;
use riti_harness::trace::*;
use serde_json::json;
use std::path::{Path, PathBuf};

mod streams;

pub struct Args {
    pub stream: String,
    pub tier: String,
    pub seed: u64,
    pub out: PathBuf,
    pub extra: Vec<String>,
}

fn main() {
    quiet_panics();
    let av: Vec<String> = std::env::args().collect();
    if av.len() < 2 { eprintln!("usage: riti-harness <stream|probe|dump-tsv> …"); std::process::exit(2); }
    let mut a = Args { stream: av[1].clone(), tier: "quick".into(), seed: 1, out: PathBuf::from("/tmp/riti-harness-out"), extra: vec![] };
    let mut i = 2;
    while i < av.len() {
        match av[i].as_str() {
            "--tier" => { a.tier = av[i + 1].clone(); i += 2; }
            "--seed" => { a.seed = av[i + 1].parse().unwrap_or(1); i += 2; }
            "--out" => { a.out = PathBuf::from(&av[i + 1]); i += 2; }
            x => { a.extra.push(x.to_string()); i += 1; }
        }
    }
    std::fs::create_dir_all(&a.out).unwrap();
    start_watchdog(if a.tier == "thorough" { 120 } else { 30 });
    let code = streams::run(&a);
    std::process::exit(code);
}

#[allow(dead_code)]
fn unused(_: &Path) { let _ = (json!({}), KEYS, PUNCT27, Rng::new(0), Report::new(""), esc("")); }

pub fn code_ok(c: char) -> bool { code_for_char(c).is_some() }
