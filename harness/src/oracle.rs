//! Violation records and replay files.
use std::path::{Path, PathBuf};

#[derive(Clone, Debug)]
pub struct Violation {
    pub property: String,
    /// short class name used to match known findings
    pub class: String,
    pub what: String,
    pub replay: serde_json::Value,
}

#[derive(Default)]
pub struct Report {
    pub stream: String,
    pub evaluations: u64,
    pub nontrivial: std::collections::HashSet<u64>,
    pub violations: Vec<Violation>,
    pub samples: Vec<serde_json::Value>,
    pub dist: std::collections::BTreeMap<String, u64>,
    pub slowest_event_s: f64,
    pub exhaustive: bool,
    pub notes: Vec<String>,
}

impl Report {
    pub fn new(stream: &str) -> Report { Report { stream: stream.into(), ..Default::default() } }
    pub fn count(&mut self, k: &str) { *self.dist.entry(k.into()).or_insert(0) += 1; }
    pub fn add(&mut self, k: &str, n: u64) { *self.dist.entry(k.into()).or_insert(0) += n; }
    pub fn eval(&mut self, nontrivial_key: Option<&str>) {
        self.evaluations += 1;
        if let Some(k) = nontrivial_key { self.nontrivial.insert(crate::trace::fxhash(k)); }
    }
    pub fn sample(&mut self, v: serde_json::Value) { if self.samples.len() < 6 { self.samples.push(v); } }
    pub fn violation(&mut self, property: &str, class: &str, what: String, replay: serde_json::Value) {
        let same = self.violations.iter().filter(|v| v.class == class && v.property == property).count();
        if same < 3 && self.violations.len() < 200 {
            self.violations.push(Violation { property: property.into(), class: class.into(), what, replay });
        }
        self.count(&format!("violation:{}:{}", property, class));
    }
    pub fn write(&self, path: &Path) {
        let v = serde_json::json!({
            "stream": self.stream,
            "evaluations": self.evaluations,
            "distinct_nontrivial": self.nontrivial.len(),
            "violations": self.violations.iter().map(|x| serde_json::json!({
                "property": x.property, "class": x.class, "what": x.what, "replay": x.replay })).collect::<Vec<_>>(),
            "samples": self.samples,
            "distribution": self.dist,
            "slowest_event_s": self.slowest_event_s,
            "exhaustive": self.exhaustive,
            "notes": self.notes,
        });
        std::fs::write(path, serde_json::to_string_pretty(&v).unwrap()).unwrap();
    }
}

pub fn out_path(dir: &Path, name: &str) -> PathBuf { dir.join(name) }

impl Report {
    pub fn merge(&mut self, o: Report) {
        self.evaluations += o.evaluations;
        self.nontrivial.extend(o.nontrivial);
        for v in o.violations {
            let same = self.violations.iter().filter(|x| x.class == v.class && x.property == v.property).count();
            if same < 3 && self.violations.len() < 200 { self.violations.push(v); }
        }
        for s in o.samples { if self.samples.len() < 6 { self.samples.push(s); } }
        for (k, n) in o.dist { *self.dist.entry(k).or_insert(0) += n; }
        if o.slowest_event_s > self.slowest_event_s { self.slowest_event_s = o.slowest_event_s; }
        self.notes.extend(o.notes);
    }
}
