//! run shards on all cores
use std::sync::atomic::{AtomicUsize, Ordering};
use std::sync::Mutex;

pub fn par_map<T: Send, F: Fn(usize) -> T + Sync>(n: usize, f: F) -> Vec<T> {
    let threads = std::thread::available_parallelism().map(|x| x.get()).unwrap_or(4).min(16).min(n.max(1));
    let next = AtomicUsize::new(0);
    let out: Mutex<Vec<(usize, T)>> = Mutex::new(Vec::new());
    std::thread::scope(|s| {
        for _ in 0..threads {
            s.spawn(|| loop {
                let i = next.fetch_add(1, Ordering::SeqCst);
                if i >= n { break; }
                let r = f(i);
                out.lock().unwrap().push((i, r));
            });
        }
    });
    let mut v = out.into_inner().unwrap();
    v.sort_by_key(|x| x.0);
    v.into_iter().map(|x| x.1).collect()
}
