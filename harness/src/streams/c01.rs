//! C01 / C02 (and the session-flag clauses of C06): random and systematic histories over the full
//! event alphabet in both methods, all option vectors, four layouts.
//! Oracles (model-free): no panic, per-event time budget, suggestion well-formedness.
use super::*;
use riti_harness::layouts::*;
use riti_harness::par::par_map;

pub struct Layouts { pub probhat: String, pub s1: String, pub s2: String }
pub fn mk_layouts(env: &Env) -> Layouts {
    Layouts { probhat: PROBHAT.into(), s1: write_s1(&env.a.out).to_str().unwrap().into(), s2: write_s2(&env.a.out).to_str().unwrap().into() }
}
pub fn register_layouts(t: &mut Trace, env: &Env, l: &Layouts) {
    t.layout(&l.probhat, &env.tsv); t.layout(&l.s1, &env.tsv); t.layout(&l.s2, &env.tsv);
}

const KAR_NO_BIJOY: &str = "\u{09C4}\u{09C5}\u{09C6}\u{09C9}\u{09CA}";
const TIME_BUDGET_S: f64 = 2.0;

fn uncurl(s: &str) -> String { s.chars().map(|c| match c { '‘' | '’' => '\'', '“' | '”' => '"', c => c }).collect() }

/// well-formedness of one returned observation (C02) and flag consistency (C06); `sel_valid`: the
/// selection byte passed with this key was valid for the list shown before
pub fn check_obs(rep: &mut Report, ctx: &serde_json::Value, phonetic: bool, typed: Option<&str>, o: &Obs, ongoing: bool, sel_valid: bool, override_sel: Option<usize>) {
    match o {
        Obs::Panic => rep.violation("C01", "panic", format!("panic: {}", ctx), ctx.clone()),
        Obs::Unit => {}
        Obs::Single { text, pre, .. } => {
            match pre {
                None => {
                    let cls = if text.chars().any(|c| KAR_NO_BIJOY.contains(c)) { "ansi-unencodable-sign" } else { "single-pre-edit-unreadable" };
                    rep.violation("C02", cls, format!("pre-edit text of a single suggestion {:?} panicked: {}", text, ctx), ctx.clone());
                }
                Some(p) => { if !p.is_empty() && !ongoing { rep.violation("C06", "preedit-without-session", format!("pre-edit {:?} but no ongoing session: {}", p, ctx), ctx.clone()); } }
            }
        }
        Obs::Full { aux, sel, cands, pres, accessor_panic, .. } => {
            if cands.is_empty() { rep.violation("C02", "empty-list", format!("list suggestion without candidates: {}", ctx), ctx.clone()); }
            if *accessor_panic { rep.violation("C02", "accessor-inconsistent", format!("accessors disagree with the value: {}", ctx), ctx.clone()); }
            if sel_valid && *sel >= cands.len().max(1) {
                // known finding only in its exact shape: phonetic, a punctuation key of the override set, index = the caller's byte, AND a
                // reason for the list to be shorter that the unchanged engine has: the key changed the word part (a colon joins it, a mark
                // after a colon detaches the colon) or the text is / was an emoticon. A punctuation mark that merely trails the word leaves
                // the list at least as long as it was — a shorter list there is something else. (Word part by the harness's own splitter;
                // Props/C02Selection.lean: override_word_same_iff — of the override keys only the colon changes the word part —,
                // list_length_same_word_iff / list_length_le_same_word, override_in_range_same_word_partial.)
                let reason = typed.map(|cur| {
                    let prev: String = { let n = cur.chars().count(); cur.chars().take(n.saturating_sub(1)).collect() };
                    let emo = |x: &str| EMOTICON_KEYS.get().map(|s| s.contains(x)).unwrap_or(true);
                    split(&prev, false).1 != split(cur, false).1 || emo(&prev) || emo(cur)
                }).unwrap_or(true);
                let cls = if phonetic && override_sel == Some(*sel) && reason { "selection-out-of-range-after-punctuation" } else { "selection-out-of-range" };
                rep.violation("C02", cls, format!("previously selected index {} >= length {}: {}", sel, cands.len(), ctx), ctx.clone());
            }
            if let Some(t) = typed {
                if phonetic && aux != t { rep.violation("C02", "auxiliary-not-composition", format!("auxiliary {:?} but typed {:?}: {}", aux, t, ctx), ctx.clone()); }
            }
            if !phonetic && !cands.is_empty() && uncurl(&cands[0]) != uncurl(aux) {
                rep.violation("C02", "auxiliary-not-composition", format!("fixed: auxiliary {:?} but first candidate {:?}: {}", aux, cands[0], ctx), ctx.clone());
            }
            for (i, p) in pres.iter().enumerate() {
                if p.is_none() {
                    let cls = if cands[i].chars().any(|c| KAR_NO_BIJOY.contains(c)) { "ansi-unencodable-sign" } else { "pre-edit-unreadable" };
                    rep.violation("C02", cls, format!("pre-edit text of candidate {} {:?} panicked: {}", i, cands[i], ctx), ctx.clone());
                }
            }
            if !ongoing && pres.iter().any(|p| p.as_deref().map(|x| !x.is_empty()).unwrap_or(false)) {
                // known shape: fixed method, the key value was dropped (the sign U+09C4 in a vowel-forming position), so the
                // composition is empty, yet the raw key text (English item / emoticon) is offered
                let cls = if !phonetic && aux.is_empty() { "empty-composition-offers-raw-keys" } else { "preedit-without-session" };
                rep.violation("C06", cls, format!("non-empty pre-edit but no ongoing session: {}", ctx), ctx.clone());
            }
        }
    }
}

pub fn rand_opts(r: &mut Rng) -> Opts { Opts::from_bits((r.next() & 0x7FF) as u32) }

/// one random history in one context; returns number of events
pub fn history(env: &Env, rep: &mut Report, t: &mut Trace, lay: &Layouts, rng: &mut Rng, case: &str, len: usize) {
    let layouts = [PHONETIC, PHONETIC, &lay.probhat, &lay.s1, &lay.s2];
    let mut layout = rng.pick(&layouts).to_string();
    let mut opts = rand_opts(rng);
    let xdg = env.fresh_xdg(case);
    t.line(&format!("case {}", case));
    let mut s = match Sess::new(t, &env.data, "c", &layout, opts, &xdg) { Some(s) => s, None => {
        rep.violation("C01", "panic", format!("context construction panicked: layout {} opts {}", layout, opts.bits_str()), json!({"layout": layout, "opts": opts.bits_str(), "events": []}));
        return; } };
    let mut typed = String::new();           // phonetic: expected raw buffer
    let mut last_len: usize = 0; let mut last_sel: usize = 0;
    let letters: Vec<&(&str, u16, Option<char>)> = KEYS.iter().filter(|k| k.2.map(|c| c.is_ascii_alphabetic()).unwrap_or(false)).collect();
    let punct: Vec<&(&str, u16, Option<char>)> = KEYS.iter().filter(|k| k.2.map(|c| !c.is_ascii_alphanumeric()).unwrap_or(false) && !k.0.starts_with("VC_KP")).collect();
    let keypad: Vec<&(&str, u16, Option<char>)> = KEYS.iter().filter(|k| k.0.starts_with("VC_KP")).collect();
    let digits: Vec<&(&str, u16, Option<char>)> = KEYS.iter().filter(|k| k.2.map(|c| c.is_ascii_digit()).unwrap_or(false) && !k.0.starts_with("VC_KP")).collect();
    for ev in 0..len {
        let phon = layout == PHONETIC;
        let ctx = |s: &Sess, what: &str| json!({"stream": "c01", "case": case, "layout": s.layout, "opts": s.opts.bits_str(), "events": s.events, "at": what});
        let roll = rng.below(100);
        let ongoing_before = s.imp.ongoing();
        if roll < 70 {
            let k = { let r2 = rng.below(100); if r2 < 62 { **rng.pick(&letters) } else if r2 < 82 { **rng.pick(&punct) } else if r2 < 90 { **rng.pick(&digits) } else { **rng.pick(&keypad) } };
            let m = *rng.pick(&[0u8, 0, 0, 1, 2, 2, 3, 0x80, 0xFF]);
            let selv = if last_len == 0 { 0 } else { *rng.pick(&[0usize, last_sel.min(last_len - 1), last_len - 1, rng.clone().below(last_len)]) };
            let o = s.key(t, k.1, m, selv as u8);
            if phon { if let Some(c) = k.2 { typed.push(c); } }
            let on = s.imp.ongoing();
            // fixed method, first key of a word: the composition can only be what THIS key composes — which is what a brand-new
            // context shows for the same key (the harness has no other model-free notion of the fixed composition)
            if !phon && !ongoing_before && o != Obs::Panic {
                if let Some(mut f) = Imp::new(&mk_config(&layout, &opts, &xdg)) {
                    let of = f.key(k.1, m, 0);
                    let comp = |x: &Obs| match x { Obs::Full { aux, .. } => Some(aux.clone()), Obs::Single { text, .. } => Some(text.clone()), _ => None };
                    if let (Some(a), Some(b)) = (comp(&o), comp(&of)) { if a != b {
                        rep.violation("C02", "auxiliary-not-composition", format!("fixed: first key of a word in a used context shows the composition {:?}, a brand-new context shows {:?}", a, b), ctx(&s, "first key of a word"));
                        rep.violation("C06", "leak-into-next-word", format!("fixed: first key of a word in a used context shows {:?}, a brand-new context {:?}", a, b), ctx(&s, "first key of a word"));
                    } }
                    rep.count("first-key-vs-new-context");
                }
            }
            let ov = if phon && k.2.map(|c| ".?!,:;-_)}]'\"".contains(c)).unwrap_or(false) { Some(selv) } else { None };
            check_obs(rep, &ctx(&s, "key"), phon, if phon && !typed.is_empty() { Some(&typed) } else { None }, &o, on, true, ov);
            if let Obs::Full { cands, sel, .. } = &o { last_len = cands.len(); last_sel = *sel; } else { last_len = 0; last_sel = 0; }
            rep.count(if phon { "key-phonetic" } else { "key-fixed" });
            if o == Obs::Panic { return; }
        } else if roll < 84 {
            let ctrl = rng.chance(15);
            let o = s.backspace(t, ctrl);
            if phon { if ctrl { typed.clear(); } else { typed.pop(); } }
            let on = s.imp.ongoing();
            check_obs(rep, &ctx(&s, "backspace"), phon, if phon && !typed.is_empty() { Some(&typed) } else { None }, &o, on, true, None);
            if !ongoing_before && !(o.is_empty_suggestion() && !on) {
                rep.violation("C06", "idle-backspace-not-inert", format!("backspace when idle returned {:?} / ongoing {}", o, on), ctx(&s, "backspace"));
            }
            if o.is_empty_suggestion() && on {
                let cls = if phon && !s.opts.phonetic_suggestion { "empty-transliteration-keeps-session" } else { "session-after-empty-suggestion" };
                rep.violation("C06", cls, "backspace returned the empty suggestion but the session is ongoing".into(), ctx(&s, "backspace"));
            }
            if let Obs::Full { cands, sel, .. } = &o { last_len = cands.len(); last_sel = *sel; } else { last_len = 0; last_sel = 0; }
            rep.count(if ctrl { "ctrl-backspace" } else { "backspace" });
            if o == Obs::Panic { return; }
        } else if roll < 93 {
            // commit: only while a non-empty suggestion is displayed
            let can = match &s.last { Obs::Full { cands, .. } => !cands.is_empty() && ongoing_before, Obs::Single { text, .. } => !text.is_empty() && ongoing_before, _ => false };
            if can {
                let idx = match &s.last { Obs::Full { cands, sel, .. } => if rng.chance(40) { (*sel).min(cands.len() - 1) } else { rng.below(cands.len()) }, _ => 0 };
                let o = s.commit(t, idx);
                typed.clear(); last_len = 0; last_sel = 0;
                s.last = Obs::Unit;
                if o == Obs::Panic { rep.violation("C01", "panic", "commit panicked".into(), ctx(&s, "commit")); return; }
                if s.imp.ongoing() { rep.violation("C06", "session-after-terminating-event", "ongoing after commit".into(), ctx(&s, "commit")); }
                rep.count("commit");
            }
        } else if roll < 97 {
            let o = s.finish(t);
            typed.clear(); last_len = 0; last_sel = 0; s.last = Obs::Unit;
            if o == Obs::Panic { rep.violation("C01", "panic", "finish panicked".into(), ctx(&s, "finish")); return; }
            if s.imp.ongoing() { rep.violation("C06", "session-after-terminating-event", "ongoing after finish".into(), ctx(&s, "finish")); }
            rep.count("finish");
        } else if !ongoing_before {
            // update-engine while idle
            let nl = if rng.chance(50) { layout.clone() } else { rng.pick(&layouts).to_string() };
            let no = if rng.chance(30) { opts } else { rand_opts(rng) };
            let o = s.update(t, &nl, no);
            layout = nl; opts = no; s.last = Obs::Unit; last_len = 0; last_sel = 0;
            if o == Obs::Panic { rep.violation("C01", "panic", "update_engine panicked".into(), ctx(&s, "update")); return; }
            rep.count("update");
        }
        if s.imp.slowest > TIME_BUDGET_S {
            rep.violation("C01", "slow-event", format!("an event took {:.2}s", s.imp.slowest), ctx(&s, "time"));
            s.imp.slowest = 0.0;
        }
        let _ = ev;
    }
    if s.imp.slowest > rep.slowest_event_s { rep.slowest_event_s = s.imp.slowest; }
    rep.eval(Some(&format!("{}|{}", case, s.events.len())));
    if rep.samples.len() < 3 { rep.sample(json!({"layout": s.layout, "opts": s.opts.bits_str(), "events": s.events.iter().take(30).collect::<Vec<_>>()})); }
}

/// systematic pass: every published key × modifier patterns, as first key and after seed compositions
fn systematic(env: &Env, rep: &mut Report, t: &mut Trace, lay: &Layouts, shard: usize, nshards: usize, nopts: usize, seed: u64) {
    let seeds_ph = ["", "a", "k", "ami", ":", ":)", "`", "k`", "a.", "(a", "rri", "12"];
    let seeds_fx = ["", "k", "kh", "ka", "kc", "khk", "r", "kE", "i", "kJ", "k1", "km"];   // typed through S2
    let mut rng = Rng::new(seed ^ 0x5157);
    let mut n = 0usize;
    for oi in 0..nopts {
        let opts = if oi == 0 { Opts::from_bits(0x7FF) } else if oi == 1 { Opts::none() } else { rand_opts(&mut rng) };
        for (li, layout) in [PHONETIC, lay.s2.as_str(), lay.probhat.as_str()].iter().enumerate() {
          let phon = *layout == PHONETIC;
          for (sdi, sd) in (if phon { &seeds_ph } else { &seeds_fx }).iter().enumerate() {
            n += 1;
            if n % nshards != shard { continue; }
            let case = format!("c01-sys-{}-{}-{}", oi, li, sdi);
            let xdg = env.fresh_xdg(&case);
            t.line(&format!("case {}", case));
            let mut s = match Sess::new(t, &env.data, "c", layout, opts, &xdg) { Some(s) => s, None => continue };
            // what a brand-new context composes for the probe key (fixed layouts)
            let probe_key = code_for_char('k').unwrap();
            let comp = |x: &Obs| match x { Obs::Full { aux, .. } => Some(aux.clone()), Obs::Single { text, .. } => Some(text.clone()), _ => None };
            let ref_text = if phon { None } else { Imp::new(&mk_config(layout, &opts, &xdg)).and_then(|mut f| comp(&f.key(probe_key, 0, 0))) };
            let mut nth = 0usize;
            {
                for k in KEYS {
                    for m in [0u8, 1, 2, 3] {
                        s.type_text(t, sd);
                        let o = s.key(t, k.1, m, 0);
                        let on = s.imp.ongoing();
                        let ctx = json!({"stream": "c01", "case": case, "layout": layout, "opts": opts.bits_str(), "events": s.events.iter().rev().take(sd.len() + 1).rev().collect::<Vec<_>>()});
                        check_obs(rep, &ctx, phon, None, &o, on, true, None);
                        rep.eval(Some(&format!("{}|{}|{}|{}|{}", li, opts.bits_str(), sd, k.1, m)));
                        if o == Obs::Panic {
                            // a poisoned context cannot be used further
                            t.line(&format!("drop {}", s.id));
                            s = match Sess::new(t, &env.data, "c", layout, opts, &xdg) { Some(s) => s, None => return };
                        } else {
                            // the word ends in one of the ways a word can end; whatever the key did (a sign left waiting, raw keys without a
                            // value …), the next word starts clean: its first key shows what a brand-new context shows for that key
                            nth += 1;
                            let was_on = s.imp.ongoing();
                            let ot = match nth % 4 { 0 => s.finish(t), 1 => s.backspace(t, true), 2 => { if was_on { s.commit(t, 0) } else { s.finish(t) } } _ => { let mut x = Obs::Unit; for _ in 0..(sd.len() + 3) { if !s.imp.ongoing() { break; } x = s.backspace(t, false); if x == Obs::Panic { break; } } if s.imp.ongoing() { x = s.finish(t); } x } };
                            if ot == Obs::Panic { rep.violation("C01", "panic", "the event that ends the word panicked".into(), json!({"stream": "c01", "case": case, "layout": layout, "opts": opts.bits_str(), "events": s.events})); t.line(&format!("drop {}", s.id)); s = match Sess::new(t, &env.data, "c", layout, opts, &xdg) { Some(s) => s, None => return }; s.clear_events(); continue; }
                            if s.imp.ongoing() { rep.violation("C06", "session-after-terminating-event", format!("ongoing after the word ended (way {})", nth % 4), json!({"stream": "c01", "case": case, "layout": layout, "opts": opts.bits_str(), "events": s.events})); }
                            if !phon {
                                let o2 = s.key(t, probe_key, 0, 0);
                                let got = comp(&o2);
                                if got != ref_text && o2 != Obs::Panic {
                                    let ctx2 = json!({"stream": "c01", "case": case, "layout": layout, "opts": opts.bits_str(), "events": s.events});
                                    rep.violation("C02", "auxiliary-not-composition", format!("fixed: the first key of the next word shows the composition {:?}, a brand-new context shows {:?}", got, ref_text), ctx2.clone());
                                    rep.violation("C06", "leak-into-next-word", format!("fixed: the first key of the next word shows {:?}, a brand-new context {:?}", got, ref_text), ctx2);
                                }
                                if o2 == Obs::Panic { rep.violation("C01", "panic", "first key of the next word panicked".into(), json!({"stream": "c01", "case": case, "layout": layout, "opts": opts.bits_str(), "events": s.events})); t.line(&format!("drop {}", s.id)); s = match Sess::new(t, &env.data, "c", layout, opts, &xdg) { Some(s) => s, None => return }; }
                                else { s.finish(t); }
                                rep.count("next-word-first-key");
                            }
                        }
                        s.clear_events();
                        rep.count("systematic-key");
                    }
                }
            }
          }
        }
    }
}

/// corpus of minimised past failures (DESIGN §6): always run first.  Script alphabet: a typeable character types
/// it (passing the current selection), `⌫` backspace, `⏎ ¹ ² ³` commit index 0–3, `␛` finish, `⏏` keypad Enter.
const CORPUS: &[(&str, &str, &str, &str)] = &[
    ("F1-keypad-enter", "phonetic", "01000000001", "a⏏m⏏"),
    ("F2-reph-on-empty", "s2", "00000010000", "z␛kz␛"),
    ("F3-empty-learned-value", "phonetic", "01000000001", ":)¹:er␛:e␛"),
    ("F3b-empty-learned-base-suffix", "phonetic", "01000000001", ":)¹:ke␛:ra␛:gulo␛"),
    ("F6-typed-leak", "probhat", "10100000000", "k/i⌫⌫m␛"),
    ("commit-punctuation-only-candidate", "phonetic", "11000000000", ".¹k␛:)¹a␛(¹ami␛"),
    ("F8-backslash-english", "phonetic", "11000000000", "\\␛%\\␛"),
    ("F9-two-learned-bases", "phonetic", "01000000000", "kor¹kore¹korei␛"),
    ("F18-zwnj-emoji-name", "probhat", "00100100000", "fUl␛"),
    ("seed-C01-1-pending-kar-recursion", "probhat", "00110000100", "k[a␛[a␛"),
    // time: one uncommitted word whose tail is a long chain of suffix keys (every split point is a suffix)
    ("time-suffix-chain-er", "phonetic", "01000000001", "kererererererererererererererererererererererer␛"),
    ("time-suffix-chain-mixed", "phonetic", "11000000001", "deshgulokeitaragulokeigulotaderkeoeierer␛"),
    ("time-repeated-vowels", "phonetic", "01000000001", "aaaaaaaaaaaaaaaaaaaaaaaaaaaaaaaaaaaaaaaaoooooooooooooooooooo␛"),
    // rank arithmetic far from the dictionary: a dictionary hit 26 and more edits away from what was typed (both methods)
    ("far-hit-repeated-o", "phonetic", "01000000001", "oooooooooooooooooooooooooooooooooooooooooooooooooooooooo␛sooooooooooooooooooooooooooooooooooooooooooooooooooo␛"),
    ("far-hit-marks-phonetic", "phonetic", "11000000001", "k--------------------------------m␛"),
    ("far-hit-marks-fixed", "probhat", "10100000000", "k---------------------------m␛k^^^^^^^^^^^^^^^^^^^^^^^^^^^^m␛"),
    ("seed-C03-1-punctuation-after-word", "phonetic", "00000000001", "k⏎.␛(a⌫␛"),
    ("seed-C06-1-hasanta-vowel-then-backspace", "probhat", "10110000000", "/u⌫;)␛/u⌫k␛"),
];

fn run_corpus(env: &Env, rep: &mut Report, t: &mut Trace, lay: &Layouts, si: usize, nshards: usize) {
    // the cases are spread over the shards (the long-word ones are slow to replay on the Lean model: one per trace, not all in one)
    // the long-word cases (time budget, rank arithmetic far from the dictionary) are about the IMPLEMENTATION returning, and in time; replaying
    // 50-character words on the Lean model costs a minute per case, and stream c07 already ties such words to the model: not traced here
    let mut untraced = Trace::create(&env.scratch.join(format!("c01-corpus-untraced-{}.log", si)), &env.tsv);
    for (ci, (name, layout, bits, script)) in CORPUS.iter().enumerate() {
        if ci % nshards != si { continue; }
        let heavy = env.quick() && (name.starts_with("far-hit-") || name.starts_with("time-"));
        let t: &mut Trace = if heavy { &mut untraced } else { &mut *t };
        let lp = match *layout { "phonetic" => PHONETIC.to_string(), "s2" => lay.s2.clone(), "s1" => lay.s1.clone(), _ => lay.probhat.clone() };
        let mut b = 0u32; for (i, c) in bits.chars().enumerate() { if c == '1' { b |= 1 << i; } }
        let opts = Opts::from_bits(b);
        let case = format!("c01-corpus-{}", name);
        t.line(&format!("case {}", case));
        let xdg = env.fresh_xdg(&case);
        let mut s = match Sess::new(t, &env.data, "c", &lp, opts, &xdg) { Some(s) => s, None => { rep.violation("C01", "panic", format!("corpus {}: context construction panicked", name), json!({"corpus": name})); continue; } };
        let phon = lp == PHONETIC;
        // what is being composed, kept by the harness (phonetic: the auxiliary text must be exactly this)
        let mut typed = String::new();
        for ch in script.chars() {
            let ctx = json!({"stream": "c01", "corpus": name, "layout": lp, "opts": opts.bits_str(), "script": script, "events": s.events});
            match ch { '⌫' => { typed.pop(); } '␛' | '⏎' | '¹' | '²' | '³' => { typed.clear(); } '⏏' => {} c => { if code_for_char(c).is_some() { typed.push(c); } } }
            let o = match ch {
                '⌫' => s.backspace(t, false),
                '␛' => s.finish(t),
                '⏏' => s.key(t, 3612, 0, 0),
                '⏎' | '¹' | '²' | '³' => { let i = match ch { '⏎' => 0, '¹' => 1, '²' => 2, _ => 3 };
                    let n = match &s.last { Obs::Full { cands, .. } => cands.len(), Obs::Single { text, .. } => if text.is_empty() { 0 } else { 1 }, _ => 0 };
                    if i < n { s.commit(t, i) } else { s.finish(t) } }
                c => match code_for_char(c) { Some(k) => { let sel = match &s.last { Obs::Full { sel, cands, .. } if *sel < cands.len() => *sel as u8, _ => 0 }; s.key(t, k, 0, sel) } None => continue },
            };
            let on = s.imp.ongoing();
            if o == Obs::Panic { rep.violation("C01", "panic", format!("corpus {}: panic at {:?} of {:?}", name, ch, script), ctx); break; }
            if s.imp.slowest > TIME_BUDGET_S { rep.violation("C01", "slow-event", format!("corpus {}: the event {:?} (number {} of {:?}) took {:.2}s", name, ch, s.events.len(), script, s.imp.slowest), ctx.clone()); break; }
            check_obs(rep, &ctx, phon, if phon { Some(typed.as_str()) } else { None }, &o, on, true, None);
        }
        rep.eval(Some(&case));
        rep.count("corpus-case");
    }
}

/// learned choices of EVERY kind of candidate: a text is typed, candidate i is committed (for every i: the dictionary word, the
/// transliteration, an emoji, the raw English text, a smart-quoted form …), then the same text is typed again, then the text with a suffix,
/// with a backspace in between: whatever was learned, and whether or not it is in the list being built, every call returns normally
fn learn_retype_pass(env: &Env, rep: &mut Report, t: &mut Trace, si: usize, nshards: usize) {
    let texts = ["\"e\"", "'kor'", "smile", "cool", "(ami)", "sesh.", "e", "a", "kor", ";)", "x)", "atm", "12", "k`", "desh:", "\"smile\"", "boi", "o"];
    let mut n = 0usize;
    for (ti, txt) in texts.iter().enumerate() {
        for idx in 0..6usize {
            n += 1; if n % nshards != si { continue; }
            let case = format!("c01-learn-{}-{}", ti, idx);
            t.line(&format!("case {}", case));
            let xdg = env.fresh_xdg(&case);
            let mut o = Opts::none(); o.phonetic_suggestion = true; o.english = (ti + idx) % 2 == 0; o.smart_quote = (ti + idx) % 3 != 0;
            let mut s = match Sess::new(t, &env.data, "lr", PHONETIC, o, &xdg) { Some(s) => s, None => continue };
            let ctx = |s: &Sess, at: &str| json!({"stream": "c01", "case": case, "layout": PHONETIC, "opts": o.bits_str(), "events": s.events, "at": at});
            let ob = s.type_text(t, txt);
            let len = match &ob { Obs::Full { cands, .. } => cands.len(), Obs::Panic => { rep.violation("C01", "panic", format!("typing {:?} panicked", txt), ctx(&s, "type")); continue; } _ => 0 };
            if idx >= len { s.finish(t); t.line("drop lr"); continue; }
            if s.commit(t, idx) == Obs::Panic { rep.violation("C01", "panic", format!("committing candidate {} of {:?} panicked", idx, txt), ctx(&s, "commit")); continue; }
            let (_, w, _) = split(txt, false);
            let mut dead = false;
            for again in [txt.to_string(), format!("{}r", w), format!("{}er", txt.trim_end_matches(|c: char| !c.is_ascii_alphanumeric())), format!("{}gulo", w), w.clone()] {
                if again.is_empty() || !again.chars().all(crate::code_ok) { continue; }
                let ob = s.type_text(t, &again);
                rep.eval(Some(&format!("learn|{}|{}|{}", txt, idx, again))); rep.count("learned-then-retyped");
                if ob == Obs::Panic { rep.violation("C01", "panic", format!("after candidate {} of {:?} was learned, typing {:?} panicked", idx, txt, again), ctx(&s, "retype")); dead = true; break; }
                if s.backspace(t, false) == Obs::Panic { rep.violation("C01", "panic", format!("after candidate {} of {:?} was learned, a backspace on {:?} panicked", idx, txt, again), ctx(&s, "backspace")); dead = true; break; }
                let on = s.imp.ongoing();
                if let Obs::Full { .. } = &s.last { check_obs(rep, &ctx(&s, "after backspace"), true, None, &s.last.clone(), on, true, None); }
                s.finish(t);
            }
            let _ = dead;
            t.line("drop lr");
        }
    }
}

/// the selection byte: words with several candidates, then EVERY punctuation key of the keyboard pressed with every selection byte that
/// is valid for the list on display (1, 2, the last index): the index that comes back lies inside the list that comes back
fn selection_pass(env: &Env, rep: &mut Report, t: &mut Trace, si: usize, nshards: usize) {
    let words = ["ami", "cool", "kor", "a", "bol", "desh", "manush", "sesh", "onek", "boi", "din", "e", "(ami", "\"kor", "amar", "tumi"];
    let puncts: Vec<(u16, char)> = KEYS.iter().filter(|k| !k.0.starts_with("VC_KP_")).filter_map(|k| k.2.map(|c| (k.1, c))).filter(|(_, c)| c.is_ascii_punctuation()).collect();
    let case = format!("c01-selection-{}", si);
    t.line(&format!("case {}", case));
    let xdg = env.fresh_xdg(&case);
    let mut o = Opts::none(); o.phonetic_suggestion = true; o.english = si % 2 == 1; o.smart_quote = si % 4 >= 2; 
    let mut s = match Sess::new(t, &env.data, "sp", PHONETIC, o, &xdg) { Some(s) => s, None => return };
    let mut n = 0usize;
    for w in words {
        for (code, pc) in &puncts {
            n += 1; if n % nshards != si { continue; }
            for which in 0..3 {
                s.clear_events();
                let ob = s.type_text(t, w);
                let len = match &ob { Obs::Full { cands, .. } => cands.len(), _ => 0 };
                if len < 2 { s.finish(t); continue; }
                let selv = match which { 0 => 1, 1 => len - 1, _ => (len / 2).max(1) };
                let ob = s.key(t, *code, 0, selv as u8);
                let on = s.imp.ongoing();
                let typed = format!("{}{}", w, pc);
                let ov = if ".?!,:;-_)}]'\"".contains(*pc) { Some(selv) } else { None };
                let ctx = json!({"stream": "c01", "case": case, "layout": PHONETIC, "opts": o.bits_str(), "events": s.events, "at": "punctuation key with a selection"});
                check_obs(rep, &ctx, true, Some(&typed), &ob, on, true, ov);
                rep.eval(Some(&format!("sel|{}|{}|{}|{}", o.bits_str(), w, pc, selv))); rep.count("selection-byte-case");
                if ob == Obs::Panic { t.line("drop sp"); s = match Sess::new(t, &env.data, "sp", PHONETIC, o, &xdg) { Some(s) => s, None => return }; } else { s.finish(t); }
            }
        }
    }
    t.line("drop sp");
}

/// the words the DATA FILES name: every key of the bundled auto-correct table (its value is fed to the transliterator when the key is
/// typed), every suffix key behind a base, every emoticon and every English emoji name — each typed once, key by key, with the list on.
/// A data row that the code cannot digest (a value in the wrong script, an empty value) shows here and nowhere else.
fn data_words(env: &Env, rep: &mut Report, t: &mut Trace, si: usize, nshards: usize) {
    let pools = super::common::WordPools::new(&env.data);
    let case = format!("c01-data-words-{}", si);
    t.line(&format!("case {}", case));
    let xdg = env.fresh_xdg(&case);
    let mut o = Opts::none(); o.phonetic_suggestion = true; o.english = si % 2 == 0; o.smart_quote = si % 4 < 2;
    let mut s = match Sess::new(t, &env.data, "dw", PHONETIC, o, &xdg) { Some(s) => s, None => return };
    let mut words: Vec<String> = pools.ac_keys.clone();
    for sk in &pools.suffixes { words.push(format!("kaj{}", sk)); }
    words.extend(pools.emoticons.iter().cloned());
    // (quick tier: every third emoji name — their values are not fed to the transliterator; the thorough tier types all of them)
    words.extend(pools.emoji_names.iter().enumerate().filter(|(i, _)| !env.quick() || i % 3 == 0).map(|(_, n)| n.clone()));
    for (i, w) in words.iter().enumerate() {
        if i % nshards != si || w.is_empty() || w.chars().count() > 24 || !w.chars().all(crate::code_ok) { continue; }
        s.clear_events();
        let ob = s.type_text(t, w);
        rep.eval(Some(&format!("dw|{}", w))); rep.count("data-word");
        if ob == Obs::Panic { rep.violation("C01", "panic", format!("typing the word {:?} (named by the data files) panicked", w), json!({"stream": "c01", "layout": PHONETIC, "opts": o.bits_str(), "events": s.events})); s = match Sess::new(t, &env.data, "dw", PHONETIC, o, &xdg) { Some(s) => s, None => return }; continue; }
        if s.imp.slowest > TIME_BUDGET_S { rep.violation("C01", "slow-event", format!("typing the word {:?}: an event took {:.2}s", w, s.imp.slowest), json!({"stream": "c01", "layout": PHONETIC, "opts": o.bits_str(), "events": s.events})); s.imp.slowest = 0.0; }
        // one backspace and the key again (the ignored-key / backspace paths see the same data), then the word ends
        let last = w.chars().last().unwrap();
        if s.backspace(t, false) == Obs::Panic || s.key(t, code_for_char(last).unwrap(), 0, 0) == Obs::Panic { rep.violation("C01", "panic", format!("backspace + retype on the word {:?} panicked", w), json!({"stream": "c01", "layout": PHONETIC, "opts": o.bits_str(), "events": s.events})); s = match Sess::new(t, &env.data, "dw", PHONETIC, o, &xdg) { Some(s) => s, None => return }; continue; }
        s.finish(t);
    }
    t.line("drop dw");
}

pub fn run(env: &Env) -> Report {
    let lay = mk_layouts(env);
    let nshards = 16;
    let (nhist, hlen) = if env.quick() { (40usize, 30usize) } else { (600, 60) };
    let seed = env.a.seed;
    let reps = par_map(nshards, |si| {
        let mut rep = Report::new("c01");
        let mut t = env.trace(&format!("c01.{}", si));
        register_layouts(&mut t, env, &lay);
        let mut rng = Rng::new(seed.wrapping_mul(7919) ^ (si as u64) << 20);
        run_corpus(env, &mut rep, &mut t, &lay, si, nshards);
        for h in 0..nhist {
            let l = if h % 10 == 9 { hlen * 4 } else { hlen };
            history(env, &mut rep, &mut t, &lay, &mut rng, &format!("c01-{}-{}", si, h), l);
        }
        systematic(env, &mut rep, &mut t, &lay, si, nshards, if env.quick() { 4 } else { 16 }, seed);
        data_words(env, &mut rep, &mut t, si, nshards);
        selection_pass(env, &mut rep, &mut t, si, nshards);
        learn_retype_pass(env, &mut rep, &mut t, si, nshards);
        if !env.quick() && si == 0 {
            // long-word soak (thorough tier: ~2 minutes): one uncommitted word of 3000 characters over worst-case okkhor patterns
            let xdg = env.fresh_xdg("soak");
            t.line("case c01-soak");
            let mut o = Opts::none(); o.phonetic_suggestion = true;
            if let Some(mut s) = Sess::new(&mut t, &env.data, "c", PHONETIC, o, &xdg) {
                for i in 0..(if env.quick() { 2400 } else { 3000 }) {
                    let c = "ngkkh".chars().nth(i % 5).unwrap();
                    let ob = s.imp.key(code_for_char(c).unwrap(), 0, 0);
                    if ob == Obs::Panic { rep.violation("C01", "panic", format!("long word: panic at length {}", i + 1), json!({"stream": "c01", "soak": "ngkkh", "length": i + 1})); break; }
                }
                if s.imp.slowest > 5.0 { rep.violation("C01", "slow-event", format!("long word: an event took {:.2}s", s.imp.slowest), json!({"stream": "c01", "soak": "ngkkh"})); }
                rep.notes.push(format!("soak: {}-character word, slowest event {:.3}s", if env.quick() { 2400 } else { 3000 }, s.imp.slowest));
                t.line("drop c");
            }
        }
        t.flush();
        rep
    });
    let mut rep = Report::new("c01");
    for r in reps { rep.merge(r); }
    rep
}
