//! C03 — phonetic output is the Avro transliteration of exactly what was typed.
//! Oracle (model-free): okkhor's own parser applied to the three parts cut by the harness's splitter.
use super::*;
use riti_harness::par::par_map;

fn curl_open(s: &str) -> String { s.chars().map(|c| match c { '\'' => '‘', '"' => '“', c => c }).collect() }
fn curl_close(s: &str) -> String { s.chars().map(|c| match c { '\'' => '’', '"' => '”', c => c }).collect() }

/// check one typed text against the property; `o` is the observation after the last key
pub fn check(env: &Env, rep: &mut Report, opts: &Opts, text: &str, o: &Obs, structured: Option<(&str, &str, &str)>) { check_h(env, rep, opts, text, o, structured, &[]) }

/// … `hist`: the events of the context since its creation / its last cleared word (an earlier word and how it ended, then the text)
pub fn check_h(env: &Env, rep: &mut Report, opts: &Opts, text: &str, o: &Obs, structured: Option<(&str, &str, &str)>, hist: &[String]) {
    let d = &env.data;
    let (p, w, r) = match structured { Some((a, b, c)) => (a.to_string(), b.to_string(), c.to_string()), None => split(text, false) };
    let (cp, cw, cr) = (d.phonetic.convert(&p), d.phonetic.convert(&w), d.phonetic.convert(&r));
    let nontrivial = format!("{}|{}", opts.bits_str(), text);
    rep.eval(if cw != w || !p.is_empty() || !r.is_empty() { Some(&nontrivial) } else { None });
    match o {
        Obs::Single { text: got, .. } => {
            rep.count("lonely");
            let exp = format!("{}{}{}", cp, cw, cr);
            if *got != exp {
                rep.violation("C03", "lonely-not-transliteration", format!("typed {:?} opts {}: expected {:?}, got {:?}", text, opts.bits_str(), exp, got),
                    with_events(json!({"stream": "c03", "layout": PHONETIC, "opts": opts.bits_str(), "text": text, "expected": exp, "observed": got}), hist));
            }
        }
        Obs::Full { cands, aux, .. } => {
            rep.count("list");
            let exp = if opts.smart_quote && !w.is_empty() { format!("{}{}{}", curl_open(&cp), cw, curl_close(&cr)) } else { format!("{}{}{}", cp, cw, cr) };
            if !cands.contains(&exp) {
                rep.violation("C03", "transliteration-not-a-candidate", format!("typed {:?} opts {}: {:?} not in {:?}", text, opts.bits_str(), exp, cands),
                    with_events(json!({"stream": "c03", "layout": PHONETIC, "opts": opts.bits_str(), "text": text, "expected_member": exp, "observed": cands}), hist));
            }
            if aux != text {
                rep.violation("C03", "auxiliary-not-typed-text", format!("typed {:?}: aux {:?}", text, aux), json!({"stream": "c03", "text": text, "aux": aux}));
            }
        }
        Obs::Panic => rep.violation("C03", "panic", format!("typed {:?} opts {}: panic", text, opts.bits_str()), json!({"stream": "c03", "layout": PHONETIC, "opts": opts.bits_str(), "text": text})),
        Obs::Unit => {}
    }
}

fn with_events(mut v: serde_json::Value, hist: &[String]) -> serde_json::Value { if !hist.is_empty() { v["events"] = json!(hist); } v }

fn settings(sugg: bool) -> Vec<Opts> {
    let mut v = vec![];
    for b in 0..8u32 {
        let mut o = Opts::none();
        o.phonetic_suggestion = sugg; o.english = b & 1 == 1; o.smart_quote = b & 2 == 2; o.ansi = b & 4 == 4;
        v.push(o);
    }
    v
}

pub fn run(env: &Env) -> Report {
    let typeable: Vec<char> = TYPEABLE.chars().collect();
    let seed = env.a.seed;
    // shards: (opts, kind, index)
    #[derive(Clone)]
    enum Kind { Short(usize), Structured(usize), Arbitrary(usize), Marks(usize) }
    let mut shards: Vec<(Opts, Kind)> = vec![];
    let off = settings(false);
    let on = settings(true);
    // suggestions off: every string of length <= 2 (<= 3 thorough), all 8 settings, sharded by first char group
    for o in &off { for g in 0..4 { shards.push((*o, Kind::Short(g))); } }
    // suggestions on: length <= 2 under 2 settings chosen by seed (all 8 when thorough)
    let on_short: Vec<Opts> = if env.quick() { vec![on[(seed as usize) % 8], on[(seed as usize / 8 + 3) % 8]] } else { on.clone() };
    for o in &on_short { for g in 0..8 { shards.push((*o, Kind::Short(100 + g))); } }
    let n_struct = if env.quick() { 16 } else { 64 };
    for i in 0..n_struct { shards.push((if i % 2 == 0 { off[i / 2 % 8] } else { on[i / 2 % 8] }, Kind::Structured(i))); }
    for i in 0..(if env.quick() { 8 } else { 32 }) { shards.push((on[i % 8], Kind::Arbitrary(i))); }
    // two punctuation marks next to a digit / a letter, in every position (the transliterator reads `.` and `:` by their neighbours,
    // so WHERE the text is cut between punctuation and word matters exactly there): every ordered pair of ASCII punctuation marks
    for g in 0..8 { shards.push((off[(seed as usize + g) % 8], Kind::Marks(g))); shards.push((on[(seed as usize + g * 3) % 8], Kind::Marks(8 + g))); }
    let reps = par_map(shards.len(), |si| {
        let (opts, kind) = &shards[si];
        let mut rep = Report::new("c03");
        let xdg = env.fresh_xdg(&format!("c03-{}", si));
        let mut t = env.trace(&format!("c03.{}", si));
        t.line(&format!("case c03-{}", si));
        // the context is reached by one of four routes (created directly / as a fixed-layout context / with other options, then updated)
        let mut s = Sess::new_routed(&mut t, &env.data, "c", PHONETIC, *opts, &xdg, si).expect("context");
        let mut rng = Rng::new(seed.wrapping_mul(1000003) ^ si as u64);
        let earlier = super::common::ascii_keys("ami");
        let mut nth = 0usize;
        match kind {
            Kind::Short(g) => {
                let (groups, g) = if *g >= 100 { (8, g - 100) } else { (4, *g) };
                let three = !env.quick() && !opts.phonetic_suggestion;
                for (i, &a) in typeable.iter().enumerate() {
                    if i % groups != g { continue; }
                    let o = s.key(&mut t, code_for_char(a).unwrap(), 0, 0);
                    check(env, &mut rep, opts, &a.to_string(), &o, None);
                    for &b in &typeable {
                        let o = s.key(&mut t, code_for_char(b).unwrap(), 0, 0);
                        let txt: String = [a, b].iter().collect();
                        check(env, &mut rep, opts, &txt, &o, None);
                        if three {
                            for &c in &typeable {
                                let o = s.key(&mut t, code_for_char(c).unwrap(), 0, 0);
                                let txt: String = [a, b, c].iter().collect();
                                check(env, &mut rep, opts, &txt, &o, None);
                                s.backspace(&mut t, false);
                            }
                        }
                        s.backspace(&mut t, false);
                    }
                    s.finish(&mut t);
                }
            }
            Kind::Structured(_) => {
                // every key of the number pad that has a character (a second key code for the same character, in another block of
                // the key-code space) contributes that character exactly like the main-block key
                for k in KEYS.iter().filter(|k| k.0.starts_with("VC_KP_")) {
                    if let Some(ch) = k.2 {
                        for base in ["", "ami", "(", "12"] {
                            s.type_text(&mut t, base);
                            let o = s.key(&mut t, k.1, if rng.chance(50) { 0 } else { 1 }, 0);
                            let txt = format!("{}{}", base, ch);
                            check(env, &mut rep, opts, &txt, &o, None);
                            rep.count("number-pad-key");
                            s.finish(&mut t);
                        }
                    }
                }
                // very long words (39 … 60 letters) bare and inside punctuation: nothing about the property changes with the length
                for n in [39usize, 40, 41, 42, 60] {
                    let word: String = "bangladeshamarsonarbangla".chars().cycle().take(n).collect();
                    for (l, r) in [("", ""), ("(", ")."), ("\"", "")] {
                        let txt = format!("{}{}{}", l, word, r);
                        s.clear_events();
                        let o = s.type_text(&mut t, &txt);
                        check_h(env, &mut rep, opts, &txt, &o, Some((l, &word, r)), &s.events);
                        rep.count("long-word");
                        s.finish(&mut t);
                    }
                }
                let n = if env.quick() { 1200 } else { 5000 };
                let n = if opts.phonetic_suggestion { n / 8 } else { n };
                for _ in 0..n {
                    let ll = rng.below(4);
                    let lead = from_alphabet(&mut rng, PUNCT27, ll);
                    let word = { let w = avro_word(&mut rng, 8); if rng.chance(15) { w.to_uppercase() } else { w } };
                    let tl = rng.below(4);
                    let trail = from_alphabet(&mut rng, PUNCT27, tl);
                    let txt = format!("{}{}{}", lead, word, trail);
                    // an earlier word that ended in one of the ways a word can end (finish, ctrl-backspace, backspaces, commit, a learning
                    // commit of a punctuation-only candidate): what is typed now is still transliterated exactly
                    nth += 1; s.clear_events();
                    super::common::prelude(&mut s, &mut t, if nth % 3 == 0 { (nth / 3) % (if opts.phonetic_suggestion { 7 } else { 5 }) } else { 0 }, &earlier);
                    let o = s.type_text(&mut t, &txt);
                    check_h(env, &mut rep, opts, &txt, &o, Some((&lead, &word, &trail)), &s.events);
                    if rep.samples.len() < 3 { rep.sample(json!({"typed": txt, "opts": opts.bits_str(), "observed": render_obs(&o, true)})); }
                    s.finish(&mut t);
                }
            }
            Kind::Marks(g) => {
                let marks: Vec<char> = typeable.iter().copied().filter(|c| c.is_ascii_punctuation()).collect();
                let (g, lists) = if *g >= 8 { (g - 8, true) } else { (*g, false) };
                for (i, &a) in marks.iter().enumerate() {
                    if i % 8 != g { continue; }
                    for &b in &marks {
                        // with the list on (a dictionary search per key) only the pairs that contain a full stop, a colon or a back-tick
                        if lists && !".:`".contains(a) && !".:`".contains(b) { continue; }
                        for w in ["5", "k"] {
                            for txt in [format!("{}{}{}", a, b, w), format!("{}{}{}", w, a, b), format!("{}{}{}", a, w, b)] {
                                let o = s.type_text(&mut t, &txt);
                                check(env, &mut rep, opts, &txt, &o, None);
                                rep.count("two-marks-text");
                                s.finish(&mut t);
                            }
                        }
                    }
                }
            }
            Kind::Arbitrary(_) => {
                let n = if env.quick() { 80 } else { 600 };
                for _ in 0..n {
                    let len = 1 + rng.below(12);
                    let txt = from_alphabet(&mut rng, TYPEABLE, len);
                    nth += 1; s.clear_events();
                    super::common::prelude(&mut s, &mut t, nth % 7, &earlier);
                    let o = s.type_text(&mut t, &txt);
                    check_h(env, &mut rep, opts, &txt, &o, None, &s.events);
                    s.finish(&mut t);
                }
            }
        }
        rep.slowest_event_s = s.imp.slowest;
        t.flush();
        rep
    });
    let mut rep = Report::new("c03");
    for r in reps { rep.merge(r); }
    rep.notes.push(format!("all strings of length <= {} over the 94 typeable characters with suggestions off under all 8 settings", if env.quick() { 2 } else { 3 }));
    rep
}
