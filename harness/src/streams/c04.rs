//! C04 — a fixed-layout key emits exactly the text the layout file assigns to it.
//! Oracle (model-free): complete enumeration of 65 536 key codes × modifier bytes × numpad on/off
//! for each layout, against the layout JSON read here and the key-name table transcribed from riti.h.
//! Trace (for the Lean driver): published keys, their neighbours and a seeded sample of other codes.
use super::*;
use riti_harness::layouts::*;
use riti_harness::par::par_map;
use std::collections::HashMap;

const MODS: [u8; 7] = [0, 1, 2, 3, 0x80, 0xFE, 0xFF];

fn expected(layout: &HashMap<String, String>, code: u16, m: u8, numpad: bool) -> Option<String> {
    let k = KEYS.iter().find(|k| k.1 == code)?;
    let (name, is_num) = entry_name(k.0)?;
    let v = if is_num { if numpad { layout.get(&name) } else { None } }
            else { layout.get(&format!("Key_{}_{}", name, if m & 2 == 2 { "AltGr" } else { "Normal" })) };
    v.filter(|s| !s.is_empty()).cloned()
}

pub fn run(env: &Env) -> Report {
    let dir = env.a.out.clone();
    let layouts = vec![("probhat", PathBuf::from(PROBHAT)), ("s1", write_s1(&dir)), ("probe", write_probe(&dir)), ("sparse", write_probe_sparse(&dir))];
    let mut shards = vec![];
    for (name, p) in &layouts { for numpad in [false, true] { shards.push((name.to_string(), p.clone(), numpad)); } }
    let seed = env.a.seed;
    let reps = par_map(shards.len(), |si| {
        let (lname, lpath, numpad) = &shards[si];
        let mut rep = Report::new("c04");
        let lp = lpath.to_str().unwrap();
        let lj: serde_json::Value = serde_json::from_str(&std::fs::read_to_string(lp).unwrap()).unwrap();
        let lmap: HashMap<String, String> = lj["layout"].as_object().unwrap().iter().map(|(k, v)| (k.clone(), v.as_str().unwrap_or("").to_string())).collect();
        let mut opts = Opts::none();
        opts.numpad = *numpad;
        let xdg = env.fresh_xdg(&format!("c04-{}", si));
        let mut t = env.trace(&format!("c04.{}", si));
        t.layout(lp, &env.tsv);
        t.line(&format!("case c04-{}-numpad{}", lname, *numpad as u8));
        let mut s = Sess::new(&mut t, &env.data, "c", lp, opts, &xdg).expect("context");
        // which codes go to the trace
        let mut rng = Rng::new(seed ^ (si as u64) << 8);
        let mut traced = std::collections::HashSet::new();
        for k in KEYS { traced.insert(k.1); traced.insert(k.1.wrapping_add(1)); traced.insert(k.1.wrapping_sub(1)); }
        for _ in 0..(if env.quick() { 1500 } else { 20000 }) { traced.insert(rng.below(65536) as u16); }
        for code in 0..=65535u16 {
            for m in MODS {
                let exp = expected(&lmap, code, m, *numpad);
                let in_trace = traced.contains(&code);
                let o = if in_trace { s.key(&mut t, code, m, 0) } else { s.imp.key(code, m, 0) };
                let ongoing = s.imp.ongoing();
                let got: Option<String> = match &o { Obs::Single { text, .. } => if text.is_empty() { None } else { Some(text.clone()) }, _ => Some("<not-a-single-suggestion>".into()) };
                let nontrivial = exp.is_some();
                let nk = format!("{}:{}:{}:{}", lname, code, m & 2, numpad);
                rep.eval(if nontrivial { Some(&nk) } else { None });
                rep.count(if exp.is_some() { "key-with-value" } else if KEYS.iter().any(|k| k.1 == code) { "published-key-without-value" } else { "unpublished-code" });
                let ok = got == exp && ongoing == exp.is_some();
                if !ok {
                    let first_is_kar = exp.as_ref().and_then(|e| e.chars().next()).map(|c| "\u{09BE}\u{09BF}\u{09C0}\u{09C1}\u{09C2}\u{09C3}\u{09C7}\u{09C8}\u{09CB}\u{09CC}\u{09C4}".contains(c)).unwrap_or(false);
                    let class = if first_is_kar && exp.as_ref().map(|e| e.chars().count() > 1).unwrap_or(false)
                        && got.as_deref() == exp.as_ref().map(|e| e.chars().take(1).collect::<String>()).as_deref() { "multi-codepoint-value-starting-with-vowel-sign" } else { "wrong-text-for-key" };
                    rep.violation("C04", class, format!("layout {} key {} modifier {} numpad {}: expected {:?}, got {:?}, ongoing {}", lname, code, m, numpad, exp, got, ongoing),
                        json!({"stream": "c04", "layout": lp, "opts": opts.bits_str(), "events": [format!("key {} {} 0", code, m)], "expected": exp, "observed": got}));
                }
                if rep.samples.len() < 2 && exp.is_some() { rep.sample(json!({"layout": lname, "key": code, "modifier": m, "numpad": numpad, "expected": exp, "observed": got})); }
                if got.is_some() || ongoing {
                    if in_trace { s.finish(&mut t); } else { s.imp.finish(); }
                }
            }
        }
        rep.slowest_event_s = s.imp.slowest;
        t.flush();
        rep
    });
    let mut rep = Report::new("c04");
    for r in reps { rep.merge(r); }
    rep.merge(switching(env));
    rep.merge(idle_no_value(env));
    // the layout FILE itself: generated documents read by serde_json (riti's steps), by the Lean reader and by riti (harness/src/layoutdoc.rs)
    rep.merge(riti_harness::layoutdoc::run(&env.a.out, &env.tsv, &env.scratch, &env.data, seed, env.quick()));
    rep.exhaustive = true;
    rep.notes.push("65536 key codes x 7 modifier bytes x numpad on/off x 4 layouts (Probhat, S1, probe, sparse probe with absent/empty entries in every pattern) enumerated completely against the implementation".into());
    rep
}

/// the layout file can also be loaded by re-configuring a LIVE context: one context is taken through a chain of layouts with
/// update_engine — another file, a file with the SAME NAME in another directory and other values, the phonetic method and back —
/// and after every step every published key (Normal and AltGr plane) must emit what the file now configured assigns to it
fn switching(env: &Env) -> Report {
    let dir = env.a.out.clone();
    let alt = dir.join("c04-alt"); let _ = std::fs::create_dir_all(&alt);
    let probe = write_probe(&dir);
    // same file name, other directory, other values (and a hole where the original has a value)
    let lj: serde_json::Value = serde_json::from_str(&std::fs::read_to_string(&probe).unwrap()).unwrap();
    let mut m2: std::collections::BTreeMap<String, String> = lj["layout"].as_object().unwrap().iter().map(|(k, v)| (k.clone(), format!("[{}]", v.as_str().unwrap_or("")))).collect();
    m2.insert("Key_k_Normal".into(), String::new()); m2.remove("Key_j_Normal");
    let twin = alt.join(probe.file_name().unwrap());
    std::fs::write(&twin, serde_json::to_string(&json!({"info": {"layout": {"name": "twin"}}, "layout": m2})).unwrap()).unwrap();
    let s1 = write_s1(&dir);
    let chain: Vec<String> = vec![probe.to_str().unwrap().into(), twin.to_str().unwrap().into(), PHONETIC.into(), twin.to_str().unwrap().into(), s1.to_str().unwrap().into(), PROBHAT.into(), probe.to_str().unwrap().into()];
    let mut rep = Report::new("c04");
    let xdg = env.fresh_xdg("c04-switch");
    let mut t = env.trace("c04.switch");
    for l in &chain { if l != PHONETIC { t.layout(l, &env.tsv); } }
    for numpad in [false, true] {
        t.line(&format!("case c04-switching-numpad{}", numpad as u8));
        let mut opts = Opts::none(); opts.numpad = numpad;
        let id = format!("sw{}", numpad as u8);
        let mut s = Sess::new(&mut t, &env.data, &id, &chain[0], opts, &xdg).expect("context");
        for (step, lp) in chain.iter().enumerate() {
            if step > 0 { s.update(&mut t, lp, opts); }
            if lp == PHONETIC { let o = s.key(&mut t, code_for_char('k').unwrap(), 0, 0); if s.imp.ongoing() { s.finish(&mut t); } let _ = o; continue; }
            let lj: serde_json::Value = serde_json::from_str(&std::fs::read_to_string(lp).unwrap()).unwrap();
            let lmap: HashMap<String, String> = lj["layout"].as_object().unwrap().iter().map(|(k, v)| (k.clone(), v.as_str().unwrap_or("").to_string())).collect();
            for k in KEYS {
                for m in [0u8, 2, 1] {
                    let exp = expected(&lmap, k.1, m, numpad);
                    let o = s.key(&mut t, k.1, m, 0);
                    let ongoing = s.imp.ongoing();
                    let got: Option<String> = match &o { Obs::Single { text, .. } => if text.is_empty() { None } else { Some(text.clone()) }, _ => Some("<not-a-single-suggestion>".into()) };
                    rep.eval(Some(&format!("switch|{}|{}|{}|{}", step, k.1, m, numpad))); rep.count("key-after-layout-switch");
                    let first_is_kar = exp.as_ref().and_then(|e| e.chars().next()).map(|c| "\u{09BE}\u{09BF}\u{09C0}\u{09C1}\u{09C2}\u{09C3}\u{09C7}\u{09C8}\u{09CB}\u{09CC}\u{09C4}".contains(c)).unwrap_or(false);
                    if got != exp || ongoing != exp.is_some() {
                        let class = if first_is_kar && exp.as_ref().map(|e| e.chars().count() > 1).unwrap_or(false) && got.as_deref() == exp.as_ref().map(|e| e.chars().take(1).collect::<String>()).as_deref() { "multi-codepoint-value-starting-with-vowel-sign" } else { "wrong-text-for-key" };
                        rep.violation("C04", class, format!("after re-configuring a live context (step {} of {:?}) key {} modifier {} numpad {}: the file now configured assigns {:?}, got {:?}, ongoing {}", step, chain, k.1, m, numpad, exp, got, ongoing),
                            json!({"stream": "c04", "layout": chain[0], "opts": opts.bits_str(), "events": s.events, "expected": exp, "observed": got}));
                    }
                    if got.is_some() || ongoing { s.finish(&mut t); }
                }
            }
            // keep the recorded history short: the replay only needs the updates and the last key
            s.events.retain(|e| e.starts_with("update"));
        }
        t.line(&format!("drop {}", id));
    }
    t.flush();
    rep
}

/// "keys with an empty or missing assignment and keys outside the layout change nothing" — also while IDLE after earlier words, and
/// also when the dictionary list is on (the engine then keeps the list of the last word around): a key without a value returns the
/// empty suggestion, opens no session, and the next key starts a clean word
fn idle_no_value(env: &Env) -> Report {
    let mut rep = Report::new("c04");
    let xdg = env.fresh_xdg("c04-idle");
    let mut t = env.trace("c04.idle");
    let lp = PROBHAT.to_string();
    t.layout(&lp, &env.tsv);
    for v in 0..4 {
        t.line(&format!("case c04-idle-{}", v));
        let mut opts = Opts::none(); opts.fixed_suggestion = v % 2 == 0; opts.english = v >= 2; opts.numpad = false;
        let id = format!("i{}", v);
        let mut s = match Sess::new(&mut t, &env.data, &id, &lp, opts, &xdg) { Some(s) => s, None => continue };
        let novalue: Vec<(u16, u8)> = vec![(76, 0), (82, 0), (3612, 0), (3597, 0), (0xFFFF, 0), (58, 0), (83, 2)];   // number pad (option off), keypad Enter / Equals, codes outside the layout
        for way in 0..5usize {
            for (ki, (code, m)) in novalue.iter().enumerate() {
                s.clear_events();
                super::common::prelude(&mut s, &mut t, way, &super::common::ascii_keys("kl"));
                let o = s.key(&mut t, *code, *m, 0);
                let on = s.imp.ongoing();
                rep.eval(Some(&format!("idle|{}|{}|{}", v, way, ki))); rep.count("idle-key-without-value");
                if !o.is_empty_suggestion() || on {
                    rep.violation("C04", "wrong-text-for-key", format!("a key without a value (code {}, modifier {}) pressed while idle (after a word that ended in way {}) returned {:?}, ongoing {}: it must change nothing", code, m, way, render_obs(&o, on), on),
                        json!({"stream": "c04", "layout": lp, "opts": opts.bits_str(), "events": s.events}));
                    if on { s.finish(&mut t); }
                }
            }
        }
        t.line(&format!("drop {}", id));
    }
    t.flush();
    rep
}
