//! C05 — suggestions depend only on the surviving typed text, not on typing history.
//! Oracle (model-free): a fresh context typing the target directly vs. edit histories, warm
//! contexts and interleavings with a second live context; all renderings must be equal.
use super::*;
use super::common::*;
use riti_harness::par::par_map;
use std::collections::HashMap;

pub fn store_sample() -> HashMap<String, String> {
    [("kor", "কোর"), ("kore", "করে"), ("ami", "অমি"), ("a", "আঃ"), ("bol", "বোল"), ("t", "ৎ"), ("e", "e"), ("sob", "সব্"), ("din", "দীন"), ("ng", "ং")]
        .iter().map(|(a, b)| (a.to_string(), b.to_string())).collect()
}

fn type_direct(s: &mut Sess, t: &mut Trace, txt: &str) -> Obs { s.type_text(t, txt) }

/// reach `txt` with detours: over-typing and erasing, abandoned attempts
fn type_edited(s: &mut Sess, t: &mut Trace, rng: &mut Rng, txt: &str) -> Obs {
    if rng.chance(30) {
        // an abandoned attempt first
        let junk = avro_word(rng, 5);
        s.type_text(t, &junk);
        if rng.chance(50) { s.backspace(t, true); } else { s.finish(t); }
    }
    let chars: Vec<char> = txt.chars().collect();
    let mut o = Obs::Unit;
    for (i, c) in chars.iter().enumerate() {
        if rng.chance(25) {
            let n = 1 + rng.below(3);
            let junk = from_alphabet(rng, "abkrtnsieou.:`'(", n);
            s.type_text(t, &junk);
            for _ in 0..n { s.backspace(t, false); }
        }
        o = s.key(t, code_for_char(*c).unwrap(), 0, 0);
        if rng.chance(10) && i + 1 < chars.len() {
            // erase the last character and retype it
            s.backspace(t, false);
            o = s.key(t, code_for_char(*c).unwrap(), 0, 0);
        }
    }
    o
}

fn same(a: &Obs, b: &Obs) -> bool {
    match (a, b) {
        (Obs::Full { cands: c1, sel: s1, aux: a1, .. }, Obs::Full { cands: c2, sel: s2, aux: a2, .. }) => c1 == c2 && s1 == s2 && a1 == a2,
        (x, y) => x == y,
    }
}

pub fn run(env: &Env) -> Report {
    let pools = WordPools::new(&env.data);
    let seed = env.a.seed;
    let nunits = if env.quick() { 32 } else { 256 };
    let per = if env.quick() { 18 } else { 80 };
    let reps = par_map(nunits, |ui| {
        let mut rep = Report::new("c05");
        let mut rng = Rng::new(seed.wrapping_mul(2654435761) ^ (ui as u64) << 16);
        let mut t = env.trace(&format!("c05.{}", ui));
        // a store of REAL learned choices: for a few bases the second candidate, as a commit would store it
        let mut learned: Vec<(String, String)> = vec![];
        {
            let xdg0 = env.fresh_xdg(&format!("c05-{}-learn", ui));
            t.line(&format!("case c05-{}-learn", ui));
            let mut o = Opts::none(); o.phonetic_suggestion = true;
            if let Some(mut s) = Sess::new(&mut t, &env.data, "l", PHONETIC, o, &xdg0) {
                for b in ["kor", "bol", "din", "desh", "sesh", "onno", "ami", "boi", "manush", "kaj"] {
                    if let Obs::Full { cands, .. } = s.type_text(&mut t, b) { if cands.len() > 1 { learned.push((b.to_string(), cands[1 + (ui % (cands.len() - 1))].clone())); } }
                    s.finish(&mut t);
                }
                t.line("drop l");
            }
        }
        let real_store: HashMap<String, String> = store_sample().into_iter().chain(learned.iter().cloned()).collect();
        for ti in 0..per {
            let mut opts = Opts::from_bits((rng.next() & 0x7FF) as u32);
            opts.phonetic_suggestion = !rng.chance(15);
            let with_store = rng.chance(65);
            // target text
            let w = pools.word(&mut rng);
            let target = match rng.below(10) {
                0 => format!("{}{}", w, rng.pick(&pools.suffixes)),
                1 => format!("({})", w), 2 => format!("\"{}\"", w), 3 => format!("{}:", w), 4 => format!("{}`", w),
                5 => { let n = 1 + rng.below(6); from_alphabet(&mut rng, TYPEABLE, n) }
                6 => format!("{}{}", ["kor", "kore", "ami", "bol", "sob"][rng.below(5)], ["", "e", "er", "i", "ke", "ei"][rng.below(6)]),
                7 | 8 if !learned.is_empty() => format!("{}{}{}", ["", "(", "\"", "'", "[", "("][rng.below(6)], learned[rng.below(learned.len())].0, ["e", "er", "ke", "gulo", "ta", "ra", "te", "i", "der", "ei"][rng.below(10)]),
                _ => w.clone(),
            };
            let target: String = target.chars().filter(|c| crate::code_ok(*c)).take(20).collect();
            if target.is_empty() { continue; }
            let case = format!("c05-{}-{}", ui, ti);
            t.line(&format!("case {}", case));
            let xdg = env.fresh_xdg(&case);
            if with_store { std::fs::write(user_dir(&xdg).join("phonetic-candidate-selection.json"), serde_json::to_string(&real_store).unwrap()).unwrap(); }
            let ctx = |variant: &str, events: &Vec<String>| json!({"stream": "c05", "layout": PHONETIC, "opts": opts.bits_str(), "target": target, "variant": variant, "store": with_store, "events": events});
            // (a) fresh, direct
            let mut a = match Sess::new(&mut t, &env.data, "a", PHONETIC, opts, &xdg) { Some(mut s) => { s.follow_sel = false; s } None => continue };
            let ra = type_direct(&mut a, &mut t, &target);
            rep.eval(Some(&format!("{}|{}|{}", opts.bits_str(), with_store, target)));
            if ra == Obs::Panic { rep.violation("C01", "panic", format!("typing {:?}", target), ctx("direct", &a.events)); continue; }
            // (b) edit histories
            let k = if env.quick() { 3 } else { 12 };
            for v in 0..k {
                let id = format!("b{}", v);
                let mut b = match Sess::new(&mut t, &env.data, &id, PHONETIC, opts, &xdg) { Some(mut s) => { s.follow_sel = false; s } None => continue };
                let rb = type_edited(&mut b, &mut t, &mut rng, &target);
                if !same(&ra, &rb) { rep.violation("C05", "history-dependent", format!("target {:?} opts {}: direct {:?} vs edited {:?}", target, opts.bits_str(), render_obs(&ra, true), render_obs(&rb, true)), ctx("edited", &b.events)); }
                t.line(&format!("drop {}", id));
                rep.count("edited-history");
            }
            // (c) warm context: related words composed and committed with the preselected index (no learning)
            {
                let mut c = match Sess::new(&mut t, &env.data, "w", PHONETIC, opts, &xdg) { Some(mut s) => { s.follow_sel = false; s } None => continue };
                let nwarm = 1 + rng.below(if env.quick() { 6 } else { 30 });
                let mut learned_in_warmup = false;
                for _ in 0..nwarm {
                    let other = match rng.below(5) {
                        0 => target.chars().take(1 + rng.below(target.chars().count())).collect::<String>(),
                        1 => format!("{}{}", target.trim_matches(|c: char| !c.is_ascii_alphanumeric()), rng.pick(&pools.suffixes)),
                        2 => { let (_, w, _) = split(&target, false); w.chars().take(1 + rng.below(w.chars().count().max(1))).collect() }
                        _ => pools.word(&mut rng),
                    };
                    let other: String = other.chars().filter(|c| crate::code_ok(*c)).take(20).collect();
                    if other.is_empty() { continue; }
                    // the earlier words end in every way a word can end: commit of the index on display (no learning), finish,
                    // ctrl-backspace, backspaces down to empty — and now and then a punctuation-only emoticon committed at index 0 / 1
                    // (one of them is not the engine's own choice, so something is learned under the EMPTY word part)
                    match rng.below(9) {
                        0 => { c.type_text(&mut t, &other); c.finish(&mut t); }
                        1 => { c.type_text(&mut t, &other); c.backspace(&mut t, true); }
                        2 => { c.type_text(&mut t, &other); for _ in 0..(other.chars().count() + 2) { if !c.imp.ongoing() { break; } c.backspace(&mut t, false); } if c.imp.ongoing() { c.finish(&mut t); } }
                        3 if opts.phonetic_suggestion && !opts.ansi => { prelude(&mut c, &mut t, 5 + rng.below(2), &[]); learned_in_warmup = true; }
                        _ => {
                            let o = c.type_text(&mut t, &other);
                            match &o { Obs::Full { sel, cands, .. } if *sel < cands.len() => { c.commit(&mut t, *sel); } _ => { c.finish(&mut t); } }
                        }
                    }
                }
                let rc = if rng.chance(50) { type_direct(&mut c, &mut t, &target) } else { type_edited(&mut c, &mut t, &mut rng, &target) };
                // the store is held fixed by the property: when the warm-up learned something, the reference is a brand-new context
                // created NOW over the same user directory
                let ra2 = if learned_in_warmup { match Sess::new(&mut t, &env.data, "a2", PHONETIC, opts, &xdg) { Some(mut f) => { f.follow_sel = false; let r = type_direct(&mut f, &mut t, &target); t.line("drop a2"); r } None => ra.clone() } } else { ra.clone() };
                let ra = ra2;
                if !same(&ra, &rc) { rep.violation("C05", "warm-context-differs", format!("target {:?} opts {}: fresh {:?} vs warm {:?}", target, opts.bits_str(), render_obs(&ra, true), render_obs(&rc, true)), ctx("warm", &c.events)); }
                rep.count("warm-context");
                // (d) interleaved with a second live context typing related text
                let mut d1 = match Sess::new(&mut t, &env.data, "d1", PHONETIC, opts, &xdg) { Some(mut s) => { s.follow_sel = false; s } None => continue };
                let mut d2 = match Sess::new(&mut t, &env.data, "d2", PHONETIC, Opts::from_bits((rng.next() & 0x7FF) as u32 | 2), &xdg) { Some(mut s) => { s.follow_sel = false; s } None => continue };
                let other: String = format!("{}{}", target, "er").chars().rev().collect::<String>() + &target;
                let oc: Vec<char> = other.chars().filter(|c| crate::code_ok(*c)).collect();
                let mut rd = Obs::Unit;
                for (i, ch) in target.chars().enumerate() {
                    rd = d1.key(&mut t, code_for_char(ch).unwrap(), 0, 0);
                    if let Some(c2) = oc.get(i) { d2.key(&mut t, code_for_char(*c2).unwrap(), 0, 0); }
                    if i % 3 == 2 { d2.backspace(&mut t, false); }
                }
                if !same(&ra, &rd) { rep.violation("C05", "interleaving-dependent", format!("target {:?} opts {}: alone {:?} vs interleaved {:?}", target, opts.bits_str(), render_obs(&ra, true), render_obs(&rd, true)), ctx("interleaved", &d1.events)); }
                rep.count("interleaved");
            }
            if rep.samples.len() < 3 { rep.sample(json!({"target": target, "opts": opts.bits_str(), "direct": render_obs(&ra, true)})); }
        }
        // a long-lived context: hundreds of words (well over a thousand memo entries) composed in ONE context; every
        // suffixed word is compared with a reference context that is replaced every ten words
        if ui % 8 == 0 {
            let case = format!("c05-{}-long", ui);
            t.line(&format!("case {}", case));
            let xdg = env.fresh_xdg(&case);
            let mut opts = Opts::none(); opts.phonetic_suggestion = true; opts.smart_quote = ui % 16 == 0;
            if let Some(mut long) = Sess::new(&mut t, &env.data, "long", PHONETIC, opts, &xdg) {
                long.follow_sel = false;
                let mut reference: Option<Sess> = None;
                let nwords = if env.quick() { 160 } else { 1500 };
                for wi in 0..nwords {
                    if wi % 10 == 0 { if reference.is_some() { t.line("drop ref"); } reference = Sess::new(&mut t, &env.data, "ref", PHONETIC, opts, &xdg).map(|mut s| { s.follow_sel = false; s }); }
                    let r = match reference.as_mut() { Some(r) => r, None => break };
                    let base = { let mut w = pools.word(&mut rng); while !w.chars().all(|c| c.is_ascii_alphabetic()) || w.len() < 2 { w = pools.word(&mut rng); } w };
                    let txt: String = format!("{}{}", base, rng.pick(&pools.suffixes)).chars().filter(|c| crate::code_ok(*c)).take(18).collect();
                    let (oa, ob) = (long.type_text(&mut t, &txt), r.type_text(&mut t, &txt));
                    if !same(&oa, &ob) { rep.violation("C05", "long-lived-context-differs", format!("word {} {:?} in a context that has composed {} words: {:?} vs fresh {:?}", wi, txt, wi, render_obs(&oa, true), render_obs(&ob, true)), json!({"stream": "c05", "layout": PHONETIC, "opts": opts.bits_str(), "words_before": wi, "events_tail": long.events.iter().rev().take(40).rev().collect::<Vec<_>>()})); break; }
                    long.finish(&mut t); r.finish(&mut t);
                    rep.eval(Some(&format!("long|{}|{}", ui, txt)));
                    rep.count("long-lived-word");
                }
            }
        }
        // texts that SHARE A WORD PART: the memo is keyed by the word part alone, so what was computed for it inside one text (an
        // emoticon such as `;d` or `=s`, whose word part is a letter; a quoted or bracketed form) must serve every other text with
        // the same word part. Each emoticon with a letter/digit word part, in both orders: emoticon first then the bare word part,
        // its suffixed forms and wrapped forms — and the other way round — each compared with a brand-new context
        if ui % 8 == 1 {
            let group = ui / 8; let ngroups = (nunits + 6) / 8;
            let mut opts = Opts::none(); opts.phonetic_suggestion = true; opts.english = group % 2 == 1; opts.smart_quote = group % 3 == 0;
            let mut k = 0usize;
            for emo in pools.emoticons.iter() {
                let (_, w, _) = split(emo, false);
                if w.is_empty() || !w.chars().all(|c| c.is_ascii_alphanumeric()) { continue; }
                k += 1; if k % ngroups != group % ngroups { continue; }
                let follow: Vec<String> = vec![w.clone(), format!("{}er", w), format!("({}te)", w), format!("{}ke", w), format!("\"{}\"", w), emo.clone()];
                for order in 0..2 {
                    let case = format!("c05-{}-emo-{}-{}", ui, k, order);
                    t.line(&format!("case {}", case));
                    let xdg = env.fresh_xdg(&case);
                    let mut used = match Sess::new(&mut t, &env.data, "used", PHONETIC, opts, &xdg) { Some(mut s) => { s.follow_sel = false; s } None => continue };
                    let seq: Vec<String> = if order == 0 { std::iter::once(emo.clone()).chain(follow.iter().cloned()).collect() } else { follow.iter().cloned().chain(std::iter::once(emo.clone())).collect() };
                    for (i, txt) in seq.iter().enumerate() {
                        if !txt.chars().all(crate::code_ok) { continue; }
                        let ou = if i % 2 == 0 { type_direct(&mut used, &mut t, txt) } else { type_edited(&mut used, &mut t, &mut rng, txt) };
                        let mut fresh = match Sess::new(&mut t, &env.data, "fresh", PHONETIC, opts, &xdg) { Some(mut s) => { s.follow_sel = false; s } None => continue };
                        let of = type_direct(&mut fresh, &mut t, txt);
                        t.line("drop fresh");
                        rep.eval(Some(&format!("emo|{}|{}|{}", opts.bits_str(), emo, txt)));
                        rep.count("shared-word-part");
                        if !same(&ou, &of) {
                            rep.violation("C05", "warm-context-differs", format!("text {:?} in a context that has composed {:?}: {:?} vs brand-new context {:?}", txt, &seq[..i], render_obs(&ou, true), render_obs(&of, true)),
                                json!({"stream": "c05", "layout": PHONETIC, "opts": opts.bits_str(), "target": txt, "variant": "shared word part", "store": false, "events": used.events}));
                            break;
                        }
                        // half of the words end by a backspace run instead of finish: the memo survives both
                        if i % 3 == 2 { for _ in 0..txt.chars().count() { used.backspace(&mut t, false); } } else { used.finish(&mut t); }
                    }
                    t.line("drop used");
                }
            }
        }
        // the configuration changes in the MIDDLE of a word (update_engine), then a key WITHOUT a character (keypad Enter) asks for the
        // suggestion again. C05 quantifies over histories under ONE configuration, so this is not held to the oracle (a first version did,
        // and a variant "list off, word typed, list on again" raised an alarm on the unchanged tree: the suffix forms need the prefixes to have
        // been looked up key by key with the list on — DESIGN §10.3); the events are traced, the model correspondence sees them.
        if ui % 8 == 4 {
            let xdg = env.fresh_xdg(&format!("c05-{}-flip", ui));
            for (wi, w) in ["as", "smile", "ami", "kor", "atm", "bol"].iter().enumerate() {
                for flip in 0..3usize {
                    t.line(&format!("case c05-{}-flip-{}-{}", ui, wi, flip));
                    let mut o1 = Opts::none(); o1.phonetic_suggestion = true; o1.smart_quote = ui % 16 == 4;
                    let mut o2 = o1; match flip { 0 => o2.english = true, 1 => o2.ansi = true, _ => o2.smart_quote = !o2.smart_quote }
                    let mut warm = match Sess::new(&mut t, &env.data, "warm", PHONETIC, o1, &xdg) { Some(mut s) => { s.follow_sel = false; s } None => continue };
                    warm.type_text(&mut t, w); warm.update(&mut t, PHONETIC, o2);
                    warm.key(&mut t, 3612, 0, 0);
                    warm.finish(&mut t);
                    rep.count("midword-flip-ignored-key");
                    t.line("drop warm");
                }
            }
        }
        // the DATA FILE of the user (auto-correct list) is edited and then removed while a warm context lives; after the configuration is
        // reloaded the warm context and a brand-new one see the same files, so they must show the same suggestions — also for the
        // words the warm context composed (and memoised) under the old file
        if ui % 8 == 2 {
            let case = format!("c05-{}-userfile", ui);
            t.line(&format!("case {}", case));
            let xdg = env.fresh_xdg(&case);
            let mut opts = Opts::none(); opts.phonetic_suggestion = true; opts.english = ui % 16 == 2;
            let acp = user_dir(&xdg).join("autocorrect.json");
            let v1: HashMap<String, String> = [("bd", "bangladesh"), ("ami", "tumi"), ("atm", "atom"), ("kor", "kOr")].iter().map(|(a, b)| (a.to_string(), b.to_string())).collect();
            std::fs::write(&acp, serde_json::to_string(&v1).unwrap()).unwrap();
            if let Some(mut warm) = Sess::new(&mut t, &env.data, "warm", PHONETIC, opts, &xdg) {
                warm.follow_sel = false;
                let probe = ["bd", "bder", "ami", "amike", "atm", "atme", "kor", "korei", "bon"];
                for w in probe { warm.type_text(&mut t, w); warm.finish(&mut t); }
                for step in 0..2 {
                    if step == 0 {
                        let v2: HashMap<String, String> = [("bd", "bideshi"), ("kor", "kar"), ("bon", "bondhu")].iter().map(|(a, b)| (a.to_string(), b.to_string())).collect();
                        std::fs::write(&acp, serde_json::to_string(&v2).unwrap()).unwrap();
                        if let Ok(f) = std::fs::OpenOptions::new().write(true).open(&acp) { let _ = f.set_modified(std::time::SystemTime::now() + std::time::Duration::from_secs(3600)); }
                    } else { let _ = std::fs::remove_file(&acp); }
                    warm.update(&mut t, PHONETIC, opts);
                    let id = format!("new{}", step);
                    let mut fresh = match Sess::new(&mut t, &env.data, &id, PHONETIC, opts, &xdg) { Some(mut s) => { s.follow_sel = false; s } None => break };
                    for w in probe {
                        let (ow, of) = (warm.type_text(&mut t, w), fresh.type_text(&mut t, w));
                        rep.eval(Some(&format!("userfile|{}|{}|{}", ui, step, w))); rep.count("user-file-change-word");
                        if !same(&ow, &of) {
                            rep.violation("C05", "warm-context-differs", format!("user auto-correct file {} + configuration reloaded: {:?} in the warm context {:?} vs brand-new context {:?}", if step == 0 { "edited" } else { "removed" }, w, render_obs(&ow, true), render_obs(&of, true)),
                                json!({"stream": "c05", "layout": PHONETIC, "opts": opts.bits_str(), "target": w, "variant": "user file changed under a warm context", "store": false, "events": warm.events}));
                            break;
                        }
                        warm.finish(&mut t); fresh.finish(&mut t);
                    }
                    t.line(&format!("drop {}", id));
                }
                t.line("drop warm");
            }
        }
        t.flush();
        rep
    });
    let mut rep = Report::new("c05");
    for r in reps { rep.merge(r); }
    rep
}
