//! C06 — ending a word erases every trace of it; the session flag tells the truth.
//! Oracle (model-free): differential replay of a continuation in the used context and in a
//! brand-new one over a copy of the same user directory.
use super::*;
use super::c01::{mk_layouts, register_layouts, Layouts, rand_opts};
use riti_harness::par::par_map;

fn copy_dir(from: &Path, to: &Path) {
    let _ = std::fs::remove_dir_all(to);
    std::fs::create_dir_all(to).unwrap();
    if let Ok(rd) = std::fs::read_dir(from) { for e in rd.flatten() { let _ = std::fs::copy(e.path(), to.join(e.file_name())); } }
}

/// keys biased towards buffer/keys length mismatches for the fixed method (typed through S1/S2/Probhat)
fn rand_key(rng: &mut Rng, phon: bool) -> (u16, u8) {
    let pool: &str = if phon { "abdeghiklmnorstu.:`'\"()k" } else { "krtTaiIuUREOwWhcnjJ1m.lxyzKgsbdoe'\"(:/" };
    let c = *rng.pick(&pool.chars().collect::<Vec<_>>());
    (code_for_char(c).unwrap(), if rng.chance(10) { 2 } else { 0 })
}

/// "the session flag tells the truth": a call that leaves no session ongoing must not offer anything
fn flag_check(rep: &mut Report, o: &Obs, ongoing: bool, ctx: serde_json::Value) {
    if ongoing { return; }
    let offers = match o {
        Obs::Full { cands, pres, aux, .. } => !aux.is_empty() || cands.iter().any(|c| !c.is_empty()) || pres.iter().any(|p| p.as_deref().map(|x| !x.is_empty()).unwrap_or(false)),
        Obs::Single { text, pre, .. } => !text.is_empty() || pre.as_deref().map(|x| !x.is_empty()).unwrap_or(false),
        _ => false,
    };
    if offers { rep.violation("C06", "offer-without-session", format!("a key returned {:?} but no session is ongoing", render_obs(o, ongoing)), ctx); }
}

fn history(s: &mut Sess, t: &mut Trace, rng: &mut Rng, phon: bool, n: usize, rep: &mut Report, ctxv: &dyn Fn(&Sess) -> serde_json::Value) {
    for _ in 0..n {
        let r = rng.below(100);
        if r < 72 { let (k, m) = rand_key(rng, phon); let o = s.key(t, k, m, 0); let on = s.imp.ongoing(); flag_check(rep, &o, on, ctxv(s)); }
        else if r < 90 {
            let before = s.imp.ongoing();
            let o = s.backspace(t, rng.chance(10));
            let on = s.imp.ongoing();
            if !before && (!o.is_empty_suggestion() || on) { rep.violation("C06", "idle-backspace-not-inert", "backspace when idle".into(), ctxv(s)); }
        }
        else if r < 96 {
            let can = match &s.last { Obs::Full { cands, .. } => !cands.is_empty(), Obs::Single { text, .. } => !text.is_empty(), _ => false } && s.imp.ongoing();
            if can { let idx = match &s.last { Obs::Full { cands, .. } => rng.below(cands.len()), _ => 0 }; s.commit(t, idx); s.last = Obs::Unit; }
        } else { s.finish(t); s.last = Obs::Unit; }
    }
}

pub fn run(env: &Env) -> Report {
    let lay = mk_layouts(env);
    let seed = env.a.seed;
    let nunits = 32;
    let per = if env.quick() { 60 } else { 3000 };
    let reps = par_map(nunits, |ui| {
        let mut rep = Report::new("c06");
        let mut rng = Rng::new(seed.wrapping_mul(48271) ^ (ui as u64) << 24);
        let mut t = env.trace(&format!("c06.{}", ui));
        register_layouts(&mut t, env, &lay);
        let layouts = [PHONETIC, &lay.probhat, &lay.s1, &lay.s2, &lay.s2];
        for pi in 0..per {
            let layout = rng.pick(&layouts).to_string();
            let phon = layout == PHONETIC;
            let mut opts = rand_opts(&mut rng);
            if rng.chance(60) { opts.fixed_suggestion = true; opts.english = true; opts.ansi = false; }
            let case = format!("c06-{}-{}", ui, pi);
            t.line(&format!("case {}", case));
            let xdg = env.fresh_xdg(&case);
            let mut a = match Sess::new(&mut t, &env.data, "a", &layout, opts, &xdg) { Some(s) => s, None => continue };
            let ctxv = |s: &Sess| json!({"stream": "c06", "layout": s.layout, "opts": s.opts.bits_str(), "events": s.events});
            let hl = 2 + rng.below(14);
            history(&mut a, &mut t, &mut rng, phon, hl, &mut rep, &ctxv);
            // make sure something is being composed, then terminate
            if !a.imp.ongoing() { let n = 1 + rng.below(5); for _ in 0..n { let (k, m) = rand_key(&mut rng, phon); let o = a.key(&mut t, k, m, 0); let on = a.imp.ongoing(); flag_check(&mut rep, &o, on, ctxv(&a)); } }
            let term = rng.below(4);
            let mut terminated = true;
            match term {
                0 => { let can = match &a.last { Obs::Full { cands, .. } => !cands.is_empty(), Obs::Single { text, .. } => !text.is_empty(), _ => false } && a.imp.ongoing();
                       if can { let idx = match &a.last { Obs::Full { cands, .. } => rng.below(cands.len()), _ => 0 }; a.commit(&mut t, idx); } else { a.finish(&mut t); } }
                1 => { a.finish(&mut t); }
                2 => { if a.imp.ongoing() { let o = a.backspace(&mut t, true); if !o.is_empty_suggestion() { terminated = false; }
                       // "only a pending sign" needs a second step
                       if a.imp.ongoing() { a.backspace(&mut t, true); } } }
                _ => { // repeated backspaces always reach the idle state
                    let mut guard = 0;
                    loop {
                        let o = a.backspace(&mut t, false); guard += 1;
                        let on = a.imp.ongoing();
                        if o.is_empty_suggestion() && on {
                            // known shape: phonetic, suggestions off, what is left transliterates to nothing (a lone back-tick)
                            let cls = if phon && !opts.phonetic_suggestion { "empty-transliteration-keeps-session" } else { "session-after-empty-suggestion" };
                            rep.violation("C06", cls, "backspace returned the empty suggestion but the session is still ongoing".into(), ctxv(&a));
                        }
                        if !on || guard > 200 { break; }
                    }
                    if guard > 200 { rep.violation("C06", "backspaces-do-not-reach-idle", "200 backspaces did not empty the composition".into(), ctxv(&a)); terminated = false; }
                }
            }
            a.last = Obs::Unit;
            if !terminated { continue; }
            rep.count(["term-commit", "term-finish", "term-ctrl-backspace", "term-backspaces"][term]);
            if a.imp.ongoing() { rep.violation("C06", "session-after-terminating-event", format!("ongoing after terminating event {}", term), ctxv(&a)); }
            // keys pressed while idle that compose nothing (no value in the layout, or a value the engine drops — a sign
            // without independent form in a vowel-forming position, Probhat AltGr+d) must leave the context idle AND clean:
            // the comparison with a fresh context below starts after them
            if !phon && rng.chance(30) {
                for _ in 0..1 + rng.below(2) {
                    let c = *rng.pick(&['d', 'd', 'x', 'q', 'f', '1']);
                    let o = a.key(&mut t, code_for_char(c).unwrap(), 2, 0);
                    let on = a.imp.ongoing();
                    flag_check(&mut rep, &o, on, ctxv(&a));
                    if on { a.finish(&mut t); }
                }
                rep.count("idle-keys-before-fresh");
            }
            // continuation, replayed in a fresh context over a copy of the user directory
            let xdg_b = env.scratch.join(format!("{}-b", case));
            copy_dir(&user_dir(&xdg), &user_dir(&xdg_b));
            t.line("# fresh context over a copy of the user directory");
            let mut b = match Sess::new(&mut t, &env.data, "b", &layout, opts, &xdg_b) { Some(s) => s, None => continue };
            let cl = 1 + rng.below(10);
            let mut crng = rng.fork();
            let mut diverged = false;
            for _ in 0..cl {
                let r = crng.below(100);
                let (oa, ob) = if r < 80 { let (k, m) = rand_key(&mut crng, phon); (a.key(&mut t, k, m, 0), b.key(&mut t, k, m, 0)) }
                    else if r < 92 { let c = crng.chance(10); (a.backspace(&mut t, c), b.backspace(&mut t, c)) }
                    else { (a.finish(&mut t), b.finish(&mut t)) };
                let (na, nb) = (a.imp.ongoing(), b.imp.ongoing());
                // sort_unstable: compare the fixed-method lists as multisets per… keep it strict on text sets
                let eq = match (&oa, &ob) {
                    (Obs::Full { cands: c1, sel: s1, aux: a1, .. }, Obs::Full { cands: c2, sel: s2, aux: a2, .. }) => { let mut x = c1.clone(); let mut y = c2.clone(); if !phon { x.sort(); y.sort(); } x == y && s1 == s2 && a1 == a2 }
                    (x, y) => x == y,
                };
                if (!eq || na != nb) && !diverged {
                    diverged = true;
                    let mut v = ctxv(&a); v["fresh_events"] = json!(b.events);
                    rep.violation("C06", "leak-into-next-word", format!("layout {} opts {}: used context {:?} vs fresh context {:?}", layout, opts.bits_str(), render_obs(&oa, na), render_obs(&ob, nb)), v);
                }
            }
            rep.eval(Some(&format!("{}|{}|{}", layout, opts.bits_str(), a.events.len())));
            if rep.samples.len() < 3 { rep.sample(json!({"layout": layout, "opts": opts.bits_str(), "events": a.events})); }
            let _ = std::fs::remove_dir_all(&xdg_b); let _ = std::fs::remove_dir_all(&xdg);
        }
        // "any number of earlier words": ONE context ends word after word (hundreds of distinct word parts, every way of ending in turn);
        // now and then the next word — a base with a suffix, typed key by key — is also typed into a brand-new context over the same user
        // directory: candidates, preselection and flag agree after every key
        if ui % (if env.quick() { 16 } else { 8 }) == 3 {
            let pools = super::common::WordPools::new(&env.data);
            let case = format!("c06-{}-long", ui);
            t.line(&format!("case {}", case));
            let xdg = env.fresh_xdg(&case);
            let mut opts = Opts::none(); opts.phonetic_suggestion = true; opts.smart_quote = ui % 16 == 3;
            if let Some(mut a) = Sess::new(&mut t, &env.data, "long", PHONETIC, opts, &xdg) {
                a.follow_sel = false;
                let nwords = if env.quick() { 60 } else { 800 };
                'words: for wi in 0..nwords {
                    let base = { let mut w = pools.word(&mut rng); let mut g = 0; while (!w.chars().all(|c| c.is_ascii_alphabetic()) || w.len() < 3) && g < 50 { w = pools.word(&mut rng); g += 1; } w };
                    if !base.chars().all(|c| c.is_ascii_alphabetic()) { continue; }
                    let txt: String = format!("{}{}", base, rng.pick(&pools.suffixes)).chars().filter(|c| crate::code_ok(*c)).take(16).collect();
                    if wi % 3 == 2 {
                        a.clear_events();
                        let mut b = match Sess::new(&mut t, &env.data, "new", PHONETIC, opts, &xdg) { Some(mut s) => { s.follow_sel = false; s } None => break };
                        for ch in txt.chars() {
                            let code = code_for_char(ch).unwrap();
                            let (oa, ob) = (a.key(&mut t, code, 0, 0), b.key(&mut t, code, 0, 0));
                            let (na, nb) = (a.imp.ongoing(), b.imp.ongoing());
                            let eq = match (&oa, &ob) { (Obs::Full { cands: c1, sel: s1, aux: a1, .. }, Obs::Full { cands: c2, sel: s2, aux: a2, .. }) => c1 == c2 && s1 == s2 && a1 == a2, (x, y) => x == y };
                            rep.count("long-lived-key");
                            if !eq || na != nb {
                                rep.violation("C06", "leak-into-next-word", format!("a context that has ended {} words: typing {:?} shows {:?}, a brand-new context {:?}", wi, txt, render_obs(&oa, na), render_obs(&ob, nb)),
                                    json!({"stream": "c06", "layout": PHONETIC, "opts": opts.bits_str(), "words_ended_before": wi, "events": a.events, "fresh_events": b.events}));
                                break 'words;
                            }
                        }
                        b.finish(&mut t); t.line("drop new");
                        rep.eval(Some(&format!("long|{}|{}", ui, txt)));
                    } else { a.type_text(&mut t, &txt); }
                    // every way of ending a word in turn (the commit takes the index on display: nothing is learned)
                    match wi % 4 { 0 => { a.finish(&mut t); } 1 => { a.backspace(&mut t, true); } 2 => { match &a.last { Obs::Full { sel, cands, .. } if *sel < cands.len() => { let i = *sel; a.commit(&mut t, i); } _ => { a.finish(&mut t); } } } _ => { for _ in 0..(txt.chars().count() + 2) { if !a.imp.ongoing() { break; } a.backspace(&mut t, false); } if a.imp.ongoing() { a.finish(&mut t); } } }
                    if a.imp.ongoing() { rep.violation("C06", "session-after-terminating-event", format!("ongoing after word {} ended (way {})", wi, wi % 4), json!({"stream": "c06", "layout": PHONETIC, "opts": opts.bits_str(), "events": a.events})); break; }
                }
                t.line("drop long");
            }
        }
        t.flush();
        rep
    });
    let mut rep = Report::new("c06");
    for r in reps { rep.merge(r); }
    let _ = (None::<Layouts>,);
    rep
}
