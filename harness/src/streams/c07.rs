//! C07 (ranking) and C08 (justification / suffix completeness): typed texts under all option settings,
//! each candidate classified independently of the engine.
use super::*;
use super::common::*;
use riti_harness::par::par_map;
use std::collections::HashMap;

/// C07 + C08 clauses on one observed list
pub fn check_list(env: &Env, rep: &mut Report, opts: &Opts, user_ac: &HashMap<String, String>, text: &str, o: &Obs, all_prefixes_typed: bool) {
    check_list_h(env, rep, opts, user_ac, text, o, all_prefixes_typed, &[])
}

/// … `hist`: the recorded events of the context (its route, an earlier word and how it ended, the keys of the text): the replay
pub fn check_list_h(env: &Env, rep: &mut Report, opts: &Opts, user_ac: &HashMap<String, String>, text: &str, o: &Obs, all_prefixes_typed: bool, hist: &[String]) {
    let d = &env.data;
    let cands = match o { Obs::Full { cands, .. } => cands, Obs::Panic => { rep.violation("C01", "panic", format!("typed {:?}", text), json!({"text": text, "opts": opts.bits_str()})); return; } _ => return };
    let mut ctx = json!({"stream": "c07", "layout": PHONETIC, "opts": opts.bits_str(), "text": text, "observed": cands, "user_autocorrect": user_ac});
    if !hist.is_empty() { ctx["events"] = json!(hist); }
    let (cp, w, cr) = wrapping(d, opts, text);
    let cl = classify(d, user_ac, &w);
    let spec: HashMap<&str, &Class> = cl.items.iter().map(|(t, c)| (t.as_str(), c)).collect();
    let emoticon = if opts.ansi { None } else { d.emoticons.get(text).copied() };
    let names: Vec<String> = if opts.ansi || emoticon.is_some() { vec![] } else { d.emoji_names.get(w.as_str()).map(|v| v.iter().map(|e| format!("{}{}{}", cp, e, cr)).collect()).unwrap_or_default() };
    let english_on = opts.english && !opts.ansi;
    let nk = format!("{}|{}", opts.bits_str(), text);
    rep.eval(if cl.items.len() > 1 || emoticon.is_some() || !names.is_empty() { Some(&nk) } else { None });
    // classify observed items
    #[derive(Debug, Clone, PartialEq)] enum K { Spec(Class), Emoji, Literal, Unknown }
    let mut kinds = vec![];
    for (i, c) in cands.iter().enumerate() {
        let k = if emoticon.map(|e| e == c).unwrap_or(false) || names.contains(c) { K::Emoji }
            else if let Some(core) = unwrap_cand(c, &cp, &cr).and_then(|core| spec.get(core).map(|x| (*x).clone())) {
                // the raw text may coincide with a specified candidate; prefer the specified class unless it is the trailing English item
                if c == text && i + 1 == cands.len() && english_on && core == Class::Translit && cands.iter().filter(|x| *x == c).count() > 1 { K::Literal } else { K::Spec(core) }
            }
            else if c == text && (english_on || emoticon.is_some()) { K::Literal }
            else { K::Unknown };
        kinds.push(k);
    }
    // C08 soundness
    for (i, k) in kinds.iter().enumerate() {
        if *k == K::Unknown {
            rep.violation("C08", "unjustified-candidate", format!("typed {:?} opts {}: candidate {:?} is not justified by auto-correct, dictionary, suffix, emoji, transliteration or raw text", text, opts.bits_str(), cands[i]), ctx.clone());
        }
    }
    // C08 completeness
    // (C08 quantifies over words of letters and digits: only then is every proper prefix itself a word part)
    if all_prefixes_typed && w.chars().all(|c| c.is_ascii_alphanumeric()) {
        for (t, c) in &cl.items {
            if matches!(c, Class::SuffixOfAc | Class::SuffixOfDict(_)) {
                let full = format!("{}{}{}", cp, t, cr);
                if !cands.contains(&full) {
                    rep.violation("C08", "missing-suffix-form", format!("typed {:?} opts {}: joined form {:?} not offered", text, opts.bits_str(), full), ctx.clone());
                }
            }
        }
        for (t, c) in &cl.items {
            if matches!(c, Class::Dict(_) | Class::AutoCorrect) {
                let full = format!("{}{}{}", cp, t, cr);
                if !cands.contains(&full) { rep.violation("C08", "missing-direct-candidate", format!("typed {:?} opts {}: {:?} not offered", text, opts.bits_str(), full), ctx.clone()); }
            }
        }
    }
    // C07.6 no duplicates
    for i in 0..cands.len() { for j in 0..i { if cands[i] == cands[j] {
        rep.violation("C07", "duplicate-candidate", format!("typed {:?} opts {}: {:?} occurs twice in {:?}", text, opts.bits_str(), cands[i], cands), ctx.clone());
    } } }
    // C07.1 auto-correct first
    if let Some(ac) = &cl.ac {
        let full = format!("{}{}{}", cp, ac, cr);
        if cands.first() != Some(&full) { rep.violation("C07", "autocorrect-not-first", format!("typed {:?} opts {}: auto-correct {:?} is not first in {:?}", text, opts.bits_str(), full, cands), ctx.clone()); }
        rep.count("has-autocorrect");
    }
    // C07.2 distances non-decreasing among dictionary-class items
    let mut last: Option<(usize, usize)> = None;
    for (i, k) in kinds.iter().enumerate() {
        let dist = match k { K::Spec(Class::Dict(x)) | K::Spec(Class::SuffixOfDict(x)) => Some(*x), _ => None };
        if let Some(x) = dist {
            if let Some((pi, px)) = last { if px > x {
                let cls = if px >= 26 || x >= 26 { "rank-wraps-at-distance-26" } else { "distance-not-monotone" };
                rep.violation("C07", cls, format!("typed {:?} opts {}: {:?} (distance {}) precedes {:?} (distance {})", text, opts.bits_str(), cands[pi], px, cands[i], x), ctx.clone());
            } }
            last = Some((i, x));
            rep.count("dict-item");
        }
    }
    // C07.3 transliteration after every dictionary word (unless it is one)
    if let Some(ti) = kinds.iter().position(|k| *k == K::Spec(Class::Translit)) {
        for (i, k) in kinds.iter().enumerate() {
            if i > ti && matches!(k, K::Spec(Class::Dict(_)) | K::Spec(Class::SuffixOfDict(_)) | K::Spec(Class::AutoCorrect) | K::Spec(Class::SuffixOfAc)) {
                rep.violation("C07", "transliteration-before-dictionary-word", format!("typed {:?} opts {}: {:?}", text, opts.bits_str(), cands), ctx.clone());
            }
        }
    }
    // C07.4 English last
    if english_on && emoticon.is_none() && text != cp {
        if cands.last().map(|s| s.as_str()) != Some(text) && !(cands.contains(&text.to_string())) {
            rep.violation("C07", "english-not-last", format!("typed {:?} opts {}: raw text is not the last candidate of {:?}", text, opts.bits_str(), cands), ctx.clone());
        } else if cands.last().map(|s| s.as_str()) != Some(text) {
            // the text is present earlier: only legitimate if it coincides with another candidate (kept once)
            let pos = cands.iter().position(|c| c == text).unwrap();
            if kinds[pos] == K::Literal { rep.violation("C07", "english-not-last", format!("typed {:?} opts {}: raw text at {} of {:?}", text, opts.bits_str(), pos, cands), ctx.clone()); }
        }
        rep.count("english-item");
    }
    // C07.5 emoji never precedes a dictionary word equal to the transliteration
    for (i, k) in kinds.iter().enumerate() {
        if matches!(k, K::Spec(Class::Dict(0))) && kinds[..i].iter().any(|x| *x == K::Emoji) {
            rep.violation("C07", "emoji-before-exact-match", format!("typed {:?} opts {}: {:?}", text, opts.bits_str(), cands), ctx.clone());
        }
    }
    if kinds.iter().any(|k| *k == K::Emoji) { rep.count("has-emoji"); }
    if rep.samples.len() < 3 && cl.items.len() > 3 { rep.sample(json!({"typed": text, "opts": opts.bits_str(), "candidates": cands})); }
}

fn settings16() -> Vec<(Opts, bool)> {
    // {English, ANSI, smart quotes, user auto-correct list present}
    let mut v = vec![];
    for b in 0..16u32 {
        let mut o = Opts::none(); o.phonetic_suggestion = true;
        o.english = b & 1 == 1; o.ansi = b & 2 == 2; o.smart_quote = b & 4 == 4;
        v.push((o, b & 8 == 8));
    }
    v
}

pub fn user_ac_sample() -> HashMap<String, String> {
    [("ami", "tumi"), ("k", "kha"), ("x", "ekS"), ("academy", "ekaDemi"), ("kor", "kOr"), ("emon", ""), ("gg", "good game")]
        .iter().map(|(a, b)| (a.to_string(), b.to_string())).collect()
}

pub fn run(env: &Env) -> Report {
    let pools = WordPools::new(&env.data);
    let seed = env.a.seed;
    let sets = settings16();
    let typeable: Vec<char> = TYPEABLE.chars().collect();
    // work units: (setting index, kind, part)
    #[derive(Clone)] enum Kind { Short(usize, usize), AcKeys(usize, usize), Emoji(usize, usize), Guided(usize), Suffix(usize), AllSuffixes(usize, usize), JoinClasses(usize, usize), UserOver(usize), FarHits, Long }
    let mut units: Vec<(usize, Kind)> = vec![];
    let short_sets: Vec<usize> = if env.quick() { vec![(seed as usize) % 16, (seed as usize * 7 + 5) % 16] } else { (0..16).collect() };
    for &si in &short_sets { for g in 0..8 { units.push((si, Kind::Short(g, 8))); } }
    let nset = if env.quick() { 4 } else { 16 };
    for k in 0..nset { let si = (seed as usize + k * 5) % 16; for g in 0..2 { units.push((si, Kind::AcKeys(g, 2 * if env.quick() { 4 } else { 1 }))); units.push((si, Kind::Emoji(g, 2 * if env.quick() { 3 } else { 1 }))); } }
    for k in 0..(if env.quick() { 16 } else { 128 }) { units.push((k % 16, Kind::Guided(k))); units.push((k % 16, Kind::Suffix(k))); }
    // every one of the suffix keys of suffix.json at least once per run (C08 quantifies over all of them)
    for g in 0..8 { units.push(((seed as usize + g * 3) % 16, Kind::AllSuffixes(g, 8))); }
    for g in 0..8 { units.push(((seed as usize + g * 5 + 1) % 16, Kind::JoinClasses(g, 8))); }
    // user auto-correct entries whose KEY is also a bundled key: the user's entry is the one that counts (settings with a user file)
    for k in 0..(if env.quick() { 4 } else { 16 }) { let si = (0..16).map(|j| (seed as usize + k * 3 + j) % 16).find(|&j| sets[j].1).unwrap_or(8); units.push((si, Kind::UserOver(k))); }
    units.push(((seed as usize) % 16, Kind::FarHits)); units.push(((seed as usize + 9) % 16, Kind::FarHits));
    units.push((0, Kind::Long)); units.push((1, Kind::Long));
    let reps = par_map(units.len(), |ui| {
        let (si, kind) = &units[ui];
        let (opts, with_ac) = sets[*si];
        let mut rep = Report::new("c07");
        let xdg = env.fresh_xdg(&format!("c07-{}", ui));
        let mut uac = if with_ac { user_ac_sample() } else { HashMap::new() };
        if let Kind::UserOver(k) = kind {
            // 2 fixed + 10 seeded bundled keys, each given a value that differs from the bundled one (another bundled value / a plain word)
            let mut r2 = Rng::new(seed.wrapping_mul(2654435761) ^ (*k as u64) << 8);
            let mut ks: Vec<String> = vec!["atm".into(), "academy".into()];
            for _ in 0..10 { ks.push(r2.pick(&pools.ac_keys).clone()); }
            for key in ks { let bundled = env.data.autocorrect.get(&key).cloned().unwrap_or_default(); let mut v = r2.pick(&pools.ac_vals).clone(); if v == bundled { v = "kolom".into(); } uac.insert(key, v); }
        }
        if with_ac { std::fs::write(user_dir(&xdg).join("autocorrect.json"), serde_json::to_string(&uac).unwrap()).unwrap(); }
        let mut t = env.trace(&format!("c07.{}", ui));
        t.line(&format!("case c07-{}", ui));
        // the context is reached by one of four routes (directly / as a fixed-layout context / with other options, then update_engine)
        let mut s = Sess::new_routed(&mut t, &env.data, "c", PHONETIC, opts, &xdg, ui).expect("context");
        let mut rng = Rng::new(seed.wrapping_mul(31337) ^ (ui as u64) << 12);
        let earlier = ascii_keys("bon");
        let mut nth = 0usize;
        let mut run_text_ua = |s: &mut Sess, t: &mut Trace, rep: &mut Report, txt: &str, uac: &HashMap<String, String>| {
            // every fourth text comes after an earlier word that ended by finish / ctrl-backspace / backspaces / a commit
            nth += 1; s.clear_events();
            if nth % 4 == 0 { prelude(s, t, 1 + (nth / 4) % 4, &earlier); }
            // every prefix is observed and checked: prefixes are inputs too
            let mut pre = String::new();
            for c in txt.chars() {
                pre.push(c);
                let o = s.key(t, code_for_char(c).unwrap(), 0, 0);
                check_list_h(env, rep, &opts, uac, &pre, &o, true, &s.events);
                if o == Obs::Panic { return; }
            }
            // … and ends itself in one of those ways
            match nth % 5 { 1 => { s.backspace(t, true); } 2 => { if let Obs::Full { sel, cands, .. } = &s.last { if *sel < cands.len() { let i = *sel; s.commit(t, i); } else { s.finish(t); } } else { s.finish(t); } } _ => { s.finish(t); } }
        };
        match kind {
            Kind::Short(g, groups) => {
                for (i, &a) in typeable.iter().enumerate() {
                    if i % groups != *g { continue; }
                    let o = s.key(&mut t, code_for_char(a).unwrap(), 0, 0);
                    check_list(env, &mut rep, &opts, &uac, &a.to_string(), &o, true);
                    for &b in &typeable {
                        let o = s.key(&mut t, code_for_char(b).unwrap(), 0, 0);
                        let txt: String = [a, b].iter().collect();
                        check_list(env, &mut rep, &opts, &uac, &txt, &o, true);
                        s.backspace(&mut t, false);
                    }
                    s.finish(&mut t);
                }
            }
            Kind::AcKeys(g, groups) => { for (i, k) in pools.ac_keys.iter().enumerate() { if i % groups == *g { run_text_ua(&mut s, &mut t, &mut rep, k, &uac); } } }
            Kind::Emoji(g, groups) => {
                for (i, k) in pools.emoji_names.iter().chain(pools.emoticons.iter()).enumerate() { if i % groups == *g { run_text_ua(&mut s, &mut t, &mut rep, k, &uac); } }
            }
            Kind::Guided(_) => {
                for _ in 0..(if env.quick() { 25 } else { 80 }) {
                    let w = pools.word(&mut rng);
                    let txt = match rng.below(6) { 0 => format!("({})", w), 1 => format!("\"{}\"", w), 2 => format!("{}.", w), 3 => format!("'{}", w), _ => w };
                    if txt.chars().all(crate::code_ok) { run_text_ua(&mut s, &mut t, &mut rep, &txt, &uac); }
                }
            }
            Kind::Suffix(_) => {
                for _ in 0..(if env.quick() { 25 } else { 80 }) {
                    let base = pools.word(&mut rng);
                    let sfx = rng.pick(&pools.suffixes).clone();
                    let txt = format!("{}{}", base, sfx);
                    if txt.chars().all(crate::code_ok) && txt.chars().count() < 24 { run_text_ua(&mut s, &mut t, &mut rep, &txt, &uac); }
                }
            }
            Kind::AllSuffixes(g, groups) => {
                let bases = ["desh", "kaj", "ma", "bon", "din", "ami", "sot", "rong", "boi", "manush"];
                for (i, sk) in pools.suffixes.iter().enumerate() {
                    if i % groups != *g { continue; }
                    let base = bases[(i / groups + seed as usize) % bases.len()];
                    let txt = format!("{}{}", base, sk);
                    if txt.chars().all(crate::code_ok) { run_text_ua(&mut s, &mut t, &mut rep, &txt, &uac); rep.count("suffix-key-covered"); }
                }
            }
            Kind::JoinClasses(g, groups) => {
                // the joining rules look at the LAST character of the base candidate and the FIRST of the suffix: bases whose candidates
                // end in every vowel sign, independent vowel, ৎ and ং, each with suffixes that begin with every distinct character
                let bases = ["ma", "kotha", "ki", "pakhi", "nodI", "dadI", "guru", "bodhu", "bhU", "bodhU", "kri", "ke", "se", "chele", "doi", "moi", "koi", "khoi", "hoichoi",
                             "jhO", "alO", "bhalO", "nou", "mou", "bou", "boi", "koi", "bai", "nei", "keu", "dao", "jao", "sot", "hoTat", "rong", "Dhong", "e", "o", "i", "u", "oi", "ou", "a"];
                let mut firsts: Vec<(char, String)> = vec![];
                for sk in &pools.suffixes { if let Some(v) = env.data.suffix.get(sk) { if let Some(c) = v.chars().next() { if firsts.iter().filter(|f| f.0 == c).count() < 2 { firsts.push((c, sk.clone())); } } } }
                for (bi, base) in bases.iter().enumerate() {
                    if bi % groups != *g { continue; }
                    // which final characters this base contributes (for the evidence)
                    for (cand, _) in &classify(&env.data, &uac, base).items { if let Some(l) = cand.chars().last() { rep.count(&format!("join-base-final-U+{:04X}", l as u32)); } }
                    for (_, sk) in &firsts {
                        let txt = format!("{}{}", base, sk);
                        if txt.chars().all(crate::code_ok) { run_text_ua(&mut s, &mut t, &mut rep, &txt, &uac); rep.count("join-class-text"); }
                    }
                }
            }
            Kind::UserOver(_) => {
                let mut ks: Vec<&String> = uac.keys().collect(); ks.sort();
                for key in ks {
                    if !key.chars().all(crate::code_ok) || key.is_empty() { continue; }
                    run_text_ua(&mut s, &mut t, &mut rep, key, &uac); rep.count("user-entry-over-bundled-typed");
                    for sk in ["e", "er", "ke", "gulo"] { let txt = format!("{}{}", key, sk); if txt.chars().count() < 24 { run_text_ua(&mut s, &mut t, &mut rep, &txt, &uac); } }
                    let txt = format!("({}).", key); run_text_ua(&mut s, &mut t, &mut rep, &txt, &uac);
                }
                // the user's file is EDITED (half of the entries change their value, the other half go away), then it is REMOVED: after
                // the next update_engine the list follows the file as it is now — also for the words typed before (memoised lists)
                let acp = user_dir(&xdg).join("autocorrect.json");
                let mut ks: Vec<String> = uac.keys().filter(|k| !k.is_empty() && k.chars().all(crate::code_ok)).cloned().collect(); ks.sort();
                let mut edited: HashMap<String, String> = HashMap::new();
                for (i, k) in ks.iter().enumerate() { if i % 2 == 0 { edited.insert(k.clone(), "notun".into()); } }
                std::fs::write(&acp, serde_json::to_string(&edited).unwrap()).unwrap();
                let later = std::time::SystemTime::now() + std::time::Duration::from_secs(3600);
                if let Ok(f) = std::fs::OpenOptions::new().write(true).open(&acp) { let _ = f.set_modified(later); }
                s.update(&mut t, PHONETIC, opts);
                for key in ks.iter().take(8) { run_text_ua(&mut s, &mut t, &mut rep, key, &edited); let txt = format!("{}er", key); run_text_ua(&mut s, &mut t, &mut rep, &txt, &edited); rep.count("user-entry-after-edit-typed"); }
                let _ = std::fs::remove_file(&acp);
                s.update(&mut t, PHONETIC, opts);
                let none: HashMap<String, String> = HashMap::new();
                for key in ks.iter().take(8) { run_text_ua(&mut s, &mut t, &mut rep, key, &none); let txt = format!("{}er", key); run_text_ua(&mut s, &mut t, &mut rep, &txt, &none); rep.count("user-entry-after-removal-typed"); }
            }
            Kind::FarHits => {
                // the rank is a number computed from the edit distance: the words whose dictionary hits lie FARTHEST from the transliteration
                // (found here with the harness's own look-up and distance) are where that arithmetic is exercised beyond the first few values
                let mut far: Vec<(usize, &String)> = vec![];
                for k in pools.ac_keys.iter().filter(|k| k.chars().all(|c| c.is_ascii_alphabetic()) && k.len() >= 3) {
                    let tr = env.data.phonetic.convert(k);
                    if let Some(hits) = env.data.dict_phonetic(k) { if hits.len() > 1 { let mx = hits.iter().map(|h| edit_distance::edit_distance(&tr, h)).max().unwrap_or(0); far.push((mx, k)); } }
                }
                far.sort_by(|a, b| b.0.cmp(&a.0).then(a.1.cmp(b.1)));
                for (mx, k) in far.iter().take(if env.quick() { 24 } else { 120 }) { run_text_ua(&mut s, &mut t, &mut rep, k, &uac); rep.count(&format!("far-hit-word-distance-{}", mx)); }
            }
            Kind::Long => {
                // long-distance probes: repeated optional-vowel letters (rank arithmetic far from the dictionary)
                for ch in ['o', 'a', 'e'] {
                    let mut pre = String::new();
                    for _ in 0..(if env.quick() { 56 } else { 70 }) {
                        pre.push(ch);
                        let o = s.key(&mut t, code_for_char(ch).unwrap(), 0, 0);
                        check_list(env, &mut rep, &opts, &uac, &pre, &o, true);
                    }
                    s.finish(&mut t);
                }
            }
        }
        rep.slowest_event_s = s.imp.slowest;
        t.flush();
        rep
    });
    let mut rep = Report::new("c07");
    for r in reps { rep.merge(r); }
    rep
}
