//! C09 (learning / restart), C10 (damaged user files), C11 (update-engine vs a new context).
//! Real temporary XDG_DATA_HOME per case.  Oracles are model-free.
use super::*;
use super::common::*;
use super::c01::{mk_layouts, register_layouts, rand_opts};
use riti_harness::par::par_map;
use std::collections::HashMap;

fn sel_path(xdg: &Path) -> PathBuf { user_dir(xdg).join("phonetic-candidate-selection.json") }
fn ac_path(xdg: &Path) -> PathBuf { user_dir(xdg).join("autocorrect.json") }

fn file_ok(xdg: &Path) -> Option<bool> {
    // None = absent; Some(true) = JSON object of strings
    match std::fs::read(sel_path(xdg)) { Err(_) => None, Ok(b) => Some(serde_json::from_slice::<HashMap<String, String>>(&b).is_ok()) }
}

fn full(o: &Obs) -> Option<(&Vec<String>, usize)> { match o { Obs::Full { cands, sel, .. } => Some((cands, *sel)), _ => None } }

// ------------------------------------------------------------------------------------------ C09
pub fn run(env: &Env) -> Report {
    let pools = WordPools::new(&env.data);
    let seed = env.a.seed;
    let nunits = 32;
    let per = if env.quick() { 40 } else { 400 };
    let reps = par_map(nunits, |ui| {
        let mut rep = Report::new("c09");
        let mut rng = Rng::new(seed.wrapping_mul(40503) ^ (ui as u64) << 18);
        let mut t = env.trace(&format!("c09.{}", ui));
        // the shortest case of the suffix clause: a ONE-letter word with a learned choice, then that letter + a one-letter suffix
        // (`ar`, `ei`, `or` …), in the same context and after a restart
        if ui < 6 {
            let base = ["a", "e", "o", "i", "u", "k"][ui];
            let case = format!("c09-{}-short", ui);
            t.line(&format!("case {}", case));
            let xdg = env.fresh_xdg(&case);
            let mut opts = Opts::none(); opts.phonetic_suggestion = true; opts.smart_quote = false;
            if let Some(mut s) = Sess::new(&mut t, &env.data, "a", PHONETIC, opts, &xdg) {
                let o = s.type_text(&mut t, base);
                if let Some((c, sl)) = full(&o) { let c = c.clone();
                    for idx in 0..c.len().min(6) {
                        if idx == sl { continue; }
                        let o = s.type_text(&mut t, base);
                        let (c1, s1) = match full(&o) { Some(x) => (x.0.clone(), x.1), None => break };
                        if idx >= c1.len() || idx == s1 { s.finish(&mut t); continue; }
                        let core = c1[idx].clone();
                        s.commit(&mut t, idx);
                        for which in 0..2 {
                            let mut b = if which == 0 { None } else { Sess::new(&mut t, &env.data, "b", PHONETIC, opts, &xdg) };
                            for sk in ["r", "i", "o", "e", "y", "er", "ke"] {
                                let sv = match env.data.suffix.get(sk) { Some(v) => v.clone(), None => continue };
                                let t2 = format!("{}{}", base, sk);
                                let store: HashMap<String, String> = std::fs::read(sel_path(&xdg)).ok().and_then(|b| serde_json::from_slice(&b).ok()).unwrap_or_default();
                                if store.contains_key(&t2) { continue; }
                                let n = t2.len();
                                if (1..n).filter(|i| env.data.suffix.contains_key(&t2[*i..]) && store.contains_key(&t2[..*i])).count() != 1 { continue; }
                                if let Some(j) = join(&core, &sv) {
                                    let ctxs: &mut Sess = match b.as_mut() { Some(x) => x, None => &mut s };
                                    let o = ctxs.type_text(&mut t, &t2);
                                    if let Some((c5, s5)) = full(&o) {
                                        if c5.contains(&j) && c5.get(s5) != Some(&j) {
                                            rep.violation("C09", "suffixed-choice-not-derived", format!("learned {:?} for {:?}; for {:?} the joined candidate {:?} is offered but {:?} is preselected{}", core, base, t2, j, c5.get(s5), if which == 1 { " (after a restart)" } else { "" }),
                                                json!({"stream": "c09", "layout": PHONETIC, "opts": opts.bits_str(), "text": t2, "events": ctxs.events, "at": "one-letter base"}));
                                        }
                                        rep.count("suffix-clause-one-letter-base"); rep.eval(Some(&format!("short|{}|{}|{}", base, idx, sk)));
                                    }
                                    ctxs.finish(&mut t);
                                }
                            }
                            if b.is_some() { t.line("drop b"); }
                        }
                    }
                }
                t.line("drop a");
            }
        }
        for ci in 0..per {
            let mut opts = rand_opts(&mut rng); opts.phonetic_suggestion = true;
            if rng.chance(50) { opts.smart_quote = false; }
            let case = format!("c09-{}-{}", ui, ci);
            t.line(&format!("case {}", case));
            let xdg = env.fresh_xdg(&case);
            let mut s = match Sess::new(&mut t, &env.data, "a", PHONETIC, opts, &xdg) { Some(s) => s, None => continue };
            let w = { let mut w = pools.word(&mut rng); while !w.chars().all(|c| c.is_ascii_alphanumeric()) || w.is_empty() { w = pools.word(&mut rng); } w };
            let text = match rng.below(12) { 0 => format!("({})", w), 1 => format!("\"{}\"", w), 2 => format!("{}.", w), 3 => format!("'{}", w), 4 => format!("{}:`", w), 5 => format!("{}:", w), 6 => format!("{}!?", w), _ => w.clone() };
            let wrapped = text != w;
            let ctxv = |s: &Sess, what: &str| json!({"stream": "c09", "layout": PHONETIC, "opts": s.opts.bits_str(), "text": text, "events": s.events, "at": what});
            // in a third of the cases a PREFIX of the word has a learned choice of its own: typing the word then passes through a
            // text with a learned (non-zero) preselection on the way to a text without one
            let mut prefix_learned = false;
            if ci % 3 == 1 && w.chars().count() > 1 {
                let k = 1 + rng.below(w.chars().count() - 1);
                let p: String = w.chars().take(k).collect();
                let o = s.type_text(&mut t, &p);
                match full(&o) { Some((c, sl)) if c.len() > 1 => { let i = (sl + 1 + rng.below(c.len() - 1)) % c.len(); s.commit(&mut t, i); prefix_learned = true; rep.count("prefix-learned-first"); } _ => { s.finish(&mut t); } }
            }
            let o = s.type_text(&mut t, &text);
            let (cands, sel) = match full(&o) { Some(x) => (x.0.clone(), x.1), None => continue };
            if cands.len() < 2 { s.finish(&mut t); continue; }
            // commit the preselected candidate first: nothing may change
            let before = std::fs::read(sel_path(&xdg)).ok();
            s.commit(&mut t, sel);
            // "preselected" is the index the ENGINE computed. After a punctuation key of the override set the index that comes back is the
            // caller's byte — here the index shown for the text without that key, which a learned prefix can make non-zero — so for such a
            // text the harness does not know the engine's own index and cannot say that this commit must be inert
            let last_is_override = text.chars().last().map(|c| ".?!,:;-_)}]'\"".contains(c)).unwrap_or(false);
            if !(prefix_learned && last_is_override) && std::fs::read(sel_path(&xdg)).ok() != before { rep.violation("C09", "preselected-commit-writes", "committing the preselected candidate changed the store".into(), ctxv(&s, "commit preselected")); }
            let o = s.type_text(&mut t, &text);
            let (cands2, sel2) = match full(&o) { Some(x) => (x.0.clone(), x.1), None => continue };
            if !(prefix_learned && last_is_override) && (cands2 != cands || sel2 != sel) { rep.violation("C09", "preselected-commit-changes-suggestion", format!("after committing the preselected candidate, re-typing gives {:?}/{} instead of {:?}/{}", cands2, sel2, cands, sel), ctxv(&s, "retype")); }
            // learn another candidate (every index in the systematic part: rotate)
            let idx = { let mut i = rng.below(cands.len()); if i == sel { i = (i + 1) % cands.len(); } i };
            let chosen = cands[idx].clone();
            s.commit(&mut t, idx);
            rep.eval(Some(&format!("{}|{}|{}", opts.bits_str(), text, idx)));
            match file_ok(&xdg) { Some(true) => {}, other => rep.violation("C09", "store-not-loadable", format!("after a learning commit the store file is {:?}", other), ctxv(&s, "commit")) }
            // re-learn the same word with every other candidate in turn (the rewritten file may get shorter or longer):
            // the store must stay loadable after every commit, and the last choice wins
            let mut chosen = chosen; let mut idx = idx;
            if rng.chance(60) {
                for k in 0..cands.len().min(6) {
                    let o = s.type_text(&mut t, &text);
                    let (ck, sk) = match full(&o) { Some(x) => (x.0.clone(), x.1), None => break };
                    if k >= ck.len() || k == sk { s.finish(&mut t); continue; }
                    let before_bytes = std::fs::read(sel_path(&xdg)).ok();
                    s.commit(&mut t, k);
                    match file_ok(&xdg) { Some(true) => {}, other => { rep.violation("C09", "store-not-loadable", format!("after re-learning {:?} with candidate {} ({:?}) the store file is {:?}", text, k, ck[k], other), ctxv(&s, "re-learn")); break; } }
                    // the engine learns only when the index differs from ITS OWN preselection (after a punctuation key the returned
                    // index is the caller's): the choice counts as re-learned only if the store changed
                    if std::fs::read(sel_path(&xdg)).ok() != before_bytes { chosen = ck[k].clone(); idx = k; }
                    rep.count("re-learn");
                }
            }
            let _ = idx;
            // classification of the chosen candidate for known findings
            let (cp, _, cr) = wrapping(&env.data, &opts, &text);
            let curly = opts.smart_quote && (cp.chars().chain(cr.chars()).any(|c| "‘’“”".contains(c)));
            let english = chosen == text && wrapped;
            let emoji_wrapped = false;
            let colon_end = text.ends_with(':');
            let cls_for = |base: &str| -> String { if colon_end { "colon-terminated-word-choice-overridden".into() } else if curly { "smart-quoted-choice-not-recalled".into() } else if english { "raw-english-choice-with-punctuation-not-recalled".into() } else { base.into() } };
            // other words in between (some learning)
            for _ in 0..rng.below(4) {
                let ow = pools.word(&mut rng);
                if !ow.chars().all(crate::code_ok) || ow == w { continue; }
                let oo = s.type_text(&mut t, &ow);
                match full(&oo) { Some((c, sl)) if !c.is_empty() => { let i = if rng.chance(40) { rng.below(c.len()) } else { sl.min(c.len() - 1) }; s.commit(&mut t, i); } _ => { s.finish(&mut t); } }
            }
            // recall in the same context
            let o = s.type_text(&mut t, &text);
            if let Some((c3, s3)) = full(&o) {
                if c3.contains(&chosen) && c3.get(s3) != Some(&chosen) {
                    rep.violation("C09", &cls_for("learned-choice-not-recalled"), format!("opts {} text {:?}: learned {:?}, re-typing preselects {:?} (index {}) in {:?}", opts.bits_str(), text, chosen, c3.get(s3), s3, c3), ctxv(&s, "recall"));
                }
                rep.count("recall-same-context");
            }
            s.finish(&mut t);
            // restart: a new context over the same directory
            t.line("# restart");
            let mut b = match Sess::new(&mut t, &env.data, "b", PHONETIC, opts, &xdg) { Some(s) => s, None => { rep.violation("C10", "new-context-panics", "new context over a store written by the engine panicked".into(), ctxv(&s, "restart")); continue; } };
            let o = b.type_text(&mut t, &text);
            if let Some((c4, s4)) = full(&o) {
                if c4.contains(&chosen) && c4.get(s4) != Some(&chosen) {
                    rep.violation("C09", &cls_for("learned-choice-lost-on-restart"), format!("opts {} text {:?}: learned {:?}, after restart preselects {:?} in {:?}", opts.bits_str(), text, chosen, c4.get(s4), c4), ctxv(&b, "restart recall"));
                }
                rep.count("recall-after-restart");
            }
            b.finish(&mut t);
            // suffix clause: word + known suffix, no learned choice of its own
            if !wrapped && !curly {
                let (_, core, _) = (String::new(), chosen.clone(), String::new());
                for _ in 0..3 {
                    let sk = rng.pick(&pools.suffixes).clone();
                    let sv = env.data.suffix.get(&sk).unwrap().clone();
                    let t2 = format!("{}{}", w, sk);
                    if !t2.chars().all(crate::code_ok) || t2.chars().count() > 22 { continue; }
                    // only when exactly one split point of t2 has a learned base (the documented case)
                    let store: HashMap<String, String> = std::fs::read(sel_path(&xdg)).ok().and_then(|b| serde_json::from_slice(&b).ok()).unwrap_or_default();
                    if store.contains_key(&t2) { continue; }
                    let n = t2.len();
                    let learned_splits = (1..n).filter(|i| env.data.suffix.contains_key(&t2[*i..]) && store.contains_key(&t2[..*i])).count();
                    if learned_splits != 1 { continue; }
                    if let Some(j) = join(&core, &sv) {
                        // the suffixed form bare, or FIRST wrapped in punctuation and then again (the choice derived for it the first
                        // time is remembered: it must be the word's, not the wrapped text's)
                        let variants: Vec<String> = match rng.below(4) { 0 => vec![t2.clone()], 1 => vec![format!("({}", t2), t2.clone()], 2 => vec![format!("{}.", t2), t2.clone(), format!("({})", t2)], _ => vec![format!("({})", t2), format!("{}?", t2), t2.clone()] };
                        for tv in variants {
                            if !tv.chars().all(crate::code_ok) { continue; }
                            let (vp, _, vr) = wrapping(&env.data, &opts, &tv);
                            if opts.smart_quote && vp.chars().chain(vr.chars()).any(|c| "‘’“”".contains(c)) { continue; }
                            let exp = format!("{}{}{}", vp, j, vr);
                            let o = b.type_text(&mut t, &tv);
                            if let Some((c5, s5)) = full(&o) {
                                if c5.contains(&exp) && c5.get(s5) != Some(&exp) {
                                    rep.violation("C09", "suffixed-choice-not-derived", format!("learned {:?} for {:?}; for {:?} the joined candidate {:?} is offered but {:?} is preselected", core, w, tv, exp, c5.get(s5)), ctxv(&b, "suffix"));
                                }
                                rep.count(if tv == t2 { "suffix-clause" } else { "suffix-clause-wrapped" });
                            }
                            b.finish(&mut t);
                        }
                    }
                }
            }
            let _ = emoji_wrapped;
            if rep.samples.len() < 3 { rep.sample(json!({"text": text, "opts": opts.bits_str(), "candidates": cands, "committed_index": idx})); }
            let _ = std::fs::remove_dir_all(&xdg);
        }
        t.flush();
        rep
    });
    let mut rep = Report::new("c09");
    for r in reps { rep.merge(r); }
    rep
}

// ------------------------------------------------------------------------------------------ C10
fn malformed_corpus() -> Vec<(&'static str, Vec<u8>)> {
    let mut v: Vec<(&'static str, Vec<u8>)> = vec![
        ("empty", vec![]), ("whitespace", b"  \n\t ".to_vec()), ("null", b"null".to_vec()), ("number", b"42".to_vec()), ("string", b"\"abc\"".to_vec()),
        ("array", b"[]".to_vec()), ("array-of-strings", b"[\"a\",\"b\"]".to_vec()), ("nested-object", b"{\"a\":{\"b\":\"c\"}}".to_vec()),
        ("number-value", b"{\"a\":1}".to_vec()), ("null-value", b"{\"a\":null}".to_vec()), ("bool-value", b"{\"a\":true}".to_vec()), ("array-value", b"{\"a\":[\"x\"]}".to_vec()),
        ("duplicate-keys", b"{\"a\":\"x\",\"a\":\"y\"}".to_vec()), ("invalid-utf8", vec![b'{', b'"', 0xff, 0xfe, b'"', b':', b'"', b'x', b'"', b'}']),
        ("lone-surrogate", b"{\"a\":\"\\ud800\"}".to_vec()), ("bom", b"\xef\xbb\xbf{\"a\":\"b\"}".to_vec()), ("trailing-garbage", b"{\"a\":\"b\"} xyz".to_vec()),
        ("trailing-comma", b"{\"a\":\"b\",}".to_vec()), ("single-quotes", b"{'a':'b'}".to_vec()), ("unterminated", b"{\"a\":\"b".to_vec()), ("just-brace", b"{".to_vec()),
        ("empty-object", b"{}".to_vec()), ("empty-key", b"{\"\":\"x\"}".to_vec()), ("empty-value", b"{\"ami\":\"\"}".to_vec()), ("empty-both", b"{\"\":\"\"}".to_vec()),
        ("empty-values-many", b"{\"a\":\"\",\"k\":\"\",\"kor\":\"\",\"ami\":\"\",\":\":\"\",\"t\":\"\"}".to_vec()),
        ("nul-bytes", vec![0, 0, 0, 0]), ("control-chars", b"{\"a\":\"\x01\x02\"}".to_vec()), ("escaped", b"{\"a\\n\":\"b\\t\\\"\"}".to_vec()),
        ("valid-bengali", "{\"ami\":\"আমি\",\"kor\":\"কর\"}".as_bytes().to_vec()),
    ];
    let mut deep = Vec::new(); for _ in 0..3000 { deep.push(b'['); } v.push(("deep-nesting", deep));
    let mut big = b"{\"a\":\"".to_vec(); big.extend(std::iter::repeat(b'x').take(1 << 20)); big.extend(b"\"}"); v.push(("one-megabyte-string", big));
    v
}

/// a text with the characters the JSON printer treats specially
fn json_fuzz_text(rng: &mut Rng) -> String {
    let alpha: [char; 24] = ['a', 'k', '"', '\\', '/', '\n', '\r', '\t', '\u{8}', '\u{c}', '\u{0}', '\u{1}', '\u{1f}', '\u{7f}', '\u{80}', 'é', 'ক', '\u{9cd}', '\u{200c}', '\u{d7ff}', '\u{e000}', '\u{ffff}', '😀', '\u{10ffff}'];
    let n = rng.below(6);
    (0..n).map(|_| *rng.pick(&alpha)).collect()
}

/// a document near the border between what serde_json accepts as a map of strings and what it rejects
fn json_fuzz_doc(rng: &mut Rng, corpus: &[(&'static str, Vec<u8>)]) -> Vec<u8> {
    let frag: [&[u8]; 40] = [b"{", b"}", b"[", b"]", b",", b":", b"\"", b"\\", b" ", b"\t", b"\n", b"\r", b"\x0c", b"\x00", b"1", b"-", b"e", b"u", b"null", b"true",
        b"\\n", b"\\/", b"\\b", b"\\f", b"\\x", b"\\u0041", b"\\u00e9", b"\\u09AB", b"\\ud83d\\ude00", b"\\ud83d", b"\\ude00", b"\\ud83d\\u0041", b"\\u12", b"\\u12G4", b"\\uDBFF\\uDFFF",
        b"\xc3\xa9", b"\xe0\xa6\x95", b"\xf0\x9f\x98\x80", b"\xed\xa0\x80", b"\xc0\xaf"];
    let mut doc: Vec<u8> = match rng.below(8) {
        0 => { let (_, d) = rng.pick(corpus); if d.len() > 4096 { b"{}".to_vec() } else { d.clone() } }
        1 => { // free soup of fragments
            let mut d: Vec<u8> = vec![]; for _ in 0..rng.below(12) { let f: &[u8] = *rng.pick(&frag); d.extend_from_slice(f); } d }
        _ => { // a valid map of strings, printed with optional whitespace
            let ws: [&[u8]; 5] = [b"", b"", b" ", b"\n", b"\t\r "];
            let mut d: Vec<u8> = vec![]; let w: &[u8] = *rng.pick(&ws); d.extend_from_slice(w); d.push(b'{');
            let n = rng.below(4);
            for i in 0..n {
                if i > 0 { d.push(b','); }
                for part in 0..2 {
                    { let w: &[u8] = *rng.pick(&ws); d.extend_from_slice(w); }
                    let txt = json_fuzz_text(rng);
                    if rng.chance(70) { d.extend_from_slice(serde_json::to_string(&txt).unwrap().as_bytes()); }
                    else { d.push(b'"'); for _ in 0..rng.below(4) { let f: &[u8] = *rng.pick(&frag[20..]); d.extend_from_slice(f); if rng.chance(50) { d.push(b'a'); } } d.push(b'"'); }
                    { let w: &[u8] = *rng.pick(&ws); d.extend_from_slice(w); }
                    if part == 0 { d.push(b':'); }
                }
            }
            d.push(b'}'); { let w: &[u8] = *rng.pick(&ws); d.extend_from_slice(w); } d }
    };
    // 0–2 mutations
    for _ in 0..[0, 0, 1, 1, 1, 2][rng.below(6)] {
        match rng.below(6) {
            0 => { let k = rng.below(doc.len() + 1); doc.truncate(k); }
            1 => { if !doc.is_empty() { let k = rng.below(doc.len()); doc.remove(k); } }
            2 => { let k = rng.below(doc.len() + 1); let f: &[u8] = *rng.pick(&frag); let tail = doc.split_off(k); doc.extend_from_slice(f); doc.extend(tail); }
            3 => { if !doc.is_empty() { let k = rng.below(doc.len()); doc[k] = (rng.next() & 0xff) as u8; } }
            4 => { if !doc.is_empty() { let k = rng.below(doc.len()); doc[k] ^= 1 << rng.below(8); } }
            _ => { // a string value replaced by another JSON type
                let r: [&[u8]; 6] = [b"1", b"null", b"true", b"[\"x\"]", b"{\"x\":\"y\"}", b"1.5e3"];
                if let Some(p) = doc.iter().rposition(|b| *b == b':') { let q = doc[p..].iter().position(|b| *b == b',' || *b == b'}').map(|x| p + x).unwrap_or(doc.len()); let tail = doc.split_off(q); doc.truncate(p + 1); { let f: &[u8] = *rng.pick(&r); doc.extend_from_slice(f); } doc.extend(tail); } }
        }
    }
    doc
}

pub fn run_c10(env: &Env) -> Report {
    let pools = WordPools::new(&env.data);
    let seed = env.a.seed;
    let corpus = malformed_corpus();
    // units: crash-point enumeration over engine-written stores; malformed corpus; directory faults
    let nstores = if env.quick() { 16 } else { 64 };   // thorough: every byte prefix of 64 engine-written stores (≈ 4 min)
    let nunits = nstores + 16 + 8 + 8;   // … + 8 units of JSON documents for the tie of the Lean JSON fragment (no engine involved)
    let reps = par_map(nunits, |ui| {
        let mut rep = Report::new("c10");
        let mut rng = Rng::new(seed.wrapping_mul(25214903917) ^ (ui as u64) << 10);
        let mut t = env.trace(&format!("c10.{}", ui));
        let mut opts = Opts::none(); opts.phonetic_suggestion = true; opts.smart_quote = rng.chance(50); opts.english = rng.chance(50);
        // the probe history run in every faulty state: new, typing, learning commit, update, typing again
        let probe = |rep: &mut Report, t: &mut Trace, xdg: &Path, tag: &str, what: serde_json::Value, rng: &mut Rng| -> Option<Vec<String>> {
            t.line(&format!("case c10-{}-{}", ui, tag));
            let ctxv = |at: &str| { let mut w = what.clone(); w["at"] = json!(at); w["stream"] = json!("c10"); w };
            let mut s = match Sess::new(t, &env.data, "c", PHONETIC, opts, xdg) { Some(s) => s, None => { rep.violation("C10", "new-context-panics", format!("creating a context panicked: {}", what), ctxv("new")); return None; } };
            let mut seen = vec![];
            for w in ["ami", "amike", "kor", "korei", "a", ":)", ":er", "emon", "emoner", "tader", "er", "gulo"] {   // the last two: words that are themselves suffix keys (an empty learned KEY must not be taken for their base)
                let o = s.type_text(t, w);
                if o == Obs::Panic { rep.violation("C10", "typing-panics", format!("typing {:?} panicked: {}", w, what), ctxv("type")); return None; }
                if let Some((c, sl)) = full(&o) {
                    seen.push(format!("{}:{}:{}", w, sl, c.join(",")));
                    let i = if c.len() > 1 { (sl + 1) % c.len() } else { 0 };
                    if s.commit(t, i) == Obs::Panic { rep.violation("C10", "commit-panics", format!("a learning commit panicked: {}", what), ctxv("commit")); return None; }
                    if s.imp.ongoing() { rep.violation("C10", "commit-keeps-session", format!("after a learning commit the word is still being composed (typing is not working as before): {}", what), ctxv("commit")); return None; }
                } else { s.finish(t); }
            }
            // a reload in the middle of a word (front-ends call update_engine whenever a setting changes), then a commit of
            // another candidate than the preselected one
            {
                let o = s.type_text(t, "kor");
                if let Some((c, sl)) = full(&o) {
                    let c = c.clone();
                    let mut om = opts; om.smart_quote = !om.smart_quote;
                    if s.update(t, PHONETIC, om) == Obs::Panic { rep.violation("C10", "update-panics", format!("update_engine in the middle of a word panicked: {}", what), ctxv("update mid-word")); return None; }
                    let i = if c.len() > 1 { (sl + 1) % c.len() } else { 0 };
                    if s.commit(t, i) == Obs::Panic { rep.violation("C10", "commit-panics-after-midword-reload", format!("a commit right after a mid-word reload panicked: {}", what), ctxv("commit after mid-word update")); return None; }
                }
            }
            let mut o2 = opts; o2.english = !o2.english;
            if s.update(t, PHONETIC, o2) == Obs::Panic { rep.violation("C10", "update-panics", format!("update_engine panicked: {}", what), ctxv("update")); return None; }
            let w = pools.word(rng);
            if w.chars().all(crate::code_ok) { let o = s.type_text(t, &w); if o == Obs::Panic { rep.violation("C10", "typing-panics", format!("typing {:?} after update panicked: {}", w, what), ctxv("type")); return None; } s.finish(t); }
            rep.eval(Some(&format!("{}|{}", ui, tag)));
            Some(seen)
        };
        if ui < nstores {
            // (a) a store written by the engine itself through learning commits, then every byte prefix
            let xdg = env.fresh_xdg(&format!("c10-w{}", ui));
            t.line(&format!("case c10-{}-write", ui));
            let mut bytes = vec![];
            if let Some(mut s) = Sess::new(&mut t, &env.data, "w", PHONETIC, opts, &xdg) {
                let n = 1 + rng.below(if env.quick() { 8 } else { 30 });
                for _ in 0..n {
                    let w = pools.word(&mut rng);
                    let txt = match rng.below(5) { 0 => format!("\"{}\"", w), 1 => format!("{}:", w), _ => w };
                    if !txt.chars().all(crate::code_ok) { continue; }
                    let o = s.type_text(&mut t, &txt);
                    match full(&o) { Some((c, sl)) if c.len() > 1 => { s.commit(&mut t, (sl + 1 + rng.below(c.len() - 1)) % c.len()); } _ => { s.finish(&mut t); } }
                }
                bytes = std::fs::read(sel_path(&xdg)).unwrap_or_default();
                t.line("drop w");
            }
            // reference: absent files
            let xr = env.fresh_xdg(&format!("c10-ref{}", ui));
            let reference = probe(&mut rep, &mut t, &xr, "ref", json!({"fault": "none"}), &mut rng.clone());
            let step = if env.quick() { (bytes.len() / 40).max(1) } else { 1 };
            let mut n = 0;
            while n < bytes.len() {
                for which in 0..2 {
                    let xp = env.fresh_xdg(&format!("c10-p{}-{}", ui, which));
                    let target = if which == 0 { sel_path(&xp) } else { ac_path(&xp) };
                    std::fs::write(&target, &bytes[..n]).unwrap();
                    let readable = serde_json::from_slice::<HashMap<String, String>>(&bytes[..n]).is_ok();
                    let got = probe(&mut rep, &mut t, &xp, &format!("prefix{}-{}", n, which), json!({"fault": "truncated", "file": if which == 0 { "selections" } else { "autocorrect" }, "prefix_len": n, "of": bytes.len()}), &mut rng.clone());
                    if !readable { if let (Some(g), Some(r)) = (&got, &reference) { if g != r {
                        rep.violation("C10", "unreadable-not-treated-as-absent", format!("file truncated to {} of {} bytes: behaviour differs from an absent file", n, bytes.len()), json!({"stream": "c10", "fault": "truncated", "which": which, "prefix_len": n, "got": g, "reference": r}));
                    } } }
                    rep.count("crash-point");
                    let _ = std::fs::remove_dir_all(&xp);
                }
                n += step;
            }
        } else if ui < nstores + 16 {
            // (b) malformed corpus, as either file
            let xr = env.fresh_xdg(&format!("c10-ref{}", ui));
            let reference = probe(&mut rep, &mut t, &xr, "ref", json!({"fault": "none"}), &mut rng.clone());
            for (i, (name, doc)) in corpus.iter().enumerate() {
                if i % 16 != ui - nstores { continue; }
                for which in 0..2 {
                    // Bengali *values* are what the selections file holds; in the auto-correct file values are Avro (ASCII)
                    // text by definition — non-ASCII values there are outside C10's stated fault classes (DESIGN §1.3 P12)
                    if which == 1 && *name == "valid-bengali" { continue; }
                    let xp = env.fresh_xdg(&format!("c10-m{}-{}", ui, which));
                    let target = if which == 0 { sel_path(&xp) } else { ac_path(&xp) };
                    std::fs::write(&target, doc).unwrap();
                    let readable = serde_json::from_slice::<HashMap<String, String>>(doc).is_ok();
                    // documents of a megabyte are run against the implementation only (the model would have to echo
                    // 18 MB candidate lines); their trace goes to a scratch file that is not validated
                    let mut scratch_trace;
                    let tr: &mut Trace = if doc.len() > 65536 { scratch_trace = Trace::create(&env.a.out.join(format!("c10.{}.big.ignore", ui)), &env.tsv); &mut scratch_trace } else { &mut t };
                    let got = probe(&mut rep, tr, &xp, &format!("doc-{}-{}", name, which), json!({"fault": "malformed", "document": name, "file": if which == 0 { "selections" } else { "autocorrect" }}), &mut rng.clone());
                    if doc.len() > 65536 { let _ = std::fs::remove_file(env.a.out.join(format!("c10.{}.big.ignore", ui))); }
                    if !readable { if let (Some(g), Some(r)) = (&got, &reference) { if g != r {
                        rep.violation("C10", "unreadable-not-treated-as-absent", format!("document {:?}: behaviour differs from an absent file", name), json!({"stream": "c10", "fault": "malformed", "document": name, "which": which, "got": g, "reference": r}));
                    } } }
                    rep.count(if readable { "wrong-shape-or-empty-strings-readable" } else { "malformed-unreadable" });
                    let _ = std::fs::remove_dir_all(&xp);
                }
            }
        } else if ui >= nstores + 16 + 8 {
            // (d) tie of Model/Json to serde_json: documents near the valid/invalid border, each read by serde_json here and
            //     by `Riti.Json.parseBytes` in the driver; maps with awkward characters written by serde_json and re-printed
            //     by `Riti.Json.printBytes`
            t.line(&format!("case c10-{}-json", ui));
            let n = if env.quick() { 500 } else { 25000 };
            for _ in 0..n {
                let doc = json_fuzz_doc(&mut rng, &corpus);
                let ok = serde_json::from_slice::<HashMap<String, String>>(&doc).is_ok();
                t.json_read(&doc);
                rep.count(if ok { "json-doc-accepted" } else { "json-doc-rejected" });
                rep.eval(Some(&format!("json|{:x}", riti_harness::trace::fxhash_bytes(&doc))));
            }
            for _ in 0..n / 5 {
                let mut m: HashMap<String, String> = HashMap::new();
                for _ in 0..rng.below(4) { m.insert(json_fuzz_text(&mut rng), json_fuzz_text(&mut rng)); }
                let b = serde_json::to_string(&m).unwrap().into_bytes();
                t.json_written(&b); t.json_read(&b);
                rep.count("json-doc-written");
            }
        } else {
            // (c) directory faults: missing, replaced by a regular file, read-only
            let kind = (ui - nstores - 16) % 4;
            let xdg = env.scratch.join(format!("c10-d{}", ui));
            let _ = std::fs::remove_dir_all(&xdg); let _ = std::fs::remove_file(&xdg);
            std::fs::create_dir_all(&xdg).unwrap();
            let ud = user_dir(&xdg);
            let mut effective = true;
            match kind {
                0 => {}                                                     // user directory missing
                1 => { std::fs::write(&ud, b"not a directory").unwrap(); }   // a regular file in its place
                2 => { std::fs::create_dir_all(&ud).unwrap(); std::fs::create_dir_all(sel_path(&xdg)).unwrap(); } // the store path is a directory: write fails
                _ => { std::fs::create_dir_all(&ud).unwrap();
                       use std::os::unix::fs::PermissionsExt; std::fs::set_permissions(&ud, std::fs::Permissions::from_mode(0o555)).unwrap();
                       effective = std::fs::write(ud.join(".probe"), b"x").is_err(); let _ = std::fs::remove_file(ud.join(".probe")); }
            }
            if !effective { rep.notes.push("mode 0555 does not bind (running as root): read-only directory covered by the not-a-directory and path-is-directory cases".into()); }
            let name = ["missing-directory", "file-instead-of-directory", "store-path-is-a-directory", "read-only-directory"][kind];
            let what = json!({"fault": name});
            probe(&mut rep, &mut t, &xdg, name, what.clone(), &mut rng.clone());
            // a failed save loses at most that one choice: restart shows exactly the previously saved choices
            if kind == 0 || kind == 1 {
                // make the directory good, learn one, break it, learn another, restart
                let x2 = env.fresh_xdg(&format!("c10-fs{}", ui));
                t.line(&format!("case c10-{}-failed-save", ui));
                if let Some(mut s) = Sess::new(&mut t, &env.data, "c", PHONETIC, opts, &x2) {
                    let o = s.type_text(&mut t, "ami"); if let Some((c, sl)) = full(&o) { if c.len() > 1 { s.commit(&mut t, (sl + 1) % c.len()); } else { s.finish(&mut t); } }
                    let saved = std::fs::read(sel_path(&x2)).ok();
                    // break: replace the directory by a file
                    let ud2 = user_dir(&x2); let keep = x2.join("kept"); std::fs::rename(&ud2, &keep).unwrap(); std::fs::write(&ud2, b"x").unwrap();
                    let o = s.type_text(&mut t, "kor"); if let Some((c, sl)) = full(&o) { if c.len() > 1 { if s.commit(&mut t, (sl + 1) % c.len()) == Obs::Panic { rep.violation("C10", "commit-panics", "a learning commit with an unwritable directory panicked".into(), json!({"stream": "c10", "fault": "failed-save"})); } } }
                    // still works, and remembers in memory
                    let o = s.type_text(&mut t, "kor"); if o == Obs::Panic { rep.violation("C10", "typing-panics", "typing after a failed save panicked".into(), json!({"stream": "c10", "fault": "failed-save"})); }
                    s.finish(&mut t);
                    // repair the directory; restart
                    std::fs::remove_file(&ud2).unwrap(); std::fs::rename(&keep, &ud2).unwrap();
                    if std::fs::read(sel_path(&x2)).ok() != saved { rep.violation("C10", "failed-save-damaged-store", "the store changed although the save failed".into(), json!({"stream": "c10", "fault": "failed-save"})); }
                    rep.count("failed-save");
                }
            }
            if kind == 3 { use std::os::unix::fs::PermissionsExt; let _ = std::fs::set_permissions(&ud, std::fs::Permissions::from_mode(0o755)); }
            let _ = std::fs::remove_dir_all(&xdg);
        }
        t.flush();
        rep
    });
    let mut rep = Report::new("c10");
    for r in reps { rep.merge(r); }
    rep.merge(live_damage(env));
    rep.merge(full_disk(env));
    rep.notes.sort(); rep.notes.dedup();
    rep
}

/// a save that can OPEN the store but cannot WRITE it (disk full, quota): the store of a live context is replaced by a link to /dev/full
/// (Linux: opens for writing, every write fails with ENOSPC). A learning commit must return, end the word, and the keyboard keeps working;
/// when the store is writable again a later choice is saved. Not traced for the model (reading /dev/full never ends): implementation only.
fn full_disk(env: &Env) -> Report {
    let mut rep = Report::new("c10");
    if !Path::new("/dev/full").exists() { rep.notes.push("/dev/full not available: full-disk fault not exercised".into()); return rep; }
    for v in 0..2 {
        let xdg = env.fresh_xdg(&format!("c10-full-{}", v));
        let mut opts = Opts::none(); opts.phonetic_suggestion = true; opts.english = v == 1;
        let what = json!({"stream": "c10", "fault": "store cannot be written (link to /dev/full)", "opts": opts.bits_str()});
        let mut imp = match Imp::new(&mk_config(PHONETIC, &opts, &xdg)) { Some(i) => i, None => continue };
        let type_word = |imp: &mut Imp, w: &str| -> Obs { let mut o = Obs::Unit; for c in w.chars() { o = imp.key(code_for_char(c).unwrap(), 0, 0); if o == Obs::Panic { break; } } o };
        // a first choice is saved normally
        if let Obs::Full { cands, sel, .. } = type_word(&mut imp, "kor") { if cands.len() > 1 { imp.commit((sel + 1) % cands.len()); } else { imp.finish(); } }
        let sp = sel_path(&xdg);
        let saved = std::fs::read(&sp).ok();
        let _ = std::fs::remove_file(&sp);
        if std::os::unix::fs::symlink("/dev/full", &sp).is_err() { continue; }
        let o = type_word(&mut imp, "kori");
        rep.eval(Some(&format!("full|{}", v)));
        if let Obs::Full { cands, sel, .. } = &o { if cands.len() > 1 {
            let r = imp.commit((sel + 1) % cands.len());
            if r == Obs::Panic { rep.violation("C10", "commit-panics", "a learning commit panicked because the store could be opened but not written (disk full)".into(), what.clone()); let _ = std::fs::remove_file(&sp); continue; }
            if imp.ongoing() { rep.violation("C10", "commit-keeps-session", "after a learning commit whose save failed (disk full) the word is still being composed".into(), what.clone()); }
        } }
        if type_word(&mut imp, "ami") == Obs::Panic { rep.violation("C10", "typing-panics", "typing after a failed save (disk full) panicked".into(), what.clone()); let _ = std::fs::remove_file(&sp); continue; }
        imp.finish();
        // the store is writable again
        let _ = std::fs::remove_file(&sp);
        if let Some(b) = saved { let _ = std::fs::write(&sp, b); }
        if let Obs::Full { cands, sel, .. } = type_word(&mut imp, "bol") { if cands.len() > 1 {
            if imp.commit((sel + 1) % cands.len()) == Obs::Panic { rep.violation("C10", "commit-panics", "a learning commit after the disk-full episode panicked".into(), what.clone()); continue; }
            match file_ok(&xdg) { Some(true) => {}, other => rep.violation("C10", "store-not-loadable", format!("after the disk-full episode the store file is {:?}", other), what.clone()) }
        } }
        rep.count("full-disk-episode");
    }
    rep
}

/// a user auto-correct file that is fine when the context is created and gets damaged (cut as by an interrupted save, emptied, replaced
/// by JSON of the wrong shape) or removed WHILE THE CONTEXT LIVES: after the next reload of the configuration the context answers like
/// one for which the file is absent — also for the words it has already composed (their lists were memoised with the old entries)
fn live_damage(env: &Env) -> Report {
    let valid: HashMap<String, String> = [("ami", "tumi"), ("atm", "atom"), ("kor", "kOr"), ("hlw", "hello"), ("academy", "ekaDemi")].iter().map(|(a, b)| (a.to_string(), b.to_string())).collect();
    let doc = serde_json::to_vec(&valid).unwrap();
    let mut faults: Vec<(String, Option<Vec<u8>>)> = vec![("removed".into(), None), ("emptied".into(), Some(vec![])), ("wrong shape: array".into(), Some(b"[1,2]".to_vec())), ("wrong shape: number value".into(), Some(b"{\"ami\":1}".to_vec()))];
    for n in [1usize, doc.len() / 3, doc.len() / 2, doc.len() - 1] { faults.push((format!("cut to {} of {} bytes", n, doc.len()), Some(doc[..n].to_vec()))); }
    let words = ["ami", "atm", "atme", "kor", "korei", "hlw", "amike", "academy", "bon"];
    let reps = par_map(faults.len() * 2, |ui| {
        let (fname, fbytes) = &faults[ui / 2];
        let mut rep = Report::new("c10");
        let mut t = env.trace(&format!("c10.live{}", ui));
        t.line(&format!("case c10-live-{}", ui));
        let mut opts = Opts::none(); opts.phonetic_suggestion = true; opts.english = ui % 2 == 1; opts.smart_quote = ui % 4 < 2;
        let xdg = env.fresh_xdg(&format!("c10-live-{}", ui));
        let xref = env.fresh_xdg(&format!("c10-live-ref-{}", ui));
        std::fs::write(ac_path(&xdg), &doc).unwrap();
        let (mut s, mut r) = match (Sess::new(&mut t, &env.data, "c", PHONETIC, opts, &xdg), Sess::new(&mut t, &env.data, "ref", PHONETIC, opts, &xref)) { (Some(a), Some(b)) => (a, b), _ => return rep };
        s.follow_sel = false; r.follow_sel = false;
        for w in words { if s.type_text(&mut t, w) == Obs::Panic { return rep; } s.finish(&mut t); }
        match fbytes { None => { let _ = std::fs::remove_file(ac_path(&xdg)); }
            Some(b) => { std::fs::write(ac_path(&xdg), b).unwrap(); if let Ok(f) = std::fs::OpenOptions::new().write(true).open(ac_path(&xdg)) { let _ = f.set_modified(std::time::SystemTime::now() + std::time::Duration::from_secs(7200)); } } }
        let what = json!({"stream": "c10", "fault": fname, "file": "autocorrect", "when": "while the context lives"});
        if s.update(&mut t, PHONETIC, opts) == Obs::Panic { rep.violation("C10", "update-panics", format!("update_engine panicked after the user auto-correct file was {}", fname), what.clone()); return rep; }
        for w in words {
            let (o, e) = (s.type_text(&mut t, w), r.type_text(&mut t, w));
            rep.eval(Some(&format!("live|{}|{}", ui, w))); rep.count("live-damage-word");
            if o == Obs::Panic { rep.violation("C10", "typing-panics", format!("typing {:?} panicked after the user auto-correct file was {}", w, fname), what.clone()); return rep; }
            let same = match (&o, &e) { (Obs::Full { cands: a, sel: sa, .. }, Obs::Full { cands: b, sel: sb, .. }) => a == b && sa == sb, (x, y) => x == y };
            if !same {
                let mut w2 = what.clone(); w2["layout"] = json!(PHONETIC); w2["opts"] = json!(opts.bits_str()); w2["events"] = json!(s.events); w2["word"] = json!(w);
                rep.violation("C10", "unreadable-not-treated-as-absent", format!("user auto-correct file {} while the context lives, configuration reloaded: typing {:?} gives {:?}, with the file absent {:?}", fname, w, render_obs(&o, true), render_obs(&e, true)), w2);
                break;
            }
            s.finish(&mut t); r.finish(&mut t);
        }
        t.flush();
        rep
    });
    let mut rep = Report::new("c10");
    for r in reps { rep.merge(r); }
    rep.notes.push(format!("user auto-correct file damaged / removed while the context lives: {} faults x 2 settings, words composed before and after", faults.len()));
    rep
}

// ------------------------------------------------------------------------------------------ C11
fn set_mtime(p: &Path, secs_from_now: i64) {
    // explicit mtimes so that clock granularity is not what is being tested (assumption: an edit advances the mtime)
    let t = std::time::SystemTime::now() + std::time::Duration::from_secs(secs_from_now as u64);
    let f = std::fs::OpenOptions::new().write(true).open(p).unwrap();
    f.set_modified(t).unwrap();
}

pub fn run_c11(env: &Env) -> Report {
    let pools = WordPools::new(&env.data);
    let lay = mk_layouts(env);
    let seed = env.a.seed;
    let nunits = 32;
    let per = if env.quick() { 45 } else { 700 };
    let reps = par_map(nunits, |ui| {
        let mut rep = Report::new("c11");
        let mut rng = Rng::new(seed.wrapping_mul(134775813) ^ (ui as u64) << 14);
        let mut t = env.trace(&format!("c11.{}", ui));
        register_layouts(&mut t, env, &lay);
        let layouts = [PHONETIC, PHONETIC, PHONETIC, &lay.probhat, &lay.s1];
        for ci in 0..per {
            let mut l1 = rng.pick(&layouts).to_string();
            let mut l2 = if rng.chance(60) { l1.clone() } else { rng.pick(&layouts).to_string() };
            // the layout FILE of the running context changes on disk before the update (removed; or it is a symbolic link that is
            // re-pointed to the file the new configuration names): "changed layout" is decided by the configured paths, the new
            // layout must be loaded whatever happened to the old file
            let mut disk_change: Option<(u8, PathBuf, String)> = None;
            if l1 != PHONETIC && rng.chance(40) {
                let own = env.scratch.join(format!("c11-{}-{}-own-layout.json", ui, ci));
                let _ = std::fs::remove_file(&own);
                let other = if l1 == lay.probhat { lay.s1.clone() } else { lay.probhat.clone() };
                if rng.chance(50) { std::fs::copy(&l1, &own).unwrap(); l2 = if rng.chance(50) { PHONETIC.to_string() } else { other.clone() }; disk_change = Some((0, own.clone(), other)); }
                else { std::os::unix::fs::symlink(&l1, &own).unwrap(); l2 = other.clone(); disk_change = Some((1, own.clone(), other)); }
                l1 = own.to_str().unwrap().to_string();
                t.layout(&l1, &env.tsv);
            }
            let mut o1 = rand_opts(&mut rng); if rng.chance(70) { o1.phonetic_suggestion = true; }
            let mut o2 = if rng.chance(30) { o1 } else { let mut o = o1; for _ in 0..(1 + rng.below(4)) { let b = rng.below(11); let mut a = o.arr(); a[b] = !a[b]; let bits = a.iter().enumerate().fold(0u32, |acc, (i, x)| acc | ((*x as u32) << i)); o = Opts::from_bits(bits); } o };
            if rng.chance(60) { o2.phonetic_suggestion = true; }
            let case = format!("c11-{}-{}", ui, ci);
            t.line(&format!("case {}", case));
            let xdg = env.fresh_xdg(&case);
            // user auto-correct list before
            let words: Vec<String> = (0..4).map(|_| pools.word(&mut rng)).filter(|w| w.chars().all(|c| c.is_ascii_alphanumeric()) && !w.is_empty()).collect();
            if words.is_empty() { continue; }
            let ac1: HashMap<String, String> = words.iter().take(2).map(|w| (w.clone(), ["ami", "tumi", "kOr", "x"][rng.below(4)].to_string())).collect();
            let has_ac1 = rng.chance(60);
            if has_ac1 { std::fs::write(ac_path(&xdg), serde_json::to_string(&ac1).unwrap()).unwrap(); set_mtime(&ac_path(&xdg), 0); }
            // half of the cases start over a learned-selection store written in an earlier run (choices for the words of this case and for
            // a few others): a context is equivalent to a new one whatever it was created WITH
            if ci % 2 == 0 {
                // (only direct entries for the words of the case: one-letter bases such as those of the sample store would make the history
                //  DERIVE entries for suffixed words, which reach the file of the updated context with its next save — the documented difference)
                let mut st: HashMap<String, String> = HashMap::new();
                for w in &words { let dir = direct(&env.data, &HashMap::new(), w); if dir.len() > 1 { st.insert(w.clone(), dir[1 + ci % (dir.len() - 1)].0.clone()); } }
                std::fs::write(sel_path(&xdg), serde_json::to_string(&st).unwrap()).unwrap();
                rep.count("store-exists-before-the-context");
            }
            let mut a = match Sess::new(&mut t, &env.data, "a", &l1, o1, &xdg) { Some(s) => s, None => continue };
            let phon1 = l1 == PHONETIC;
            // history: the shared words are typed before the update (that is where staleness lives); some commits learn, and
            // the last word may leave a non-zero preselection behind (per-method state that an update must not carry over)
            let learn_hist = rng.chance(50);
            for (wi, w) in words.iter().enumerate() { if phon1 { let o = a.type_text(&mut t, w); match full(&o) { Some((c, sl)) if sl < c.len() => { // only the LAST word is learned: an earlier learned word could become the base of a derived entry that a later re-learning
                        // makes stale in memory (C09.derived_entry_shadows_relearning) — a known difference between an updated and a new context that
                        // this stream must not trip over
                        let i = if learn_hist && wi + 1 == words.len() && c.len() > 1 { (sl + 1) % c.len() } else { sl }; a.commit(&mut t, i);
                        if learn_hist && wi + 1 == words.len() { let o2 = a.type_text(&mut t, w); if let Some((c2, s2)) = full(&o2) { if s2 < c2.len() { a.commit(&mut t, s2); } else { a.finish(&mut t); } } } } _ => { a.finish(&mut t); } } } else { for _ in 0..3 { let k = *rng.pick(&['k', 'a', 'm', 'i', 'h']); a.key(&mut t, code_for_char(k).unwrap(), 0, 0); } a.finish(&mut t); } }
            // edits of the user auto-correct file between
            let edit = rng.below(4);
            match edit {
                0 => {}
                1 => { let ac2: HashMap<String, String> = words.iter().map(|w| (w.clone(), ["bhalo", "mondo", "ki"][rng.below(3)].to_string())).collect(); std::fs::write(ac_path(&xdg), serde_json::to_string(&ac2).unwrap()).unwrap(); set_mtime(&ac_path(&xdg), 5); }
                2 => { let _ = std::fs::remove_file(ac_path(&xdg)); }
                _ => { std::fs::write(ac_path(&xdg), b"{\"broken\":").unwrap(); set_mtime(&ac_path(&xdg), 7); }
            }
            if let Some((kind, own, other)) = &disk_change {
                let _ = std::fs::remove_file(own);
                if *kind == 1 { std::os::unix::fs::symlink(other, own).unwrap(); rep.count("layout-link-repointed-before-update"); } else { rep.count("layout-file-removed-before-update"); }
            }
            if a.update(&mut t, &l2, o2) == Obs::Panic { rep.violation("C11", "update-panics", "update_engine panicked".into(), json!({"stream": "c11", "events": a.events})); continue; }
            // the fresh context with the new configuration over (a copy of) the same files
            let xdg_b = env.scratch.join(format!("{}-b", case));
            { let (from, to) = (user_dir(&xdg), user_dir(&xdg_b)); let _ = std::fs::remove_dir_all(&to); std::fs::create_dir_all(&to).unwrap();
              if let Ok(rd) = std::fs::read_dir(&from) { for e in rd.flatten() { let dst = to.join(e.file_name()); let _ = std::fs::copy(e.path(), &dst);
                  if let Ok(m) = e.metadata().and_then(|m| m.modified()) { if let Ok(f) = std::fs::OpenOptions::new().write(true).open(&dst) { let _ = f.set_modified(m); } } } } }
            t.line("# fresh context over a copy of the user directory");
            let mut b = match Sess::new(&mut t, &env.data, "b", &l2, o2, &xdg_b) { Some(s) => s, None => continue };
            let phon2 = l2 == PHONETIC;
            let mut diverged = false;
            // the continuation: the words of the history, ANOTHER SPELLING of them in upper/lower case (the transliteration is case
            // sensitive: T is ট, t is ত — whatever the live context remembers per word must not be shared between the two), a suffixed
            // form, and a word not seen before
            let cont: Vec<String> = if phon2 { let mut v = words.clone();
                    if let Some(w0) = words.first() { let flipped: String = w0.chars().enumerate().map(|(i, c)| if i % 2 == 1 || w0.len() == 1 { if c.is_ascii_lowercase() { c.to_ascii_uppercase() } else { c.to_ascii_lowercase() } } else { c }).collect(); v.push(flipped); v.push(format!("{}er", w0)); }
                    v.push(pools.word(&mut rng)); v.retain(|w| w.chars().all(crate::code_ok)); v } else { vec!["kami".into(), "hk".into()] };
            for (cwi, w) in cont.iter().enumerate() {
                for ch in w.chars() {
                    let code = code_for_char(ch).unwrap();
                    let (oa, ob) = (a.key(&mut t, code, 0, 0), b.key(&mut t, code, 0, 0));
                    let eq = match (&oa, &ob) { (Obs::Full { cands: c1, sel: s1, aux: a1, ansi: n1, .. }, Obs::Full { cands: c2, sel: s2, aux: a2, ansi: n2, .. }) => { let (mut x, mut y) = (c1.clone(), c2.clone()); if !phon2 { x.sort(); y.sort(); } x == y && s1 == s2 && a1 == a2 && n1 == n2 } (x, y) => x == y };
                    if !eq && !diverged {
                        diverged = true;
                        rep.violation("C11", "updated-context-differs-from-new", format!("{} {} -> {} {} (auto-correct edit {}): typing {:?}: updated {:?} vs new {:?}", l1, o1.bits_str(), l2, o2.bits_str(), edit, w, render_obs(&oa, true), render_obs(&ob, true)),
                            json!({"stream": "c11", "layout_before": l1, "opts_before": o1.bits_str(), "layout_after": l2, "opts_after": o2.bits_str(), "edit": edit, "events": a.events, "fresh_events": b.events}));
                    }
                }
                // end the word by a commit (index 0, the preselected one, or another) in both, and compare what is on disk
                let idx = match (&a.last, &b.last) { (Obs::Full { cands: c1, sel: s1, .. }, Obs::Full { cands: c2, .. }) if !c1.is_empty() && c1.len() == c2.len() => Some(match rng.below(3) { 0 => 0, 1 => (*s1).min(c1.len() - 1), _ => rng.below(c1.len()) }),
                                                   (Obs::Single { text: x, .. }, Obs::Single { text: y, .. }) if !x.is_empty() && !y.is_empty() => Some(0), _ => None };
                match idx { Some(i) if rng.chance(70) => { a.commit(&mut t, i); b.commit(&mut t, i); } _ => { a.finish(&mut t); b.finish(&mut t); } }
                let (fa, fb) = (std::fs::read(sel_path(&xdg)).ok().and_then(|x| serde_json::from_slice::<HashMap<String, String>>(&x).ok()), std::fs::read(sel_path(&xdg_b)).ok().and_then(|x| serde_json::from_slice::<HashMap<String, String>>(&x).ok()));
                // compared on the words of the continuation only: entries derived for words typed BEFORE the update live in the updated
                // context's memory and reach its file with the next save; a new context never typed those words (not behaviour of a later event)
                let (wk, _, _) = { let (p0, w0, r0) = split(w, false); (w0, p0, r0) };
                // (… and only the words typed SO FAR: an entry derived before the update for a word that the continuation types later is the same
                //  documented difference — found by the thorough tier once the continuation got suffixed forms of the history words)
                // (… and not the suffixed / re-cased VARIANTS of the history words that the continuation also types: an entry derived for them before
                //  the update is exactly that documented difference)
                let is_variant = |cw: &String| cw != cont.last().unwrap() && !words.contains(cw);
                let differ = match (&fa, &fb) { (Some(x), Some(y)) => cont.iter().take(cwi + 1).filter(|cw| !is_variant(cw)).map(|cw| split(cw, false).1).any(|k| x.get(&k) != y.get(&k)), (None, None) => false, _ => true };
                let _ = &wk;
                if differ && !diverged { diverged = true; rep.violation("C11", "updated-context-stores-differently", format!("{} {} -> {} {}: after committing {:?} the selection files differ on a word of the continuation: updated {:?} vs new {:?}", l1, o1.bits_str(), l2, o2.bits_str(), w, fa, fb),
                    json!({"stream": "c11", "layout_before": l1, "opts_before": o1.bits_str(), "layout_after": l2, "opts_after": o2.bits_str(), "edit": edit, "events": a.events, "fresh_events": b.events})); }
                // now and then the configuration is changed once more, in both
                if rng.chance(20) && !a.imp.ongoing() { let mut o3 = o2; o3.phonetic_suggestion = !o3.phonetic_suggestion; o3.english = rng.chance(50); a.update(&mut t, &l2, o3); b.update(&mut t, &l2, o3); }
            }
            let _ = std::fs::remove_dir_all(&xdg_b);
            rep.eval(Some(&format!("{}|{}|{}|{}|{}", l1, o1.bits_str(), l2, o2.bits_str(), edit)));
            rep.count(["no-edit", "edit-entries", "remove-file", "corrupt-file"][edit]);
            rep.count(if l1 != l2 { "layout-changed" } else if phon1 { "same-phonetic" } else { "same-fixed" });
            if rep.samples.len() < 3 { rep.sample(json!({"before": [l1, o1.bits_str()], "after": [l2, o2.bits_str()], "edit": edit, "words": words})); }
            let _ = std::fs::remove_dir_all(&xdg);
        }
        t.flush();
        rep
    });
    let mut rep = Report::new("c11");
    for r in reps { rep.merge(r); }
    rep.notes.push("assumption: every edit of the user auto-correct file advances its mtime (the harness sets mtimes explicitly, +5 s / +7 s)".into());
    rep
}
