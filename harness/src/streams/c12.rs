//! C12 / C13 / C14 — fixed-layout composition: rule table, old-style reph, old vowel-sign order.
//! Layout S2 binds one key to one representative of every character class the rules distinguish.
//! Oracles are model-free: an independent rule table (C12), conservation + syllable grammar (C13),
//! two real contexts typing the same word in the two orders (C14).
use super::*;
use riti_harness::layouts::*;
use riti_harness::par::par_map;

const KAR: &str = "\u{09BE}\u{09BF}\u{09C0}\u{09C1}\u{09C2}\u{09C3}\u{09C7}\u{09C8}\u{09CB}\u{09CC}\u{09C4}";
const VOWEL: &str = "\u{0985}\u{0986}\u{0987}\u{0988}\u{0989}\u{098A}\u{098B}\u{098F}\u{0990}\u{0993}\u{0994}\u{098C}\u{09E1}\u{09BE}\u{09BF}\u{09C0}\u{09C1}\u{09C2}\u{09C3}\u{09C7}\u{09C8}\u{09CB}\u{09CC}";
const CONS: &str = "\u{0995}\u{0996}\u{0997}\u{0998}\u{0999}\u{099A}\u{099B}\u{099C}\u{099D}\u{099E}\u{099F}\u{09A0}\u{09A1}\u{09A2}\u{09A3}\u{09A4}\u{09A5}\u{09A6}\u{09A7}\u{09A8}\u{09AA}\u{09AB}\u{09AC}\u{09AD}\u{09AE}\u{09AF}\u{09B0}\u{09B2}\u{09B6}\u{09B7}\u{09B8}\u{09B9}\u{09CE}\u{09DC}\u{09DD}\u{09DF}";
const MARKS: &str = "`~!@#$%^+*-_=+\\|\"/;:,./?><()[]{}";
const HASANTA: char = '\u{09CD}'; const CHANDRA: char = '\u{0981}'; const ZWJ: char = '\u{200D}'; const ZWNJ: char = '\u{200C}';
const RA: char = '\u{09B0}'; const LENGTH_MARK: char = '\u{09D7}';

fn indep(k: char) -> Option<char> {
    Some(match k { '\u{09BE}' => '\u{0986}', '\u{09BF}' => '\u{0987}', '\u{09C0}' => '\u{0988}', '\u{09C1}' => '\u{0989}', '\u{09C2}' => '\u{098A}',
        '\u{09C3}' => '\u{098B}', '\u{09C7}' => '\u{098F}', '\u{09C8}' => '\u{0990}', '\u{09CB}' => '\u{0993}', '\u{09CC}' => '\u{0994}', _ => return None })
}

/// the documented rules (C12), written from the property text; returns None when the rules do not
/// say what happens (the sign U+09C4, which has no independent form, in a vowel-forming position)
pub fn rule_table(o: &Opts, before: &str, v: &str) -> Option<String> {
    let b: Vec<char> = before.chars().collect();
    let last = b.last().copied();
    let mut out: String = before.to_string();
    let vc: Vec<char> = v.chars().collect();
    // R1 zo-fola after a bare ra
    if v == "\u{09CD}\u{09AF}" {
        if last == Some(RA) && (b.len() < 2 || b[b.len() - 2] != HASANTA) { out.push(ZWJ); }
        out.push_str(v); return Some(out);
    }
    if vc.len() == 1 && KAR.contains(vc[0]) {
        let k = vc[0];
        // R2 automatic vowel forming
        if o.vowel && (b.is_empty() || VOWEL.contains(last.unwrap()) || MARKS.contains(last.unwrap())) {
            out.push(indep(k)?); return Some(out);
        }
        // R3 automatic chandrabindu
        if o.chandra && last == Some(CHANDRA) { out.pop(); out.push(k); out.push(CHANDRA); return Some(out); }
        // R4 sign after hasanta
        if last == Some(HASANTA) { out.pop(); out.push(indep(k)?); return Some(out); }
        // R5 traditional joining
        if o.kar && last.map(|c| CONS.contains(c)).unwrap_or(false) && "\u{09C1}\u{09C2}\u{09C3}".contains(k) { out.push(ZWNJ); out.push(k); return Some(out); }
        out.push(k); return Some(out);
    }
    // R6 second hasanta
    if v == "\u{09CD}" && last == Some(HASANTA) { out.push(ZWNJ); return Some(out); }
    // R7 AU length mark after hasanta
    if v == "\u{09D7}" && last == Some(HASANTA) { out.pop(); out.push('\u{0994}'); return Some(out); }
    out.push_str(v);
    Some(out)
}

fn alphabet() -> Vec<(char, &'static str)> {
    let keep = "krTtoaiIuUREOwWLhcnjJ1m.lxyzK";   // every one of the ten signs with an independent form + U+09C4
    s2_bindings().into_iter().filter(|(c, _)| keep.contains(*c)).collect()
}

fn pre_text(o: &Obs) -> String { match o { Obs::Single { text, .. } => text.clone(), Obs::Full { aux, .. } => aux.clone(), _ => String::new() } }

fn settings(old_reph_fixed: Option<bool>) -> Vec<Opts> {
    let mut v = vec![];
    for b in 0..16u32 {
        let mut o = Opts::none();
        o.vowel = b & 1 == 1; o.chandra = b & 2 == 2; o.kar = b & 4 == 4; o.old_reph = b & 8 == 8;
        if let Some(r) = old_reph_fixed { if o.old_reph != r { continue; } }
        v.push(o);
    }
    v
}

/// one key event checked against the rule table; `before` is the observed text before the key
fn check_key(rep: &mut Report, o: &Opts, before: &str, v: &str, after: &str, hist: &dyn Fn() -> serde_json::Value) {
    if v == "\u{09B0}\u{09CD}" && o.old_reph { check_reph(rep, before, after, hist); return; }
    let vc: Vec<char> = v.chars().collect();
    match rule_table(o, before, v) {
        None => { rep.count("unspecified-sign-without-independent-form"); }
        Some(exp) => {
            if exp != after {
                let cls = if vc.len() > 1 && KAR.contains(vc[0]) { "multi-codepoint-value-starting-with-vowel-sign" }
                    else if vc.len() > 1 && (vc[0] == HASANTA || vc[0] == LENGTH_MARK) && before.ends_with(HASANTA) { "multi-codepoint-value-after-hasanta" }
                    else { "rule-table-mismatch" };
                rep.violation("C12", cls, format!("opts {} text {:?} + key value {:?}: expected {:?}, got {:?}", o.bits_str(), before, v, exp, after), hist());
            }
        }
    }
}

/// C13: conservation on every reph key; placement on the texts the grammar accepts
fn check_reph(rep: &mut Report, before: &str, after: &str, hist: &dyn Fn() -> serde_json::Value) {
    let b: Vec<char> = before.chars().collect();
    let a: Vec<char> = after.chars().collect();
    rep.count("reph-key");
    // conservation: after = before with ra+hasanta inserted at one position
    let mut pos = None;
    if a.len() == b.len() + 2 {
        for i in 0..=b.len() {
            if a[..i] == b[..i] && a[i] == RA && a[i + 1] == HASANTA && a[i + 2..] == b[i..] { pos = Some(i); break; }
        }
    }
    let pos = match pos { Some(p) => p, None => { rep.violation("C13", "reph-not-conserving", format!("{:?} + reph = {:?}", before, after), hist()); return; } };
    // placement: parse before = pre ++ conj ++ vow? ++ chandra?
    let mut i = b.len();
    let chn = i > 0 && b[i - 1] == CHANDRA; if chn { i -= 1; }
    let vow = i > 0 && VOWEL.contains(b[i - 1]); if vow { i -= 1; }
    let mut j = i;
    if j > 0 && CONS.contains(b[j - 1]) {
        j -= 1;
        while j >= 2 && b[j - 1] == HASANTA && CONS.contains(b[j - 2]) { j -= 2; }
    }
    let has_conj = j < i;
    let expected = if has_conj { j } else { b.len() };
    // well-formedness of what precedes (only then does the property promise the position)
    let prev = if j > 0 { Some(b[j - 1]) } else { None };
    let well_formed = match prev { Some(HASANTA) => false, _ => true } && !(vow && !has_conj && false);
    if !well_formed { rep.count("reph-ill-formed-skipped"); return; }
    if !has_conj {
        // "the end of p otherwise" — but a text ending in vowel(+chandra) without a consonant before is also "otherwise"
        if pos != b.len() { rep.violation("C13", "reph-misplaced", format!("{:?} + reph = {:?}: expected at the end", before, after), hist()); }
        return;
    }
    if pos != expected {
        let unclassified = |c: char| !(CONS.contains(c) || VOWEL.contains(c) || c == HASANTA || c == CHANDRA);
        let cls = if prev.map(unclassified).unwrap_or(false) { "reph-after-unclassified-code-point" }
            else if prev.map(|c| VOWEL.contains(c)).unwrap_or(false) && chn && !vow { "reph-consonant-chandrabindu-after-vowel" }
            else { "reph-misplaced" };
        rep.violation("C13", cls, format!("{:?} + reph = {:?}: expected before the final conjunct (position {}), found at {}", before, after, expected, pos), hist());
    }
}

fn run_history(env: &Env, rep: &mut Report, s: &mut Sess, t: Option<&mut Trace>, o: &Opts, keys: &[(char, &'static str)], hist: &[usize], lp: &str) {
    // hist: indices into keys; keys.len() = backspace
    let mut before = String::new();
    let mut dummy;
    let mut tref: Option<&mut Trace> = t;
    let mut evs: Vec<String> = vec![];
    for &h in hist {
        if h == keys.len() {
            let ob = match tref.as_deref_mut() { Some(t) => s.backspace(t, false), None => s.imp.backspace(false) };
            let after = pre_text(&ob);
            evs.push("bs".into());
            let exp: String = { let mut c: Vec<char> = before.chars().collect(); c.pop(); c.into_iter().collect() };
            if after != exp {
                let e2 = evs.clone();
                rep.violation("C12", "backspace-not-one-code-point", format!("opts {} text {:?} + backspace = {:?}", o.bits_str(), before, after), json!({"stream": "c12", "layout": lp, "opts": o.bits_str(), "keys": e2}));
            }
            before = after;
        } else {
            let (kc, v) = keys[h];
            let code = code_for_char(kc).unwrap();
            let ob = match tref.as_deref_mut() { Some(t) => s.key(t, code, 0, 0), None => s.imp.key(code, 0, 0) };
            if ob == Obs::Panic { rep.violation("C01", "panic", format!("text {:?} + {:?}", before, v), json!({"stream": "c12", "opts": o.bits_str(), "keys": evs})); return; }
            let after = pre_text(&ob);
            evs.push(format!("{}", kc));
            let e2 = evs.clone(); let ob2 = o.bits_str(); let lp2 = lp.to_string();
            check_key(rep, o, &before, v, &after, &move || json!({"stream": "c12", "layout": lp2, "opts": ob2, "keys": e2}));
            before = after;
        }
    }
    match tref.as_deref_mut() { Some(t) => { s.finish(t); } None => { s.imp.finish(); } }
    dummy = 0; let _ = dummy; dummy = 1; let _ = dummy;
    let _ = env;
}

pub fn run(env: &Env) -> Report {
    let lp = write_s2(&env.a.out).to_str().unwrap().to_string();
    let keys = alphabet();
    let nk = keys.len() + 1;
    let sets = settings(None);
    let seed = env.a.seed;
    let maxlen = if env.quick() { 3 } else { 4 };
    let reps = par_map(sets.len() * 2, |ui| {
        // the options the rules do NOT mention vary from unit to unit (ANSI output, smart quotes, English item, number pad): none of
        // them may change what a key does to the composed text
        let mut o = sets[ui / 2]; o.ansi = ui % 3 == 1; o.smart_quote = ui % 5 < 2; o.english = ui % 7 < 3; o.numpad = ui % 2 == 0; o.phonetic_suggestion = ui % 4 == 0;
        let half = ui % 2;
        let mut rep = Report::new("c12");
        let xdg = env.fresh_xdg(&format!("c12-{}", ui));
        let mut t = env.trace(&format!("c12.{}", ui));
        t.layout(&lp, &env.tsv);
        t.line(&format!("case c12-{}", ui));
        let mut s = Sess::new(&mut t, &env.data, "c", &lp, o, &xdg).expect("context");
        // complete enumeration of histories up to maxlen (first symbol parity = half); traced up to length 2
        let mut h: Vec<usize> = vec![];
        fn rec(env: &Env, rep: &mut Report, s: &mut Sess, t: &mut Trace, o: &Opts, keys: &[(char, &'static str)], h: &mut Vec<usize>, nk: usize, maxlen: usize, half: usize, lp: &str) {
            if !h.is_empty() {
                if h[0] % 2 != half { return; }
                let traced = h.len() <= 2;
                run_history(env, rep, s, if traced { Some(t) } else { None }, o, keys, h, lp);
                rep.eval(Some(&format!("{}|{:?}", o.bits_str(), h)));
            }
            if h.len() == maxlen { return; }
            for k in 0..nk { h.push(k); rec(env, rep, s, t, o, keys, h, nk, maxlen, half, lp); h.pop(); }
        }
        rec(env, &mut rep, &mut s, &mut t, &o, &keys, &mut h, nk, maxlen, half, &lp);
        // random longer histories, all traced
        let mut rng = Rng::new(seed.wrapping_mul(6364136223846793005) ^ ui as u64);
        for _ in 0..(if env.quick() { 250 } else { 6000 }) {
            let len = 4 + rng.below(if env.quick() { 12 } else { 36 });
            let hist: Vec<usize> = (0..len).map(|_| if rng.chance(12) { keys.len() } else { rng.below(keys.len()) }).collect();
            run_history(env, &mut rep, &mut s, Some(&mut t), &o, &keys, &hist, &lp);
            rep.eval(Some(&format!("{}|{:?}", o.bits_str(), hist)));
            if rep.samples.len() < 2 { rep.sample(json!({"opts": o.bits_str(), "keys": hist.iter().map(|&k| if k == keys.len() { "BS".to_string() } else { keys[k].1.to_string() }).collect::<Vec<_>>() })); }
        }
        rep.slowest_event_s = s.imp.slowest;
        t.flush();
        rep
    });
    let mut rep = Report::new("c12");
    for r in reps { rep.merge(r); }
    rep.merge(class_sweep(env));
    rep.exhaustive = true;
    rep.notes.push(format!("all key histories of length <= {} over {} class representatives + backspace under the 16 settings of (auto vowel, auto chandrabindu, traditional joining, old reph), plus random longer histories", maxlen, keys.len()));
    rep
}

/// class sweep: the rules are selected by the CLASS of the previous character, and a class is a set of code points — so every
/// assigned code point of the Bengali block (not one representative per class), the joiners and a few ASCII marks and letters is
/// typed as the previous character, followed by every kind of value the rules distinguish, under the 16 helper settings
fn class_sweep(env: &Env) -> Report {
    let mut prevs: Vec<String> = vec![];
    for cp in 0x0980u32..=0x09FF { if let Some(c) = char::from_u32(cp) { if !matches!(cp, 0x0984 | 0x098D | 0x098E | 0x0991 | 0x0992 | 0x09A9 | 0x09B1 | 0x09B3..=0x09B5 | 0x09BA | 0x09BB | 0x09C5 | 0x09C6 | 0x09C9 | 0x09CA | 0x09CF..=0x09D6 | 0x09D8..=0x09DB | 0x09DE | 0x09E4 | 0x09E5 | 0x09FF) { prevs.push(c.to_string()); } } }
    for c in ["\u{200C}", "\u{200D}", "\u{0964}", "\u{0965}"] { prevs.push(c.to_string()); }
    for cp in 0x20u32..=0x7E { prevs.push(char::from_u32(cp).unwrap().to_string()); }      // every printable ASCII character
    let vals: Vec<String> = ["\u{09BE}", "\u{09BF}", "\u{09C0}", "\u{09C1}", "\u{09C2}", "\u{09C3}", "\u{09C7}", "\u{09C8}", "\u{09CB}", "\u{09CC}", "\u{09CD}", "\u{09D7}", "\u{09CD}\u{09AF}", "\u{09B0}\u{09CD}", "\u{0981}", "\u{0995}", "\u{09AF}", "\u{0985}"].iter().map(|s| s.to_string()).collect();
    // layouts: the previous characters in chunks, each chunk together with all the values
    let room = 90 - vals.len();
    let chunks: Vec<Vec<String>> = prevs.chunks(room).map(|c| c.to_vec()).collect();
    let sets = settings(None);
    // one layout file per chunk, written once (the units below run in parallel)
    let layouts: Vec<(Vec<String>, String, Vec<(u16, u8)>)> = chunks.iter().enumerate().map(|(ci, ch)| {
        let mut all: Vec<String> = vals.clone(); for p in ch { if !all.contains(p) { all.push(p.clone()); } }
        let (lpath, how) = write_values(&env.a.out, &format!("sweep{}", ci), &all);
        (all, lpath.to_str().unwrap().to_string(), how)
    }).collect();
    let reps = par_map(sets.len() * chunks.len(), |ui| {
        let o = sets[ui % sets.len()]; let ci = ui / sets.len();
        let mut rep = Report::new("c12");
        let (all, lp, how) = (&layouts[ci].0, layouts[ci].1.clone(), &layouts[ci].2);
        let xdg = env.fresh_xdg(&format!("c12-sweep-{}", ui));
        let mut t = env.trace(&format!("c12.sweep{}", ui));
        t.layout(&lp, &env.tsv);
        t.line(&format!("case c12-sweep-{}", ui));
        let mut s = Sess::new(&mut t, &env.data, "c", &lp, o, &xdg).expect("context");
        let key_of = |v: &String| how[all.iter().position(|x| x == v).unwrap()];
        for p in &chunks[ci] {
            for v in &vals {
                let (pc, pm) = key_of(p); let (vc, vm) = key_of(v);
                // a previous character that is itself a vowel sign is typed behind a consonant (at the very start it would be turned into
                // its vowel, or dropped): the case "the text ends in the SIGN" is reached this way
                let p_is_sign = p.chars().count() == 1 && KAR.contains(p.chars().next().unwrap());
                let mut lead = String::new();
                if p_is_sign { let (kc, km) = key_of(&"\u{0995}".to_string()); lead = pre_text(&s.key(&mut t, kc, km, 0)); }
                let ob = s.key(&mut t, pc, pm, 0);
                if ob == Obs::Panic { rep.violation("C01", "panic", format!("key value {:?} on an empty composition panicked", p), json!({"stream": "c12", "layout": lp, "opts": o.bits_str(), "events": s.events})); s.clear_events(); continue; }
                let before = pre_text(&ob);
                let ob = s.key(&mut t, vc, vm, 0);
                if ob == Obs::Panic { rep.violation("C01", "panic", format!("text {:?} + key value {:?} panicked", before, v), json!({"stream": "c12", "layout": lp, "opts": o.bits_str(), "events": s.events})); s.clear_events(); continue; }
                let after = pre_text(&ob);
                let evs = s.events.clone(); let ob2 = o.bits_str(); let lp2 = lp.clone();
                // the first key is held to the rules too (empty text before it)
                check_key(&mut rep, &o, &lead, p, &before, &{ let (e, b, l) = (evs.clone(), ob2.clone(), lp2.clone()); move || json!({"stream": "c12", "layout": l, "opts": b, "events": e[..e.len() - 1].to_vec()}) });
                check_key(&mut rep, &o, &before, v, &after, &move || json!({"stream": "c12", "layout": lp2, "opts": ob2, "events": evs}));
                rep.eval(Some(&format!("sweep|{}|{}|{}", o.bits_str(), p, v)));
                rep.count("class-sweep-pair");
                s.finish(&mut t); s.clear_events();
            }
        }
        // … and the other way round: every character of the chunk as the VALUE typed after one representative of each kind of
        // previous character (which values count as vowel signs / ligature-making signs is a set of code points too)
        for v in &chunks[ci] {
            for p in ["\u{0995}", "\u{0985}", "\u{09BE}", "\u{09CD}", "\u{0981}", "\u{09AF}"] {
                let p = p.to_string();
                let (pc, pm) = key_of(&p); let (vc, vm) = key_of(v);
                let ob = s.key(&mut t, pc, pm, 0);
                if ob == Obs::Panic { s.clear_events(); continue; }
                let before = pre_text(&ob);
                let ob = s.key(&mut t, vc, vm, 0);
                if ob == Obs::Panic { rep.violation("C01", "panic", format!("text {:?} + key value {:?} panicked", before, v), json!({"stream": "c12", "layout": lp, "opts": o.bits_str(), "events": s.events})); s.clear_events(); continue; }
                let after = pre_text(&ob);
                let evs = s.events.clone(); let ob2 = o.bits_str(); let lp2 = lp.clone();
                check_key(&mut rep, &o, &before, v, &after, &move || json!({"stream": "c12", "layout": lp2, "opts": ob2, "events": evs}));
                rep.eval(Some(&format!("sweepv|{}|{}|{}", o.bits_str(), p, v)));
                rep.count("class-sweep-value-pair");
                s.finish(&mut t); s.clear_events();
            }
        }
        t.flush();
        rep
    });
    let mut rep = Report::new("c12");
    for r in reps { rep.merge(r); }
    rep.notes.push(format!("class sweep: {} characters (every assigned code point of the Bengali block, the joiners, danda, every printable ASCII character) as the previous character x {} kinds of value, and as the value after 6 kinds of previous character, x 16 settings", prevs.len(), vals.len()));
    rep
}

// ---------------------------------------------------------------------------------------------
// C14: typewriter order (option on) vs Unicode order (option off)

#[derive(Clone, Debug)]
enum Syl { Cons { c0: char, joins: Vec<u8>, kar: Option<char>, chandra: bool, tail: Option<char> }, Indep(char), Punct(char) }

/// key characters (S2 layout) of a syllable in the two orders; `au_mark`: spell ৌ with the length mark
fn syl_keys(s: &Syl, typewriter: bool, au_mark: bool) -> Vec<char> {
    match s {
        Syl::Indep(k) | Syl::Punct(k) => vec![*k],
        Syl::Cons { c0, joins, kar, chandra, tail } => {
            let mut v = vec![];
            // S2 keys: i=ি E=ে O=ৈ w=ো W=ৌ a=া l=ৗ
            let left = matches!(kar, Some('i') | Some('E') | Some('O'));
            if typewriter {
                if left { v.push(kar.unwrap()); }
                if matches!(kar, Some('w') | Some('W')) { v.push('E'); }
            }
            v.push(*c0);
            for j in joins { match j { 0 => { v.push('h'); v.push('k'); } 1 => { v.push('h'); v.push('t'); } 2 => v.push('x'), 3 => v.push('y'), _ => { v.push('h'); v.push('r'); } } }
            if let Some(k) = kar {
                if typewriter {
                    match k { 'i' | 'E' | 'O' => {} 'w' => v.push('a'), 'W' => v.push(if au_mark { 'l' } else { 'W' }), k => v.push(*k) }
                } else { v.push(*k); }
            }
            if *chandra { v.push('c'); }
            // an independent vowel typed as hasanta + sign after the syllable (the C12 rule), e.g. কে + ্ + ু = কেউ
            if let Some(t) = tail { v.push('h'); v.push(*t); }
            v
        }
    }
}

pub fn run_c14(env: &Env) -> Report {
    let lp = write_s2(&env.a.out).to_str().unwrap().to_string();
    let bind: std::collections::HashMap<char, &'static str> = s2_bindings().into_iter().collect();
    // syllable alphabet
    let mut syls: Vec<Syl> = vec![];
    let kars = [None, Some('a'), Some('i'), Some('I'), Some('u'), Some('U'), Some('R'), Some('E'), Some('O'), Some('w'), Some('W')];
    let joinsets: Vec<Vec<u8>> = { let mut v = vec![vec![]]; for a in 0..5u8 { v.push(vec![a]); for b in 0..5u8 { v.push(vec![a, b]); } } v };
    for c0 in ['k', 'r', 't'] { for j in &joinsets { for k in kars { for ch in [false, true] { syls.push(Syl::Cons { c0, joins: j.clone(), kar: k, chandra: ch, tail: None }); } } } }
    // a key whose VALUE is a whole conjunct (K = ক্ষ: the hasanta sits inside the value) as the consonant of the syllable
    for k in kars { for j in [vec![], vec![0u8], vec![3u8]] { syls.push(Syl::Cons { c0: 'K', joins: j, kar: k, chandra: false, tail: None }); } }
    // vowel via hasanta + sign after a syllable carrying a sign (no chandrabindu in between)
    for c0 in ['k', 't'] { for k in [Some('i'), Some('E'), Some('O'), Some('a'), Some('w')] { for tl in ['u', 'a', 'i', 'E'] { syls.push(Syl::Cons { c0, joins: vec![], kar: k, chandra: false, tail: Some(tl) }); syls.push(Syl::Cons { c0, joins: vec![0], kar: k, chandra: false, tail: Some(tl) }); } } }
    for v in ['o', 'e'] { syls.push(Syl::Indep(v)); }
    for m in ['m', '.'] { syls.push(Syl::Punct(m)); }
    let n1 = syls.len();
    let seed = env.a.seed;
    let helper_sets: Vec<Opts> = (0..8u32).map(|b| { let mut o = Opts::none(); o.vowel = b & 1 == 1; o.chandra = b & 2 == 2; o.kar = b & 4 == 4; o }).collect();
    let reps = par_map(16, |ui| {
        let mut base = helper_sets[ui % 8];
        // the options the property does not mention vary too (the same in both contexts of a pair)
        base.ansi = ui % 3 == 1; base.smart_quote = ui % 5 < 2; base.english = ui % 7 < 3; base.numpad = ui % 2 == 0;
        let au_mark = ui / 8 == 1;
        let mut rep = Report::new("c14");
        let mut on = base; on.kar_order = true;
        let off = base;
        let xdg = env.fresh_xdg(&format!("c14-{}", ui));
        let mut t = env.trace(&format!("c14.{}", ui));
        t.layout(&lp, &env.tsv);
        t.line(&format!("case c14-{}", ui));
        let mut a = Sess::new(&mut t, &env.data, "on", &lp, on, &xdg).expect("ctx");
        let mut b = Sess::new(&mut t, &env.data, "off", &lp, off, &xdg).expect("ctx");
        let mut rng = Rng::new(seed.wrapping_mul(1103515245) ^ (ui as u64) << 8);
        let mut check_word = |rep: &mut Report, a: &mut Sess, b: &mut Sess, t: &mut Trace, word: &[&Syl], traced: bool| {
            let ka: Vec<char> = word.iter().flat_map(|s| syl_keys(s, true, au_mark)).collect();
            let kb: Vec<char> = word.iter().flat_map(|s| syl_keys(s, false, au_mark)).collect();
            let mut ta = String::new(); let mut tb = String::new();
            for (i, k) in ka.iter().enumerate() {
                let code = code_for_char(*k).unwrap();
                let o = if traced { a.key(t, code, 0, 0) } else { a.imp.key(code, 0, 0) }; ta = pre_text(&o);
                let on_flag = a.imp.ongoing();
                if !on_flag { rep.violation("C14", "typing-without-session", format!("typewriter keys {:?}: no ongoing session after key {}", ka, i), json!({"stream": "c14", "opts": on.bits_str(), "keys": ka.iter().collect::<String>()})); }
            }
            for k in &kb { let code = code_for_char(*k).unwrap(); let o = if traced { b.key(t, code, 0, 0) } else { b.imp.key(code, 0, 0) }; tb = pre_text(&o); }
            rep.eval(Some(&format!("{}|{}", on.bits_str(), ka.iter().collect::<String>())));
            if ta != tb {
                let first = match word.first() { Some(Syl::Cons { c0: 'r', joins, kar, .. }) if joins.first() == Some(&3) && matches!(kar, Some('i') | Some('E') | Some('O') | Some('w') | Some('W')) => true, _ => false };
                let any_ra_zofola = word.iter().any(|s| matches!(s, Syl::Cons { c0: 'r', joins, kar, .. } if joins.first() == Some(&3) && matches!(kar, Some('i') | Some('E') | Some('O') | Some('w') | Some('W'))));
                let cls = if first || any_ra_zofola { "ra-zofola-left-sign" } else { "orders-differ" };
                rep.violation("C14", cls, format!("opts {}: typewriter keys {:?} give {:?}, Unicode-order keys {:?} give {:?}", base.bits_str(), ka.iter().map(|k| bind[k]).collect::<Vec<_>>(), ta, kb.iter().map(|k| bind[k]).collect::<Vec<_>>(), tb),
                    json!({"stream": "c14", "layout": lp, "opts_on": on.bits_str(), "opts_off": off.bits_str(), "typewriter_keys": ka.iter().collect::<String>(), "unicode_keys": kb.iter().collect::<String>()}));
            }
            if traced { a.finish(t); b.finish(t); } else { a.imp.finish(); b.imp.finish(); }
        };
        // all single syllables (traced), then two-syllable words (sampled in quick, all in thorough; traced sample)
        for s in &syls { check_word(&mut rep, &mut a, &mut b, &mut t, &[s], true); }
        let n2 = if env.quick() { 6000 } else { 200000 };
        for i in 0..n2 {
            let w = [&syls[rng.below(n1)], &syls[rng.below(n1)]];
            check_word(&mut rep, &mut a, &mut b, &mut t, &w, i % 10 == 0);
        }
        for i in 0..(n2 / 6) {
            let w = [&syls[rng.below(n1)], &syls[rng.below(n1)], &syls[rng.below(n1)]];
            check_word(&mut rep, &mut a, &mut b, &mut t, &w, i % 10 == 0);
        }
        // random key histories with the option on (no oracle: these feed the correspondence with the model, which
        // carries the whole pending-sign state machine)
        {
            let pool: Vec<char> = "krtoeaiIuUREOwWhcnjJ1m.lxyzK".chars().collect();
            for _ in 0..(if env.quick() { 250 } else { 5000 }) {
                let len = 2 + rng.below(10);
                for _ in 0..len { if rng.chance(12) { a.backspace(&mut t, false); } else { let k = *rng.pick(&pool); a.key(&mut t, code_for_char(k).unwrap(), 0, 0); } }
                a.finish(&mut t); a.clear_events();
                rep.count("random-history-option-on");
            }
        }
        // an independent vowel typed with its SIGN key (automatic vowel forming on): at the start, after punctuation, after a vowel
        // (sign). The left-standing signs wait here too, and what follows is another sign, not a consonant — both orders use the
        // same keys, so both contexts must show the same text
        if base.vowel {
            for (pa, pb) in [("", ""), ("(", "("), ("m", "m"), (":", ":"), ("o", "o"), ("ka", "ka"), ("ik", "ki"), ("kaik", "kaki")] {
                for k1 in ['i', 'E', 'O', 'a', 'u'] {
                    for k2 in ['a', 'I', 'u', 'U', 'R'] {
                        let ka: String = format!("{}{}{}", pa, k1, k2); let kb: String = format!("{}{}{}", pb, k1, k2);
                        let mut ta = String::new(); let mut tb = String::new();
                        for k in ka.chars() { ta = pre_text(&a.key(&mut t, code_for_char(k).unwrap(), 0, 0)); }
                        for k in kb.chars() { tb = pre_text(&b.key(&mut t, code_for_char(k).unwrap(), 0, 0)); }
                        rep.eval(Some(&format!("{}|vs|{}", on.bits_str(), ka)));
                        rep.count("vowel-by-sign-key");
                        if ta != tb {
                            rep.violation("C14", "orders-differ", format!("opts {}: vowels typed with their sign keys: typewriter-order keys {:?} give {:?}, Unicode-order keys {:?} give {:?}", base.bits_str(), ka.chars().map(|k| bind[&k]).collect::<Vec<_>>(), ta, kb.chars().map(|k| bind[&k]).collect::<Vec<_>>(), tb),
                                json!({"stream": "c14", "layout": lp, "opts_on": on.bits_str(), "opts_off": off.bits_str(), "typewriter_keys": ka, "unicode_keys": kb}));
                        }
                        a.finish(&mut t); b.finish(&mut t);
                    }
                }
            }
        }
        // a sign that waits when the word ENDS (commit, finish, ctrl-backspace) is gone with the word: no session is left and the next
        // consonant comes out bare, exactly as with the option off
        for k in ['i', 'E', 'O'] {
            for pre in ["", "k", "ka"] {
                for term in 0..3 {
                    for c in pre.chars() { a.key(&mut t, code_for_char(c).unwrap(), 0, 0); }
                    a.key(&mut t, code_for_char(k).unwrap(), 0, 0);
                    match term { 0 => { a.commit(&mut t, 0); } 1 => { a.finish(&mut t); } _ => { a.backspace(&mut t, true); } }
                    let still = a.imp.ongoing();
                    let ta = pre_text(&a.key(&mut t, code_for_char('t').unwrap(), 0, 0));
                    let tb = pre_text(&b.key(&mut t, code_for_char('t').unwrap(), 0, 0));
                    rep.eval(Some(&format!("{}|pt|{}{}{}", on.bits_str(), pre, k, term))); rep.count("pending-sign-at-word-end");
                    if still || ta != tb {
                        rep.violation("C14", "pending-sign-survives-word-end", format!("opts {}: keys {:?} + waiting sign {:?}, then {}: session still ongoing = {}, next consonant gives {:?} (option off: {:?})", base.bits_str(), pre, bind[&k], ["commit", "finish", "ctrl-backspace"][term], still, ta, tb),
                            json!({"stream": "c14", "layout": lp, "opts": on.bits_str(), "events": a.events}));
                    }
                    a.finish(&mut t); b.finish(&mut t); a.clear_events(); b.clear_events();
                }
            }
        }
        // pending-sign clauses: a left sign alone is not shown, is a session, and one backspace discards it
        for k in ['i', 'E', 'O'] {
            for pre in ["", "k", "ka", "o"] {
                let before = if pre.is_empty() { String::new() } else { pre_text(&a.type_text(&mut t, pre)) };
                let o = a.key(&mut t, code_for_char(k).unwrap(), 0, 0);
                let shown = pre_text(&o);
                let hasanta_case = before.ends_with(HASANTA);
                if !hasanta_case {
                    if shown != before { rep.violation("C14", "pending-sign-shown", format!("after {:?} the waiting sign {:?} changed the shown text to {:?}", before, bind[&k], shown), json!({"stream": "c14", "opts": on.bits_str(), "keys": format!("{}{}", pre, k)})); }
                    if !a.imp.ongoing() { rep.violation("C14", "pending-sign-no-session", "a waiting sign does not count as an ongoing session".into(), json!({"stream": "c14", "opts": on.bits_str(), "keys": format!("{}{}", pre, k)})); }
                    let o2 = a.backspace(&mut t, false);
                    if pre_text(&o2) != before || a.imp.ongoing() != !before.is_empty() { rep.violation("C14", "pending-sign-backspace", format!("one backspace did not just discard the waiting sign: {:?} -> {:?}", before, pre_text(&o2)), json!({"stream": "c14", "opts": on.bits_str(), "keys": format!("{}{}BS", pre, k)})); }
                    rep.count("pending-clauses");
                }
                a.finish(&mut t);
            }
        }
        t.flush();
        rep
    });
    let mut rep = Report::new("c14");
    for r in reps { rep.merge(r); }
    rep.notes.push(format!("{} syllable shapes (3 consonants incl. ra, <=2 joins of 5 kinds, 11 sign options, chandrabindu on/off, 2 vowels, 2 marks): all one-syllable words, sampled two- and three-syllable words, 8 helper settings x both spellings of the AU sign", n1));
    rep
}

// ---------------------------------------------------------------------------------------------
// C13: histories followed by the reph key, old reph on

pub fn run_c13(env: &Env) -> Report {
    let lp = write_s2(&env.a.out).to_str().unwrap().to_string();
    let keep = "krtToeaiuhcmxyJn1";      // T = khanda ta: a consonant like the others for the reph
    let keys: Vec<(char, &'static str)> = s2_bindings().into_iter().filter(|(c, _)| keep.contains(*c)).collect();
    let sets = settings(Some(true));
    let seed = env.a.seed;
    let maxlen = if env.quick() { 4 } else { 5 };
    let reps = par_map(sets.len() * 4, |ui| {
        // … each also with the old vowel-sign order on: a left-standing sign then WAITS while the reph key is pressed; the reph
        // still goes where the composed text (without the waiting sign) says
        let mut o = sets[ui / 4]; let half = ui % 2; o.kar_order = (ui / 2) % 2 == 1;
        // "under all other option settings": ANSI output, smart quotes, the English item and the number pad vary from unit to unit
        o.ansi = ui % 3 == 1; o.smart_quote = ui % 5 < 2; o.english = ui % 7 < 3; o.numpad = ui % 4 < 2; o.phonetic_suggestion = ui % 8 < 3;
        let mut rep = Report::new("c13");
        let xdg = env.fresh_xdg(&format!("c13-{}", ui));
        let mut t = env.trace(&format!("c13.{}", ui));
        t.layout(&lp, &env.tsv);
        t.line(&format!("case c13-{}", ui));
        let mut s = Sess::new(&mut t, &env.data, "c", &lp, o, &xdg).expect("context");
        let reph = code_for_char('z').unwrap();
        let mut one = |rep: &mut Report, s: &mut Sess, t: &mut Trace, hist: &[usize], traced: bool| {
            let mut before = String::new();
            for &h in hist {
                let code = code_for_char(keys[h].0).unwrap();
                let ob = if traced { s.key(t, code, 0, 0) } else { s.imp.key(code, 0, 0) };
                before = pre_text(&ob);
            }
            let ob = if traced { s.key(t, reph, 0, 0) } else { s.imp.key(reph, 0, 0) };
            if ob == Obs::Panic {
                let ctx = json!({"stream": "c13", "layout": lp.clone(), "opts": o.bits_str(), "keys": hist.iter().map(|&k| keys[k].0).collect::<String>() + "z"});
                rep.violation("C13", "reph-panic", format!("{:?} + reph panicked", before), ctx.clone());
                rep.violation("C01", "panic", format!("fixed method, old-style reph: {:?} + reph key panicked", before), ctx); return; }
            let after = pre_text(&ob);
            let ks: String = hist.iter().map(|&k| keys[k].0).collect::<String>() + "z";
            let ob2 = o.bits_str(); let lp2 = lp.clone();
            check_reph(rep, &before, &after, &move || json!({"stream": "c13", "layout": lp2, "opts": ob2, "keys": ks}));
            rep.eval(Some(&format!("{}|{:?}", o.bits_str(), hist)));
            if traced { s.finish(t); } else { s.imp.finish(); }
        };
        let mut h: Vec<usize> = vec![];
        fn rec(h: &mut Vec<usize>, nk: usize, maxlen: usize, half: usize, f: &mut dyn FnMut(&[usize])) {
            if h.is_empty() || h[0] % 2 == half { f(h); } else { return; }
            if h.len() == maxlen { return; }
            for k in 0..nk { h.push(k); rec(h, nk, maxlen, half, f); h.pop(); }
        }
        let nk = keys.len();
        rec(&mut h, nk, maxlen, half, &mut |hist: &[usize]| { let traced = hist.len() <= 2; one(&mut rep, &mut s, &mut t, hist, traced); });
        let mut rng = Rng::new(seed.wrapping_mul(69069) ^ (ui as u64) << 4);
        for _ in 0..(if env.quick() { 400 } else { 20000 }) {
            let len = 5 + rng.below(25);
            let hist: Vec<usize> = (0..len).map(|_| rng.below(nk)).collect();
            one(&mut rep, &mut s, &mut t, &hist, true);
        }
        // option off: the reph key simply appends
        let mut off = o; off.old_reph = false;
        let mut s2 = Sess::new(&mut t, &env.data, "off", &lp, off, &xdg).expect("context");
        for _ in 0..200 {
            let len = rng.below(6);
            let mut before = String::new();
            for _ in 0..len { let k = keys[rng.below(nk)].0; before = pre_text(&s2.key(&mut t, code_for_char(k).unwrap(), 0, 0)); }
            let after = pre_text(&s2.key(&mut t, reph, 0, 0));
            if after != format!("{}\u{09B0}\u{09CD}", before) { rep.violation("C13", "reph-off-not-appended", format!("option off: {:?} + reph = {:?}", before, after), json!({"stream": "c13", "opts": off.bits_str(), "events": s2.events})); }
            s2.finish(&mut t); s2.clear_events();
        }
        t.flush();
        rep
    });
    let mut rep = Report::new("c13");
    for r in reps { rep.merge(r); }
    rep.exhaustive = true;
    rep.notes.push(format!("all key histories of length <= {} over {} keys followed by the reph key, old reph on, 8 settings of the other helpers; plus random texts up to 30 keys; option-off clause on 200 random texts per setting", maxlen, keys.len()));
    rep
}
