//! C15 (fixed-layout suggestions), C16 (ANSI), C17 (smart quotes), C18 (emoji tables).
use super::*;
use super::common::*;
use super::c01::{mk_layouts, register_layouts};
use riti_harness::par::par_map;
use std::collections::{HashMap, HashSet};

const ZWNJ: char = '\u{200C}';
const CLEAN: &str = "|()[]{}^$*+?.~!@#%&-_='\";<>/\\,:`।\u{200C}";
const CLASS: &str = "অআইঈউঊঋএঐওঔঌৡািীুূৃেৈোৌকখগঘঙচছজঝঞটঠডঢণতথদধনপফবভমযরলশষসহৎড়ঢ়য়ংঃঁ\u{09CD}";

/// inverse key map of a layout: code point -> (key code, modifier)
pub fn inverse_map(layout_path: &str) -> HashMap<String, (u16, u8)> {
    let v: serde_json::Value = serde_json::from_str(&std::fs::read_to_string(layout_path).unwrap()).unwrap();
    let m = v["layout"].as_object().unwrap();
    let mut inv = HashMap::new();
    for (vc, code, _) in KEYS {
        if let Some((name, num)) = entry_name(vc) {
            if num { continue; }
            for (plane, md) in [("Normal", 0u8), ("AltGr", 2u8)] {
                if let Some(val) = m.get(&format!("Key_{}_{}", name, plane)).and_then(|x| x.as_str()) {
                    if !val.is_empty() { inv.entry(val.to_string()).or_insert((*code, md)); }
                }
            }
        }
    }
    inv
}

/// key sequence that types `text` code point by code point (None if a code point cannot be typed)
pub fn keys_for(inv: &HashMap<String, (u16, u8)>, text: &str) -> Option<Vec<(u16, u8)>> {
    text.chars().map(|c| inv.get(&c.to_string()).copied()).collect()
}

fn strip_zwnj(s: &str) -> String { s.chars().filter(|c| *c != ZWNJ).collect() }
fn clean(s: &str) -> String { s.chars().filter(|c| !CLEAN.contains(*c)).collect() }

/// the five clauses of C15 on one observed list; `buffer` = composed text, `typed` = raw key text, `used_backspace`
pub fn check_fixed_list(env: &Env, rep: &mut Report, opts: &Opts, all_words: &HashSet<String>, buffer: &str, typed: &str, used_backspace: bool, o: &Obs, ctx: &serde_json::Value) {
    let cands = match o { Obs::Full { cands, .. } => cands, Obs::Panic => { rep.violation("C01", "panic", "panic".into(), ctx.clone()); return; } _ => return };
    let (p, w, r) = split(buffer, true);
    let (cp, cr) = if opts.smart_quote && !w.is_empty() { (curl_open(&p), curl_close(&r)) } else { (p.clone(), r.clone()) };
    // 1. first = composed text (curled)
    let first = format!("{}{}{}", cp, w, cr);
    if cands.first() != Some(&first) { rep.violation("C15", "first-not-composed-text", format!("buffer {:?}: first candidate {:?}, expected {:?}", buffer, cands.first(), first), ctx.clone()); }
    // 4. at most nine, none repeats
    if cands.len() > 9 { rep.violation("C15", "more-than-nine", format!("{} candidates", cands.len()), ctx.clone()); }
    for i in 0..cands.len() { for j in 0..i { if cands[i] == cands[j] { rep.violation("C15", "duplicate-candidate", format!("buffer {:?}: {:?} twice in {:?}", buffer, cands[i], cands), ctx.clone()); } } }
    // emoji / english expectations
    let english_on = opts.english && !opts.ansi;
    let emoticon = if opts.ansi { None } else { env.data.emoticons.get(typed).copied() };
    let names: Vec<String> = if opts.ansi || emoticon.is_some() { vec![] } else { env.data.emoji_bn.get(strip_zwnj(&w).as_str()).map(|v| v.iter().map(|e| format!("{}{}{}", cp, e, cr)).collect()).unwrap_or_default() };
    // 5. English last
    let mut end = cands.len();
    if english_on && !used_backspace && buffer != typed {
        if cands.last().map(|s| s.as_str()) != Some(typed) { rep.violation("C15", "english-not-last", format!("buffer {:?} typed {:?}: last candidate {:?}", buffer, typed, cands.last()), ctx.clone()); } else { end -= 1; }
        rep.count("english-item");
    } else if english_on && buffer != typed && cands.last().map(|s| s.as_str()) == Some(typed) { end -= 1; }
    // 2./3. every other non-emoji candidate is a dictionary completion, in non-decreasing edit distance
    let cw = clean(&w);
    let mut last_d: Option<(usize, usize)> = None;
    for (i, c) in cands[..end].iter().enumerate() {
        if i == 0 { continue; }
        if emoticon == Some(c.as_str()) || names.contains(c) { rep.count("emoji-item"); continue; }
        let core = match unwrap_cand(c, &cp, &cr) { Some(x) => x, None => { rep.violation("C15", "candidate-not-wrapped", format!("buffer {:?}: {:?} does not carry the punctuation", buffer, c), ctx.clone()); continue; } };
        let plain = strip_zwnj(core);
        if !all_words.contains(&plain) || !clean(&plain).starts_with(&cw) {
            rep.violation("C15", "not-a-dictionary-completion", format!("buffer {:?}: candidate {:?} is not a dictionary word beginning with {:?}", buffer, c, cw), ctx.clone());
        }
        let d = edit_distance::edit_distance(&w, core);
        if let Some((pi, pd)) = last_d { if pd > d {
            let cls = if pd >= 26 || d >= 26 { "rank-wraps-at-distance-26" } else { "distance-not-monotone" };
            rep.violation("C15", cls, format!("buffer {:?}: {:?} (distance {}) precedes {:?} (distance {})", buffer, cands[pi], pd, c, d), ctx.clone());
        } }
        last_d = Some((i, d));
        rep.count("completion-item");
    }
    let _ = CLASS;
}

pub fn run(env: &Env) -> Report {
    let lay = mk_layouts(env);
    let inv = inverse_map(&lay.probhat);
    let all_words: HashSet<String> = env.data.dictionary.values().flatten().cloned().collect();
    let mut words: Vec<&String> = env.data.dictionary.values().flatten().collect(); words.sort();
    let seed = env.a.seed;
    let nunits = 32;
    let per = if env.quick() { 90 } else { words.len() / nunits + 1 };
    let reps = par_map(nunits, |ui| {
        let mut rep = Report::new("c15");
        let mut rng = Rng::new(seed.wrapping_mul(22695477) ^ (ui as u64) << 22);
        let mut t = env.trace(&format!("c15.{}", ui));
        register_layouts(&mut t, env, &lay);
        // 16 settings of {traditional joining, smart quotes, English, ANSI}; the other helpers as in the defaults
        let mk = |b: u32| { let mut o = Opts::none(); o.fixed_suggestion = true; o.vowel = true; o.chandra = true; o.numpad = (b * 7) % 3 != 0; o.kar = b & 1 == 1; o.smart_quote = b & 2 == 2; o.english = b & 4 == 4; o.ansi = b & 8 == 8; o };
        let mut ctxs: Vec<(Opts, Sess)> = vec![];
        t.line(&format!("case c15-{}", ui));
        let xdg = env.fresh_xdg(&format!("c15-{}", ui));
        for b in 0..16 { let o = mk(b); if let Some(s) = Sess::new(&mut t, &env.data, &format!("c{}", b), &lay.probhat, o, &xdg) { ctxs.push((o, s)); } }
        let mut untypeable = 0u64;
        for wi in 0..per {
            let word = if env.quick() { words[rng.below(words.len())] } else { match words.get(ui * per + wi) { Some(w) => *w, None => break } };
            let keys = match keys_for(&inv, word) { Some(k) => k, None => { untypeable += 1; continue; } };
            let ci = if env.quick() { rng.below(ctxs.len()) } else { (ui * per + wi) % ctxs.len() };
            let (o, s) = &mut ctxs[ci];
            let wrap = rng.below(12);
            let (lead, trail): (&str, &str) = match wrap { 0 => ("\"", "\""), 1 => ("(", ")"), 2 => ("", "।"), 3 => ("", ":"), 4 => ("'", ""), 5 => ("", "?\""), 6 => ("(", ")!"), 7 => ("", "!!"), 8 => ("\"(", ")\"।"), 9 => ("", ",,,"), _ => ("", "") };
            let mut typed = String::new();
            let mut type_str = |s: &mut Sess, t: &mut Trace, rep: &mut Report, txt: &str, typed: &mut String| -> bool {
                for c in txt.chars() {
                    let (code, md) = match inv.get(&c.to_string()) { Some(x) => *x, None => return false };
                    let ob = s.key(t, code, md, 0);
                    if let Some(k) = KEYS.iter().find(|k| k.1 == code) { if let Some(ch) = k.2 { typed.push(ch); } }
                    let buffer = match &ob { Obs::Full { aux, .. } => aux.clone(), _ => String::new() };
                    let ctx = json!({"stream": "c15", "layout": s.layout, "opts": s.opts.bits_str(), "events": s.events});
                    check_fixed_list(env, rep, &s.opts, &all_words, &buffer, typed, false, &ob, &ctx);
                    rep.eval(Some(&format!("{}|{}", s.opts.bits_str(), buffer)));
                }
                true
            };
            let mut ok = type_str(s, &mut t, &mut rep, lead, &mut typed) && { let _ = &keys; type_str(s, &mut t, &mut rep, word, &mut typed) };
            // a key that HAS a character but no value in the layout (a number-pad key while the number-pad option is off) in the middle of
            // the word: it composes nothing and is no part of the raw key text either — the list stays what it was
            if ok && !s.opts.numpad && wi % 3 == 0 {
                let ob = s.key(&mut t, 76, 0, 0);
                let buffer = match &ob { Obs::Full { aux, .. } => aux.clone(), _ => String::new() };
                let ctx = json!({"stream": "c15", "layout": s.layout, "opts": s.opts.bits_str(), "events": s.events});
                let so = s.opts;
                check_fixed_list(env, &mut rep, &so, &all_words, &buffer, &typed, false, &ob, &ctx);
                rep.count("no-value-key-inside-word");
            }
            ok = ok && type_str(s, &mut t, &mut rep, trail, &mut typed);
            if !ok { untypeable += 1; }
            if rep.samples.len() < 3 { if let Obs::Full { cands, aux, .. } = &s.last { rep.sample(json!({"composed": aux, "opts": o.bits_str(), "candidates": cands})); } }
            s.finish(&mut t); s.clear_events();
        }
        // compositions WITHOUT a letter: one and two punctuation / symbol keys (the composed text is then often the raw key text itself:
        // the raw keys may not be listed a second time), alone and next to a letter, in 4 of the 16 settings per unit
        {
            let marks: Vec<char> = "`~!@#$%^&*()-_=+[]{}\\|;:'\",.<>/?".chars().collect();
            let mut n = 0usize;
            for &a in &marks { for b in std::iter::once(None).chain(marks.iter().map(|c| Some(*c))) { for w in ["", "k"] {
                n += 1; if n % nunits != ui { continue; }
                let txt: String = match b { Some(b) => format!("{}{}{}", a, w, b), None => format!("{}{}", w, a) };
                for ci in [(n / nunits) % 16, (n / nunits + 4) % 16, (n / nunits + 6) % 16, (n / nunits + 15) % 16] {
                    if ci >= ctxs.len() { continue; }
                    let (_, s) = &mut ctxs[ci];
                    let mut typed = String::new();
                    for c in txt.chars() {
                        let code = match code_for_char(c) { Some(k) => k, None => break };
                        let ob = s.key(&mut t, code, 0, 0); typed.push(c);
                        let buffer = match &ob { Obs::Full { aux, .. } => aux.clone(), _ => String::new() };
                        let ctx = json!({"stream": "c15", "layout": s.layout, "opts": s.opts.bits_str(), "events": s.events});
                        let so = s.opts;
                        check_fixed_list(env, &mut rep, &so, &all_words, &buffer, &typed, false, &ob, &ctx);
                        rep.eval(Some(&format!("marks|{}|{}", so.bits_str(), typed))); rep.count("letterless-composition-key");
                    }
                    s.finish(&mut t); s.clear_events();
                }
            } } }
        }
        rep.add("untypeable-words-skipped", untypeable);
        t.flush();
        rep
    });
    let mut rep = Report::new("c15");
    for r in reps { rep.merge(r); }
    if !env.quick() { rep.exhaustive = true; rep.notes.push("every prefix of every dictionary word that the Probhat layout can type".into()); }
    rep
}

// ------------------------------------------------------------------------------------------ C16
const BENGALI_BLOCK: std::ops::RangeInclusive<u32> = 0x0980..=0x09FF;

pub fn check_ansi(env: &Env, rep: &mut Report, opts: &Opts, typed_raw: &str, o: &Obs, ctx: &serde_json::Value) {
    let (cands, pres, ansi): (Vec<String>, Vec<Option<String>>, bool) = match o {
        Obs::Full { cands, pres, ansi, .. } => (cands.clone(), pres.clone(), *ansi),
        Obs::Single { text, pre, ansi } => (vec![text.clone()], vec![pre.clone()], *ansi),
        _ => return };
    if o.is_empty_suggestion() { return; }
    if ansi != opts.ansi { rep.violation("C16", "ansi-flag-wrong", format!("suggestion ansi flag {} but option {}", ansi, opts.ansi), ctx.clone()); }
    for (c, p) in cands.iter().zip(pres.iter()) {
        if opts.ansi {
            let exp = std::panic::catch_unwind(|| poriborton::bijoy2000::unicode_to_bijoy(c)).ok();
            match (p, &exp) {
                (Some(p), Some(e)) => {
                    if p != e { rep.violation("C16", "preedit-not-bijoy", format!("candidate {:?}: pre-edit {:?}, encoder says {:?}", c, p, e), ctx.clone()); }
                    if p.chars().any(|ch| BENGALI_BLOCK.contains(&(ch as u32))) { rep.violation("C16", "bengali-left-in-ansi-text", format!("candidate {:?}: pre-edit {:?} contains a Bengali-block code point", c, p), ctx.clone()); }
                }
                (None, _) => { let cls = if c.chars().any(|ch| "\u{09C4}\u{09C5}\u{09C6}\u{09C9}\u{09CA}".contains(ch)) { "ansi-unencodable-sign" } else { "preedit-panics" }; rep.violation("C16", cls, format!("candidate {:?}: get_pre_edit_text panicked", c), ctx.clone()); }
                (Some(_), None) => {}
            }
            // never offered under ANSI: emoji, emoticon-derived, raw English
            let is_emoji = env.data.emoticons.values().any(|e| e == c) || c.chars().any(|ch| (ch as u32) >= 0x1F000 || (0x2190..=0x2BFF).contains(&(ch as u32)) || (ch as u32) == 0xFE0F);
            if is_emoji { rep.violation("C16", "emoji-offered-in-ansi", format!("candidate {:?} is an emoji", c), ctx.clone()); }
            // a candidate is Bengali text (letters are always transliterated; digits become Bengali digits; only punctuation stays):
            // a Latin letter in a candidate is raw typed text, whatever its position in the list
            if c.chars().any(|ch| ch.is_ascii_alphabetic()) { rep.violation("C16", "english-offered-in-ansi", format!("candidate {:?} holds raw Latin text with ANSI on: {:?}", c, cands), ctx.clone()); }
            rep.count("ansi-candidate");
        } else {
            if p.as_deref() != Some(c.as_str()) { rep.violation("C16", "preedit-differs-without-ansi", format!("candidate {:?}: pre-edit {:?}", c, p), ctx.clone()); }
            rep.count("plain-candidate");
        }
    }
    if opts.ansi && opts.english && cands.len() > 1 && cands.last().map(|s| s.as_str()) == Some(typed_raw) && typed_raw.chars().any(|c| c.is_ascii_alphabetic()) {
        // the raw text may legitimately coincide with the transliteration (digits, punctuation); letters never do
        rep.violation("C16", "english-offered-in-ansi", format!("raw text {:?} offered with ANSI on: {:?}", typed_raw, cands), ctx.clone());
    }
}

pub fn run_c16(env: &Env) -> Report {
    let pools = WordPools::new(&env.data);
    let lay = mk_layouts(env);
    let inv = inverse_map(&lay.probhat);
    let mut words: Vec<&String> = env.data.dictionary.values().flatten().collect(); words.sort();
    let seed = env.a.seed;
    let nunits = 32;
    let reps = par_map(nunits, |ui| {
        let mut rep = Report::new("c16");
        let mut rng = Rng::new(seed.wrapping_mul(1664525) ^ (ui as u64) << 20);
        let mut t = env.trace(&format!("c16.{}", ui));
        register_layouts(&mut t, env, &lay);
        t.line(&format!("case c16-{}", ui));
        let xdg = env.fresh_xdg(&format!("c16-{}", ui));
        // paired contexts ANSI on/off for both methods
        let mut o = Opts::from_bits((rng.next() & 0x7FF) as u32); o.phonetic_suggestion = ui % 4 != 3; o.fixed_suggestion = ui % 4 != 3; o.english = ui % 2 == 0;
        let mut on = o; on.ansi = true; let mut off = o; off.ansi = false;
        let mut ph: Vec<Sess> = [on, off].iter().enumerate().filter_map(|(i, o)| Sess::new(&mut t, &env.data, &format!("p{}", i), PHONETIC, *o, &xdg)).collect();
        let mut fx: Vec<Sess> = [on, off].iter().enumerate().filter_map(|(i, o)| Sess::new(&mut t, &env.data, &format!("f{}", i), &lay.probhat, *o, &xdg)).collect();
        // corpus: texts WITHOUT a single Bengali letter — a lone full stop / double stop (danda), quotes around nothing or around a
        // back-slash (curled by smart quotes), digits, punctuation runs: their pre-edit text is the encoding like any other
        for txt in [".", "..", "...", ".`", "\"\\\"", "'\\'", "\"", "(.)", "12.", "1.5", "?!", ":", "$", ".\"", "\".\""] {
            if !txt.chars().all(crate::code_ok) { continue; }
            for s in ph.iter_mut() {
                let mut pre = String::new();
                for c in txt.chars() { pre.push(c); let ob = s.key(&mut t, code_for_char(c).unwrap(), 0, 0); let ctx = json!({"stream": "c16", "layout": PHONETIC, "opts": s.opts.bits_str(), "text": pre}); let so = s.opts; check_ansi(env, &mut rep, &so, &pre, &ob, &ctx); rep.eval(Some(&format!("pc|{}|{}", s.opts.bits_str(), pre))); }
                s.finish(&mut t);
            }
            // the same keys through Probhat (its `.` and `|` keys give the danda and the double danda on an empty composition)
            for s in fx.iter_mut() {
                let mut typed = String::new();
                for c in txt.chars().chain("|".chars()) { let code = code_for_char(c).unwrap(); let ob = s.key(&mut t, code, 0, 0); typed.push(c); let ctx = json!({"stream": "c16", "layout": s.layout, "opts": s.opts.bits_str(), "events": s.events}); let so = s.opts; check_ansi(env, &mut rep, &so, &typed, &ob, &ctx); rep.eval(Some(&format!("fc|{}|{}", s.opts.bits_str(), typed))); }
                s.finish(&mut t); s.clear_events();
            }
        }
        for _ in 0..(if env.quick() { 120 } else { 600 }) {
            // phonetic texts: words, emoticons, emoji names, suffixed words
            let txt = match rng.below(6) { 0 => rng.pick(&pools.emoticons).clone(), 1 => rng.pick(&pools.emoji_names).clone(), 2 => format!("{}{}", pools.word(&mut rng), rng.pick(&pools.suffixes)), 3 => format!("\"{}\"", pools.word(&mut rng)), _ => pools.word(&mut rng) };
            if txt.chars().all(crate::code_ok) && txt.chars().count() < 22 {
                for s in ph.iter_mut() {
                    let mut pre = String::new();
                    for c in txt.chars() { pre.push(c); let ob = s.key(&mut t, code_for_char(c).unwrap(), 0, 0); let ctx = json!({"stream": "c16", "layout": PHONETIC, "opts": s.opts.bits_str(), "text": pre}); let so = s.opts; check_ansi(env, &mut rep, &so, &pre, &ob, &ctx); rep.eval(Some(&format!("p|{}|{}", s.opts.bits_str(), pre))); }
                    // an ignored key (keypad Enter has no character) and a backspace return a suggestion for the same / the shortened composition
                    { let ob = s.key(&mut t, 3612, 0, 0); let ctx = json!({"stream": "c16", "layout": PHONETIC, "opts": s.opts.bits_str(), "text": pre, "then": "keypad Enter"}); let so = s.opts; check_ansi(env, &mut rep, &so, &pre, &ob, &ctx); rep.eval(Some(&format!("pn|{}|{}", s.opts.bits_str(), pre))); }
                    { let ob = s.backspace(&mut t, false); let mut short = pre.clone(); short.pop(); let ctx = json!({"stream": "c16", "layout": PHONETIC, "opts": s.opts.bits_str(), "text": pre, "then": "backspace"}); let so = s.opts; check_ansi(env, &mut rep, &so, &short, &ob, &ctx); rep.eval(Some(&format!("pb|{}|{}", s.opts.bits_str(), pre))); }
                    s.finish(&mut t);
                }
            }
            // fixed: dictionary word typed through Probhat
            let word = words[rng.below(words.len())];
            if let Some(keys) = keys_for(&inv, word) {
                for s in fx.iter_mut() {
                    let mut typed = String::new();
                    for (code, md) in &keys { let ob = s.key(&mut t, *code, *md, 0); if let Some(k) = KEYS.iter().find(|k| k.1 == *code) { if let Some(ch) = k.2 { typed.push(ch); } } let ctx = json!({"stream": "c16", "layout": s.layout, "opts": s.opts.bits_str(), "events": s.events}); let so = s.opts; check_ansi(env, &mut rep, &so, &typed, &ob, &ctx); rep.eval(Some(&format!("f|{}|{}", s.opts.bits_str(), typed))); }
                    // keys that compose nothing in the middle of the word (a number-pad key — without a value when the number-pad option is
                    // off —, keypad Enter, which no layout binds) and a backspace: what they return is a suggestion for the same composition,
                    // so its pre-edit text is held to the same rule
                    for (code, md) in [(76u16, 0u8), (3612, 0), (83, 2)] {
                        let ob = s.key(&mut t, code, md, 0); let ctx = json!({"stream": "c16", "layout": s.layout, "opts": s.opts.bits_str(), "events": s.events}); let so = s.opts;
                        let tx = typed.clone() + "\u{1}"; check_ansi(env, &mut rep, &so, &tx, &ob, &ctx); rep.eval(Some(&format!("fn|{}|{}|{}", s.opts.bits_str(), typed, code)));
                    }
                    { let ob = s.backspace(&mut t, false); let ctx = json!({"stream": "c16", "layout": s.layout, "opts": s.opts.bits_str(), "events": s.events}); let so = s.opts; let tx = typed.clone() + "\u{1}"; check_ansi(env, &mut rep, &so, &tx, &ob, &ctx); rep.eval(Some(&format!("fb|{}|{}", s.opts.bits_str(), typed))); }
                    s.finish(&mut t); s.clear_events();
                }
            }
        }
        // ANSI switched on and off by update_engine IN THE MIDDLE of a word (a settings dialog does not wait for the word to end): from the
        // next key on, what is returned follows the configuration now in force
        {
            let mut o1 = o; o1.ansi = false;
            let mut pt = Sess::new(&mut t, &env.data, "pt", PHONETIC, o1, &xdg);
            let mut ft = Sess::new(&mut t, &env.data, "ft", &lay.probhat, o1, &xdg);
            for wi in 0..(if env.quick() { 24 } else { 120 }) {
                if let Some(s) = pt.as_mut() {
                    let txt = match wi % 4 { 0 => rng.pick(&pools.emoticons).clone(), 1 => rng.pick(&pools.emoji_names).clone(), _ => pools.word(&mut rng) };
                    if txt.chars().all(crate::code_ok) && txt.chars().count() < 20 && txt.chars().count() > 1 {
                        s.clear_events();
                        let cut = 1 + rng.below(txt.chars().count() - 1);
                        let mut pre = String::new();
                        for (ci, c) in txt.chars().enumerate() {
                            if ci == cut {
                                let mut o2 = s.opts; o2.ansi = !o2.ansi; s.update(&mut t, PHONETIC, o2);
                                // (a key WITHOUT a character right after the switch re-serves the list computed before it in the fixed method: the
                                //  property speaks of texts typed under a configuration, not of that moment — pressed for the model
                                //  correspondence, not held to the oracle; DESIGN §10.3)
                                if wi % 2 == 0 { s.key(&mut t, 3612, 0, 0); rep.count("midword-ansi-switch-ignored-key"); }
                            }
                            pre.push(c); let ob = s.key(&mut t, code_for_char(c).unwrap(), 0, 0);
                            let ctx = json!({"stream": "c16", "layout": PHONETIC, "opts": s.opts.bits_str(), "text": pre, "events": s.events}); let so = s.opts;
                            check_ansi(env, &mut rep, &so, &pre, &ob, &ctx); rep.eval(Some(&format!("pt|{}|{}|{}", s.opts.bits_str(), pre, cut))); rep.count("midword-ansi-switch-key");
                        }
                        s.finish(&mut t);
                    }
                }
                if let Some(s) = ft.as_mut() {
                    let word = words[rng.below(words.len())];
                    if let Some(keys) = keys_for(&inv, word) { if keys.len() > 1 {
                        s.clear_events();
                        let cut = 1 + rng.below(keys.len() - 1);
                        let mut typed = String::new();
                        for (ci, (code, md)) in keys.iter().enumerate() {
                            if ci == cut {
                                let mut o2 = s.opts; o2.ansi = !o2.ansi; let lp = s.layout.clone(); s.update(&mut t, &lp, o2);
                                if wi % 2 == 0 { s.key(&mut t, 3612, 0, 0); rep.count("midword-ansi-switch-ignored-key"); }
                            }
                            let ob = s.key(&mut t, *code, *md, 0); if let Some(k) = KEYS.iter().find(|k| k.1 == *code) { if let Some(ch) = k.2 { typed.push(ch); } }
                            let ctx = json!({"stream": "c16", "layout": s.layout, "opts": s.opts.bits_str(), "events": s.events}); let so = s.opts;
                            check_ansi(env, &mut rep, &so, &typed, &ob, &ctx); rep.eval(Some(&format!("ft|{}|{}|{}", s.opts.bits_str(), typed, cut))); rep.count("midword-ansi-switch-key");
                        }
                        s.finish(&mut t);
                    } }
                }
            }
        }
        // data pass: every dictionary word (a seeded 5 % stratum in quick) through the encoder
        let stride = if env.quick() { 20 } else { 1 };
        let mut n = 0u64;
        for (i, w) in words.iter().enumerate() {
            if i % nunits != ui || (i / nunits) % stride != (seed as usize) % stride { continue; }
            let r = std::panic::catch_unwind(|| poriborton::bijoy2000::unicode_to_bijoy(w));
            match r { Err(_) => rep.violation("C16", "dictionary-word-unencodable", format!("dictionary word {:?} makes the encoder panic", w), json!({"stream": "c16", "word": w})),
                      Ok(e) => if e.chars().any(|ch| BENGALI_BLOCK.contains(&(ch as u32))) { rep.violation("C16", "dictionary-word-leaves-bengali", format!("dictionary word {:?} encodes to {:?}", w, e), json!({"stream": "c16", "word": w})); } }
            n += 1;
        }
        rep.add("dictionary-words-encoded", n);
        rep.evaluations += n;
        t.flush();
        rep
    });
    let mut rep = Report::new("c16");
    for r in reps { rep.merge(r); }
    rep
}

// ------------------------------------------------------------------------------------------ C17
pub fn run_c17(env: &Env) -> Report {
    let pools = WordPools::new(&env.data);
    let lay = mk_layouts(env);
    let seed = env.a.seed;
    let wrapset: Vec<char> = "'\"(.`:".chars().collect();
    let maxw = if env.quick() { 2 } else { 3 };
    let mut wraps: Vec<String> = vec![String::new()];
    { let mut cur = vec![String::new()]; for _ in 0..maxw { let mut nxt = vec![]; for w in &cur { for c in &wrapset { nxt.push(format!("{}{}", w, c)); } } wraps.extend(nxt.iter().cloned()); cur = nxt; } }
    let nunits = 32;
    let reps = par_map(nunits, |ui| {
        let mut rep = Report::new("c17");
        let mut rng = Rng::new(seed.wrapping_mul(214013) ^ (ui as u64) << 16);
        let mut t = env.trace(&format!("c17.{}", ui));
        register_layouts(&mut t, env, &lay);
        t.line(&format!("case c17-{}", ui));
        let xdg = env.fresh_xdg(&format!("c17-{}", ui));
        let fixed = ui % 4 == 3;
        let layout = if fixed { lay.s2.clone() } else { PHONETIC.to_string() };
        let mut o = Opts::from_bits((rng.next() & 0x7FF) as u32); o.phonetic_suggestion = ui % 8 != 7; o.fixed_suggestion = ui % 8 != 7; o.kar_order = false;
        if ui % 3 == 0 { std::fs::write(user_dir(&xdg).join("phonetic-candidate-selection.json"), serde_json::to_string(&super::c05::store_sample()).unwrap()).unwrap(); }
        let mut on = o; on.smart_quote = true; let mut off = o; off.smart_quote = false;
        // both contexts of a pair are reached by the same route (directly / via the other method / via other options + update_engine)
        let route = ui / 4;
        let mut a = match Sess::new_routed(&mut t, &env.data, "on", &layout, on, &xdg, route) { Some(s) => s, None => return rep };
        let mut b = match Sess::new_routed(&mut t, &env.data, "off", &layout, off, &xdg, route) { Some(s) => s, None => return rep };
        let earlier = if fixed { ascii_keys("ka") } else { ascii_keys("bon") };
        let nwords = if env.quick() { 6 } else { 12 };
        for wi in 0..nwords {
            let word: String = if fixed { ["ka", "kh", "ok", "", "^", "k^"][wi % 6].to_string() } else { match wi % 4 { 0 => pools.word(&mut rng), 1 => rng.pick(&pools.emoji_names).clone(), 2 => ["e", "a'b", "ki\"t", ":'(", ":\"D", "", "\\", "\\"][rng.below(8)].to_string(), _ => ["ami", "e", "kor", "sob"][rng.below(4)].to_string() } };
            if !word.chars().all(crate::code_ok) { continue; }
            for (li, lead) in wraps.iter().enumerate() {
                for (ti, trail) in wraps.iter().enumerate() {
                    // quick: 1/24 of the (≤2 x ≤2) wrapping grid per unit; thorough: 1/96 of the (≤3 x ≤3) grid per unit and word
                    let m = if env.quick() { 24 } else { 96 };
                    if (li * 31 + ti * 17 + wi) % m != ui % m { continue; }
                    let txt = format!("{}{}{}", lead, word, trail);
                    if txt.is_empty() || !txt.chars().all(crate::code_ok) { continue; }
                    if fixed && !txt.chars().all(|c| "kahoi^'\"(.:".contains(c)) { continue; }
                    // an earlier word, ended the same way in both contexts (nothing / finish / ctrl-backspace / backspaces / commit)
                    { let kind = (li + ti * 3 + wi) % 5; prelude(&mut a, &mut t, kind, &earlier); prelude(&mut b, &mut t, kind, &earlier); }
                    // every prefix is an input too: the two contexts are compared after EVERY key
                    let full_txt = txt.clone();
                    let mut txt = String::new();
                    let mut last_pair = (Obs::Unit, Obs::Unit);
                    for ch in full_txt.chars() {
                    txt.push(ch);
                    let code = code_for_char(ch).unwrap();
                    let sel_of = |s: &Sess| match &s.last { Obs::Full { sel, cands, .. } if *sel < cands.len() => (*sel).min(255) as u8, _ => 0 };
                    let (sa0, sb0) = (sel_of(&a), sel_of(&b));
                    let (oa, ob) = (a.key(&mut t, code, 0, sa0), b.key(&mut t, code, 0, sb0));
                    last_pair = (oa.clone(), ob.clone());
                    rep.eval(Some(&format!("{}|{}|{}", fixed, o.bits_str(), txt)));
                    let ctx = json!({"stream": "c17", "layout": layout, "opts_on": on.bits_str(), "opts_off": off.bits_str(), "text": txt});
                    match (&oa, &ob) {
                        (Obs::Full { cands: ca, sel: sa, .. }, Obs::Full { cands: cb, sel: sb, .. }) => {
                            // raw typed text and emoticon literal must be unchanged; everything else maps back by uncurling
                            let mut ua: Vec<String> = ca.iter().map(|c| uncurl(c)).collect();
                            let mut ub: Vec<String> = cb.clone();
                            if fixed { ua.sort(); ub.sort(); }
                            if ua != ub {
                                // known shape: the raw typed text coincides with a wrapped candidate on one side only (push_checked)
                                let raw_collides = cb.iter().filter(|c| **c == txt).count() != ca.iter().filter(|c| **c == txt).count() || ca.len() != cb.len();
                                // (recorded for the PHONETIC method only: the fixed method adds the raw keys only when they differ from the composed text)
                                let cls = if !fixed && raw_collides && (on.english || env.data.emoticons.contains_key(txt.as_str())) { "raw-text-collides-with-quoted-candidate" } else { "lists-differ-beyond-curling" };
                                rep.violation("C17", cls, format!("text {:?}: on {:?} vs off {:?}", txt, ca, cb), ctx.clone());
                            } else if sa != sb {
                                // known shape only: the learned value of the word IS the raw word part (the user once chose the English candidate)
                                // (the word part is taken both ways: after a colon key the difference is the one of the key before —
                                //  ':' is a selection-keeping key, the engine returns the index each caller passed)
                                let (_, wpart, _) = split(&txt, false);
                                let (_, wpart_c, _) = split(&txt, true);
                                let st = super::c05::store_sample();
                                let learned_raw = ui % 3 == 0 && (st.get(&wpart) == Some(&wpart) || st.get(&wpart_c) == Some(&wpart_c));
                                let cls = if learned_raw { "selection-differs-with-learned-raw-text" } else { "selection-differs" };
                                rep.violation("C17", cls, format!("text {:?}: preselection {} (on) vs {} (off) in {:?}", txt, sa, sb, cb), ctx.clone());
                            }
                            // positive clause: every candidate that is not the raw typed text (or the emoticon's emoji) carries the
                            // word's punctuation with ALL its straight quotes curled — opening before the word, closing after it
                            if !fixed && ca.len() == cb.len() {
                                let (cp0, w0, cr0) = { let mut o2 = off; o2.smart_quote = false; wrapping(&env.data, &o2, &txt) };
                                if !w0.is_empty() {
                                    let emo = env.data.emoticons.get(txt.as_str()).copied();
                                    for (x, y) in ca.iter().zip(cb.iter()) {
                                        let raw = *y == txt || emo == Some(y.as_str());
                                        let exp = if raw { y.clone() } else { match unwrap_cand(y, &cp0, &cr0) { Some(core) => format!("{}{}{}", curl_open(&cp0), core, curl_close(&cr0)), None => y.clone() } };
                                        if *x != exp && !(raw && *x == format!("{}{}{}", curl_open(&cp0), unwrap_cand(y, &cp0, &cr0).unwrap_or(""), curl_close(&cr0))) {
                                            rep.violation("C17", "quotes-not-curled-as-specified", format!("text {:?}: with the option on the candidate is {:?}, expected {:?} (off: {:?})", txt, x, exp, y), ctx.clone());
                                            break;
                                        }
                                    }
                                }
                            }
                            // curling only around a non-empty word, only in the punctuation
                            let (_, w, _) = split(&txt, false);
                            if w.is_empty() && ca != cb { rep.violation("C17", "punctuation-only-text-changed", format!("text {:?}: {:?} vs {:?}", txt, ca, cb), ctx.clone()); }
                        }
                        (x, y) => { if x != y && !(matches!(x, Obs::Single { .. }) && matches!(y, Obs::Single { .. })) { rep.violation("C17", "suggestion-kind-differs", format!("text {:?}: {:?} vs {:?}", txt, x, y), ctx.clone()); }
                                    if let (Obs::Single { text: ta, .. }, Obs::Single { text: tb, .. }) = (x, y) { if ta != tb { rep.violation("C17", "single-suggestion-changed", format!("text {:?}: {:?} vs {:?} (suggestions off: quotes are never curled)", txt, ta, tb), ctx.clone()); } } }
                    }
                    }
                    a.finish(&mut t); b.finish(&mut t);
                    if rep.samples.len() < 2 { rep.sample(json!({"text": full_txt, "on": render_obs(&last_pair.0, true), "off": render_obs(&last_pair.1, true)})); }
                }
            }
        }
        t.flush();
        rep
    });
    let mut rep = Report::new("c17");
    for r in reps { rep.merge(r); }
    rep
}

// ------------------------------------------------------------------------------------------ C18
pub fn run_c18(env: &Env) -> Report {
    let lay = mk_layouts(env);
    let inv = inverse_map(&lay.probhat);
    let seed = env.a.seed;
    let mut emoticons: Vec<(&str, &str)> = env.data.emoticons.iter().map(|(k, v)| (*k, *v)).collect(); emoticons.sort();
    let mut names: Vec<(&str, Vec<&str>)> = env.data.emoji_names.iter().map(|(k, v)| (*k, v.to_vec())).collect(); names.sort();
    let mut bn: Vec<(&str, Vec<&str>)> = env.data.emoji_bn.iter().map(|(k, v)| (*k, v.to_vec())).collect(); bn.sort();
    let nunits = 32;
    let wrappings: [(&str, &str); 7] = [("", ""), ("(", ")"), ("\"", "\""), ("", "."), ("'", ""), ("[", "]!"), ("", "?")];
    let reps = par_map(nunits, |ui| {
        let mut rep = Report::new("c18");
        let mut t = env.trace(&format!("c18.{}", ui));
        register_layouts(&mut t, env, &lay);
        t.line(&format!("case c18-{}", ui));
        let xdg = env.fresh_xdg(&format!("c18-{}", ui));
        let _ = seed;
        // phonetic: English on/off x smart quotes on/off
        let mut pcs: Vec<Sess> = vec![];
        // half of the contexts are created with ANSI output on and switched to non-ANSI by update_engine before use:
        // "outside ANSI mode" is a property of the current configuration, not of how the context was born
        for b in 0..4u32 { let mut o = Opts::none(); o.phonetic_suggestion = true; o.english = b & 1 == 1; o.smart_quote = b & 2 == 2;
            let born_ansi = (b + ui as u32) % 2 == 0; let mut o0 = o; o0.ansi = born_ansi;
            if let Some(mut s) = Sess::new(&mut t, &env.data, &format!("p{}", b), PHONETIC, o0, &xdg) { if born_ansi { s.update(&mut t, PHONETIC, o); } pcs.push(s); } }
        let mut fcs: Vec<Sess> = vec![];
        for b in 0..8u32 { let mut o = Opts::none(); o.fixed_suggestion = true; o.vowel = true; o.chandra = true; o.english = b & 1 == 1; o.smart_quote = b & 2 == 2; o.kar = b & 4 == 4;
            let born_ansi = (b / 2 + ui as u32) % 2 == 0; let mut o0 = o; o0.ansi = born_ansi;
            if let Some(mut s) = Sess::new(&mut t, &env.data, &format!("f{}", b), &lay.probhat, o0, &xdg) { if born_ansi { let lp = lay.probhat.clone(); s.update(&mut t, &lp, o); } fcs.push(s); } }
        let earlier_p = ascii_keys("bon"); let earlier_f = ascii_keys("amar");
        // emoticons (phonetic): emoji offered, literal stays available
        for (i, (emo, emoji)) in emoticons.iter().enumerate() {
            if i % nunits != ui { continue; }
            if !emo.chars().all(crate::code_ok) { rep.count("untypeable-emoticon"); continue; }
            for (pi, s) in pcs.iter_mut().enumerate() {
                // an earlier word that ended by finish / ctrl-backspace / backspaces / commit (or none): the table entry is found all the same
                s.clear_events(); prelude(s, &mut t, (i / nunits + pi) % 5, &earlier_p);
                let o = s.type_text(&mut t, emo);
                let ctx = json!({"stream": "c18", "layout": PHONETIC, "opts": s.opts.bits_str(), "text": emo, "events": s.events});
                if let Obs::Full { cands, .. } = &o {
                    if !cands.iter().any(|c| c == emoji) { rep.violation("C18", "emoticon-emoji-missing", format!("emoticon {:?}: emoji {:?} not in {:?}", emo, emoji, cands), ctx.clone()); }
                    if !cands.iter().any(|c| c == emo) { rep.violation("C18", "emoticon-literal-missing", format!("emoticon {:?}: the literal text is not a candidate: {:?}", emo, cands), ctx.clone()); }
                }
                rep.eval(Some(&format!("emoticon|{}|{}", s.opts.bits_str(), emo)));
                s.finish(&mut t);
            }
            // fixed: the emoticon typed through Probhat keys whose raw characters spell it (the raw key text is what is looked up)
            let keys: Option<Vec<u16>> = emo.chars().map(code_for_char).collect();
            if let Some(keys) = keys {
                let s = &mut fcs[i % 8];
                s.clear_events(); prelude(s, &mut t, (i / nunits + i) % 5, &earlier_f);
                let mut o = Obs::Unit; let mut all = true;
                for k in &keys { o = s.key(&mut t, *k, 0, 0); if o.is_empty_suggestion() { all = false; } }
                if all { if let Obs::Full { cands, .. } = &o {
                    let ctx = json!({"stream": "c18", "layout": s.layout, "opts": s.opts.bits_str(), "raw_keys": emo, "events": s.events});
                    if !cands.iter().any(|c| c == emoji) { rep.violation("C18", "emoticon-emoji-missing-fixed", format!("raw keys {:?}: emoji {:?} not in {:?}", emo, emoji, cands), ctx); }
                    rep.eval(Some(&format!("emoticon-fixed|{}", emo)));
                } }
                s.finish(&mut t);
            }
        }
        // English names (phonetic), bare and wrapped: all listed emoji, in table order, wrapped like the word
        for (i, (name, list)) in names.iter().enumerate() {
            if i % nunits != ui { continue; }
            if !name.chars().all(crate::code_ok) { rep.count("untypeable-name"); continue; }
            for (wi, (l, r)) in wrappings.iter().enumerate() {
                let s = &mut pcs[(i + wi) % 4];
                let txt = format!("{}{}{}", l, name, r);
                s.clear_events(); prelude(s, &mut t, (i / nunits + wi) % 5, &earlier_p);
                let o = s.type_text(&mut t, &txt);
                let ctx = json!({"stream": "c18", "layout": PHONETIC, "opts": s.opts.bits_str(), "text": txt, "events": s.events});
                if let Obs::Full { cands, .. } = &o {
                    if env.data.emoticons.contains_key(txt.as_str()) { s.finish(&mut t); continue; }
                    let (cp, _, cr) = wrapping(&env.data, &s.opts, &txt);
                    let want: Vec<String> = list.iter().map(|e| format!("{}{}{}", cp, e, cr)).collect();
                    let pos: Vec<Option<usize>> = want.iter().map(|w| cands.iter().position(|c| c == w)).collect();
                    let name_is_word = name.chars().all(|c| c.is_ascii_alphanumeric());
                    if pos.iter().any(|p| p.is_none()) { rep.violation("C18", if name_is_word { "name-emoji-missing" } else { "name-with-punctuation-not-looked-up" }, format!("name {:?} typed as {:?}: expected {:?} in {:?}", name, txt, want, cands), ctx.clone()); }
                    else if pos.windows(2).any(|w| w[0] >= w[1]) { rep.violation("C18", "name-emoji-order", format!("name {:?}: emoji not in table order: {:?} in {:?}", name, want, cands), ctx.clone()); }
                    // emoji never remove or reorder the non-emoji candidates: compare with the classification of C07 is done in stream c07;
                    // here: the non-emoji candidates equal the list shown with ANSI-free, emoji-free rules = same text typed when the name has no entry is not available,
                    // so check order-preservation against the emoji-free sublist of the same list under push order (no emoji before an exact match is C07.5)
                }
                rep.eval(Some(&format!("name|{}|{}", s.opts.bits_str(), txt)));
                s.finish(&mut t);
            }
        }
        // Bengali names (fixed, typed through Probhat)
        for (i, (name, list)) in bn.iter().enumerate() {
            if i % nunits != ui { continue; }
            let keys = match keys_for(&inv, name) { Some(k) => k, None => { rep.count("untypeable-bengali-name"); continue; } };
            for (wi, (l, r)) in [("", ""), ("(", ")"), ("\"", "\"")].iter().enumerate() {
                let s = &mut fcs[(i + wi) % 8];
                let lk = keys_for(&inv, l); let rk = keys_for(&inv, r);
                let (lk, rk) = match (lk, rk) { (Some(a), Some(b)) => (a, b), _ => continue };
                s.clear_events(); prelude(s, &mut t, (i / nunits + wi) % 5, &earlier_f);
                let mut o = Obs::Unit;
                for (code, md) in lk.iter().chain(keys.iter()).chain(rk.iter()) { o = s.key(&mut t, *code, *md, 0); }
                if let Obs::Full { cands, aux, .. } = &o {
                    let ctx = json!({"stream": "c18", "layout": s.layout, "opts": s.opts.bits_str(), "composed": aux, "events": s.events});
                    let (p, w, rr) = split(aux, true);
                    // the composed word must be the name (up to the ZWNJ of traditional joining)
                    if w.chars().filter(|c| *c != ZWNJ).collect::<String>() == *name {
                        let (cp, cr) = if s.opts.smart_quote && !w.is_empty() { (curl_open(&p), curl_close(&rr)) } else { (p.clone(), rr.clone()) };
                        let typed_is_emoticon = false;
                        let want: Vec<String> = list.iter().map(|e| format!("{}{}{}", cp, e, cr)).collect();
                        // the documented cut to nine (eight + English) applies: emoji rank r sorts among the distances; demand the first min(len, room) … membership of all when the list has room
                        let room = if s.opts.english { 8 } else { 9 };
                        let missing: Vec<&String> = want.iter().filter(|w| !cands.contains(w)).collect();
                        if !missing.is_empty() && !typed_is_emoticon {
                            // the documented cut to nine (eight + English) is part of the ranking rules (DESIGN §5 C18): a full list may drop emoji
                            // a name with more emoji than the list has room for (9 places, 8 with English, the first is the composed text)
                            let cls = if cands.len() >= room && list.len() + 1 > room { "bengali-name-more-emoji-than-list-room" } else { "bengali-name-emoji-missing" };
                            rep.violation("C18", cls, format!("name {:?} composed {:?}: missing {:?} in {:?}", name, aux, missing, cands), ctx.clone());
                        }
                        rep.eval(Some(&format!("bn|{}|{}", s.opts.bits_str(), aux)));
                    } else { rep.count("bengali-name-not-composed-verbatim"); }
                }
                s.finish(&mut t); s.clear_events();
            }
        }
        t.flush();
        rep
    });
    let mut rep = Report::new("c18");
    for r in reps { rep.merge(r); }
    rep.exhaustive = true;
    rep.notes.push(format!("complete enumeration of the emojicon tables: {} emoticons, {} English names x 7 wrappings, {} Bengali names x 3 wrappings", emoticons.len(), names.len(), bn.len()));
    rep
}
