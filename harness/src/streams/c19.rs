//! C19 — the C interface: generated call sequences over the exported functions, executed by
//! ffi/driver.c against libriti.a under valgrind (memcheck + leak check) and under
//! AddressSanitizer/LeakSanitizer; every string read through the C interface is compared with the
//! value the Rust API reports for the same history (and that history is replayed on the Lean model).
use super::*;
use super::c01::{mk_layouts, register_layouts, rand_opts};
use riti_harness::par::par_map;
use std::process::Command;

fn ffi_render(slot: usize, o: &Obs) -> String {
    let p = |x: &Option<String>| match x { Some(s) => esc(s), None => "\\P".to_string() };
    match o {
        Obs::Single { text, pre, .. } => format!("R {} S {} {} {}", slot, if text.is_empty() { 1 } else { 0 }, esc(text), p(pre)),
        Obs::Full { aux, sel, cands, pres, .. } => {
            let mut s = format!("R {} F {} {} {} {}", slot, if cands.is_empty() { 1 } else { 0 }, sel, esc(aux), cands.len());
            for c in cands { s.push(' '); s.push_str(&esc(c)); }
            for x in pres { s.push(' '); s.push_str(&p(x)); }
            s
        }
        _ => format!("R {} ?", slot),
    }
}

pub fn run(env: &Env) -> Report {
    let lay = mk_layouts(env);
    let seed = env.a.seed;
    // <verif>/ffi next to <verif>/harness/target/release/<this binary> (so that a copy of the machinery uses its own C library)
    let ffi = std::env::current_exe().ok().and_then(|e| e.parent().and_then(|p| p.parent()).and_then(|p| p.parent()).and_then(|p| p.parent()).map(|p| p.join("ffi")))
        .filter(|p| p.join("driver.c").exists()).unwrap_or_else(|| PathBuf::from("/verif/ffi"));
    let have = ffi.join("driver_asan").exists() && ffi.join("driver_plain").exists();
    let (n_asan, n_valgrind) = if env.quick() { (24usize, 4usize) } else { (600, 60) };
    let total = n_asan + n_valgrind;
    let reps = par_map(total, |ui| {
        let mut rep = Report::new("c19");
        if !have { rep.violation("C19", "ffi-driver-not-built", "ffi/driver_asan or ffi/driver_plain missing (ffi/build.sh failed)".into(), json!({})); return rep; }
        let under_valgrind = ui >= n_asan;
        let mut rng = Rng::new(seed.wrapping_mul(2147483629) ^ (ui as u64) << 12);
        let mut t = env.trace(&format!("c19.{}", ui));
        register_layouts(&mut t, env, &lay);
        t.line(&format!("case c19-{}", ui));
        let xdg = env.fresh_xdg(&format!("c19-{}-rust", ui));
        let xdg_c = env.fresh_xdg(&format!("c19-{}-c", ui));
        let mut script: Vec<String> = vec![];
        let mut expect: Vec<String> = vec![];
        let layouts = [PHONETIC.to_string(), lay.probhat.clone(), lay.s1.clone(), lay.s2.clone()];
        // configs and contexts
        let ncfg = 1 + rng.below(3);
        let mut cfgs: Vec<(String, Opts)> = vec![];
        for c in 0..ncfg {
            let l = rng.pick(&layouts).clone();
            let mut o = rand_opts(&mut rng);
            if l != PHONETIC { o.ansi = false; }     // the unencodable-sign panic (known finding C02/C16) would abort the C process
            script.push(format!("cfg {} {} {}", c, l, o.bits_str()));
            cfgs.push((l, o));
        }
        let nctx = 1 + rng.below(2);
        let mut sess: Vec<Option<Sess>> = vec![];
        for c in 0..nctx {
            let ci = rng.below(ncfg);
            script.push(format!("ctx {} {}", c, ci));
            sess.push(Sess::new(&mut t, &env.data, &format!("c{}", c), &cfgs[ci].0, cfgs[ci].1, &xdg));
        }
        if rng.chance(50) { script.push("cfgfree 0".into()); script.push(format!("cfg 0 {} {}", cfgs[0].0, cfgs[0].1.bits_str())); }   // contexts own a copy of their config
        let mut slots: Vec<Option<Obs>> = vec![];
        let mut unread: Vec<usize> = vec![];
        let ncalls = if under_valgrind { 40 + rng.below(60) } else { 50 + rng.below(if env.quick() { 300 } else { 1900 }) };
        // mostly letters (so that words form), plus EVERY published key code (number pad, symbols, keys without a character): whatever a
        // key contributes to a string must come through the C interface byte for byte
        let mut keys: Vec<u16> = "abdeghiklmnorstuzxyKAIE.:'\"(1abdeghiklmnorstuzxyKAIE".chars().filter_map(code_for_char).collect();
        for k in KEYS { keys.push(k.1); }
        for _ in 0..ncalls {
            let live: Vec<usize> = (0..sess.len()).filter(|i| sess[*i].is_some()).collect();
            if live.is_empty() { break; }
            let ci = *rng.pick(&live);
            let r = rng.below(100);
            let s = sess[ci].as_mut().unwrap();
            if r < 55 {
                let k = *rng.pick(&keys); let m = if rng.chance(10) { 2 } else { 0 };
                let sel = match &s.last { Obs::Full { sel, cands, .. } if *sel < cands.len() => *sel as u8, _ => 0 };
                let o = s.key(&mut t, k, m, sel);
                if o == Obs::Panic { break; }
                // known finding C02: index out of range after a punctuation key — reading it through C would index out of bounds
                let bad = matches!(&o, Obs::Full { sel, cands, .. } if *sel >= cands.len());
                script.push(format!("key {} {} {} {} {}", ci, k, m, sel, slots.len()));
                slots.push(Some(o)); if !bad { unread.push(slots.len() - 1); }
            } else if r < 65 {
                let ctrl = rng.chance(15);
                let o = s.backspace(&mut t, ctrl);
                script.push(format!("bs {} {} {}", ci, ctrl as u8, slots.len()));
                slots.push(Some(o)); unread.push(slots.len() - 1);
            } else if r < 72 {
                let can = match &s.last { Obs::Full { cands, sel, .. } => !cands.is_empty() && *sel < cands.len(), Obs::Single { text, .. } => !text.is_empty(), _ => false } && s.imp.ongoing();
                if can { let idx = match &s.last { Obs::Full { cands, .. } => rng.below(cands.len()), _ => 0 }; s.commit(&mut t, idx); script.push(format!("commit {} {}", ci, idx)); }
            } else if r < 76 { s.finish(&mut t); script.push(format!("finish {}", ci)); }
            else if r < 80 { let on = s.imp.ongoing(); script.push(format!("ongoing {}", ci)); expect.push(format!("O {} {}", ci, on as u8)); }
            else if r < 83 { if !s.imp.ongoing() { let c2 = rng.below(ncfg); s.update(&mut t, &cfgs[c2].0, cfgs[c2].1); script.push(format!("update {} {}", ci, c2)); } }
            else if r < 85 { script.push("nullfree".into()); }
            else if r < 88 && sess.iter().filter(|x| x.is_some()).count() > 1 {
                // free a context; suggestions that came from it stay readable
                t.line(&format!("drop c{}", ci)); sess[ci] = None; script.push(format!("ctxfree {}", ci));
            }
            // delayed read-outs: deliberately after further events and after context frees
            if !unread.is_empty() && rng.chance(35) {
                let n = 1 + rng.below(unread.len().min(4));
                for _ in 0..n {
                    let i = rng.below(unread.len()); let slot = unread.swap_remove(i);
                    let keep = rng.chance(30);
                    script.push(format!("{} {}", if keep { "readkeep" } else { "read" }, slot));
                    expect.push(ffi_render(slot, slots[slot].as_ref().unwrap()));
                    if rng.chance(60) { script.push(format!("sugfree {}", slot)); slots[slot] = None; } else if rng.chance(50) { unread.push(slot); }
                }
                if rng.chance(40) { script.push("strfree".into()); }
            }
        }
        // tear down: contexts first or last, then everything that is still alive
        let ctx_first = rng.chance(50);
        if ctx_first { for (i, s) in sess.iter().enumerate() { if s.is_some() { script.push(format!("ctxfree {}", i)); } } }
        for slot in 0..slots.len() {
            if let Some(o) = &slots[slot] {
                let bad = matches!(o, Obs::Full { sel, cands, .. } if *sel >= cands.len());
                if rng.chance(50) && !bad { script.push(format!("read {}", slot)); expect.push(ffi_render(slot, o)); }
                script.push(format!("sugfree {}", slot));
            }
        }
        script.push("strfree".into());
        if !ctx_first { for (i, s) in sess.iter().enumerate() { if s.is_some() { script.push(format!("ctxfree {}", i)); } } }
        for c in 0..ncfg { script.push(format!("cfgfree {}", c)); }
        t.flush();
        // run the C driver
        let sp = env.a.out.join(format!("c19.{}.script", ui));
        std::fs::write(&sp, script.join("\n") + "\n").unwrap();
        let mut cmd = if under_valgrind {
            let mut c = Command::new("valgrind");
            c.args(["-q", "--error-exitcode=99", "--leak-check=full", "--errors-for-leak-kinds=definite,indirect", "--show-leak-kinds=definite,indirect"]).arg(ffi.join("driver_plain")); c
        } else { Command::new(ffi.join("driver_asan")) };
        cmd.arg(&sp).env("XDG_DATA_HOME", &xdg_c).env("RITI_DATA", DATA_DIR).env("ASAN_OPTIONS", "detect_leaks=1:abort_on_error=0:exitcode=98");
        let out = cmd.output();
        let ctx = json!({"stream": "c19", "script": sp.to_str(), "tool": if under_valgrind { "valgrind" } else { "asan" }, "calls": script.len()});
        match out {
            Err(e) => rep.violation("C19", "ffi-driver-not-runnable", format!("{}", e), ctx),
            Ok(o) => {
                let stdout = String::from_utf8_lossy(&o.stdout).to_string();
                let stderr = String::from_utf8_lossy(&o.stderr).to_string();
                let got: Vec<&str> = stdout.lines().collect();
                let code = o.status.code();
                if code != Some(0) {
                    let cls = if stderr.contains("LeakSanitizer") || stderr.contains("definitely lost") || stderr.contains("indirectly lost") { "memory-leak" } else if stderr.contains("AddressSanitizer") || stderr.contains("Invalid") { "invalid-memory-access" } else { "ffi-process-died" };
                    let keep = env.a.out.join(format!("c19.{}.stderr", ui)); let _ = std::fs::write(&keep, &stderr);
                    rep.violation("C19", cls, format!("{} exit {:?}: {}", if under_valgrind { "valgrind" } else { "asan" }, code, stderr.lines().filter(|l| !l.trim().is_empty()).take(6).collect::<Vec<_>>().join(" | ")), ctx.clone());
                }
                if got.len() != expect.len() || got.iter().zip(expect.iter()).any(|(a, b)| *a != b.as_str()) {
                    let first = got.iter().zip(expect.iter()).position(|(a, b)| *a != b.as_str()).unwrap_or(got.len().min(expect.len()));
                    rep.violation("C19", "c-string-differs-from-rust-value", format!("read-out {}: C interface returned {:?}, the Rust API value is {:?}", first, got.get(first), expect.get(first)), ctx.clone());
                } else { let _ = std::fs::remove_file(&sp); }
                if stdout.contains("\\BADUTF8") || stdout.contains("\\NULL") { rep.violation("C19", "invalid-c-string", "a returned string is NULL or not valid UTF-8".into(), ctx.clone()); }
                rep.add(if under_valgrind { "valgrind-runs" } else { "asan-runs" }, 1);
                rep.add("ffi-calls", script.len() as u64);
                rep.add("readouts-compared", expect.len() as u64);
                rep.eval(Some(&format!("{}|{}", ui, script.len())));
                if rep.samples.len() < 2 { rep.sample(json!({"tool": if under_valgrind { "valgrind" } else { "asan" }, "script_head": script.iter().take(12).collect::<Vec<_>>(), "calls": script.len()})); }
            }
        }
        rep
    });
    let mut rep = Report::new("c19");
    for r in reps { rep.merge(r); }
    rep
}
