//! Shared helpers for the phonetic streams: word pools and an independent classification of
//! candidates (auto-correct / dictionary + distance / suffix-built / emoji / transliteration / English).
use super::*;
use std::collections::{HashMap, HashSet};

pub fn curl_open(s: &str) -> String { s.chars().map(|c| match c { '\'' => '‘', '"' => '“', c => c }).collect() }
pub fn curl_close(s: &str) -> String { s.chars().map(|c| match c { '\'' => '’', '"' => '”', c => c }).collect() }
pub fn uncurl(s: &str) -> String { s.chars().map(|c| match c { '‘' | '’' => '\'', '“' | '”' => '"', c => c }).collect() }

const VOWELS: &str = "\u{0985}\u{0986}\u{0987}\u{0988}\u{0989}\u{098A}\u{098B}\u{098F}\u{0990}\u{0993}\u{0994}\u{098C}\u{09E1}\u{09BE}\u{09BF}\u{09C0}\u{09C1}\u{09C2}\u{09C3}\u{09C7}\u{09C8}\u{09CB}\u{09CC}";
const KARS: &str = "\u{09BE}\u{09BF}\u{09C0}\u{09C1}\u{09C2}\u{09C3}\u{09C7}\u{09C8}\u{09CB}\u{09CC}\u{09C4}";

/// the documented joining rule (C08): য় between a final vowel (sign) and an initial vowel sign, ৎ→ত, ং→ঙ
pub fn join(base: &str, suffix: &str) -> Option<String> {
    let rmc = base.chars().last()?; let lmc = suffix.chars().next()?;
    let mut w = base.to_string();
    if VOWELS.contains(rmc) && KARS.contains(lmc) { w.push('\u{09DF}'); }
    else if rmc == 'ৎ' { w.pop(); w.push('ত'); }
    else if rmc == 'ং' { w.pop(); w.push('ঙ'); }
    w.push_str(suffix);
    Some(w)
}

pub struct WordPools {
    pub ac_keys: Vec<String>,
    pub ac_vals: Vec<String>,
    pub suffixes: Vec<String>,
    pub emoji_names: Vec<String>,
    pub emoticons: Vec<String>,
}

impl WordPools {
    pub fn new(d: &Data) -> WordPools {
        let mut ac_keys: Vec<String> = d.autocorrect.keys().filter(|k| k.is_ascii() && !k.is_empty() && k.chars().all(|c| crate::code_ok(c))).cloned().collect(); ac_keys.sort();
        let mut ac_vals: Vec<String> = d.autocorrect.values().filter(|k| k.is_ascii() && !k.is_empty() && k.chars().all(|c| crate::code_ok(c))).cloned().collect(); ac_vals.sort(); ac_vals.dedup();
        let mut suffixes: Vec<String> = d.suffix.keys().cloned().collect(); suffixes.sort();
        let mut emoji_names: Vec<String> = d.emoji_names.keys().map(|s| s.to_string()).filter(|k| k.chars().all(|c| crate::code_ok(c))).collect(); emoji_names.sort();
        let mut emoticons: Vec<String> = d.emoticons.keys().map(|s| s.to_string()).filter(|k| k.chars().all(|c| crate::code_ok(c))).collect(); emoticons.sort();
        WordPools { ac_keys, ac_vals, suffixes, emoji_names, emoticons }
    }
    /// a word likely to have dictionary hits
    pub fn word(&self, r: &mut Rng) -> String {
        match r.below(10) {
            0..=2 => r.pick(&self.ac_keys).clone(),
            3..=5 => { let v = r.pick(&self.ac_vals); v.chars().take(1 + r.below(v.chars().count().max(1))).collect() }
            6 => r.pick(&self.emoji_names).clone(),
            _ => avro_word(r, 6),
        }
    }
}

/// how the engine is *specified* to assemble the non-emoji candidates of a word part: (text, class, rank)
#[derive(Clone, Debug, PartialEq)]
pub enum Class { AutoCorrect, Dict(usize), SuffixOfAc, SuffixOfDict(usize), Translit }

pub struct Classified { pub items: Vec<(String, Class)>, pub translit: String, pub ac: Option<String> }

/// direct candidates of a word part: auto-correct entry (user first) then dictionary hits with distance
pub fn direct(d: &Data, user_ac: &HashMap<String, String>, k: &str) -> Vec<(String, Class)> {
    let tr = d.phonetic.convert(k);
    let mut v = vec![];
    if let Some(c) = user_ac.get(k).or_else(|| d.autocorrect.get(k)) { v.push((d.phonetic.convert(c), Class::AutoCorrect)); }
    if let Some(hits) = d.dict_phonetic(k) { for h in hits { let dist = edit_distance::edit_distance(&tr, &h); v.push((h, Class::Dict(dist))); } }
    v
}

/// the specified candidate list of a word part (before wrapping, emoji, English), first occurrence of a text wins
pub fn classify(d: &Data, user_ac: &HashMap<String, String>, w: &str) -> Classified {
    let translit = d.phonetic.convert(w);
    let mut items: Vec<(String, Class)> = vec![];
    let mut seen = HashSet::new();
    let dir = direct(d, user_ac, w);
    let ac = dir.iter().find(|x| x.1 == Class::AutoCorrect).map(|x| x.0.clone());
    for (t, c) in dir { if seen.insert(t.clone()) { items.push((t, c)); } }
    let n = w.chars().count();
    if n > 2 && w.is_ascii() {
        for i in 1..n {
            let (k, s) = w.split_at(i);
            if let Some(sfx) = d.suffix.get(s) {
                for (b, c) in direct(d, user_ac, k) {
                    if let Some(j) = join(&b, sfx) {
                        let cls = match c { Class::AutoCorrect => Class::SuffixOfAc, Class::Dict(x) => Class::SuffixOfDict(x), c => c };
                        if seen.insert(j.clone()) { items.push((j, cls)); }
                    }
                }
            }
        }
    }
    if seen.insert(translit.clone()) { items.push((translit.clone(), Class::Translit)); }
    Classified { items, translit, ac }
}

/// strip the wrapping the engine adds around every candidate
pub fn unwrap_cand<'a>(c: &'a str, pre: &str, trail: &str) -> Option<&'a str> { c.strip_prefix(pre)?.strip_suffix(trail) }

/// (pre', word, trail') as the engine is specified to wrap candidates for a typed text
pub fn wrapping(d: &Data, opts: &Opts, text: &str) -> (String, String, String) {
    let (p, w, r) = split(text, false);
    let (mut cp, mut cr) = (d.phonetic.convert(&p), d.phonetic.convert(&r));
    if opts.smart_quote && !w.is_empty() { cp = curl_open(&cp); cr = curl_close(&cr); }
    (cp, w, cr)
}

/// a word that came and went BEFORE the text under test: properties about a composition hold in a context that has already ended other
/// words in any of the ways a word can end. kind 0 = nothing; 1 = finish; 2 = ctrl-backspace; 3 = backspaces down to empty;
/// 4 = commit of the index on display; 5 / 6 (phonetic list only; may change the learned store under the EMPTY word part) = the emoticon `;)`
/// committed at index 0 / 1. `keys` = the keys of the earlier word in the layout of the context.
pub fn prelude(s: &mut Sess, t: &mut Trace, kind: usize, keys: &[(u16, u8)]) {
    if kind == 0 { return; }
    if kind >= 5 {
        // the index the engine itself computed is not the one on display after a punctuation key (the caller's byte is returned), so
        // "not the preselected one" is tried both ways: kind 5 commits candidate 0, kind 6 candidate 1
        let mut o = Obs::Unit;
        for c in ";)".chars() { o = s.key(t, code_for_char(c).unwrap(), 0, 0); }
        match &o { Obs::Full { cands, .. } if cands.len() > 1 => { s.commit(t, if kind == 5 { 0 } else { 1 }); } Obs::Panic => {} _ => { s.finish(t); } }
        return;
    }
    let mut o = Obs::Unit;
    for (code, m) in keys { let sel = match &o { Obs::Full { sel, cands, .. } if *sel < cands.len() => (*sel).min(255) as u8, _ => 0 }; o = s.key(t, *code, *m, sel); if o == Obs::Panic { return; } }
    match kind {
        1 => { s.finish(t); }
        2 => { s.backspace(t, true); }
        3 => { for _ in 0..(keys.len() + 3) { if !s.imp.ongoing() { break; } s.backspace(t, false); } if s.imp.ongoing() { s.finish(t); } }
        _ => { match &o { Obs::Full { sel, cands, .. } if *sel < cands.len() => { s.commit(t, *sel); } Obs::Single { .. } => { s.commit(t, 0); } _ => { s.finish(t); } } }
    }
}
pub fn ascii_keys(txt: &str) -> Vec<(u16, u8)> { txt.chars().filter_map(|c| code_for_char(c).map(|k| (k, 0u8))).collect() }
