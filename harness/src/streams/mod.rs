use crate::Args;
use riti_harness::gen::*;
use riti_harness::imp::*;
use riti_harness::keys::*;
use riti_harness::oracle::*;
use riti_harness::trace::*;
use serde_json::json;
use std::path::{Path, PathBuf};

pub mod common;
pub mod c01;
pub mod c05;
pub mod c06;
pub mod c07;
pub mod c09;
pub mod c12;
pub mod c15;
pub mod c19;
pub mod c03;
pub mod c04;
pub mod tie;

pub struct Env<'a> {
    pub a: &'a Args,
    pub data: Data,
    pub tsv: PathBuf,
    pub scratch: PathBuf,
}

impl<'a> Env<'a> {
    pub fn trace(&self, name: &str) -> Trace {
        Trace::create(&self.a.out.join(format!("{}.trace", name)), &self.tsv)
    }
    /// a fresh XDG_DATA_HOME (with an empty user directory) for one case
    pub fn fresh_xdg(&self, tag: &str) -> PathBuf {
        let p = self.scratch.join(tag);
        let _ = std::fs::remove_dir_all(&p);
        std::fs::create_dir_all(user_dir(&p)).unwrap();
        p
    }
    pub fn quick(&self) -> bool { self.a.tier != "thorough" }
}

pub fn run(a: &Args) -> i32 {
    let data = Data::load();
    let tsv = a.out.join("tsv");
    let scratch = a.out.join("scratch");
    std::fs::create_dir_all(&scratch).unwrap();
    if a.stream == "dump-tsv" { data.dump_tsv(&tsv); return 0; }
    if !tsv.join("dictionary.tsv").exists() { data.dump_tsv(&tsv); }
    let env = Env { a, data, tsv, scratch };
    let rep = match a.stream.as_str() {
        "probe" => { probe(&env); return 0; }
        "replay" => { replay(&env); return 0; }
        "c01" => c01::run(&env),
        "c03" => c03::run(&env),
        "c05" => c05::run(&env),
        "c06" => c06::run(&env),
        "c07" => c07::run(&env),
        "c09" => c09::run(&env),
        "c10" => c09::run_c10(&env),
        "c11" => c09::run_c11(&env),
        "c12" => c12::run(&env),
        "c13" => c12::run_c13(&env),
        "c14" => c12::run_c14(&env),
        "c15" => c15::run(&env),
        "c16" => c15::run_c16(&env),
        "c17" => c15::run_c17(&env),
        "c18" => c15::run_c18(&env),
        "c19" => c19::run(&env),
        "c04" => c04::run(&env),
        "tie" => tie::run(&env),
        x => { eprintln!("unknown stream {}", x); return 2; }
    };
    rep.write(&a.out.join(format!("{}.report.json", a.stream)));
    let _ = std::fs::remove_dir_all(&env.scratch);
    println!("stream={} evaluations={} distinct_nontrivial={} violations={}", rep.stream, rep.evaluations, rep.nontrivial.len(), rep.violations.len());
    0
}

/// riti-harness replay <replay.json> — runs the `events` (and `fresh_events`) of a replay file written by a check against the
/// real library in a new context (layout / opts from the file, empty user directory) and prints every observation
fn replay(env: &Env) {
    let path = env.a.extra.get(0).expect("replay file");
    let v: serde_json::Value = serde_json::from_str(&std::fs::read_to_string(path).expect("readable replay file")).expect("JSON");
    let r = if v.get("replay").map(|x| x.is_object()).unwrap_or(false) { v["replay"].clone() } else { v.clone() };
    let layout = r["layout"].as_str().unwrap_or(PHONETIC).to_string();
    let bits_owned = r["opts"].as_str().unwrap_or("00000000000").to_string();
    let bits = bits_owned.as_str();
    let opts = Opts::from_bits(bits.chars().enumerate().fold(0u32, |acc, (i, c)| if c == '1' { acc | 1 << i } else { acc }));
    if opts.bits_str() != bits { println!("(note: option bits {} re-encoded as {})", bits, opts.bits_str()); }
    // other shapes of recorded inputs are turned into event lists: a typed text (`text`, under `opts` or under `opts_on` and `opts_off`),
    // the keys of a synthetic layout (`keys`), a corpus script (`script`: ⌫ backspace, ␛ finish, ⏎ ¹ ² ³ commit 0–3, ⏏ keypad enter)
    let mut r = r;
    let to_events = |txt: &str| -> Vec<serde_json::Value> {
        let mut v = vec![];
        for ch in txt.chars() {
            match ch {
                '⌫' => v.push(json!("bs 0")), '␛' => v.push(json!("finish")), '⏏' => v.push(json!("key 3612 0 0")),
                '⏎' => v.push(json!("commit 0")), '¹' => v.push(json!("commit 1")), '²' => v.push(json!("commit 2")), '³' => v.push(json!("commit 3")),
                c => if let Some(k) = code_for_char(c) { v.push(json!(format!("key {} 0 0", k))); } else { v.push(json!(format!("(no key for {:?})", c))); }
            }
        }
        v
    };
    if r.get("events").is_none() {
        if let Some(txt) = r.get("text").and_then(|x| x.as_str()).or(r.get("keys").and_then(|x| x.as_str())).or(r.get("script").and_then(|x| x.as_str())) {
            r["events"] = serde_json::Value::Array(to_events(txt));
        }
    }
    let variants: Vec<(String, String)> = match (r.get("opts_on").and_then(|x| x.as_str()), r.get("opts_off").and_then(|x| x.as_str())) {
        (Some(a), Some(b)) => vec![("option on".into(), a.to_string()), ("option off".into(), b.to_string())],
        _ => vec![(String::new(), bits.to_string())],
    };
    for (vname, vbits) in &variants {
    let opts = Opts::from_bits(vbits.chars().enumerate().fold(0u32, |acc, (i, c)| if c == '1' { acc | 1 << i } else { acc }));
    if !vname.is_empty() { println!("-- {}", vname); }
    for which in ["events", "fresh_events"] {
        let evs = match r[which].as_array() { Some(a) => a.clone(), None => continue };
        println!("== {} in a new context: layout {} opts {}", which, layout, opts.bits_str());
        let xdg = env.fresh_xdg(&format!("replay-{}", which));
        let mut t = Trace::create(&env.a.out.join(format!("replay.{}.trace", which)), &env.tsv);
        if layout != PHONETIC { t.layout(&layout, &env.tsv); }
        // a routed context (Sess::new_routed) records how it was born: created with another layout / other options, then updated
        let (mut layout_b, mut opts_b) = (layout.clone(), opts);
        if let Some(b) = evs.first().and_then(|e| e.as_str()).and_then(|e| e.strip_prefix("born ")) {
            let f: Vec<&str> = b.split(' ').collect();
            if f.len() == 2 { layout_b = f[0].to_string(); opts_b = Opts::from_bits(f[1].chars().enumerate().fold(0u32, |acc, (i, c)| if c == '1' { acc | 1 << i } else { acc }));
                if layout_b != PHONETIC { t.layout(&layout_b, &env.tsv); }
                println!("   (born as layout {} opts {})", layout_b, opts_b.bits_str()); }
        }
        let mut s = match Sess::new(&mut t, &env.data, "r", &layout_b, opts_b, &xdg) { Some(s) => s, None => { println!("new: PANIC"); continue; } };
        for e in evs {
            if e.as_str().map(|x| x.starts_with("born ")).unwrap_or(false) { continue; }
            let e = e.as_str().unwrap_or("").to_string();
            let f: Vec<&str> = e.split(' ').collect();
            let n = |i: usize| f.get(i).and_then(|x| x.parse::<u32>().ok()).unwrap_or(0);
            let o = match f[0] {
                "key" => s.key(&mut t, n(1) as u16, n(2) as u8, n(3) as u8),
                "bs" | "backspace" => s.backspace(&mut t, n(1) == 1),
                "commit" => s.commit(&mut t, n(1) as usize),
                "finish" => s.finish(&mut t),
                "update" => { let l = f.get(1).map(|x| x.to_string()).unwrap_or(layout.clone()); let b = f.get(2).copied().unwrap_or(bits);
                              let o2 = Opts::from_bits(b.chars().enumerate().fold(0u32, |acc, (i, c)| if c == '1' { acc | 1 << i } else { acc })); s.update(&mut t, &l, o2) }
                _ => { println!("{:<24} (not an event this mode can replay)", e); continue; }
            };
            let on = if o == Obs::Panic { false } else { s.imp.ongoing() };
            println!("{:<24} {}", e, render_obs(&o, on));
        }
        t.flush();
    }
    }
}

/// ad-hoc: riti-harness probe <layout|phonetic> <bits11> <text> — types text, prints observations
fn probe(env: &Env) {
    let layout = env.a.extra.get(0).map(|s| s.as_str()).unwrap_or("phonetic");
    let layout = if layout == "phonetic" { PHONETIC } else if layout == "probhat" { PROBHAT } else { layout };
    let bits = env.a.extra.get(1).cloned().unwrap_or("01000000001".into());
    let mut b = 0u32;
    for (i, c) in bits.chars().enumerate() { if c == '1' { b |= 1 << i; } }
    let opts = Opts::from_bits(b);
    let text = env.a.extra.get(2).cloned().unwrap_or_default();
    let xdg = env.fresh_xdg("probe");
    let mut t = env.trace("probe");
    if layout != PHONETIC { t.layout(layout, &env.tsv); }
    t.line("case probe");
    let mut s = Sess::new(&mut t, &env.data, "c0", layout, opts, &xdg).expect("new panicked");
    let mut it = text.chars().peekable();
    while let Some(c) = it.next() {
        let o = if c == '\u{8}' || c == '⌫' { s.backspace(&mut t, false) }
            else if c == '⏎' { s.commit(&mut t, 0) } else if c == '¹' { s.commit(&mut t, 1) } else if c == '²' { s.commit(&mut t, 2) } else if c == '³' { s.commit(&mut t, 3) }
            else { match code_for_char(c) { Some(k) => s.key(&mut t, k, 0, 0), None => { println!("untypeable {:?}", c); continue; } } };
        println!("{:?} -> {}", c, render_obs(&o, s.imp.ongoing()));
    }
    t.flush();
    let _ = (json!({}), Rng::new(0), Path::new("/"));
}
