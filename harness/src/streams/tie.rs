//! tie — complete function graphs of the three finite tables the translator normally READS from the source, obtained instead
//! by RUNNING the implementation on the whole domain; every case goes to the trace, so the Lean model (with whatever generated
//! table it was built with) is compared on the complete domain:
//!   * phonetic key map  (`keycode_to_char`): all 65 536 key codes × 2 modifier bytes, suggestions off;
//!   * fixed key map     (`get_char_for_key`): all 65 536 key codes × 7 modifier bytes × number pad on/off over a layout that
//!                       gives every entry a distinct value;
//!   * `impl Ord for Rank`: all 4 × 4 variant pairs × 256 × 256 rank numbers.
//! Run by `runcheck` when the translator cannot read one of the items `keycodes`, `layoutkeys`, `rankcmp` (a rewrite of the
//! code it does not recognise): agreement on the complete domain shows that the table of the last successful translation is
//! still the table of the code. Also part of the thorough tier of C04.
use super::*;
use riti_harness::layouts::*;
use riti_harness::par::par_map;
use riti::suggestion::Rank;

const MODS: [u8; 7] = [0, 1, 2, 3, 0x80, 0xFE, 0xFF];

pub fn run(env: &Env) -> Report {
    let dir = env.a.out.clone();
    let probe = write_probe(&dir);
    let sparse = write_probe_sparse(&dir);      // absent / empty entries in every pattern (no fall-back between the planes)
    // shards: 0..8 phonetic (by code range), 8..40 fixed (numpad × 16 code ranges), 40 rank comparison
    let nph = 8; let nfx = 64;
    let reps = par_map(nph + nfx + 2, |si| {
        let mut rep = Report::new("tie");
        let mut t = env.trace(&format!("tie.{}", si));
        if si < nph {
            let mut opts = Opts::none(); opts.phonetic_suggestion = false;
            let xdg = env.fresh_xdg(&format!("tie-{}", si));
            t.line(&format!("case tie-phonetic-{}", si));
            let mut s = Sess::new(&mut t, &env.data, "c", PHONETIC, opts, &xdg).expect("context");
            let (lo, hi) = (si * 65536 / nph, (si + 1) * 65536 / nph);
            for code in lo..hi {
                for m in [0u8, 3] {
                    let o = s.key(&mut t, code as u16, m, 0);
                    if o == Obs::Panic { rep.violation("C01", "panic", format!("phonetic key {} modifier {} panicked", code, m), json!({"stream": "tie", "layout": PHONETIC, "opts": opts.bits_str(), "events": [format!("key {} {} 0", code, m)]})); }
                    if s.imp.ongoing() { s.finish(&mut t); rep.count("phonetic-key-with-character"); } else { rep.count("phonetic-key-ignored"); }
                    rep.eval(None);
                }
            }
        } else if si < nph + nfx {
            let fi = si - nph;
            let numpad = fi % 2 == 1;
            let part = (fi / 2) % 16; let nparts = 16;
            let lp = if fi / 32 == 0 { probe.to_str().unwrap() } else { sparse.to_str().unwrap() };
            let mut opts = Opts::none(); opts.numpad = numpad;
            let xdg = env.fresh_xdg(&format!("tie-{}", si));
            t.layout(lp, &env.tsv);
            t.line(&format!("case tie-fixed-{}-numpad{}", part, numpad as u8));
            let mut s = Sess::new(&mut t, &env.data, "c", lp, opts, &xdg).expect("context");
            let (lo, hi) = (part * 65536 / nparts, (part + 1) * 65536 / nparts);
            for code in lo..hi {
                for m in MODS {
                    let o = s.key(&mut t, code as u16, m, 0);
                    if o == Obs::Panic { rep.violation("C01", "panic", format!("fixed key {} modifier {} panicked", code, m), json!({"stream": "tie", "layout": lp, "opts": opts.bits_str(), "events": [format!("key {} {} 0", code, m)]})); }
                    if s.imp.ongoing() { s.finish(&mut t); rep.count("fixed-key-with-value"); } else { rep.count("fixed-key-without-value"); }
                    rep.eval(None);
                }
            }
        } else if si == nph + nfx + 1 {
            // the modifier byte on ITS complete domain: all 256 values x every published key code (+ neighbours that are not published)
            // in both methods, number pad on and off, both probe layouts
            let mut codes: Vec<u16> = KEYS.iter().map(|k| k.1).collect();
            for extra in [0u16, 1, 58, 59, 0x0E00, 0x0E35, 0x0E36, 0xA000, 0xFFFF] { if !codes.contains(&extra) { codes.push(extra); } }
            let mut opts = Opts::none(); opts.phonetic_suggestion = false;
            let xdg = env.fresh_xdg(&format!("tie-{}", si));
            t.line("case tie-modifier-bytes-phonetic");
            let mut s = Sess::new(&mut t, &env.data, "c", PHONETIC, opts, &xdg).expect("context");
            for &code in &codes { for m in 0..=255u8 {
                let o = s.key(&mut t, code, m, 0);
                if o == Obs::Panic { rep.violation("C01", "panic", format!("phonetic key {} modifier {} panicked", code, m), json!({"stream": "tie", "layout": PHONETIC, "opts": opts.bits_str(), "events": [format!("key {} {} 0", code, m)]})); }
                if s.imp.ongoing() { s.finish(&mut t); }
                rep.eval(None); rep.count("modifier-byte-case");
            } }
            t.line("drop c");
            for (li, lp) in [probe.to_str().unwrap(), sparse.to_str().unwrap()].iter().enumerate() {
                for numpad in [false, true] {
                    let mut opts = Opts::none(); opts.numpad = numpad;
                    t.layout(lp, &env.tsv);
                    t.line(&format!("case tie-modifier-bytes-fixed-{}-numpad{}", li, numpad as u8));
                    let id = format!("f{}{}", li, numpad as u8);
                    let mut s = Sess::new(&mut t, &env.data, &id, lp, opts, &xdg).expect("context");
                    for &code in &codes { for m in 0..=255u8 {
                        let o = s.key(&mut t, code, m, 0);
                        if o == Obs::Panic { rep.violation("C01", "panic", format!("fixed key {} modifier {} panicked", code, m), json!({"stream": "tie", "layout": lp, "opts": opts.bits_str(), "events": [format!("key {} {} 0", code, m)]})); }
                        if s.imp.ongoing() { s.finish(&mut t); }
                        rep.eval(None); rep.count("modifier-byte-case");
                    } }
                    t.line(&format!("drop {}", id));
                }
            }
        } else {
            // `impl Ord for Rank`: one line per (variant, rank) of the left operand and variant of the right one, the 256
            // outcomes for the right operand's rank numbers as a string over L E G
            t.line("case tie-rankcmp");
            let mk = |v: usize, n: u8| match v { 0 => Rank::First("x".into()), 1 => Rank::Emoji("x".into(), n), 2 => Rank::Other("x".into(), n), _ => Rank::Last("x".into(), n) };
            for va in 0..4 { for na in 0..=255u8 { for vb in 0..4 {
                if va == 0 && na > 0 { continue; }
                let a = mk(va, na);
                let row: String = (0..=255u8).map(|nb| match a.cmp(&mk(vb, nb)) { std::cmp::Ordering::Less => 'L', std::cmp::Ordering::Equal => 'E', std::cmp::Ordering::Greater => 'G' }).collect();
                t.line(&format!("rankcmp {} {} {} {}", va, na, vb, row));
                rep.count("rank-comparison-rows");
                for _ in 0..256 { rep.eval(None); }
            } } }
        }
        t.flush();
        rep
    });
    let mut rep = Report::new("tie");
    for r in reps { rep.merge(r); }
    rep.exhaustive = true;
    rep.notes.push("complete domain: 65536 key codes x 2 modifier bytes (phonetic), x 7 modifier bytes x numpad on/off x 2 layouts (fixed: probe layout, sparse probe layout), all 256 modifier bytes x every published key code in both methods, 4x4x256x256 rank comparisons — all replayed on the Lean model".into());
    rep
}
