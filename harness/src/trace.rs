//! Trace writer: the line protocol read by the Lean driver (lean/Driver/Main.lean).
use crate::imp::*;
use std::collections::{HashMap, HashSet};
use std::io::{BufWriter, Write};
use std::panic::{catch_unwind, AssertUnwindSafe};
use std::path::{Path, PathBuf};

pub fn esc(s: &str) -> String {
    if s.is_empty() { return "\\e".into(); }
    let mut o = String::with_capacity(s.len() + 4);
    for c in s.chars() {
        match c {
            ' ' => o.push_str("\\s"), '\\' => o.push_str("\\\\"), '\n' => o.push_str("\\n"), '\t' => o.push_str("\\t"),
            '\r' => o.push_str("\\r"), '\0' => o.push_str("\\0"), c => o.push(c),
        }
    }
    o
}

/// Independent copies of the data the engine reads, and the independent dictionary matcher.
pub struct Data {
    pub dictionary: HashMap<String, Vec<String>>,
    pub suffix: HashMap<String, String>,
    pub autocorrect: HashMap<String, String>,
    pub regex_parser: okkhor::parser::Parser,
    pub phonetic: okkhor::parser::Parser,
    pub emoticons: HashMap<&'static str, &'static str>,
    pub emoji_names: HashMap<&'static str, &'static [&'static str]>,
    pub emoji_bn: HashMap<&'static str, &'static [&'static str]>,
}

/// first letter → dictionary tables, typed by hand from the Avro phonetic scheme (independent of riti)
pub fn phonetic_tables(first: char) -> &'static [&'static str] {
    match first {
        'a' => &["a", "aa", "e", "oi", "o", "nya", "y"], 'b' => &["b", "bh"], 'c' => &["c", "ch", "k"],
        'd' => &["d", "dh", "dd", "ddh"], 'e' => &["i", "ii", "e", "y"], 'f' => &["ph"], 'g' => &["g", "gh", "j"],
        'h' => &["h"], 'i' => &["i", "ii", "y"], 'j' => &["j", "jh", "z"], 'k' => &["k", "kh"], 'l' => &["l"],
        'm' => &["h", "m"], 'n' => &["n", "nya", "nga", "nn"], 'o' => &["a", "u", "uu", "oi", "o", "ou", "y"],
        'p' => &["p", "ph"], 'q' => &["k"], 'r' => &["rri", "h", "r", "rr", "rrh"], 's' => &["s", "sh", "ss"],
        't' => &["t", "th", "tt", "tth", "khandatta"], 'u' => &["u", "uu", "y"], 'v' => &["bh"], 'w' => &["o"],
        'x' => &["e", "k"], 'y' => &["i", "y"], 'z' => &["h", "j", "jh", "z"],
        _ => &[],
    }
}

/// the keys of the emoticon table, for oracles that have no `Data` at hand
pub static EMOTICON_KEYS: std::sync::OnceLock<HashSet<String>> = std::sync::OnceLock::new();

impl Data {
    pub fn load() -> Data {
        let rd = |n: &str| std::fs::read(format!("{}/{}", DATA_DIR, n)).unwrap();
        let _ = EMOTICON_KEYS.set(emojicon::internal::emoticons().keys().map(|k| k.to_string()).collect());
        Data {
            dictionary: serde_json::from_slice(&rd("dictionary.json")).unwrap(),
            suffix: serde_json::from_slice(&rd("suffix.json")).unwrap(),
            autocorrect: serde_json::from_slice(&rd("autocorrect.json")).unwrap(),
            regex_parser: okkhor::parser::Parser::new_regex(),
            phonetic: okkhor::parser::Parser::new_phonetic(),
            emoticons: emojicon::internal::emoticons(),
            emoji_names: emojicon::internal::emojis(),
            emoji_bn: emojicon::internal::bn_emojis(),
        }
    }
    /// dictionary look-up of the phonetic method, by an independent route. None = regex does not compile.
    pub fn dict_phonetic(&self, word: &str) -> Option<Vec<String>> {
        let rx = self.regex_parser.convert_regex(word);
        let rgx = regex::Regex::new(&rx).ok()?;
        let first = word.chars().next().unwrap_or('\0');
        let mut out = Vec::new();
        for t in phonetic_tables(first) {
            if let Some(ws) = self.dictionary.get(*t) {
                for w in ws { if rgx.is_match(w) { out.push(w.clone()); } }
            }
        }
        Some(out)
    }
    /// write the TSV copies of the tables for the Lean driver
    pub fn dump_tsv(&self, dir: &Path) {
        std::fs::create_dir_all(dir).unwrap();
        let w = |name: &str, rows: Vec<Vec<String>>| {
            let mut f = BufWriter::new(std::fs::File::create(dir.join(name)).unwrap());
            for r in rows { writeln!(f, "{}", r.join("\t")).unwrap(); }
        };
        w("suffix.tsv", self.suffix.iter().map(|(k, v)| vec![esc(k), esc(v)]).collect());
        w("autocorrect.tsv", self.autocorrect.iter().map(|(k, v)| vec![esc(k), esc(v)]).collect());
        w("emoticon.tsv", self.emoticons.iter().map(|(k, v)| vec![esc(k), esc(v)]).collect());
        w("emojiname.tsv", self.emoji_names.iter().map(|(k, v)| { let mut r = vec![esc(k)]; r.extend(v.iter().map(|x| esc(x))); r }).collect());
        w("emojibn.tsv", self.emoji_bn.iter().map(|(k, v)| { let mut r = vec![esc(k)]; r.extend(v.iter().map(|x| esc(x))); r }).collect());
        w("dictionary.tsv", self.dictionary.iter().map(|(k, v)| { let mut r = vec![k.clone()]; r.extend(v.iter().map(|x| esc(x))); r }).collect());
    }
}

/// the harness's own splitter (independent re-implementation of the documented splitting rule)
pub fn split(input: &str, include_colon: bool) -> (String, String, String) {
    const META: &str = "-]~!@#%&*()_=+[{}'\";<>/?|.,।";
    let chars: Vec<char> = input.chars().collect();
    let first = match chars.iter().position(|c| !META.contains(*c)) { Some(i) => i, None => return (input.to_string(), String::new(), String::new()) };
    let mut end = chars.len();
    let mut i = chars.len();
    let mut escape = false;
    while i > first {
        let c = chars[i - 1];
        if !escape && c == '`' { escape = true; }
        else if ((include_colon || escape) && c == ':') || META.contains(c) { escape = false; end = i - 1; }
        else { break; }
        i -= 1;
    }
    (chars[..first].iter().collect(), chars[first..end].iter().collect(), chars[end..].iter().collect())
}

pub struct Trace {
    out: BufWriter<std::fs::File>,
    pub path: PathBuf,
    known_dict: HashSet<String>,
    known_bijoy: HashSet<String>,
    known_json: HashSet<u64>,
    pub lines: u64,
    pub tsv_dir: PathBuf,
}

impl Trace {
    pub fn create(path: &Path, tsv_dir: &Path) -> Trace {
        let mut t = Trace { out: BufWriter::new(std::fs::File::create(path).unwrap()), path: path.to_path_buf(),
                            known_dict: HashSet::new(), known_bijoy: HashSet::new(), known_json: HashSet::new(), lines: 0, tsv_dir: tsv_dir.to_path_buf() };
        for k in ["suffix", "autocorrect", "emoticon", "emojiname", "emojibn", "dictionary"] {
            t.line(&format!("load {} {}", k, tsv_dir.join(format!("{}.tsv", k)).display()));
        }
        t
    }
    pub fn line(&mut self, s: &str) { writeln!(self.out, "{}", s).unwrap(); self.lines += 1; }
    pub fn flush(&mut self) { self.out.flush().unwrap(); }
    /// register a layout file for the model: path → TSV of its entries
    pub fn layout(&mut self, layout_path: &str, tsv_dir: &Path) {
        let v: serde_json::Value = serde_json::from_str(&std::fs::read_to_string(layout_path).unwrap()).unwrap();
        let name = format!("layout_{:x}.tsv", fxhash(layout_path));
        let p = tsv_dir.join(name);
        let mut f = BufWriter::new(std::fs::File::create(&p).unwrap());
        if let Some(m) = v["layout"].as_object() {
            for (k, val) in m { if let Some(s) = val.as_str() { writeln!(f, "{}\t{}", k, esc(s)).unwrap(); } }
        }
        f.flush().unwrap();
        self.line(&format!("layout {} {}", esc(layout_path), p.display()));
        // tie for the Lean reader of layout files (Model/JsonValue): the bytes of the file and what riti's steps make of them
        crate::layoutdoc::emit_layout_read(self, &std::fs::read(layout_path).unwrap());
    }
    pub fn need_dict(&mut self, data: &Data, word: &str) {
        if self.known_dict.insert(word.to_string()) {
            // okkhor's regex generator slices by bytes and panics on non-ASCII input: only reachable here when a context that
            // should be phonetic shows Bengali auxiliary text (a defect of the library under test, reported by the oracles)
            match catch_unwind(AssertUnwindSafe(|| data.dict_phonetic(word))).unwrap_or(None) {
                Some(ws) => { let l = format!("dict {} = {}", esc(word), ws.iter().map(|w| esc(w)).collect::<Vec<_>>().join(" ")); self.line(&l); }
                None => { let l = format!("dict {} !", esc(word)); self.line(&l); }
            }
        }
    }
    /// tie for the Lean JSON fragment (Model/Json): the bytes of a per-user file and what serde_json made of them
    pub fn json_read(&mut self, bytes: &[u8]) {
        if bytes.len() > 16384 { return; }
        let h = fxhash_bytes(bytes);
        if !self.known_json.insert(h) { return; }
        let mut l = format!("json-read {} ", if bytes.is_empty() { "\\e".to_string() } else { hex(bytes) });
        match serde_json::from_slice::<HashMap<String, String>>(bytes) {
            Err(_) => l.push('-'),
            Ok(m) => {
                let mut kv: Vec<_> = m.into_iter().collect(); kv.sort();
                l.push('=');
                for (k, v) in kv { l.push(' '); l.push_str(&esc(&k)); l.push(' '); l.push_str(&esc(&v)); }
            }
        }
        self.line(&l);
    }
    /// the complete file the engine has just written (serde_json::to_string of its map)
    pub fn json_written(&mut self, bytes: &[u8]) {
        if bytes.len() > 16384 || bytes.is_empty() { return; }
        let h = fxhash_bytes(bytes) ^ 0x5bd1e995;
        if !self.known_json.insert(h) { return; }
        let l = format!("json-written {}", hex(bytes));
        self.line(&l);
    }
    pub fn need_bijoy(&mut self, s: &str) {
        if self.known_bijoy.insert(s.to_string()) {
            let r = catch_unwind(AssertUnwindSafe(|| poriborton::bijoy2000::unicode_to_bijoy(s)));
            match r {
                Ok(t) => { let l = format!("bijoy {} = {}", esc(s), esc(&t)); self.line(&l); }
                Err(_) => { let l = format!("bijoy {} !", esc(s)); self.line(&l); }
            }
        }
    }
}

pub fn hex(b: &[u8]) -> String { let mut s = String::with_capacity(b.len() * 2); for x in b { s.push_str(&format!("{:02x}", x)); } s }
pub fn fxhash_bytes(b: &[u8]) -> u64 {
    let mut h: u64 = 0xcbf29ce484222325;
    for x in b { h ^= *x as u64; h = h.wrapping_mul(0x100000001b3); }
    h
}
pub fn fxhash(s: &str) -> u64 {
    let mut h: u64 = 0xcbf29ce484222325;
    for b in s.bytes() { h ^= b as u64; h = h.wrapping_mul(0x100000001b3); }
    h
}

pub fn render_obs(o: &Obs, ongoing: bool) -> String {
    let b = |x: bool| if x { "1" } else { "0" };
    let p = |x: &Option<String>| match x { Some(s) => esc(s), None => "\\P".to_string() };
    match o {
        Obs::Panic => "PANIC".into(),
        Obs::Unit => format!("U {}", b(ongoing)),
        Obs::Single { ansi, text, pre } => format!("S {} {} {} {}", b(*ansi), b(ongoing), esc(text), p(pre)),
        Obs::Full { ansi, aux, sel, cands, pres, .. } => {
            let mut s = format!("F {} {} {} {} {}", b(*ansi), b(ongoing), sel, esc(aux), cands.len());
            for c in cands { s.push(' '); s.push_str(&esc(c)); }
            for x in pres { s.push(' '); s.push_str(&p(x)); }
            s
        }
    }
}

/// canonical rendering of a store file as the engine would see it: `file -` (absent/unreadable) or `file = k v …` sorted
pub fn render_store_file(path: &Path) -> String {
    match std::fs::read(path).ok().and_then(|b| serde_json::from_slice::<HashMap<String, String>>(&b).ok()) {
        None => "file -".into(),
        Some(m) => {
            let mut kv: Vec<_> = m.into_iter().map(|(k, v)| (esc(&k), esc(&v))).collect();
            kv.sort();
            let mut s = "file =".to_string();
            for (k, v) in kv { s.push(' '); s.push_str(&k); s.push(' '); s.push_str(&v); }
            s
        }
    }
}

/// One real context coupled to the trace.
pub struct Sess<'a> {
    pub id: String,
    pub imp: Imp,
    pub layout: String,
    pub opts: Opts,
    pub xdg: PathBuf,
    pub data: &'a Data,
    pub last: Obs,
    pub events: Vec<String>,
    /// `type_text` passes the index selected in the list on display (as a front-end does) instead of 0
    pub follow_sel: bool,
    /// how many leading events `clear_events` keeps (the route of a routed context)
    pub keep: usize,
}

pub fn emit_fs(t: &mut Trace, xdg: &Path) {
    let ud = user_dir(xdg);
    let sel = ud.join("phonetic-candidate-selection.json");
    if let Ok(b) = std::fs::read(&sel) { t.json_read(&b); }
    if let Ok(b) = std::fs::read(ud.join("autocorrect.json")) { t.json_read(&b); }
    match std::fs::read(&sel).ok().map(|b| serde_json::from_slice::<HashMap<String, String>>(&b).ok()) {
        None => t.line("fs-sel -"),
        Some(None) => t.line("fs-sel !"),
        Some(Some(m)) => {
            let mut kv: Vec<_> = m.into_iter().collect(); kv.sort();
            let mut s = "fs-sel =".to_string();
            for (k, v) in kv { s.push(' '); s.push_str(&esc(&k)); s.push(' '); s.push_str(&esc(&v)); }
            t.line(&s);
        }
    }
    let ac = ud.join("autocorrect.json");
    match std::fs::File::open(&ac) {
        Err(_) => t.line("fs-ac -"),
        Ok(f) => {
            let mt = f.metadata().and_then(|m| m.modified()).ok()
                .and_then(|m| m.duration_since(std::time::UNIX_EPOCH).ok()).map(|d| d.as_nanos()).unwrap_or(0);
            match std::fs::read(&ac).ok().and_then(|b| serde_json::from_slice::<HashMap<String, String>>(&b).ok()) {
                None => t.line(&format!("fs-ac {} !", mt)),
                Some(m) => {
                    let mut kv: Vec<_> = m.into_iter().collect(); kv.sort();
                    let mut s = format!("fs-ac {} =", mt);
                    for (k, v) in kv { s.push(' '); s.push_str(&esc(&k)); s.push(' '); s.push_str(&esc(&v)); }
                    t.line(&s);
                }
            }
        }
    }
    // can the selections file be written?
    let w = ud.is_dir() && {
        let probe = ud.join(".verif-write-probe");
        let ok = std::fs::write(&probe, b"x").is_ok();
        let _ = std::fs::remove_file(&probe);
        // an existing selections file must itself be writable
        ok && (!sel.exists() || std::fs::OpenOptions::new().write(true).open(&sel).is_ok())
    };
    t.line(&format!("fs-w {}", if w { 1 } else { 0 }));
}

impl<'a> Sess<'a> {
    /// create a real context and record it in the trace; None when construction panicked
    pub fn new(t: &mut Trace, data: &'a Data, id: &str, layout: &str, opts: Opts, xdg: &Path) -> Option<Sess<'a>> {
        emit_fs(t, xdg);
        let cfg = mk_config(layout, &opts, xdg);
        t.line(&format!("new {} {} {}", id, esc(layout), opts.bits_str()));
        match Imp::new(&cfg) {
            Some(mut imp) => {
                imp.describe(&format!("layout={} opts={} xdg={}", layout, opts.bits_str(), xdg.display()));
                let on = imp.ongoing();
                t.line(&format!("> N {}", if on { 1 } else { 0 }));
                Some(Sess { id: id.into(), imp, layout: layout.into(), opts, xdg: xdg.to_path_buf(), data, last: Obs::Unit, events: vec![], follow_sel: true, keep: 0 })
            }
            None => { t.line("> PANIC"); None }
        }
    }
    fn pre_lines(&self, t: &mut Trace, o: &Obs) {
        match o {
            Obs::Full { aux, cands, ansi, .. } => {
                if self.layout == PHONETIC {
                    let (_, w, _) = split(aux, false);
                    t.need_dict(self.data, &w);
                }
                if *ansi { for c in cands { t.need_bijoy(c); } }
            }
            Obs::Single { ansi, text, .. } => { if *ansi { t.need_bijoy(text); } }
            _ => {}
        }
    }
    /// create the context by a ROUTE (property C11 says every route gives the same engine): 0 = directly; 1 = as the OTHER method
    /// (Probhat for a phonetic target, phonetic for a fixed one) with the same options, then update_engine to the target;
    /// 2 = same layout but with both suggestion lists off and ANSI / English / smart quotes flipped, then update_engine; 3 = both.
    /// The trace holds `new` + `update`; the recorded events start with `born <layout> <bits>` so that a replay takes the same route.
    pub fn new_routed(t: &mut Trace, data: &'a Data, id: &str, layout: &str, opts: Opts, xdg: &Path, route: usize) -> Option<Sess<'a>> {
        let route = route % 4;
        if route == 0 { return Sess::new(t, data, id, layout, opts, xdg); }
        let l0 = if route & 1 == 1 { if layout == PHONETIC { PROBHAT } else { PHONETIC } } else { layout };
        let mut o0 = opts;
        if route & 2 == 2 { o0.phonetic_suggestion = false; o0.fixed_suggestion = false; o0.ansi = !opts.ansi; o0.english = !opts.english; o0.smart_quote = !opts.smart_quote; }
        if l0 != PHONETIC && l0 != layout { let d = t.tsv_dir.clone(); t.layout(l0, &d); }
        let mut s = Sess::new(t, data, id, l0, o0, xdg)?;
        s.events.push(format!("born {} {}", l0, o0.bits_str()));
        s.keep = 2;
        if s.update(t, layout, opts) == Obs::Panic { return None; }
        Some(s)
    }
    /// forget the recorded events of the words that are over (the `born` + `update` head of a routed context stays)
    pub fn clear_events(&mut self) { self.events.truncate(self.keep); }
    pub fn key(&mut self, t: &mut Trace, code: u16, m: u8, sel: u8) -> Obs {
        let o = self.imp.key(code, m, sel);
        let on = if o == Obs::Panic { false } else { self.imp.ongoing() };
        self.pre_lines(t, &o);
        t.line(&format!("key {} {} {} {}", self.id, code, m, sel));
        t.line(&format!("> {}", render_obs(&o, on)));
        self.events.push(format!("key {} {} {}", code, m, sel));
        self.last = o.clone();
        o
    }
    pub fn backspace(&mut self, t: &mut Trace, ctrl: bool) -> Obs {
        let o = self.imp.backspace(ctrl);
        let on = if o == Obs::Panic { false } else { self.imp.ongoing() };
        self.pre_lines(t, &o);
        t.line(&format!("bs {} {}", self.id, if ctrl { 1 } else { 0 }));
        t.line(&format!("> {}", render_obs(&o, on)));
        self.events.push(format!("bs {}", ctrl as u8));
        self.last = o.clone();
        o
    }
    pub fn commit(&mut self, t: &mut Trace, i: usize) -> Obs {
        // the model needs to know what the outside world did to the files and whether the save can succeed *now*
        emit_fs(t, &self.xdg);
        let selp = user_dir(&self.xdg).join("phonetic-candidate-selection.json");
        let before = std::fs::read(&selp).ok();
        let o = self.imp.commit(i);
        if let Ok(b) = std::fs::read(&selp) { if Some(&b) != before.as_ref() { t.json_written(&b); } }
        let on = if o == Obs::Panic { false } else { self.imp.ongoing() };
        t.line(&format!("commit {} {}", self.id, i));
        if o == Obs::Panic { t.line("> PANIC"); } else {
            let f = render_store_file(&user_dir(&self.xdg).join("phonetic-candidate-selection.json"));
            t.line(&format!("> U {} {}", if on { 1 } else { 0 }, f));
        }
        self.events.push(format!("commit {}", i));
        self.last = Obs::Unit;
        o
    }
    pub fn finish(&mut self, t: &mut Trace) -> Obs {
        let o = self.imp.finish();
        let on = if o == Obs::Panic { false } else { self.imp.ongoing() };
        t.line(&format!("finish {}", self.id));
        t.line(&format!("> {}", render_obs(&o, on)));
        self.events.push("finish".into());
        self.last = Obs::Unit;
        o
    }
    pub fn update(&mut self, t: &mut Trace, layout: &str, opts: Opts) -> Obs {
        emit_fs(t, &self.xdg);
        let cfg = mk_config(layout, &opts, &self.xdg);
        let o = self.imp.update(&cfg);
        self.imp.describe(&format!("(continued after update) layout={} opts={} xdg={}", layout, opts.bits_str(), self.xdg.display()));
        let on = if o == Obs::Panic { false } else { self.imp.ongoing() };
        t.line(&format!("update {} {} {}", self.id, esc(layout), opts.bits_str()));
        t.line(&format!("> {}", render_obs(&o, on)));
        self.layout = layout.into();
        self.opts = opts;
        self.events.push(format!("update {} {}", layout, opts.bits_str()));
        o
    }
    /// type an ASCII text key by key (main-block keys); returns the last observation
    pub fn type_text(&mut self, t: &mut Trace, text: &str) -> Obs {
        let mut o = Obs::Unit;
        for c in text.chars() {
            let code = crate::keys::code_for_char(c).unwrap_or_else(|| panic!("untypeable char {:?}", c));
            // as a front-end does: pass the index currently selected in the list on display
            let sel = match &self.last { Obs::Full { sel, cands, .. } if self.follow_sel && *sel < cands.len() => (*sel).min(255) as u8, _ => 0 };
            o = self.key(t, code, 0, sel);
            if o == Obs::Panic { return o; }   // a poisoned context is not used further
        }
        o
    }
}

pub fn emit_fs_w_only(t: &mut Trace, xdg: &Path) {
    // selections file state as the model holds it is kept by the model itself; only writability is external
    let ud = user_dir(xdg);
    let sel = ud.join("phonetic-candidate-selection.json");
    let w = ud.is_dir() && {
        let probe = ud.join(".verif-write-probe");
        let ok = std::fs::write(&probe, b"x").is_ok();
        let _ = std::fs::remove_file(&probe);
        ok && (!sel.exists() || std::fs::OpenOptions::new().write(true).open(&sel).is_ok())
    };
    t.line(&format!("fs-w {}", if w { 1 } else { 0 }));
}
