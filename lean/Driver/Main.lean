/-
Driver — line-protocol trace validator.  Reads a trace written by the Rust harness (operations
on real riti contexts followed by `>` lines holding what the implementation returned), replays
every operation on the Lean model and reports each line where the two differ.
Imports the model and `Std` (hash maps for the data tables) only, so it links as a `lean_exe`.
-/
import RitiModel.Model.Context
import RitiModel.Model.Okkhor
import RitiModel.Model.Bijoy
import RitiModel.Model.Json
import RitiModel.Model.JsonValue
import RitiModel.Model.Regex
import RitiModel.Model.EmojiTables
import Std.Data.HashMap
open Riti Std

namespace Driver

/-- token escaping shared with the harness: `\e` empty, `\s` space, `\\`, `\n`, `\t`, `\0`; `\P` = PANIC -/
def unescape (s : String) : List Char :=
  let rec go : List Char → List Char
    | [] => []
    | '\\' :: 'e' :: rest => go rest
    | '\\' :: 's' :: rest => ' ' :: go rest
    | '\\' :: '\\' :: rest => '\\' :: go rest
    | '\\' :: 'n' :: rest => '\n' :: go rest
    | '\\' :: 't' :: rest => '\t' :: go rest
    | '\\' :: 'r' :: rest => '\r' :: go rest
    | '\\' :: '0' :: rest => '\x00' :: go rest
    | c :: rest => c :: go rest
  go s.toList

def escape (l : List Char) : String :=
  if l.isEmpty then "\\e" else
  String.ofList (l.flatMap (fun c =>
    if c == ' ' then ['\\', 's'] else if c == '\\' then ['\\', '\\'] else if c == '\n' then ['\\', 'n']
    else if c == '\t' then ['\\', 't'] else if c == '\r' then ['\\', 'r'] else if c == '\x00' then ['\\', '0'] else [c]))

structure Tables where
  suffix : HashMap String (List Char) := {}
  autocorrect : HashMap String (List Char) := {}
  emoticon : HashMap String (List Char) := {}
  emojiName : HashMap String (List (List Char)) := {}
  emojiBn : HashMap String (List (List Char)) := {}
  dictionary : HashMap String (List (List Char)) := {}
  dict : HashMap String (Option (List (List Char))) := {}
  bijoy : HashMap String (Option (List Char)) := {}
  layouts : HashMap String (HashMap String (List Char)) := {}

structure St where
  t : Tables := {}
  ctxs : HashMap String Ctx := {}
  fs : FS := {}
  caseName : String := ""
  lineNo : Nat := 0
  lastOp : String := ""
  /-- what the model expects for the pending `>` line: rendered string, or a checker for fixed lists -/
  pending : Option (String × Option (String × Cfg × FState × Layout)) := none
  ops : Nat := 0
  cases : Nat := 0
  mismatches : Nat := 0
  missing : Nat := 0
  counters : HashMap String Nat := {}
  shown : Nat := 0

def bump (st : St) (k : String) : St := { st with counters := st.counters.insert k (st.counters.getD k 0 + 1) }

def key (l : List Char) : String := String.ofList l

def mkEnv (t : Tables) : Env where
  convert := okConvert
  dictPhonetic := fun w => match t.dict.get? (key w) with
    | some r => r
    | none => some [['\x01', 'M', 'I', 'S', 'S', 'I', 'N', 'G']]   -- flagged by the caller
  suffix := fun w => t.suffix.get? (key w)
  autocorrect := fun w => t.autocorrect.get? (key w)
  emoticon := fun w => t.emoticon.get? (key w)
  emojiByName := fun w => t.emojiName.get? (key w)
  emojiBengali := fun w => t.emojiBn.get? (key w)
  bijoy := fun s => match t.bijoy.get? (key s) with
    | some (some r) => .ok r
    | some none => .error .bijoy
    | none => .ok ['\x01', 'M', 'I', 'S', 'S', 'I', 'N', 'G']
  fixedTable := fun n => t.dictionary.getD n []

def mkWorld (t : Tables) : World where
  env := mkEnv t
  layouts := fun p => (t.layouts.get? p).map (fun m => fun name => m.get? name)
  sorter := sortStable

def parseCfg (s : String) : Cfg :=
  -- 11 characters '0'/'1' in the order of the `Cfg` fields
  let b := fun (i : Nat) => (s.toList.getD i '0') == '1'
  { includeEnglish := b 0, phoneticSuggestion := b 1, fixedSuggestion := b 2, fixedVowel := b 3,
    fixedChandra := b 4, fixedKar := b 5, fixedOldReph := b 6, fixedNumpad := b 7, fixedKarOrder := b 8,
    ansi := b 9, smartQuote := b 10 }

def b01 (b : Bool) : String := if b then "1" else "0"

def renderPre (env : Env) (sg : Sugg) (i : Nat) : String :=
  match sg.getPreEdit env i with
  | .ok s => escape s
  | .error _ => "\\P"

def renderSugg (env : Env) (sg : Sugg) (ongoing : Bool) : String :=
  match sg with
  | .single s ansi => s!"S {b01 ansi} {b01 ongoing} {escape s} {renderPre env sg 0}"
  | .full aux l sel ansi =>
    let cs := l.map escape
    let ps := (List.range l.length).map (renderPre env sg)
    s!"F {b01 ansi} {b01 ongoing} {sel} {escape aux} {l.length}" ++ String.join (cs.map (" " ++ ·)) ++ String.join (ps.map (" " ++ ·))

def pairs : List String → List (List Char × List Char)
  | k :: v :: rest => (unescape k, unescape v) :: pairs rest
  | _ => []

def renderStore (st : Store) : String :=
  let arr := (st.map (fun (k, v) => (escape k, escape v))).toArray.qsort (fun a b => a.1 < b.1)
  String.join (arr.toList.map (fun (k, v) => s!" {k} {v}"))

def renderFile (fs : FS) : String :=
  match fs.sel with
  | .parsed st => "file =" ++ renderStore st
  | _ => "file -"

/-- canonical store: later duplicates of a key removed (our `ainsert` never creates them) -/
def hasMissing (s : String) : Bool := (s.splitOn "\x01MISSING").length > 1

def report (st : St) (msg : String) : IO St := do
  if st.shown < 200 then IO.println msg
  return { st with mismatches := st.mismatches + 1, shown := st.shown + 1,
                   missing := st.missing + (if hasMissing msg then 1 else 0) }

def loadTsv (path : String) : IO (List (List String)) := do
  let txt ← IO.FS.readFile path
  return (txt.splitOn "\n").filter (· ≠ "") |>.map (fun l => l.splitOn "\t")

/-- texts of the implementation's `F` line → (ansi, ongoing, sel, aux, cands, pres) -/
def parseF (toks : List String) : Option (String × String × Nat × String × List String × List String) :=
  match toks with
  | "F" :: ansi :: ong :: sel :: aux :: n :: rest =>
    let n := n.toNat!
    some (ansi, ong, sel.toNat!, aux, rest.take n, rest.drop n)
  | _ => none

/-- give every implementation text the rank of an unused model candidate with that text -/
def matchRanks : List (List Char) → List Rank → Option (List Rank)
  | [], _ => some []
  | t :: ts, pool =>
    match pool.find? (fun r => r.text == t) with
    | none => none
    | some r => match matchRanks ts (pool.erase r) with
      | none => none
      | some rs => some (r :: rs)

/-- the `HashMap` the crate builds from an array of rows: inserted in source order, a later row replaces an earlier one -/
def genMap {β γ : Type} (rows : List (List Nat × β)) (f : β → γ) : HashMap String γ :=
  rows.foldl (fun m r => m.insert (key (natsToChars r.1)) (f r.2)) {}

/-- tie of the generated emojicon tables (`Gen/EmojiTables.lean`, read from the crate's SOURCE by the translator) with the
    table the compiled crate serves (dumped by the harness through the crate's `internal` feature, just loaded from a TSV
    file): same keys, same values, lists in the same order.  Every disagreement is a `MISMATCH emoji-table` line. -/
def compareEmojiTable {γ : Type} [BEq γ] (st : St) (kind : String) (gen served : HashMap String γ) (show_ : γ → String) : IO St := do
  let mut msgs : Array String := #[]
  let mut agree := 0
  for (k, v) in gen.toList do
    match served.get? k with
    | some v' =>
      if v == v' then agree := agree + 1
      else msgs := msgs.push s!"MISMATCH emoji-table {kind}: key [{escape k.toList}] the generated table (crate source) has [{show_ v}], the compiled crate serves [{show_ v'}]"
    | none => msgs := msgs.push s!"MISMATCH emoji-table {kind}: key [{escape k.toList}] of the generated table (crate source) is not served by the compiled crate"
  for (k, _) in served.toList do
    if !gen.contains k then
      msgs := msgs.push s!"MISMATCH emoji-table {kind}: key [{escape k.toList}] served by the compiled crate is not in the generated table (crate source)"
  if gen.size != served.size then
    msgs := msgs.push s!"MISMATCH emoji-table {kind}: the generated table has {gen.size} keys, the compiled crate serves {served.size}"
  -- at most six lines per table, outside the 200-line budget of `report` (a wholly different table must not hide other lines)
  for m in msgs.toList.take 5 do IO.println m
  if msgs.size > 5 then IO.println s!"MISMATCH emoji-table {kind}: {msgs.size} differences in all"
  return { st with mismatches := st.mismatches + msgs.size,
                   counters := st.counters.insert s!"emoji-table-{kind}-entries-agree" (st.counters.getD s!"emoji-table-{kind}-entries-agree" 0 + agree) }

def handleExpect (st : St) (impl : String) : IO St := do
  match st.pending with
  | none => return st
  | some (model, fixedInfo) =>
    let st := { st with pending := none }
    if model == impl then return st
    -- fixed method with suggestions: the order inside equal ranks is implementation-defined
    match fixedInfo with
    | some (cid, fcfg, fsState, layout) =>
      let env := mkEnv st.t
      let fc := fixedCands env fcfg fsState
      let mt := model.splitOn " "
      let it := impl.splitOn " "
      match parseF mt, parseF it with
      | some (ma, mo, ms, maux, _, _), some (ia, io, is_, iaux, ic, ip) =>
        if ma != ia || mo != io || ms != is_ || maux != iaux then
          report st s!"MISMATCH case={st.caseName} line={st.lineNo} op=[{st.lastOp}] header model=[{model}] impl=[{impl}]"
        else
          let texts := ic.map unescape
          let (mainTexts, engOk) : List (List Char) × Bool := match fc.english with
            | none => (texts, true)
            | some e => (texts.dropLast, texts.getLast? == some e.text)
          if !engOk then report st s!"MISMATCH case={st.caseName} line={st.lineNo} op=[{st.lastOp}] fixed-list english-item model=[{model}] impl=[{impl}]"
          else match matchRanks mainTexts fc.cands with
          | none => report st s!"MISMATCH case={st.caseName} line={st.lineNo} op=[{st.lastOp}] fixed-list not-a-submultiset model=[{model}] impl=[{impl}]"
          | some ranks =>
            let L := ranks ++ fc.english.toList
            match fixedListOk fc L with
            | some why => report st s!"MISMATCH case={st.caseName} line={st.lineNo} op=[{st.lastOp}] fixed-list {why} model=[{model}] impl=[{impl}]"
            | none =>
              -- pre-edit texts
              let sg : Sugg := .full (unescape iaux) texts is_ (ia == "1")
              let ps := (List.range texts.length).map (renderPre env sg)
              if ps != ip then report st s!"MISMATCH case={st.caseName} line={st.lineNo} op=[{st.lastOp}] fixed-list pre-edit model=[{ps}] impl=[{ip}]"
              else
                -- adopt the implementation's order as the sorter's choice
                match st.ctxs.get? cid with
                | some c =>
                  let c' := { c with m := .fixed layout { fsState with suggestions := L } }
                  return bump { st with ctxs := st.ctxs.insert cid c' } "fixed-list-reordered"
                | none => return st
      | _, _ => report st s!"MISMATCH case={st.caseName} line={st.lineNo} op=[{st.lastOp}] model=[{model}] impl=[{impl}]"
    | none => report st s!"MISMATCH case={st.caseName} line={st.lineNo} op=[{st.lastOp}] model=[{model}] impl=[{impl}]"

def doOp (st : St) (cid : String) (ev : Event) (label : String) : IO St := do
  let st := bump { st with ops := st.ops + 1 } label
  match st.ctxs.get? cid with
  | none => report st s!"MISMATCH case={st.caseName} line={st.lineNo} unknown context {cid}"
  | some c =>
    let w := mkWorld st.t
    match step w c st.fs ev with
    | .error p =>
      return bump { st with pending := some ("PANIC", none) } s!"model-panic-{p.str}"
    | .ok (c', fs', out) =>
      let st := { st with ctxs := st.ctxs.insert cid c', fs := fs' }
      match out with
      | .sugg sg =>
        let r := renderSugg w.env sg c'.ongoing
        let st := match sg with
          | .single s _ => if s.isEmpty then bump st "out-empty" else bump st "out-single"
          | .full _ l _ _ => bump (bump st "out-full") (if l.length > 1 then "out-full-multi" else "out-full-one")
        let fixedInfo := match c'.m, ev with
          | .fixed l fsState, .key .. => if c'.cfg.fixedSuggestion then
              (match sg with | .full .. => some (cid, c'.cfg, fsState, l) | _ => none) else none
          | .fixed l fsState, .backspace _ => if c'.cfg.fixedSuggestion then
              (match sg with | .full .. => some (cid, c'.cfg, fsState, l) | _ => none) else none
          | _, _ => none
        return { st with pending := some (r, fixedInfo) }
      | .unit =>
        let r := match ev with
          | .commit _ => s!"U {b01 c'.ongoing} {renderFile fs'}"
          | _ => s!"U {b01 c'.ongoing}"
        return { st with pending := some (r, none) }

def hexNibble (c : Char) : Option Nat :=
  if '0' ≤ c ∧ c ≤ '9' then some (c.toNat - 48)
  else if 'a' ≤ c ∧ c ≤ 'f' then some (c.toNat - 87)
  else none

/-- `\\e` = no bytes; otherwise two lower-case hex digits per byte -/
def parseHex (s : String) : Option (List UInt8) :=
  if s == "\\e" then some [] else
  let rec go : List Char → List UInt8 → Option (List UInt8)
    | [], acc => some acc.reverse
    | a :: b :: r, acc =>
      match hexNibble a, hexNibble b with
      | some x, some y => go r ((x * 16 + y).toUInt8 :: acc)
      | _, _ => none
    | _, _ => none
  go s.toList []

def handle (st : St) (line : String) : IO St := do
  let st := { st with lineNo := st.lineNo + 1 }
  if line.startsWith "> " then
    return ← handleExpect st (line.drop 2).toString
  let st ← (match st.pending with
    | some (m, _) => if line.startsWith "#" then pure st else report { st with pending := none } s!"MISMATCH case={st.caseName} line={st.lineNo} no implementation output for model=[{m}]"
    | none => pure st)
  let toks := line.splitOn " "
  let st := if line.startsWith "#" then st else { st with lastOp := line }
  match toks with
  | ["load", kind, path] =>
    let rows ← loadTsv path
    let t := st.t
    let t := match kind with
      | "suffix" => { t with suffix := rows.foldl (fun m r => match r with | [k, v] => m.insert (key (unescape k)) (unescape v) | _ => m) {} }
      | "autocorrect" => { t with autocorrect := rows.foldl (fun m r => match r with | [k, v] => m.insert (key (unescape k)) (unescape v) | _ => m) {} }
      | "emoticon" => { t with emoticon := rows.foldl (fun m r => match r with | [k, v] => m.insert (key (unescape k)) (unescape v) | _ => m) {} }
      | "emojiname" => { t with emojiName := rows.foldl (fun m r => match r with | k :: vs => m.insert (key (unescape k)) (vs.map unescape) | _ => m) {} }
      | "emojibn" => { t with emojiBn := rows.foldl (fun m r => match r with | k :: vs => m.insert (key (unescape k)) (vs.map unescape) | _ => m) {} }
      | "dictionary" => { t with dictionary := rows.foldl (fun m r => match r with | k :: vs => m.insert k (vs.map unescape) | _ => m) {} }
      | _ => t
    let st := { st with t := t }
    let showL (l : List (List Char)) : String := " ".intercalate (l.map escape)
    match kind with
    | "emoticon" => compareEmojiTable st kind (genMap Riti.Gen.emoticonRows natsToChars) t.emoticon escape
    | "emojiname" => compareEmojiTable st kind (genMap Riti.Gen.emojiNameRows (fun l => l.map natsToChars)) t.emojiName showL
    | "emojibn" => compareEmojiTable st kind (genMap Riti.Gen.bengaliNameRows (fun l => l.map natsToChars)) t.emojiBn showL
    | _ => return st
  | ["layout", path, tsv] =>
    let rows ← loadTsv tsv
    let m : HashMap String (List Char) := rows.foldl (fun m r => match r with | [k, v] => m.insert k (unescape v) | _ => m) {}
    return { st with t := { st.t with layouts := st.t.layouts.insert (key (unescape path)) m } }
  | "dict" :: w :: "=" :: ws =>
    -- correspondence for the Lean model of the dictionary look-up (Model/Regex: okkhor's regex generator, the reader and
    -- matcher for its syntax, riti's first-letter table): it must reproduce the list the regex crate selected
    let want := (ws.filter (· ≠ "")).map unescape
    let st ← (if st.t.dictionary.isEmpty then pure st else
      match (if (unescape w).length ≤ 14 then Riti.dictSearch else Riti.dictSearchFast) (fun n => st.t.dictionary.getD n []) (unescape w) with
      | some got => if got == want then pure (bump st "dict-line-agrees") else report st s!"MISMATCH case={st.caseName} line={st.lineNo} dict [{w}]: regex model finds {got.length} words [{" ".intercalate ((got.take 6).map escape)}], the regex crate {want.length} [{" ".intercalate ((want.take 6).map escape)}]"
      | none => report st s!"MISMATCH case={st.caseName} line={st.lineNo} dict [{w}]: the generated expression is outside the modelled syntax")
    return { st with t := { st.t with dict := st.t.dict.insert (key (unescape w)) (some ((ws.filter (· ≠ "")).map unescape)) } }
  | ["dict", w, "!"] =>
    return { st with t := { st.t with dict := st.t.dict.insert (key (unescape w)) none } }
  | ["bijoy", s, "=", r] =>
    -- correspondence for the Lean model of the encoder (Model/Bijoy): it must reproduce what the crate returned
    let st ← (match Riti.bijoy (unescape s) with
      | .ok t => if t == unescape r then pure (bump st "bijoy-line-agrees") else report st s!"MISMATCH case={st.caseName} line={st.lineNo} bijoy model=[{escape t}] crate=[{r}] for [{s}]"
      | .error _ => report st s!"MISMATCH case={st.caseName} line={st.lineNo} bijoy model=[PANIC] crate=[{r}] for [{s}]")
    return { st with t := { st.t with bijoy := st.t.bijoy.insert (key (unescape s)) (some (unescape r)) } }
  | ["bijoy", s, "!"] =>
    let st ← (match Riti.bijoy (unescape s) with
      | .error _ => pure (bump st "bijoy-line-agrees")
      | .ok t => report st s!"MISMATCH case={st.caseName} line={st.lineNo} bijoy model=[{escape t}] crate=[PANIC] for [{s}]")
    return { st with t := { st.t with bijoy := st.t.bijoy.insert (key (unescape s)) none } }
  | "json-read" :: hx :: verdict :: kv =>
    -- correspondence for the Lean JSON reader (Model/Json): it must accept exactly what serde_json accepted, with the same map
    match parseHex hx with
    | none => report st s!"MISMATCH case={st.caseName} line={st.lineNo} json-read: malformed hex"
    | some bytes =>
      let got := (Riti.Json.parseBytes bytes).map Riti.Json.toStore
      let want : Option (List (List Char × List Char)) := if verdict == "-" then none else some (pairs (kv.filter (· ≠ "")))
      let ok := match got, want with
        | none, none => true
        | some g, some e => g.length == e.length && e.all (fun p => Riti.alookup g p.1 == some p.2)
        | _, _ => false
      -- the SECOND model of the same typed reader (Model/JsonValue.stringMapOfFile: Value reader + typed conversion) must agree as well
      let got2 : Option (List (List Char × List Char)) := match Riti.JsonValue.stringMapOfFile bytes with | .ok m => some m | .error _ => none
      let ok2 := match got2, want with
        | none, none => true
        | some g, some e => g.length == e.length && e.all (fun p => Riti.alookup g p.1 == some p.2)
        | _, _ => false
      if ok && ok2 then return bump st (if got.isSome then "json-reader-accepts-like-serde" else "json-reader-rejects-like-serde")
      else if !ok then report st s!"MISMATCH case={st.caseName} line={st.lineNo} json-read: model {if got.isSome then "accepts" else "rejects"} serde_json {if want.isSome then "accepts" else "rejects"} (or the maps differ) bytes={hx}"
      else report st s!"MISMATCH case={st.caseName} line={st.lineNo} json-read: the typed reader of Model/JsonValue {if got2.isSome then "accepts" else "rejects"} serde_json {if want.isSome then "accepts" else "rejects"} (or the maps differ) bytes={hx}"
  | ["json-written", hx] =>
    -- … and for its printer: a file the engine wrote is byte for byte `printBytes` of the entries it contains
    match parseHex hx with
    | none => report st s!"MISMATCH case={st.caseName} line={st.lineNo} json-written: malformed hex"
    | some bytes =>
      match Riti.Json.parseBytes bytes with
      | none => report st s!"MISMATCH case={st.caseName} line={st.lineNo} json-written: the model rejects a file the engine wrote bytes={hx}"
      | some g =>
        if Riti.Json.printBytes g == bytes then return bump st "json-writer-agrees"
        else report st s!"MISMATCH case={st.caseName} line={st.lineNo} json-written: the model prints the same entries differently bytes={hx}"
  | "layout-read" :: hx :: verdict :: kv =>
    -- correspondence for the Lean reader of layout FILES (Model/JsonValue: UTF-8, serde_json's Value reader, v["layout"],
    -- from_value::<HashMap<String,String>>): it must obtain a map exactly when riti's steps do, and the same map
    match parseHex hx with
    | none => report st s!"MISMATCH case={st.caseName} line={st.lineNo} layout-read: malformed hex"
    | some bytes =>
      match Riti.JsonValue.layoutOfFile bytes with
      | .error .unsupportedNumber => return bump st "layout-reader-unsupported-number-not-compared"
      | .error .fuel => report st s!"MISMATCH case={st.caseName} line={st.lineNo} layout-read: the model reader ran out of fuel bytes={hx}"
      | got =>
        let want : Option (List (List Char × List Char)) := if verdict == "-" then none else some (pairs (kv.filter (· ≠ "")))
        let ok := match got, want with
          | .error _, none => true
          | .ok g, some e => g.length == e.length && e.all (fun p => Riti.alookup g p.1 == some p.2)
          | _, _ => false
        if ok then
          let tag := match got with
            | .ok _ => "layout-reader-accepts-like-serde"
            | .error .notUtf8 => "layout-reader-rejects-like-serde-not-utf8"
            | .error .tooDeep => "layout-reader-rejects-like-serde-recursion-limit"
            | .error .wrongShape => "layout-reader-rejects-like-serde-no-layout-object-of-strings"
            | .error _ => "layout-reader-rejects-like-serde-not-json"
          return bump st tag
        else
          let g := match got with | .ok _ => "accepts" | .error e => s!"rejects ({repr e})"
          report st s!"MISMATCH case={st.caseName} line={st.lineNo} layout-read: model {g} serde_json {if want.isSome then "accepts" else "rejects"} (or the maps differ) bytes={hx}"
  | "typed-read" :: hx :: vs :: vl :: [] =>
    -- the typed readers of the data files on a generated document: from_slice::<HashMap<String,String>> / <HashMap<String,Vec<String>>>
    -- accept (`+`) or reject (`-`)
    match parseHex hx with
    | none => report st s!"MISMATCH case={st.caseName} line={st.lineNo} typed-read: malformed hex"
    | some bytes =>
      let gs := match Riti.JsonValue.stringMapOfFile bytes with | .ok _ => "+" | .error _ => "-"
      let gl := match Riti.JsonValue.tableOfFile bytes with | .ok _ => "+" | .error _ => "-"
      if gs == vs && gl == vl then return bump st (if gs == "+" || gl == "+" then "typed-reader-accepts-like-serde" else "typed-reader-rejects-like-serde")
      else report st s!"MISMATCH case={st.caseName} line={st.lineNo} typed-read: model map-of-strings {gs} map-of-lists {gl}, serde_json {vs} {vl} bytes={hx}"
  | ["layout-file", path, hx] =>
    -- a layout file given by its BYTES: the model reads it itself (no table from the harness); an unreadable file leaves the
    -- path without a layout, so that `new` over it is the model's PANIC
    match parseHex hx with
    | none => report st s!"MISMATCH case={st.caseName} line={st.lineNo} layout-file: malformed hex"
    | some bytes =>
      match Riti.JsonValue.layoutOfFile bytes with
      | .ok m =>
        let hm : HashMap String (List Char) := m.foldl (fun acc kv => acc.insert (key kv.1) kv.2) {}
        return bump { st with t := { st.t with layouts := st.t.layouts.insert (key (unescape path)) hm } } "layout-file-read-by-the-model"
      | .error .unsupportedNumber => report st s!"MISMATCH case={st.caseName} line={st.lineNo} layout-file: a document with an unsupported number was sent for a context run bytes={hx}"
      | .error _ => return bump { st with t := { st.t with layouts := st.t.layouts.erase (key (unescape path)) } } "layout-file-rejected-by-the-model"
  | ["data-file", kind, path] =>
    -- the REAL data file, read by the Lean reader, against the table the harness dumped from serde_json's reading (TSV, `load` lines)
    let bytes ← IO.FS.readBinFile path
    let bl := bytes.toList
    let cmp (st : St) (name : String) (n : Nat) (bad : Nat) (tsvSize : Nat) : IO St :=
      if bad == 0 && n == tsvSize then return bump st s!"data-file-{name}-agrees"
      else report st s!"MISMATCH case={st.caseName} line={st.lineNo} data-file {name}: the Lean reader finds {n} entries, {bad} of them differ from the table of {tsvSize} entries serde_json read"
    match kind with
    | "dictionary" =>
      match Riti.JsonValue.tableOfFile bl with
      | .error e => report st s!"MISMATCH case={st.caseName} line={st.lineNo} data-file dictionary: the Lean reader rejects the file ({repr e})"
      | .ok m =>
        let bad := (m.filter (fun kv => st.t.dictionary.get? (key kv.1) != some kv.2)).length
        let st := { st with counters := st.counters.insert "data-file-entries-compared" (st.counters.getD "data-file-entries-compared" 0 + (m.foldl (fun (a : Nat) (kv : List Char × List (List Char)) => a + kv.2.length) 0)) }
        cmp st "dictionary" m.length bad st.t.dictionary.size
    | _ =>
      match Riti.JsonValue.stringMapOfFile bl with
      | .error e => report st s!"MISMATCH case={st.caseName} line={st.lineNo} data-file {kind}: the Lean reader rejects the file ({repr e})"
      | .ok m =>
        let tbl := if kind == "suffix" then st.t.suffix else st.t.autocorrect
        let bad := (m.filter (fun kv => tbl.get? (key kv.1) != some kv.2)).length
        let st := { st with counters := st.counters.insert "data-file-entries-compared" (st.counters.getD "data-file-entries-compared" 0 + m.length) }
        cmp st kind m.length bad tbl.size
  | ["rankcmp", va, na, vb, row] =>
    -- `impl Ord for Rank` on one row of its complete domain against `Rank.cmp` (over the generated arm table)
    let mk (v n : Nat) : Riti.Rank := match v with | 0 => .first ['x'] | 1 => .emoji ['x'] n | 2 => .other ['x'] n | _ => .last ['x'] n
    let a := mk va.toNat! na.toNat!
    let want := (List.range 256).map (fun nb => match Riti.Rank.cmp a (mk vb.toNat! nb) with | .lt => 'L' | .eq => 'E' | .gt => 'G')
    if want == row.toList then return bump st "rank-comparison-row-agrees"
    else report st s!"MISMATCH case={st.caseName} line={st.lineNo} rankcmp {va} {na} {vb}: model=[{String.ofList want}] impl=[{row}]"
  | ["case", name] =>
    return { st with caseName := name, ctxs := {}, fs := {}, cases := st.cases + 1 }
  | ["fs-sel", "-"] => return { st with fs := { st.fs with sel := .absent } }
  | ["fs-sel", "!"] => return { st with fs := { st.fs with sel := .unreadable } }
  | "fs-sel" :: "=" :: kv => return { st with fs := { st.fs with sel := .parsed (pairs (kv.filter (· ≠ ""))) } }
  | ["fs-ac", "-"] => return { st with fs := { st.fs with ac := none } }
  | ["fs-ac", t, "!"] => return { st with fs := { st.fs with ac := some (t.toNat!, none) } }
  | "fs-ac" :: t :: "=" :: kv => return { st with fs := { st.fs with ac := some (t.toNat!, some (pairs (kv.filter (· ≠ "")))) } }
  | ["fs-w", b] => return { st with fs := { st.fs with writable := b == "1" } }
  | ["new", cid, path, bits] =>
    let w := mkWorld st.t
    let st := bump { st with ops := st.ops + 1 } "new"
    match Ctx.new w st.fs (parseCfg bits) (key (unescape path)) with
    | some c => return { st with ctxs := st.ctxs.insert cid c, pending := some (s!"N {b01 c.ongoing}", none) }
    | none => return { st with pending := some ("PANIC", none) }
  | ["drop", cid] => return { st with ctxs := st.ctxs.erase cid }
  | ["key", cid, code, m, sel] => doOp st cid (.key code.toNat! m.toNat! sel.toNat!) "key"
  | ["bs", cid, c] => doOp st cid (.backspace (c == "1")) (if c == "1" then "ctrl-backspace" else "backspace")
  | ["commit", cid, i] => doOp st cid (.commit i.toNat!) "commit"
  | ["finish", cid] => doOp st cid .finish "finish"
  | ["update", cid, path, bits] => doOp st cid (.update (parseCfg bits) (key (unescape path))) "update"
  | _ =>
    if line.startsWith "#" || line == "" then return st
    else report st s!"MISMATCH case={st.caseName} line={st.lineNo} unparsed line [{line}]"

partial def loop (h : IO.FS.Stream) (st : St) : IO St := do
  let line ← h.getLine
  if line.isEmpty then return st
  let line := if line.endsWith "\n" then (line.dropEnd 1).toString else line
  let st ← handle st line
  loop h st

end Driver

def main (args : List String) : IO UInt32 := do
  let h ← match args with
    | [path] => do
      let hd ← IO.FS.Handle.mk path .read
      pure (IO.FS.Stream.ofHandle hd)
    | _ => IO.getStdin
  let st ← Driver.loop h {}
  let cs := st.counters.toList.toArray.qsort (fun a b => a.1 < b.1)
  let cstr := String.intercalate "," (cs.toList.map (fun (k, v) => s!"\"{k}\":{v}"))
  IO.println s!"SUMMARY \{\"cases\":{st.cases},\"ops\":{st.ops},\"mismatches\":{st.mismatches},\"missing\":{st.missing},\"counters\":\{{cstr}}}"
  return (if st.mismatches == 0 && st.missing == 0 then 0 else 1)
