/-
Lemmas/Bijoy — code-point-level facts about the Bijoy-2000 encoder model (Model/Bijoy.lean): the tables and
`replace_kar` only yield non-Bengali code points, a loop step fails exactly on the five kar-range code points
without a `replace_kar` arm, plain code points are pushed unchanged.  Used by Props/Bijoy.lean.
-/
import RitiModel.Model.Bijoy
namespace Riti.Bijoy
open Riti Riti.Gen.Bijoy

/-! ### code-point level -/

/-- Bengali block U+0980..U+09FF -/
def Ben (n : Nat) : Prop := 0x0980 ≤ n ∧ n ≤ 0x09FF

instance (n : Nat) : Decidable (Ben n) := by unfold Ben; infer_instance

/-- no Bengali-block code point in the list -/
def Clean (l : List Nat) : Prop := ∀ n ∈ l, ¬ Ben n

theorem Clean.nil : Clean [] := by intro n h; cases h

theorem Clean.cons {a : Nat} {l : List Nat} (ha : ¬ Ben a) (hl : Clean l) : Clean (a :: l) := by
  intro n h
  rcases List.mem_cons.1 h with rfl | h
  · exact ha
  · exact hl n h

theorem Clean.append {l₁ l₂ : List Nat} (h₁ : Clean l₁) (h₂ : Clean l₂) : Clean (l₁ ++ l₂) := by
  intro n h
  rcases List.mem_append.1 h with h | h
  · exact h₁ n h
  · exact h₂ n h

theorem Clean.tail {l : List Nat} (h : Clean l) : Clean l.tail := by
  intro n hn; exact h n (List.mem_of_mem_tail hn)

theorem Clean.reverse {l : List Nat} (h : Clean l) : Clean l.reverse := by
  intro n hn; exact h n (List.mem_reverse.1 hn)

/-- every value of the crate's `MAP` is free of Bengali-block code points (checked on the generated table) -/
theorem map_values_clean : ∀ kv ∈ bijoyMap, Clean kv.2 := by
  have h : bijoyMap.all (fun kv => kv.2.all (fun n => !(decide (0x0980 ≤ n) && decide (n ≤ 0x09FF)))) = true := by
    decide +kernel
  intro kv hkv n hn hb
  have := List.all_eq_true.1 h kv hkv
  have := List.all_eq_true.1 this n hn
  simp [Ben] at hb
  simp [hb.1, hb.2] at this

theorem alookup_mem {α β : Type} [BEq α] (l : List (α × β)) (k : α) (v : β) (h : alookup l k = some v) :
    ∃ k', (k', v) ∈ l := by
  induction l with
  | nil => simp [alookup] at h
  | cons p rest ih =>
    obtain ⟨a, b⟩ := p
    simp only [alookup] at h
    split at h
    · cases h; exact ⟨a, List.mem_cons_self⟩
    · obtain ⟨k', hk'⟩ := ih h; exact ⟨k', List.mem_cons_of_mem _ hk'⟩

theorem mapGet_clean {k v : List Nat} (h : mapGet k = some v) : Clean v := by
  obtain ⟨k', hk'⟩ := alookup_mem _ _ _ h
  exact map_values_clean _ hk'

theorem Clean.ite_cons {a : Nat} {l : List Nat} (c : Bool) (ha : ¬ Ben a) (hl : Clean l) :
    Clean (if c = true then a :: l else l) := by
  split
  · exact Clean.cons ha hl
  · exact hl

/-- `convert_buffer` only appends `MAP` values and the literals `¨ © &` -/
theorem convertBuffer_clean (buf rout : List Nat) (h : Clean rout) : Clean (convertBuffer buf rout) := by
  unfold convertBuffer
  dsimp only
  apply Clean.ite_cons _ (by decide)
  apply Clean.ite_cons _ (by decide)
  apply Clean.ite_cons _ (by decide)
  split
  · rename_i r hr; exact Clean.append (Clean.reverse (mapGet_clean hr)) h
  · exact h

/-! ### `replace_kar` -/

/-- the characters `replace_kar` can return -/
def karOuts : List Nat :=
  [oAa, oIi, oULig, oUNarrow, oUWide, oURr, oUuLig, oUuNarrow, oUuWide, oRriNarrow, oRriWide, oI, oEFront, oE,
   oOiFront, oOi]

theorem replaceKar_mem (k : Nat) (f : Bool) (p : List Nat) (r : Nat) (h : replaceKar k f p = .ok r) :
    r ∈ karOuts := by
  unfold replaceKar at h
  repeat' split at h
  all_goals (cases h <;> decide)

theorem replaceKar_clean {k : Nat} {f : Bool} {p : List Nat} {r : Nat} (h : replaceKar k f p = .ok r) : ¬ Ben r := by
  have hm := replaceKar_mem k f p r h
  have hall : ∀ n ∈ karOuts, ¬ Ben n := by decide
  exact hall r hm

/-- the kars `replace_kar` has an arm for: া ি ী ু ূ ৃ ে ৈ -/
def OkKar (k : Nat) : Prop :=
  k = kAa ∨ k = kIi ∨ k = kU ∨ k = kUu ∨ k = kRri ∨ k = kI ∨ k = kE ∨ k = kOi

instance (k : Nat) : Decidable (OkKar k) := by unfold OkKar; infer_instance

theorem replaceKar_ok {k : Nat} (hk : OkKar k) (f : Bool) (p : List Nat) : ∃ r, replaceKar k f p = .ok r := by
  rcases hk with rfl | rfl | rfl | rfl | rfl | rfl | rfl | rfl
  all_goals
    simp only [replaceKar, kAa, kIi, kU, kUu, kRri, kI, kE, kOi, Nat.reduceEqDiff, if_true, if_false]
    repeat' split
    all_goals exact ⟨_, rfl⟩

theorem replaceKar_err {k : Nat} (hk : ¬ OkKar k) (f : Bool) (p : List Nat) : replaceKar k f p = .error .bijoy := by
  simp only [OkKar, not_or] at hk
  obtain ⟨h1, h2, h3, h4, h5, h6, h7, h8⟩ := hk
  simp only [replaceKar, h1, h2, h3, h4, h5, h6, h7, h8, if_false]

/-! ### the main loop: no Bengali-block code point is ever pushed -/

/-- second half of `classify` (the arms after the kar arms); only there to keep `split` cheap -/
def classifyB (c : Nat) (st : St) : Arm :=
  if c = B_HASANTA then .hasanta
  else if c = B_DARI then .dari
  else if c = B_DDARI then .ddari
  else if c = ZWJ then .zwj
  else if c = ZWNJ then .zwnj
  else if st.hs then .afterHasanta
  else if (benLo ≤ c ∧ c ≤ benHi) ∨ c = q1 ∨ c = q2 ∨ c = q3 ∨ c = q4 then .bengali
  else .other

theorem classify_split (c : Nat) (st : St) : classify c st =
    if c = B_O_KAR then .oKar
    else if c = B_OU_KAR then .ouKar
    else if isFrontKar c then .frontKar
    else if c = B_U_KAR ∧ st.buf = sG then .gU
    else if c = B_U_KAR ∧ st.buf = sSh then .shU
    else if c = B_U_KAR ∧ st.buf = sH then .hU
    else if c = B_U_KAR ∧ sHasT.isSuffixOf st.buf = true then .tU
    else if c = B_RRI_KAR ∧ st.buf = sH then .hRri
    else if isKar c then .kar
    else classifyB c st := rfl

/-- the catch-all arm is only taken by code points outside the Bengali block -/
theorem classify_other {c : Nat} {st : St} (h : classify c st = .other) : ¬ Ben c := by
  rw [classify_split] at h
  repeat' split at h
  all_goals try (cases h; done)
  unfold classifyB at h
  repeat' split at h
  all_goals try (cases h; done)
  intro hb
  exact absurd (Or.inl hb) (by assumption)

/-- the generic kar arm is only taken by kar-range code points other than ো ৌ and the front kars -/
theorem classify_kar {c : Nat} {st : St} (h : classify c st = .kar) :
    c ≠ B_O_KAR ∧ c ≠ B_OU_KAR ∧ ¬ isFrontKar c = true ∧ isKar c = true := by
  rw [classify_split] at h
  repeat' split at h
  all_goals try (cases h; done)
  · exact ⟨by assumption, by assumption, by assumption, by assumption⟩
  · unfold classifyB at h
    repeat' split at h
    all_goals cases h

theorem classify_frontKar {c : Nat} {st : St} (h : classify c st = .frontKar) : isFrontKar c = true := by
  rw [classify_split] at h
  repeat' split at h
  all_goals try (cases h; done)
  · assumption
  · unfold classifyB at h
    repeat' split at h
    all_goals cases h

theorem step_clean {rpre : List Nat} {c : Nat} {st st' : St} (h : Clean st.rout)
    (hs : step rpre c st = .ok st') : Clean st'.rout := by
  unfold step at hs
  cases ha : classify c st <;> rw [ha] at hs <;> simp only [exec] at hs
  all_goals try split at hs
  all_goals first
    | cases hs
    | skip
  all_goals try dsimp only
  all_goals first
    | exact h
    | exact convertBuffer_clean _ _ h
    | exact Clean.cons (by decide) h
    | exact Clean.cons (by decide) (convertBuffer_clean _ _ h)
    | exact Clean.cons (by decide) (Clean.tail (convertBuffer_clean _ _ h))
    | exact Clean.cons (by decide) (convertBuffer_clean _ _ (Clean.cons (replaceKar_clean (by assumption)) h))
    | exact convertBuffer_clean _ _ (Clean.cons (replaceKar_clean (by assumption)) h)
    | exact Clean.cons (replaceKar_clean (by assumption)) (convertBuffer_clean _ _ h)
    | exact Clean.cons (classify_other ha) (convertBuffer_clean _ _ h)

theorem loop_clean {s rpre : List Nat} {st st' : St} (h : Clean st.rout)
    (hl : loop rpre s st = .ok st') : Clean st'.rout := by
  induction s generalizing rpre st with
  | nil => simp only [loop] at hl; cases hl; exact h
  | cons c cs ih =>
    simp only [loop] at hl
    split at hl
    · cases hl
    · rename_i st1 h1
      exact ih (step_clean h h1) hl

theorem encodeNat_clean {s t : List Nat} (h : encodeNat s = .ok t) : Clean t := by
  unfold encodeNat at h
  split at h
  · cases h
  · rename_i st hst
    cases h
    have hc : Clean st.rout := loop_clean Clean.nil hst
    apply Clean.reverse
    split
    · exact hc
    · exact convertBuffer_clean _ _ hc

/-! ### panics: exactly the five kar-range code points without a `replace_kar` arm -/

/-- U+09C4 (vocalic RR sign) and the unassigned U+09C5 U+09C6 U+09C9 U+09CA: inside `is_kar`'s range
`B_AA_KAR..=B_OU_KAR`, but `replace_kar` has no arm for them -/
def badKars : List Nat := [0x09C4, 0x09C5, 0x09C6, 0x09C9, 0x09CA]

theorem okKar_kE : OkKar kE := by decide

theorem okKar_of_frontKar {c : Nat} (h : isFrontKar c = true) : OkKar c := by
  simp [isFrontKar, frontKarSet] at h
  rcases h with rfl | rfl | rfl <;> decide

theorem okKar_of_kar {c : Nat} (h1 : c ≠ B_O_KAR) (h2 : c ≠ B_OU_KAR) (h3 : ¬ isFrontKar c = true)
    (h4 : isKar c = true) (hb : c ∉ badKars) : OkKar c := by
  simp [isFrontKar, frontKarSet] at h3
  simp only [isKar, Bool.and_eq_true, decide_eq_true_eq] at h4
  simp only [karLo, karHi] at h4
  simp [badKars] at hb
  simp only [B_O_KAR, B_OU_KAR] at h1 h2
  simp only [OkKar, kAa, kIi, kU, kUu, kRri, kI, kE, kOi]
  omega

theorem classify_bad {c : Nat} (hc : c ∈ badKars) (st : St) : classify c st = .kar := by
  simp [badKars] at hc
  rcases hc with rfl | rfl | rfl | rfl | rfl <;>
    simp [classify, B_O_KAR, B_OU_KAR, isFrontKar, frontKarSet, B_U_KAR, B_RRI_KAR, isKar, karLo, karHi]

/-- a step on one of the five code points panics, whatever the state -/
theorem step_bad {c : Nat} (hc : c ∈ badKars) (rpre : List Nat) (st : St) : step rpre c st = .error .bijoy := by
  have hn : ¬ OkKar c := by
    simp [badKars] at hc
    rcases hc with rfl | rfl | rfl | rfl | rfl <;> decide
  simp only [step, classify_bad hc, exec, replaceKar_err hn]

/-- a step on any other code point succeeds, whatever the state -/
theorem step_good {c : Nat} (hc : c ∉ badKars) (rpre : List Nat) (st : St) : ∃ st', step rpre c st = .ok st' := by
  unfold step
  cases ha : classify c st <;> simp only [exec]
  case oKar | ouKar =>
    obtain ⟨r, hr⟩ := replaceKar_ok okKar_kE (isFrontFacing rpre) sEmpty
    rw [hr]; exact ⟨_, rfl⟩
  case frontKar =>
    obtain ⟨r, hr⟩ := replaceKar_ok (okKar_of_frontKar (classify_frontKar ha)) (isFrontFacing rpre) sEmpty
    rw [hr]; exact ⟨_, rfl⟩
  case kar =>
    obtain ⟨h1, h2, h3, h4⟩ := classify_kar ha
    obtain ⟨r, hr⟩ := replaceKar_ok (okKar_of_kar h1 h2 h3 h4 hc) false st.buf
    rw [hr]; exact ⟨_, rfl⟩
  case zwnj => split <;> exact ⟨_, rfl⟩
  all_goals exact ⟨_, rfl⟩

theorem loop_bad {s : List Nat} (h : ∃ c ∈ s, c ∈ badKars) (rpre : List Nat) (st : St) :
    loop rpre s st = .error .bijoy := by
  induction s generalizing rpre st with
  | nil => obtain ⟨c, hc, _⟩ := h; cases hc
  | cons a as ih =>
    simp only [loop]
    by_cases ha : a ∈ badKars
    · rw [step_bad ha]
    · obtain ⟨st', hst⟩ := step_good ha rpre st
      rw [hst]
      apply ih
      obtain ⟨c, hc, hb⟩ := h
      rcases List.mem_cons.1 hc with rfl | hc
      · exact absurd hb ha
      · exact ⟨c, hc, hb⟩

theorem loop_good {s : List Nat} (h : ∀ c ∈ s, c ∉ badKars) (rpre : List Nat) (st : St) :
    ∃ st', loop rpre s st = .ok st' := by
  induction s generalizing rpre st with
  | nil => exact ⟨st, rfl⟩
  | cons a as ih =>
    simp only [loop]
    obtain ⟨st', hst⟩ := step_good (h a List.mem_cons_self) rpre st
    rw [hst]
    exact ih (fun c hc => h c (List.mem_cons_of_mem _ hc)) _ _

theorem encodeNat_bad {s : List Nat} (h : ∃ c ∈ s, c ∈ badKars) : encodeNat s = .error .bijoy := by
  simp only [encodeNat, loop_bad h]

theorem encodeNat_good {s : List Nat} (h : ∀ c ∈ s, c ∉ badKars) : ∃ t, encodeNat s = .ok t := by
  obtain ⟨st, hst⟩ := loop_good h [] { rout := [], buf := [], hs := false }
  simp only [encodeNat, hst]
  exact ⟨_, rfl⟩

/-! ### plain characters are copied -/

/-- a code point that no arm of the encoder treats specially: outside the Bengali block and not one of
`‘ ’ “ ”`, ZWNJ, ZWJ, `।`, `॥` -/
def PlainN (n : Nat) : Prop :=
  ¬ Ben n ∧ n ≠ 0x2018 ∧ n ≠ 0x2019 ∧ n ≠ 0x201C ∧ n ≠ 0x201D ∧ n ≠ 0x200C ∧ n ≠ 0x200D ∧ n ≠ 0x0964 ∧ n ≠ 0x0965

instance (n : Nat) : Decidable (PlainN n) := by unfold PlainN; infer_instance

theorem mapGet_nil : mapGet [] = none := by decide +kernel

theorem convertBuffer_nil (rout : List Nat) : convertBuffer [] rout = rout := by
  simp [convertBuffer, mapGet_nil, sReph, sRZwj, sZFola, cHas]

theorem ne_of_not_ben {c k : Nat} (hb : ¬ Ben c) (hk : Ben k) : c ≠ k := fun h => hb (h ▸ hk)

theorem isKar_ben {c : Nat} (h : isKar c = true) : Ben c := by
  simp only [isKar, Bool.and_eq_true, decide_eq_true_eq] at h
  simp only [karLo, karHi] at h
  simp only [Ben]; omega

theorem isFrontKar_ben {c : Nat} (h : isFrontKar c = true) : Ben c := by
  simp [isFrontKar, frontKarSet] at h
  rcases h with rfl | rfl | rfl <;> decide

theorem classify_plain {c : Nat} (hc : PlainN c) {st : St} (hs : st.hs = false) : classify c st = .other := by
  obtain ⟨hb, h1, h2, h3, h4, h5, h6, h7, h8⟩ := hc
  have e1 : c ≠ B_O_KAR := ne_of_not_ben hb (by decide)
  have e2 : c ≠ B_OU_KAR := ne_of_not_ben hb (by decide)
  have e3 : ¬ isFrontKar c = true := fun h => hb (isFrontKar_ben h)
  have e4 : c ≠ B_U_KAR := ne_of_not_ben hb (by decide)
  have e5 : c ≠ B_RRI_KAR := ne_of_not_ben hb (by decide)
  have e6 : ¬ isKar c = true := fun h => hb (isKar_ben h)
  have e7 : c ≠ B_HASANTA := ne_of_not_ben hb (by decide)
  have e8 : c ≠ B_DARI := h7
  have e9 : c ≠ B_DDARI := h8
  have e10 : c ≠ ZWJ := h6
  have e11 : c ≠ ZWNJ := h5
  have e12 : ¬ ((benLo ≤ c ∧ c ≤ benHi) ∨ c = q1 ∨ c = q2 ∨ c = q3 ∨ c = q4) := by
    intro h
    rcases h with ⟨a, b⟩ | h | h | h | h
    · exact hb ⟨a, b⟩
    · exact h1 h
    · exact h2 h
    · exact h3 h
    · exact h4 h
  simp only [classify, e1, e2, e3, e4, e5, e6, e7, e8, e9, e10, e11, e12, hs, false_and, if_false,
    Bool.false_eq_true]

/-- with an empty buffer and the hasanta flag down, a plain code point is pushed unchanged -/
theorem step_plain {c : Nat} (hc : PlainN c) (rpre rout : List Nat) :
    step rpre c { rout := rout, buf := [], hs := false } = .ok { rout := c :: rout, buf := [], hs := false } := by
  simp only [step, classify_plain hc, exec, convertBuffer_nil]

theorem loop_plain {s : List Nat} (h : ∀ c ∈ s, PlainN c) (rpre rout : List Nat) :
    loop rpre s { rout := rout, buf := [], hs := false } = .ok { rout := s.reverse ++ rout, buf := [], hs := false } := by
  induction s generalizing rpre rout with
  | nil => rfl
  | cons a as ih =>
    simp only [loop, step_plain (h a List.mem_cons_self)]
    rw [ih (fun c hc => h c (List.mem_cons_of_mem _ hc))]
    simp

theorem encodeNat_plain {s : List Nat} (h : ∀ c ∈ s, PlainN c) : encodeNat s = .ok s := by
  simp [encodeNat, loop_plain h]

/-! ### plain text after hasanta-free text -/

theorem classify_hasanta {c : Nat} {st : St} (h : classify c st = .hasanta) : c = B_HASANTA := by
  rw [classify_split] at h
  repeat' split at h
  all_goals try (cases h; done)
  unfold classifyB at h
  repeat' split at h
  all_goals try (cases h; done)
  assumption

/-- only a hasanta raises the `encountered_hasanta` flag -/
theorem step_hs {rpre : List Nat} {c : Nat} {st st' : St} (hc : c ≠ B_HASANTA) (hs : st.hs = false)
    (h : step rpre c st = .ok st') : st'.hs = false := by
  unfold step at h
  cases ha : classify c st <;> rw [ha] at h <;> simp only [exec] at h
  case hasanta => exact absurd (classify_hasanta ha) hc
  all_goals try split at h
  all_goals first
    | (cases h; done)
    | (cases h; first | exact hs | rfl)

theorem loop_hs {s rpre : List Nat} {st st' : St} (hc : ∀ c ∈ s, c ≠ B_HASANTA) (hs : st.hs = false)
    (h : loop rpre s st = .ok st') : st'.hs = false := by
  induction s generalizing rpre st with
  | nil => simp only [loop] at h; cases h; exact hs
  | cons a as ih =>
    simp only [loop] at h
    split at h
    · cases h
    · rename_i st1 h1
      exact ih (fun c hc' => hc c (List.mem_cons_of_mem _ hc')) (step_hs (hc a List.mem_cons_self) hs h1) h

theorem loop_append (s p rpre : List Nat) (st : St) :
    loop rpre (s ++ p) st = (match loop rpre s st with
      | .error e => .error e
      | .ok st' => loop (s.reverse ++ rpre) p st') := by
  induction s generalizing rpre st with
  | nil => rfl
  | cons a as ih =>
    simp only [List.cons_append, loop]
    cases step rpre a st with
    | error e => rfl
    | ok st1 => simp only [ih, List.reverse_cons, List.append_assoc, List.singleton_append]

/-- with the flag down, plain code points flush the buffer and are then pushed unchanged -/
theorem loop_plain_flush {p : List Nat} (h : ∀ c ∈ p, PlainN c) (hne : p ≠ []) (rpre : List Nat) (st : St)
    (hs : st.hs = false) :
    loop rpre p st = .ok { rout := p.reverse ++ convertBuffer st.buf st.rout, buf := [], hs := false } := by
  cases p with
  | nil => exact absurd rfl hne
  | cons a as =>
    have h1 : step rpre a st = .ok { rout := a :: convertBuffer st.buf st.rout, buf := [], hs := false } := by
      simp only [step, classify_plain (h a List.mem_cons_self) hs, exec, hs]
    simp only [loop, h1]
    rw [loop_plain (fun c hc => h c (List.mem_cons_of_mem _ hc))]
    simp

/-- hasanta-free text followed by plain text: the plain tail is appended unchanged -/
theorem encodeNat_append_plain {s p : List Nat} (hs : ∀ c ∈ s, c ≠ B_HASANTA) (hp : ∀ c ∈ p, PlainN c) :
    encodeNat (s ++ p) = (match encodeNat s with | .error e => .error e | .ok t => .ok (t ++ p)) := by
  by_cases hne : p = []
  · subst hne
    rw [List.append_nil]
    cases encodeNat s <;> simp
  · unfold encodeNat
    rw [loop_append]
    cases hl : loop [] s { rout := [], buf := [], hs := false } with
    | error e => rfl
    | ok st' =>
      have hf := loop_hs hs rfl hl
      simp only [loop_plain_flush hp hne _ st' hf]
      by_cases hb : st'.buf = []
      · simp [hb, convertBuffer_nil]
      · have : st'.buf.isEmpty = false := by cases hbb : st'.buf with
          | nil => exact absurd hbb hb
          | cons x xs => rfl
        simp [this]

end Riti.Bijoy
