/-
Lemmas/C02Selection — what appending ONE character does to the three parts of a text (`split`), and the
shape of the unsorted candidate list as a function of the word part.  Used by Props/C02Selection.
-/
import RitiModel.Lemmas.SplitWord
import RitiModel.Lemmas.Transparency
import RitiModel.Props.C07
namespace Riti
open Gen

/-! ### `split` after one more character -/

/-- `split` without the `match`: pure punctuation is all leading part; otherwise the rest is cut by the scan -/
theorem split_eq (t : Str) (ic : Bool) :
    split t ic = if t.dropWhile isMeta = [] then ⟨t, [], []⟩
      else ⟨t.takeWhile isMeta,
            (t.dropWhile isMeta).take ((t.dropWhile isMeta).length - tlen ic (t.dropWhile isMeta).reverse false),
            (t.dropWhile isMeta).drop ((t.dropWhile isMeta).length - tlen ic (t.dropWhile isMeta).reverse false)⟩ := by
  unfold split tlen
  cases h : t.dropWhile isMeta with
  | nil => simp
  | cons x xs => simp

/-- a text without a non-punctuation character stays all-punctuation … -/
theorem dropWhile_snoc_nil {p : Char → Bool} (t : Str) (c : Char) (h : t.dropWhile p = []) :
    (t ++ [c]).dropWhile p = if p c then [] else [c] := by
  induction t with
  | nil => simp [List.dropWhile]; split <;> simp_all
  | cons a l ih =>
    by_cases ha : p a = true
    · simp only [List.dropWhile_cons, ha, ↓reduceIte, List.cons_append] at h ⊢
      exact ih h
    · simp [ha] at h

/-- … and `takeWhile` takes the new character along iff it is punctuation too -/
theorem takeWhile_snoc_nil {p : Char → Bool} (t : Str) (c : Char) (h : t.dropWhile p = []) :
    (t ++ [c]).takeWhile p = if p c then t ++ [c] else t := by
  induction t with
  | nil => simp [List.takeWhile]; split <;> simp_all
  | cons a l ih =>
    by_cases ha : p a = true
    · simp only [List.dropWhile_cons, ha, ↓reduceIte, List.cons_append, List.takeWhile_cons] at h ⊢
      rw [ih h]; split <;> rfl
    · simp [ha] at h

/-- once the leading punctuation has ended, a further character does not move its end -/
theorem dropWhile_snoc_ne {p : Char → Bool} (t : Str) (c : Char) (h : t.dropWhile p ≠ []) :
    (t ++ [c]).dropWhile p = t.dropWhile p ++ [c] := by
  induction t with
  | nil => simp at h
  | cons a l ih =>
    by_cases ha : p a = true
    · simp only [List.dropWhile_cons, ha, ↓reduceIte, List.cons_append] at h ⊢
      exact ih h
    · simp [ha]

/-- … nor the leading punctuation itself -/
theorem takeWhile_snoc_ne {p : Char → Bool} (t : Str) (c : Char) (h : t.dropWhile p ≠ []) :
    (t ++ [c]).takeWhile p = t.takeWhile p := by
  induction t with
  | nil => simp at h
  | cons a l ih =>
    by_cases ha : p a = true
    · simp only [List.dropWhile_cons, ha, ↓reduceIte, List.cons_append, List.takeWhile_cons] at h ⊢
      rw [ih h]
    · simp [ha]

/-- the escape character is not punctuation -/
theorem meta_ne_backtick (c : Char) (h : isMeta c = true) : (c == '`') = false := by
  cases hc : c == '`' with
  | false => rfl
  | true =>
    have : c = '`' := by simpa using hc
    subst this
    exact absurd h (by decide)

/-- the colon is not punctuation -/
theorem meta_ne_colon (c : Char) (h : isMeta c = true) : (c == ':') = false := by
  cases hc : c == ':' with
  | false => rfl
  | true =>
    have : c = ':' := by simpa using hc
    subst this
    exact absurd h (by decide)

/-- **one more punctuation character**: it joins the leading part when the text had no word yet, the trailing
    part otherwise; the other two parts are untouched — whatever the text ends in (escape, colon, …) -/
theorem split_snoc_meta (t : Str) (c : Char) (ic : Bool) (hc : isMeta c = true) :
    split (t ++ [c]) ic =
      if t.dropWhile isMeta = [] then ⟨t ++ [c], [], []⟩
      else ⟨(split t ic).pre, (split t ic).word, (split t ic).trail ++ [c]⟩ := by
  by_cases h : t.dropWhile isMeta = []
  · rw [if_pos h, split_eq, dropWhile_snoc_nil t c h, hc]; simp
  · rw [if_neg h, split_eq (t ++ [c]), split_eq t, if_neg h, dropWhile_snoc_ne t c h, takeWhile_snoc_ne t c h]
    have h' : t.dropWhile isMeta ++ [c] ≠ [] := by simp
    rw [if_neg h']
    have ht : tlen ic (t.dropWhile isMeta ++ [c]).reverse false = 1 + tlen ic (t.dropWhile isMeta).reverse false := by
      rw [List.reverse_append, List.reverse_singleton, List.singleton_append, tlen_cons]
      simp [meta_ne_backtick c hc, hc]
    have hle := tlen_le ic (t.dropWhile isMeta).reverse false
    simp only [List.length_reverse] at hle
    rw [ht]
    simp only [List.length_append, List.length_singleton]
    have e : (t.dropWhile isMeta).length + 1 - (1 + tlen ic (t.dropWhile isMeta).reverse false) =
        (t.dropWhile isMeta).length - tlen ic (t.dropWhile isMeta).reverse false := by omega
    rw [e, List.take_append_of_le_length (by omega), List.drop_append_of_le_length (by omega)]

/-- a punctuation key never changes the word part — no condition on the text before it -/
theorem word_snoc_meta (t : Str) (c : Char) (hc : isMeta c = true) : word (t ++ [c]) = word t := by
  unfold word
  rw [split_snoc_meta t c false hc]
  split
  · rename_i h; rw [split_eq, if_pos h]
  · rfl

/-- a non-punctuation key other than the escape character swallows the trailing part: the word part becomes
    everything after the leading punctuation, plus the key -/
theorem word_snoc_nonmeta (t : Str) (c : Char) (hc : isMeta c = false) (hb : (c == '`') = false) :
    word (t ++ [c]) = t.dropWhile isMeta ++ [c] := by
  unfold word
  rw [split_eq]
  by_cases h : t.dropWhile isMeta = []
  · rw [dropWhile_snoc_nil t c h, hc, h]
    simp [tlen_cons, hb, hc]
  · rw [dropWhile_snoc_ne t c h]
    have h' : t.dropWhile isMeta ++ [c] ≠ [] := by simp
    rw [if_neg h']
    have ht : tlen false (t.dropWhile isMeta ++ [c]).reverse false = 0 := by
      rw [List.reverse_append, List.reverse_singleton, List.singleton_append, tlen_cons]
      simp [hb, hc]
    rw [ht]
    exact List.take_of_length_le (by simp)

/-- the word part is never longer than what follows the leading punctuation -/
theorem word_length_le (t : Str) : (word t).length ≤ (t.dropWhile isMeta).length := by
  unfold word
  rw [split_eq]
  split
  · simp
  · simp only [List.length_take]; omega

/-- … so such a key always changes the word part -/
theorem word_snoc_nonmeta_ne (t : Str) (c : Char) (hc : isMeta c = false) (hb : (c == '`') = false) :
    word (t ++ [c]) ≠ word t := by
  intro h
  have h1 := congrArg List.length h
  rw [word_snoc_nonmeta t c hc hb] at h1
  have := word_length_le t
  simp at h1
  omega

/-- the word part of a text with a non-punctuation character: what follows the leading punctuation, cut by the scan -/
theorem word_eq_take (t : Str) (h : t.dropWhile isMeta ≠ []) :
    word t = (t.dropWhile isMeta).take
      ((t.dropWhile isMeta).length - tlen false (t.dropWhile isMeta).reverse false) := by
  unfold word; rw [split_eq, if_neg h]

/-- one more character keeps the word part iff the scan cuts exactly one character more -/
theorem word_snoc_eq_iff (t : Str) (c : Char) (h : t.dropWhile isMeta ≠ []) :
    word (t ++ [c]) = word t ↔
      tlen false (c :: (t.dropWhile isMeta).reverse) false = tlen false (t.dropWhile isMeta).reverse false + 1 := by
  have h' : (t ++ [c]).dropWhile isMeta ≠ [] := by rw [dropWhile_snoc_ne t c h]; simp
  rw [word_eq_take _ h', word_eq_take t h, dropWhile_snoc_ne t c h]
  have e : (t.dropWhile isMeta ++ [c]).reverse = c :: (t.dropWhile isMeta).reverse := by simp
  rw [e]
  have h0 := tlen_le false (t.dropWhile isMeta).reverse false
  have h1 := tlen_le false (c :: (t.dropWhile isMeta).reverse) false
  simp only [List.length_reverse, List.length_cons] at h0 h1
  constructor
  · intro hw
    have := congrArg List.length hw
    simp only [List.length_take, List.length_append, List.length_singleton] at this
    omega
  · intro ht
    rw [ht]
    simp only [List.length_append, List.length_singleton]
    have e2 : (t.dropWhile isMeta).length + 1 - (tlen false (t.dropWhile isMeta).reverse false + 1) =
        (t.dropWhile isMeta).length - tlen false (t.dropWhile isMeta).reverse false := by omega
    rw [e2, List.take_append_of_le_length (by omega)]

/-- the last character of a text that has a non-punctuation character lies after the leading punctuation -/
theorem getLast?_dropWhile {p : Char → Bool} (t : Str) (h : t.dropWhile p ≠ []) :
    (t.dropWhile p).getLast? = t.getLast? := by
  conv => rhs; rw [← @List.takeWhile_append_dropWhile _ p t, List.getLast?_append]
  cases hl : (t.dropWhile p).getLast? with
  | none => simp at hl; exact absurd hl h
  | some x => rfl

/-- **the escape character** keeps the word part exactly when it follows punctuation that follows a word:
    it then joins the trailing part (after a colon it would pull the colon out of the word; after a letter it
    joins the word; with no word yet it starts one) -/
theorem word_snoc_backtick_iff (t : Str) :
    word (t ++ ['`']) = word t ↔ t.dropWhile isMeta ≠ [] ∧ ∃ x, t.getLast? = some x ∧ isMeta x = true := by
  by_cases h : t.dropWhile isMeta = []
  · have hb : isMeta '`' = false := by decide
    have h1 : word (t ++ ['`']) = ['`'] := by
      unfold word
      rw [split_eq, dropWhile_snoc_nil t _ h, hb]
      simp [tlen_cons, tlen_nil]
    have h2 : word t = [] := by unfold word; rw [split_eq, if_pos h]
    rw [h1, h2]
    simp [h]
  · rw [word_snoc_eq_iff t _ h]
    have hl := getLast?_dropWhile t h
    cases hr : (t.dropWhile isMeta).reverse with
    | nil => simp at hr; exact absurd hr h
    | cons x r =>
      have hx : t.getLast? = some x := by
        rw [← hl, ← List.head?_reverse, hr]; rfl
      rw [tlen_cons, tlen_cons false x r true, tlen_cons false x r false]
      simp only [hx, Option.some.injEq, exists_eq_left', Bool.not_false, Bool.true_and, Bool.not_true, Bool.false_and,
        Bool.false_eq_true, ↓reduceIte, Bool.or_true, beq_self_eq_true]
      by_cases hm : isMeta x = true
      · simp [hm, meta_ne_backtick x hm, h]; omega
      · have hm' : isMeta x = false := by simpa using hm
        simp only [hm', Bool.or_false, Bool.false_eq_true, and_false, iff_false]
        by_cases hc : (x == ':') = true
        · have hbt : (x == '`') = false := by
            have : x = ':' := by simpa using hc
            subst this; decide
          simp [hc, hbt]
        · have hc' : (x == ':') = false := by simpa using hc
          simp [hc']

/-- **when does one more character keep the word part?**  Exactly for a punctuation character (always), and for
    the escape character right after punctuation that follows a word. -/
theorem word_snoc_iff (t : Str) (c : Char) :
    word (t ++ [c]) = word t ↔
      isMeta c = true ∨ (c = '`' ∧ t.dropWhile isMeta ≠ [] ∧ ∃ x, t.getLast? = some x ∧ isMeta x = true) := by
  by_cases hc : isMeta c = true
  · simp [hc, word_snoc_meta t c hc]
  · have hc' : isMeta c = false := by simpa using hc
    by_cases hb : c = '`'
    · subst hb
      rw [word_snoc_backtick_iff]; simp [hc']
    · have hb' : (c == '`') = false := by simpa using hb
      have := word_snoc_nonmeta_ne t c hc' hb'
      simp [hc', hb, this]

/-! ### the candidate list as a function of the word part -/

/-- two lists related item by item -/
inductive Rel2 (R : Rank → Rank → Prop) : List Rank → List Rank → Prop
  | nil : Rel2 R [] []
  | cons {a b : Rank} {l m : List Rank} : R a b → Rel2 R l m → Rel2 R (a :: l) (b :: m)

/-- lists related item by item have the same number of candidates -/
theorem Rel2.length_eq {R : Rank → Rank → Prop} {l m : List Rank} (h : Rel2 R l m) : l.length = m.length := by
  induction h with
  | nil => rfl
  | cons _ _ ih => simp [ih]

/-- … and the items at every position are related -/
theorem Rel2.getElem {R : Rank → Rank → Prop} {l m : List Rank} (h : Rel2 R l m) (i : Nat) (hl : i < l.length)
    (hm : i < m.length) : R l[i] m[i] := by
  induction h generalizing i with
  | nil => simp at hl
  | cons hab _ ih =>
    cases i with
    | zero => exact hab
    | succ j => exact ih j (by simpa using hl) (by simpa using hm)

/-- item-by-item relation of concatenations -/
theorem Rel2.append {R : Rank → Rank → Prop} {l m l' m' : List Rank} (h : Rel2 R l m) (h' : Rel2 R l' m') :
    Rel2 R (l ++ l') (m ++ m') := by
  induction h with
  | nil => exact h'
  | cons hab _ ih => exact .cons hab ih

/-- two renderings of the same list are related item by item -/
theorem Rel2.map_map {R : Rank → Rank → Prop} (f g : Rank → Rank) (l : List Rank) (h : ∀ r ∈ l, R (f r) (g r)) :
    Rel2 R (l.map f) (l.map g) := by
  induction l with
  | nil => exact .nil
  | cons a l ih => exact .cons (h a (by simp)) (ih (fun r hr => h r (by simp [hr])))

/-- a weaker relation holds item by item too -/
theorem Rel2.mono {R S : Rank → Rank → Prop} {l m : List Rank} (h : Rel2 R l m) (hRS : ∀ a b, R a b → S a b) :
    Rel2 S l m := by
  induction h with
  | nil => exact .nil
  | cons hab _ ih => exact .cons (hRS _ _ hab) ih

/-- what the comparator looks at: the kind of the item and its number -/
def skel (r : Rank) : Variant × Nat := (r.variant, r.num)

/-- items that rank alike item by item: the same sequence of kinds and numbers -/
theorem Rel2.map_skel {l m : List Rank} (h : Rel2 (fun a b => skel a = skel b) l m) : l.map skel = m.map skel := by
  induction h with
  | nil => rfl
  | cons hab _ ih => simp [hab, ih]

/-- replacing the text of a candidate keeps its kind and number -/
theorem skel_setText (r : Rank) (t : Str) : skel (r.setText t) = skel r := by cases r <;> rfl

/-- the comparator does not look at the texts -/
theorem cmp_skel {a a' b b' : Rank} (ha : skel a = skel a') (hb : skel b = skel b') : a.cmp b = a'.cmp b' := by
  simp only [skel, Prod.mk.injEq] at ha hb
  simp only [Rank.cmp, ha.1, ha.2, hb.1, hb.2]

/-- one insertion step of the sort treats items that rank alike alike -/
theorem insertSortedFront_rel2 {R : Rank → Rank → Prop} (hR : ∀ a b, R a b → skel a = skel b) {x x' : Rank}
    {l l' : List Rank} (hx : R x x') (h : Rel2 R l l') :
    Rel2 R (sortStable.insertSortedFront x l) (sortStable.insertSortedFront x' l') := by
  induction h with
  | nil => exact .cons hx .nil
  | @cons a b l m hab hlm ih =>
    simp only [sortStable.insertSortedFront]
    rw [cmp_skel (hR _ _ hab) (hR _ _ hx)]
    split
    · exact .cons hab ih
    · exact .cons hx (.cons hab hlm)

/-- **the stable sort moves items that rank alike alike**: lists related item by item by a relation that preserves
    kind and number are still related item by item after the sort -/
theorem sortStable_rel2 {R : Rank → Rank → Prop} (hR : ∀ a b, R a b → skel a = skel b) {l l' : List Rank}
    (h : Rel2 R l l') : Rel2 R (sortStable l) (sortStable l') := by
  induction h with
  | nil => exact .nil
  | cons hab _ ih => exact insertSortedFront_rel2 hR hab ih

/-- the dictionary-stage candidates before the punctuation is wrapped around them: memo and WORD PART only -/
def coreDict (env : Env) (cache : Memo) (w : Str) : List Rank :=
  pushChecked ((addSuffix env cache w).foldl pushChecked []) (.last (env.convert w) 2)

/-- the emoji offered for the word as a name, before wrapping -/
def coreEmoji (env : Env) (cfg : Cfg) (w : Str) : List Rank :=
  if cfg.ansi then []
  else match env.emojiByName w with
    | some es => (es.zipIdx 1).map (fun (s, r) => Rank.emoji s r)
    | none => []

/-- all candidates except the raw typed text, before wrapping -/
def coreList (env : Env) (cfg : Cfg) (cache : Memo) (w : Str) : List Rank :=
  coreDict env cache w ++ coreEmoji env cfg w

/-- wrap the (transliterated, quoted) punctuation around a candidate -/
def wrapRSel (P : Parts) (r : Rank) : Rank := r.setText (wrapText P.pre P.trail r.text)

/-- wrapping punctuation around a candidate keeps its kind and number -/
theorem skel_wrapR (P : Parts) (r : Rank) : skel (wrapRSel P r) = skel r := skel_setText _ _

/-- putting a candidate's own text back changes nothing -/
theorem setText_text (r : Rank) : r.setText r.text = r := by cases r <;> rfl

/-- `wrapAll` is a plain map (with no punctuation the wrapping is the identity) -/
theorem wrapAll_eq_map_wrapRSel (P : Parts) (l : List Rank) : wrapAll P l = l.map (wrapRSel P) := by
  unfold wrapAll
  split
  · rfl
  · rename_i h
    have hp : P.pre = [] := by
      cases hp : P.pre with
      | nil => rfl
      | cons a b => simp [hp] at h
    have ht : P.trail = [] := by
      cases ht : P.trail with
      | nil => rfl
      | cons a b => simp [ht] at h
    have : ∀ r, wrapRSel P r = r := by
      intro r; simp [wrapRSel, wrapText, hp, ht, setText_text]
    rw [show wrapRSel P = id from funext this]; simp

/-- the dictionary stage is the wrapped core list of the word part -/
theorem dictList_eq_core (env : Env) (cache : Memo) (P : Parts) :
    dictList env cache P = (coreDict env cache P.word).map (wrapRSel P) := by
  rw [← wrapAll_eq_map_wrapRSel]; rfl

/-- when no emoticon matched: everything before the raw-text stage is the wrapped core list of the word part -/
theorem beforeEnglish_eq (env : Env) (cfg : Cfg) (cache : Memo) (term : Str) (he : env.emoticon term = none) :
    C07.beforeEnglish env cfg cache term =
      (coreList env cfg cache (word term)).map (wrapRSel (preparedParts env cfg term)) := by
  unfold C07.beforeEnglish
  rw [dictList_eq_core]
  unfold emojiStage coreList coreEmoji
  rw [preparedParts_word]
  by_cases ha : cfg.ansi = true
  · simp [ha]
  · cases hes : env.emojiByName (word term) with
    | none => simp [ha, he]
    | some es =>
      simp [ha, he, wrapRSel, Rank.setText, Rank.text]

/-- whether the raw typed text is appended as a candidate of its own (the English option) -/
def rawAdded (env : Env) (cfg : Cfg) (cache : Memo) (term : Str) : Bool :=
  cfg.english && term != (preparedParts env cfg term).pre &&
    !((C07.beforeEnglish env cfg cache term).any (fun x => x.sameText (.last term 3)))

/-- **the unsorted list, when no emoticon matched**: the core list of the WORD PART with the punctuation wrapped
    around each item, then possibly the raw typed text -/
theorem unsorted_eq (env : Env) (cfg : Cfg) (cache : Memo) (term : Str) (he : env.emoticon term = none) :
    C07.unsorted env cfg cache term =
      (coreList env cfg cache (word term)).map (wrapRSel (preparedParts env cfg term)) ++
        (if rawAdded env cfg cache term then [.last term 3] else []) := by
  rw [← beforeEnglish_eq env cfg cache term he]
  unfold rawAdded
  simp only [C07.unsorted, addExtras, C07.emojiStage_snd_false he]
  show (if (cfg.english && !false && term != (preparedParts env cfg term).pre) = true
      then pushChecked (C07.beforeEnglish env cfg cache term) (.last term 3)
      else C07.beforeEnglish env cfg cache term) = _
  unfold pushChecked
  cases cfg.english <;> cases (term != (preparedParts env cfg term).pre) <;>
    cases (C07.beforeEnglish env cfg cache term).any (fun x => x.sameText (.last term 3)) <;> simp

/-- the number of candidates when no emoticon matched -/
theorem suggestList_length (env : Env) (cfg : Cfg) (cache : Memo) (term : Str) (he : env.emoticon term = none) :
    (suggestList env cfg cache term).length =
      (coreList env cfg cache (word term)).length + (if rawAdded env cfg cache term then 1 else 0) := by
  rw [C07.suggestList_eq, length_sortStable, unsorted_eq env cfg cache term he]
  simp only [List.length_append, List.length_map]
  split <;> rfl

/-- filling the memo twice for the same word is filling it once (whatever the user list is the second time) -/
theorem memoFill_idem (env : Env) (ua ua' : Store) (cache : Memo) (w : Str) :
    memoFill env ua' (memoFill env ua cache w) w = memoFill env ua cache w := by
  cases h : alookup cache w with
  | some e =>
    have : memoFill env ua cache w = cache := by simp [memoFill, h]
    rw [this]; simp [memoFill, h]
  | none =>
    have : memoFill env ua cache w = ainsert cache w (computeEntry env ua w) := by simp [memoFill, h]
    rw [this]
    simp [memoFill, alookup_ainsert]

end Riti
