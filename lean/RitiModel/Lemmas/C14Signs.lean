/-
Lemmas/C14Signs — what ONE vowel-sign key does in a vowel-forming position ("Automatic Vowel
Forming" of `process_key_value`, src/fixed/method.rs), with the old vowel-sign order off, on with
nothing waiting, and on with a left-standing sign waiting.  Used by Props/C14Signs.
Everything here is on the REVERSED buffer (head = right-most code point).
-/
import RitiModel.Lemmas.KarOrder
namespace Riti
open Gen

/-- the text a sign contributes in a vowel-forming position: its independent vowel, or nothing for a
    sign without one (U+09C4) -/
def indepStr (k : Char) : Str := (karToVowel k).toList

/-- the two-part spellings: the text ends in ে and the key is া (→ ো) or ৌ (→ ৌ) -/
def twoPart (u : Str) (k : Char) : Bool := u.headD '\x00' == cEKar && (k == cAAKar || k == cOUKar)

/-- `karTail` in a vowel-forming position with automatic vowel forming on: the independent vowel -/
theorem karTail_forming (cfg : Cfg) (hv : cfg.fixedVowel = true) (u : Str) (k : Char)
    (hpos : autoVowelPos u (u.headD '\x00') = true) :
    karTail cfg u (u.headD '\x00') k = indepStr k ++ u := by
  unfold karTail indepStr
  rw [hv, hpos]
  cases karToVowel k <;> rfl

/-- a vowel-forming position does not end in a hasanta -/
theorem forming_not_hasanta (u : Str) (hpos : autoVowelPos u (u.headD '\x00') = true) :
    (u.headD '\x00' == cHasanta) = false := by
  cases u with
  | nil => decide
  | cons a r =>
    cases h : (a == cHasanta) with
    | false => simpa using h
    | true =>
      have : a = cHasanta := eq_of_beq h
      subst this
      have h1 : isVowel cHasanta = false := by decide
      have h2 : isMark cHasanta = false := by decide
      simp [autoVowelPos, h1, h2] at hpos

/-- what the engine needs to know about the independent vowel of a left-standing sign -/
structure LeftIndepFacts (k v : Char) : Prop where
  vowel : isVowel v = true
  ekar : (v == cEKar) = false

/-- ি ে ৈ have the independent vowels ই এ ঐ -/
theorem left_indep {k : Char} (hk : isLeftStandingKar k = true) :
    ∃ v, karToVowel k = some v ∧ LeftIndepFacts k v := by
  rcases (isLeftStandingKar_iff k).mp hk with rfl | rfl | rfl
  · exact ⟨cI, by decide, by decide, by decide⟩
  · exact ⟨cE, by decide, by decide, by decide⟩
  · exact ⟨cOI, by decide, by decide, by decide⟩

/-- option OFF: any sign key in a vowel-forming position gives its independent vowel -/
theorem pkv_sign_off (cfg : Cfg) (hoff : cfg.fixedKarOrder = false) (hv : cfg.fixedVowel = true)
    (u t : Str) (p : Option Char) (sg : List Rank) (k : Char) (hk : isKar k = true)
    (hpos : autoVowelPos u (u.headD '\x00') = true) :
    processKeyValue cfg ⟨u, t, p, sg⟩ [k] = ⟨indepStr k ++ u, t, p, sg⟩ := by
  simp [processKeyValue, pkvBody, single_ne, hk, hoff, karTail_forming cfg hv u k hpos,
    -List.headD_eq_head?_getD]

/-- option ON, nothing waiting: a sign that is not left-standing, in a vowel-forming position and
    not completing a two-part spelling, gives its independent vowel -/
theorem pkv_sign_on (cfg : Cfg) (hon : cfg.fixedKarOrder = true) (hv : cfg.fixedVowel = true)
    (u t : Str) (sg : List Rank) (k : Char) (hk : isKar k = true) (hl : isLeftStandingKar k = false)
    (hpos : autoVowelPos u (u.headD '\x00') = true) (hx : twoPart u k = false) :
    processKeyValue cfg ⟨u, t, none, sg⟩ [k] = ⟨indepStr k ++ u, t, none, sg⟩ := by
  unfold twoPart at hx
  simp [processKeyValue, pkvBody, single_ne, hk, hon, hl, hx, karTail_forming cfg hv u k hpos,
    -List.headD_eq_head?_getD]

/-- option ON, the left-standing sign `k1` waiting: a sign key `k2` that is not left-standing (and
    does not complete a two-part spelling) first turns the waiting sign into its independent vowel
    `v1` — the position is vowel-forming — and then, now standing after a vowel, becomes its own
    independent vowel; nothing waits any more -/
theorem pkv_sign_on_pending (cfg : Cfg) (hon : cfg.fixedKarOrder = true) (hv : cfg.fixedVowel = true)
    (u t : Str) (sg : List Rank) (k1 v1 k2 : Char) (h1 : karToVowel k1 = some v1)
    (f : LeftIndepFacts k1 v1) (hk : isKar k2 = true) (hl : isLeftStandingKar k2 = false)
    (hpos : autoVowelPos u (u.headD '\x00') = true) (hx : twoPart u k2 = false) :
    processKeyValue cfg ⟨u, t, some k1, sg⟩ [k2] = ⟨indepStr k2 ++ v1 :: u, t, none, sg⟩ := by
  unfold twoPart at hx
  have hh := forming_not_hasanta u hpos
  have hh' : u.headD '\x00' ≠ cHasanta := beq_eq_false_iff_ne.mp hh
  have hpos' : autoVowelPos (v1 :: u) v1 = true := by simp [autoVowelPos, f.vowel]
  have kt := karTail_forming cfg hv (v1 :: u) k2 (by simpa using hpos')
  simp only [List.headD_cons] at kt
  have e2 : v1 ≠ cEKar := beq_eq_false_iff_ne.mp f.ekar
  simp [processKeyValue, pkvBody, single_ne, hk, hon, hl, hx, hv, hpos, h1, hh', kt, e2,
    -List.headD_eq_head?_getD]

/-- option ON, a sign waiting, the position NOT vowel-forming (or automatic vowel forming off) and
    not after a hasanta: a sign key that is not left-standing silently DROPS the waiting sign and is
    then handled as if nothing had been waiting -/
theorem pkv_sign_on_pending_lost (cfg : Cfg) (hon : cfg.fixedKarOrder = true) (u t : Str)
    (sg : List Rank) (k1 k2 : Char) (hk : isKar k2 = true) (hl : isLeftStandingKar k2 = false)
    (hnpos : (cfg.fixedVowel && autoVowelPos u (u.headD '\x00')) = false)
    (hh : (u.headD '\x00' == cHasanta) = false) (hx : twoPart u k2 = false) :
    processKeyValue cfg ⟨u, t, some k1, sg⟩ [k2] = ⟨karTail cfg u (u.headD '\x00') k2, t, none, sg⟩ := by
  unfold twoPart at hx
  have hh' : u.headD '\x00' ≠ cHasanta := beq_eq_false_iff_ne.mp hh
  have hn' : ¬ (cfg.fixedVowel = true ∧ autoVowelPos u (u.headD '\x00') = true) := by
    simpa using hnpos
  simp [processKeyValue, pkvBody, single_ne, hk, hon, hl, hx, hn', hh',
    -List.headD_eq_head?_getD]

/-- option ON: া / ৌ typed when the text ends in ে completes the two-part spelling — the ে becomes
    ো / ৌ — and a waiting sign is NOT touched: it goes on waiting -/
theorem pkv_two_part (cfg : Cfg) (hon : cfg.fixedKarOrder = true) (r t : Str) (p : Option Char)
    (sg : List Rank) (k : Char) (hk : k = cAAKar ∨ k = cOUKar) :
    processKeyValue cfg ⟨cEKar :: r, t, p, sg⟩ [k] =
      ⟨(if k = cAAKar then cOKar else cOUKar) :: r, t, p, sg⟩ := by
  rcases hk with rfl | rfl
  · simpa using pkv_ekar_aa cfg hon r t p sg
  · have : ¬ cOUKar = cAAKar := by decide
    simpa [this] using pkv_ekar_ou cfg hon r t p sg

end Riti
