/-
Lemmas/EditDistance — the row-by-row `editDistance` of Model/Rank (the `edit-distance` crate) against
the textbook Levenshtein recursion `lev` and the declarative edit scripts `Script`:
definitions (`Riti.EditDistance.lev`, `Riti.EditDistance.Script`), the row invariant of
`edRow`/`edLoop`, reversal invariance, Lipschitz bounds, triangle inequality.
The statements meant for readers are in Props/EditDistance.
-/
import RitiModel.Model.Rank
namespace Riti
namespace EditDistance

section Defs
variable {α : Type} [DecidableEq α]

/-- the cost of putting `x` opposite `y`: nothing if they are the same character, one substitution otherwise -/
def subCost (x y : α) : Nat := if x = y then 0 else 1

/-- `lev (x :: a)` as a function of the second word, given `f = lev a` and `n = |x :: a|`
    (this splitting makes `lev` structurally recursive, hence kernel-reducible) -/
def levAux (x : α) (f : List α → Nat) (n : Nat) : List α → Nat
  | [] => n
  | y :: b => min (f (y :: b) + 1) (min (levAux x f n b + 1) (f b + subCost x y))

/-- The textbook Levenshtein recursion, with the minimum of three in both cases:
    `lev [] b = |b|`, `lev a [] = |a|`,
    `lev (x::a) (y::b) = min (lev a (y::b) + 1) (min (lev (x::a) b + 1) (lev a b + if x = y then 0 else 1))`
    (see `lev_nil_left`, `lev_nil_right`, `lev_cons_cons`; the `if x = y then lev a b else 1 + min …`
    form is `lev_cons_cons_textbook` there). -/
def lev : List α → List α → Nat
  | [] => fun b => b.length
  | x :: a => levAux x (lev a) (a.length + 1)

end Defs

/-- Edit scripts: `Script a b n` — `a` can be turned into `b` by a left-to-right script that keeps a
    common character (cost 0), substitutes a character by a different one, deletes a character of
    `a` or inserts a character of `b` (cost 1 each), at total cost `n`. -/
inductive Script {α : Type} : List α → List α → Nat → Prop
  | nil : Script [] [] 0
  | keep (x : α) {a b : List α} {n : Nat} : Script a b n → Script (x :: a) (x :: b) n
  | subst (x y : α) {a b : List α} {n : Nat} : x ≠ y → Script a b n → Script (x :: a) (y :: b) (n + 1)
  | delete (x : α) {a b : List α} {n : Nat} : Script a b n → Script (x :: a) b (n + 1)
  | insert (y : α) {a b : List α} {n : Nat} : Script a b n → Script a (y :: b) (n + 1)

end EditDistance

open EditDistance

section Generic
set_option linter.unusedSectionVars false
variable {α : Type} [DecidableEq α]

theorem subCost_le_one (x y : α) : subCost x y ≤ 1 := by unfold subCost; split <;> omega
theorem subCost_self (x : α) : subCost x x = 0 := by simp [subCost]
theorem subCost_comm (x y : α) : subCost x y = subCost y x := by
  unfold subCost; by_cases h : x = y
  · subst h; rfl
  · have : ¬ y = x := fun e => h e.symm
    simp [h, this]
theorem subCost_eq_zero {x y : α} : subCost x y = 0 ↔ x = y := by
  unfold subCost; split <;> simp [*]

theorem lev_nil_left_aux (b : List α) : lev [] b = b.length := rfl
theorem lev_nil_right_aux (a : List α) : lev a [] = a.length := by cases a <;> rfl
theorem lev_cons_cons_subCost (x y : α) (a b : List α) :
    lev (x :: a) (y :: b)
      = min (lev a (y :: b) + 1) (min (lev (x :: a) b + 1) (lev a b + subCost x y)) := rfl

/-- the induction principle that follows the recursion of `lev` -/
theorem lev_induct {P : List α → List α → Prop} (nilL : ∀ b, P [] b) (nilR : ∀ x a, P (x :: a) [])
    (cc : ∀ x a y b, P a (y :: b) → P (x :: a) b → P a b → P (x :: a) (y :: b)) : ∀ a b, P a b := by
  intro a
  induction a with
  | nil => exact nilL
  | cons x a ih =>
    intro b
    induction b with
    | nil => exact nilR x a
    | cons y b ihb => exact cc x a y b (ih _) ihb (ih _)

/-! ### Lipschitz bounds -/

theorem lev_cons_left_le (x : α) (a c : List α) : lev (x :: a) c ≤ lev a c + 1 := by
  cases c with
  | nil => simp [lev_nil_right_aux]
  | cons z c => rw [lev_cons_cons_subCost]; omega

theorem lev_cons_right_le (y : α) (a c : List α) : lev a (y :: c) ≤ lev a c + 1 := by
  cases a with
  | nil => simp [lev_nil_left_aux]
  | cons x a => rw [lev_cons_cons_subCost]; omega

theorem lev_cons_cons_le (x y : α) (a c : List α) : lev (x :: a) (y :: c) ≤ lev a c + subCost x y := by
  rw [lev_cons_cons_subCost]; omega

/-! ### scripts -/

theorem script_nil_left (b : List α) : Script [] b b.length := by
  induction b with
  | nil => exact .nil
  | cons y b ih => exact .insert y ih

theorem script_nil_right (a : List α) : Script a [] a.length := by
  induction a with
  | nil => exact .nil
  | cons x a ih => exact .delete x ih

theorem script_lower_bound {a b : List α} {n : Nat} (h : Script a b n) : lev a b ≤ n := by
  induction h with
  | nil => simp [lev_nil_left_aux]
  | @keep x a b n _ ih => have := lev_cons_cons_le x x a b; rw [subCost_self] at this; omega
  | @subst x y a b n _ _ ih => have := lev_cons_cons_le x y a b; have := subCost_le_one x y; omega
  | @delete x a b n _ ih => have := lev_cons_left_le x a b; omega
  | @insert y a b n _ ih => have := lev_cons_right_le y a b; omega

theorem script_of_lev (a b : List α) : Script a b (lev a b) := by
  induction a, b using lev_induct with
  | nilL b => exact script_nil_left b
  | nilR x a => rw [lev_nil_right_aux]; exact script_nil_right _
  | cc x a y b ih1 ih2 ih3 =>
    rw [lev_cons_cons_subCost]
    by_cases h1 : lev a (y :: b) + 1 ≤ min (lev (x :: a) b + 1) (lev a b + subCost x y)
    · rw [Nat.min_eq_left h1]; exact .delete x ih1
    · rw [Nat.min_eq_right (by omega)]
      by_cases h2 : lev (x :: a) b + 1 ≤ lev a b + subCost x y
      · rw [Nat.min_eq_left h2]; exact .insert y ih2
      · rw [Nat.min_eq_right (by omega)]
        by_cases hxy : x = y
        · subst hxy; rw [subCost_self]; exact .keep x ih3
        · have : subCost x y = 1 := by simp [subCost, hxy]
          rw [this]; exact .subst x y hxy ih3

theorem script_symm {a b : List α} {n : Nat} (h : Script a b n) : Script b a n := by
  induction h with
  | nil => exact .nil
  | keep x _ ih => exact .keep x ih
  | subst x y hxy _ ih => exact .subst y x (fun e => hxy e.symm) ih
  | delete x _ ih => exact .insert x ih
  | insert y _ ih => exact .delete y ih

theorem script_snoc_keep (x : α) {a b : List α} {n : Nat} (h : Script a b n) :
    Script (a ++ [x]) (b ++ [x]) n := by
  induction h with
  | nil => exact .keep x .nil
  | keep z _ ih => exact .keep z ih
  | subst z w hzw _ ih => exact .subst z w hzw ih
  | delete z _ ih => exact .delete z ih
  | insert w _ ih => exact .insert w ih

theorem script_snoc_subst (x y : α) (hxy : x ≠ y) {a b : List α} {n : Nat} (h : Script a b n) :
    Script (a ++ [x]) (b ++ [y]) (n + 1) := by
  induction h with
  | nil => exact .subst x y hxy .nil
  | keep z _ ih => exact .keep z ih
  | subst z w hzw _ ih => exact .subst z w hzw ih
  | delete z _ ih => exact .delete z ih
  | insert w _ ih => exact .insert w ih

theorem script_snoc_delete (x : α) {a b : List α} {n : Nat} (h : Script a b n) :
    Script (a ++ [x]) b (n + 1) := by
  induction h with
  | nil => exact .delete x .nil
  | keep z _ ih => exact .keep z ih
  | subst z w hzw _ ih => exact .subst z w hzw ih
  | delete z _ ih => exact .delete z ih
  | insert w _ ih => exact .insert w ih

theorem script_snoc_insert (y : α) {a b : List α} {n : Nat} (h : Script a b n) :
    Script a (b ++ [y]) (n + 1) := by
  induction h with
  | nil => exact .insert y .nil
  | keep z _ ih => exact .keep z ih
  | subst z w hzw _ ih => exact .subst z w hzw ih
  | delete z _ ih => exact .delete z ih
  | insert w _ ih => exact .insert w ih

theorem script_reverse {a b : List α} {n : Nat} (h : Script a b n) : Script a.reverse b.reverse n := by
  induction h with
  | nil => exact .nil
  | keep x _ ih => simp only [List.reverse_cons]; exact script_snoc_keep x ih
  | subst x y hxy _ ih => simp only [List.reverse_cons]; exact script_snoc_subst x y hxy ih
  | delete x _ ih => simp only [List.reverse_cons]; exact script_snoc_delete x ih
  | insert y _ ih => simp only [List.reverse_cons]; exact script_snoc_insert y ih

theorem lev_reverse_le (a b : List α) : lev a.reverse b.reverse ≤ lev a b :=
  script_lower_bound (script_reverse (script_of_lev a b))

/-- reading both words backwards does not change the distance -/
theorem lev_reverse (a b : List α) : lev a.reverse b.reverse = lev a b := by
  apply Nat.le_antisymm (lev_reverse_le a b)
  have := lev_reverse_le a.reverse b.reverse
  simpa using this

/-- the heart of the triangle inequality: a script from `a` to `b` of cost `n` moves the distance to
    any third word by at most `n` -/
theorem lev_le_script_add {a b : List α} {n : Nat} (h : Script a b n) : ∀ c, lev a c ≤ n + lev b c := by
  induction h with
  | nil => intro c; omega
  | @keep x a b n _ ih =>
    intro c
    induction c with
    | nil => have := ih []; simp [lev_nil_right_aux] at *; omega
    | cons z c ihc =>
      rw [lev_cons_cons_subCost x z b c]
      have h1 := lev_cons_left_le x a (z :: c)
      have h2 := lev_cons_right_le z (x :: a) c
      have h3 := lev_cons_cons_le x z a c
      have := ih (z :: c); have := ih c
      omega
  | @subst x y a b n _ _ ih =>
    intro c
    induction c with
    | nil => have := ih []; simp [lev_nil_right_aux] at *; omega
    | cons z c ihc =>
      rw [lev_cons_cons_subCost y z b c]
      have h1 := lev_cons_left_le x a (z :: c)
      have h2 := lev_cons_right_le z (x :: a) c
      have h3 := lev_cons_cons_le x z a c
      have := subCost_le_one x z
      have := ih (z :: c); have := ih c
      omega
  | @delete x a b n _ ih =>
    intro c
    have := lev_cons_left_le x a c
    have := ih c
    omega
  | @insert y a b n _ ih =>
    intro c
    induction c with
    | nil => have := ih []; simp [lev_nil_right_aux] at *; omega
    | cons z c ihc =>
      rw [lev_cons_cons_subCost y z b c]
      have h2 := lev_cons_right_le z a c
      have := ih (z :: c); have := ih c
      omega

end Generic

/-! ### the row invariant of `edRow` / `edLoop`

`ra`, `rb` are the processed prefixes of the two words, REVERSED (so that one more character is a
`cons`); the row after the prefix `ra` is `[lev ra (b.take j).reverse | j = 0 … |b|]`. -/

/-- the entries `j+1 …` of the row of `ra`, where `rb` is the reversed prefix `b.take j` and `bs` the rest of `b` -/
def levRowFrom (ra rb : List Char) : List Char → List Nat
  | [] => []
  | c :: bs => lev ra (c :: rb) :: levRowFrom ra (c :: rb) bs

/-- the full row of `ra` -/
def levRow (ra b : List Char) : List Nat := lev ra [] :: levRowFrom ra [] b

theorem edRow_spec (ca : Char) (ra : List Char) (bs rb : List Char) :
    edRow ca bs (levRowFrom ra rb bs) (lev ra rb) (lev (ca :: ra) rb) = levRowFrom (ca :: ra) rb bs := by
  induction bs generalizing rb with
  | nil => rfl
  | cons cb bs ih =>
    simp only [levRowFrom, edRow]
    have hv : min (lev ra (cb :: rb) + 1) (min (lev (ca :: ra) rb + 1) (lev ra rb + if (ca == cb) = true then 0 else 1))
        = lev (ca :: ra) (cb :: rb) := by
      rw [lev_cons_cons_subCost]; simp [subCost]
    rw [hv, ih]

theorem levRowFrom_nil (rb bs : List Char) : levRowFrom [] rb bs = List.range' (rb.length + 1) bs.length := by
  induction bs generalizing rb with
  | nil => rfl
  | cons c bs ih => simp [levRowFrom, ih, lev_nil_left_aux, List.range'_succ]

theorem levRow_nil (b : List Char) : levRow [] b = List.range (b.length + 1) := by
  simp [levRow, levRowFrom_nil, lev_nil_left_aux, List.range_eq_range', List.range'_succ]

theorem edLoop_spec (b as ra : List Char) (i : Nat) (hi : i = ra.length) :
    edLoop b as i (levRow ra b) = levRow (as.reverse ++ ra) b := by
  induction as generalizing ra i with
  | nil => rfl
  | cons ca as ih =>
    subst hi
    have h := ih (ca :: ra) (ra.length + 1) rfl
    simp only [List.reverse_cons, List.append_assoc, List.singleton_append]
    rw [← h]
    simp only [edLoop, levRow]
    have h1 : lev (ca :: ra) [] = ra.length + 1 := by simp [lev_nil_right_aux]
    rw [← h1, edRow_spec, h1]

theorem levRowFrom_getLastD (ra rb bs : List Char) :
    (levRowFrom ra rb bs).getLastD (lev ra rb) = lev ra (bs.reverse ++ rb) := by
  induction bs generalizing rb with
  | nil => rfl
  | cons c bs ih =>
    simp only [levRowFrom, List.getLastD_cons, ih, List.reverse_cons, List.append_assoc, List.singleton_append]

theorem levRow_getLastD (ra b : List Char) : (levRow ra b).getLastD 0 = lev ra b.reverse := by
  simp only [levRow, List.getLastD_cons, levRowFrom_getLastD, List.append_nil]

/-- the model's `editDistance` is the textbook recursion on the reversed words … -/
theorem editDistance_eq_lev_reverse (a b : List Char) : editDistance a b = lev a.reverse b.reverse := by
  unfold editDistance
  rw [← levRow_nil, edLoop_spec b a [] 0 rfl, levRow_getLastD]
  simp

end Riti
