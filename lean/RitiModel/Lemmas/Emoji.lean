/-
Lemmas/Emoji — helper facts for C18 (emoji candidates): what the stable sort does to a run of
mutually `Equal` items and to the non-emoji items, when an item survives the truncation of the
fixed method, the shape of `split` on an all-punctuation text, `push_checked` under a filter, and
the fact (read off the GENERATED pattern table) that the okkhor transliteration never lengthens a
text that is all punctuation.
-/
import RitiModel.Model.Context
import RitiModel.Model.Okkhor
import RitiModel.Lemmas.Rank
import RitiModel.Lemmas.Phonetic
import RitiModel.Lemmas.Sort
import RitiModel.Lemmas.FixedSuggest
import RitiModel.Props.C07
namespace Riti
open Gen

/-- the test "is not an emoji item" -/
abbrev nonEmoji (r : Rank) : Bool := r.variant != .emoji

/-! ### the stable sort and runs of `Equal` items -/

/-- stability in sub-sequence form: a sub-sequence of mutually `Equal` items is still a sub-sequence
    (same order) after the sort.  No transitivity of the comparator is needed. -/
theorem sortStable_sublist_of_pairwise_eq {sub l : List Rank}
    (h : ∀ a ∈ sub, ∀ b ∈ sub, a.cmp b = .eq) (hs : sub.Sublist l) : sub.Sublist (sortStable l) := by
  have hf : (sortStable l).filter (fun y => decide (y ∈ sub)) = l.filter (fun y => decide (y ∈ sub)) := by
    apply sortStable_filter
    apply List.pairwise_of_forall_mem_list
    intro a _ b _ ha hb
    have := h b (by simpa using hb) a (by simpa using ha)
    simp [this]
  have h1 : sub.Sublist (l.filter (fun y => decide (y ∈ sub))) := by
    have := hs.filter (fun y => decide (y ∈ sub))
    rwa [List.filter_eq_self.mpr (by simp)] at this
  rw [← hf] at h1
  exact h1.trans List.filter_sublist

/-- the sort keeps the emoji items in their input order (all emoji are mutually `Equal`) -/
theorem sortStable_filter_emoji (l : List Rank) :
    (sortStable l).filter (fun r => r.variant == .emoji) = l.filter (fun r => r.variant == .emoji) := by
  apply sortStable_filter
  apply List.pairwise_of_forall_mem_list
  intro a _ b _ ha hb
  cases a <;> cases b <;> simp [Rank.variant] at ha hb
  simp [Rank.cmp, Rank.variant, cmpArm]

/-! ### the stable sort and the non-emoji items -/

/-- an item that no member is strictly below is inserted in front -/
theorem insertSortedFront_of_forall_not_lt (x : Rank) (L : List Rank) (h : ∀ z ∈ L, z.cmp x ≠ .lt) :
    sortStable.insertSortedFront x L = x :: L := by
  cases L with
  | nil => rfl
  | cons y ys => simp [sortStable.insertSortedFront, h y (by simp)]

/-- inserting a non-emoji item into a list that is ascending in (class, number) and then deleting
    the emoji is the same as inserting it into the list with the emoji deleted -/
theorem insertSortedFront_filter_nonEmoji (x : Rank) (S : List Rank) (hx : x.variant ≠ .emoji)
    (hS : S.Pairwise C07.fineLe) :
    (sortStable.insertSortedFront x S).filter nonEmoji =
      sortStable.insertSortedFront x (S.filter nonEmoji) := by
  have hpx : nonEmoji x = true := by simpa [nonEmoji] using hx
  induction S with
  | nil => simp [sortStable.insertSortedFront, hpx]
  | cons y ys ih =>
    rw [List.pairwise_cons] at hS
    simp only [sortStable.insertSortedFront]
    by_cases hlt : y.cmp x = .lt
    · simp only [hlt, beq_self_eq_true, if_true]
      by_cases hy : nonEmoji y = true
      · rw [List.filter_cons_of_pos hy, List.filter_cons_of_pos hy, ih hS.2]
        simp [sortStable.insertSortedFront, hlt]
      · rw [List.filter_cons_of_neg hy, List.filter_cons_of_neg hy, ih hS.2]
    · have hb : (y.cmp x == .lt) = false := by simpa using hlt
      simp only [hb, Bool.false_eq_true, if_false]
      rw [List.filter_cons_of_pos hpx]
      by_cases hy : nonEmoji y = true
      · rw [List.filter_cons_of_pos hy]
        simp [sortStable.insertSortedFront, hb]
      · rw [List.filter_cons_of_neg hy]
        symm
        apply insertSortedFront_of_forall_not_lt
        intro z hz
        obtain ⟨hz1, hz2⟩ := List.mem_filter.mp hz
        have hyz := hS.1 z hz1
        have hye : y.variant = .emoji := by simpa [nonEmoji] using hy
        have hze : z.variant ≠ .emoji := by simpa [nonEmoji] using hz2
        cases x <;> cases y <;> cases z <;>
          simp [C07.fineLe, C07.fineKey, Rank.cmp, Rank.variant, Rank.num, cmpArm] at hx hye hze hyz hlt ⊢ <;>
          omega

/-- when the emoji of the input carry non-decreasing numbers in input order (what the pipeline
    produces), deleting the emoji from the sorted list gives the sorted list of the non-emoji
    items: the emoji never reorder anything else, although the comparator is not transitive -/
theorem sortStable_filter_nonEmoji (l : List Rank) (hasc : C07.EmojiAscending l) :
    (sortStable l).filter nonEmoji = sortStable (l.filter nonEmoji) := by
  induction l with
  | nil => rfl
  | cons x xs ih =>
    have hasc' : C07.EmojiAscending xs := (List.pairwise_cons.mp hasc).2
    simp only [sortStable]
    by_cases hx : x.variant = .emoji
    · have hpx : ¬ nonEmoji x = true := by simp [nonEmoji, hx]
      rw [insertSortedFront_filter nonEmoji x _ (fun h => absurd h hpx), List.filter_cons_of_neg hpx,
        List.filter_cons_of_neg hpx, ih hasc']
    · have hpx : nonEmoji x = true := by simpa [nonEmoji] using hx
      rw [insertSortedFront_filter_nonEmoji x _ hx (C07.sortStable_fine xs hasc'),
        List.filter_cons_of_pos hpx, ih hasc']
      rfl

/-- without ascending emoji numbers the emoji CAN reorder the other items (the comparator is not
    transitive: `Other 5 < Emoji 10 = Emoji 1 < Other 3`): with the two emoji the words stay in the
    order 5, 3; without them they are sorted 3, 5 -/
theorem sortStable_filter_nonEmoji_needs_ascending :
    let l := [Rank.other ['a'] 5, .emoji ['x'] 10, .emoji ['y'] 1, .other ['b'] 3]
    (sortStable l).filter nonEmoji = [.other ['a'] 5, .other ['b'] 3] ∧
      sortStable (l.filter nonEmoji) = [.other ['b'] 3, .other ['a'] 5] := by decide

/-! ### truncation after an admissible sort -/

/-- in a descent-free permutation of `l`, an item `x` stands among the first `k` items whenever at
    most `k` items of `l` (itself included) are `≤ x` -/
theorem mem_take_of_few_le {sorted l : List Rank} {x : Rank} {k : Nat}
    (hp : sorted.Perm l) (hpw : sorted.Pairwise (fun a b => a.le b = true)) (hx : x ∈ l)
    (hxx : x.le x = true)
    (hk : (l.filter (fun y => y.le x)).length ≤ k) : x ∈ sorted.take k := by
  obtain ⟨i, hi, hxi⟩ := List.getElem_of_mem (hp.mem_iff.mpr hx)
  have hall : ∀ y ∈ sorted.take (i + 1), y.le x = true := by
    intro y hy
    obtain ⟨j, hj, rfl⟩ := List.getElem_of_mem hy
    rw [List.length_take] at hj
    rw [List.getElem_take]
    by_cases hji : j = i
    · subst hji; rw [hxi]; exact hxx
    · have := List.pairwise_iff_getElem.mp hpw j i (by omega) hi (by omega)
      rwa [hxi] at this
  have h1 : ((sorted.take (i + 1)).filter (fun y => y.le x)).length = i + 1 := by
    rw [List.filter_eq_self.mpr hall, List.length_take]; omega
  have h2 : ((sorted.take (i + 1)).filter (fun y => y.le x)).length ≤ (sorted.filter (fun y => y.le x)).length :=
    ((List.take_sublist _ _).filter _).length_le
  have h3 : (sorted.filter (fun y => y.le x)).length = (l.filter (fun y => y.le x)).length :=
    (hp.filter _).length_eq
  have hik : i < k := by omega
  rw [← hxi]
  exact List.mem_take_iff_getElem.mpr ⟨i, by omega, rfl⟩

/-! ### `split` on punctuation -/

/-- nothing is left after dropping a prefix that is the whole list -/
private theorem dropWhile_nil_of_all {α : Type} (p : α → Bool) (t : List α) (h : t.all p = true) : t.dropWhile p = [] := by
  induction t with
  | nil => rfl
  | cons a as ih =>
    simp only [List.all_cons, Bool.and_eq_true] at h
    simp [h.1, ih h.2]

/-- the prefix taken by `takeWhile p` satisfies `p` throughout -/
theorem all_takeWhile {α : Type} (p : α → Bool) (t : List α) : (t.takeWhile p).all p = true := by
  induction t with
  | nil => rfl
  | cons a as ih =>
    rw [List.takeWhile_cons]
    split
    · rename_i h; simp [h, ih]
    · rfl

/-- a text that is all punctuation is captured as the leading part, the other parts are empty -/
theorem split_of_all_meta (t : Str) (ic : Bool) (h : t.all isMeta = true) : split t ic = ⟨t, [], []⟩ := by
  have hd : t.dropWhile isMeta = [] := dropWhile_nil_of_all _ _ h
  unfold split
  simp only [hd]

/-- the leading part of `split` is the longest all-punctuation prefix -/
theorem split_pre (t : Str) (ic : Bool) : (split t ic).pre = t.takeWhile isMeta := by
  unfold split
  simp only
  split
  · rename_i hd
    have := List.takeWhile_append_dropWhile (p := isMeta) (l := t)
    rw [hd, List.append_nil] at this
    exact this.symm
  · rfl

/-- if the leading part is the whole text, the whole text is punctuation -/
theorem all_meta_of_takeWhile_length (t : Str) (h : t.length ≤ (t.takeWhile isMeta).length) :
    t.all isMeta = true := by
  have h1 := List.takeWhile_append_dropWhile (p := isMeta) (l := t)
  have h2 : (t.takeWhile isMeta).length + (t.dropWhile isMeta).length = t.length := by
    rw [← List.length_append, h1]
  have h3 : t.dropWhile isMeta = [] := List.eq_nil_of_length_eq_zero (by omega)
  rw [h3, List.append_nil] at h1
  rw [← h1]
  exact all_takeWhile _ _

/-! ### `push_checked` under a filter -/

/-- `push_checked` of a kept item commutes with deleting items whose texts differ from the pushed one -/
theorem filter_pushChecked (p : Rank → Bool) (v : List Rank) (r : Rank) (hr : p r = true)
    (hv : ∀ x ∈ v, p x = false → x.text ≠ r.text) :
    (pushChecked v r).filter p = pushChecked (v.filter p) r := by
  unfold pushChecked
  by_cases h : v.any (fun x => x.sameText r) = true
  · have h' : (v.filter p).any (fun x => x.sameText r) = true := by
      rw [List.any_eq_true] at h ⊢
      obtain ⟨x, hx, hxr⟩ := h
      refine ⟨x, List.mem_filter.mpr ⟨hx, ?_⟩, hxr⟩
      cases hpx : p x with
      | true => rfl
      | false => exact absurd (by simpa [Rank.sameText] using hxr) (hv x hx hpx)
    simp [h, h']
  · have h' : ¬ (v.filter p).any (fun x => x.sameText r) = true := by
      intro h2
      apply h
      rw [List.any_eq_true] at h2 ⊢
      obtain ⟨x, hx, hxr⟩ := h2
      exact ⟨x, (List.mem_filter.mp hx).1, hxr⟩
    simp [h, h', hr]

/-- a weaker test keeps at least as many items -/
theorem length_filter_le_of_imp {α : Type} (p q : α → Bool) (l : List α) (h : ∀ a, p a = true → q a = true) :
    (l.filter p).length ≤ (l.filter q).length := by
  induction l with
  | nil => simp
  | cons a as ih =>
    simp only [List.filter_cons]
    cases hp : p a with
    | false =>
      simp only [Bool.false_eq_true, if_false]
      split
      · simp only [List.length_cons]; omega
      · exact ih
    | true => simp [h a hp, ih]

/-- what `wrapAll` does to the members -/
theorem mem_wrapAll_of_mem {parts : Parts} {l : List Rank} {x : Rank} (h : x ∈ l) :
    wrapOne parts x ∈ wrapAll parts l := by
  rw [wrapAll_eq_map]; exact List.mem_map_of_mem h

/-! ### the okkhor transliteration on punctuation -/

/-- table check: every pattern whose `find` is all punctuation has only replacements that are not
    longer than the `find` -/
theorem ok_meta_patterns_short :
    okkhorPatterns.all (fun p =>
      !(p.find.all (fun n => metaSet.contains n)) ||
        (decide (p.dflt.length ≤ p.find.length) && p.rules.all (fun r => decide (r.2.length ≤ p.find.length)))) = true := by
  decide +kernel

/-- lower-casing leaves punctuation alone -/
private theorem condLower_meta (c : Char) (h : isMeta c = true) : condLower c = c := by
  have hall : (metaSet.map Char.ofNat).all (fun c => condLower c == c) = true := by decide
  have hc : c ∈ metaSet.map Char.ofNat := by
    unfold isMeta at h
    rw [List.contains_iff_mem] at h
    exact List.mem_map.mpr ⟨c.toNat, h, Char.ofNat_toNat c⟩
  have := List.all_eq_true.mp hall c hc
  simpa using this

/-- a `find` that is a prefix of the input is no longer than it and made of its code points -/
private theorem natPrefixOf_spec : ∀ (ns : List Nat) (cs : List Char), natPrefixOf ns cs = true →
    ns.length ≤ cs.length ∧ ∀ n ∈ ns, ∃ c ∈ cs, n = c.toNat
  | [], _, _ => ⟨by simp, by simp⟩
  | _ :: _, [], h => by simp [natPrefixOf] at h
  | n :: ns, c :: cs, h => by
    simp only [natPrefixOf, Bool.and_eq_true, beq_iff_eq] at h
    obtain ⟨h1, h2⟩ := natPrefixOf_spec ns cs h.2
    refine ⟨by simp only [List.length_cons]; omega, ?_⟩
    intro m hm
    rcases List.mem_cons.mp hm with rfl | hm
    · exact ⟨c, by simp, h.1⟩
    · obtain ⟨d, hd, hmd⟩ := h2 m hm
      exact ⟨d, List.mem_cons_of_mem _ hd, hmd⟩

/-- the pattern found is a table pattern with a non-empty `find` that is a prefix of the input -/
private theorem okFindPattern_spec (pats : List OkPattern) (input : List Char) (p : OkPattern)
    (h : okFindPattern pats input = some p) :
    p ∈ pats ∧ p.find.length > 0 ∧ natPrefixOf p.find input = true := by
  unfold okFindPattern at h
  have gen : ∀ (l : List OkPattern) (best : Option OkPattern),
      (∀ b, best = some b → b ∈ pats ∧ b.find.length > 0 ∧ natPrefixOf b.find input = true) →
      (∀ q ∈ l, q ∈ pats) →
      l.foldl (fun best p =>
        if p.find.length > 0 && natPrefixOf p.find input then
          match best with
          | none => some p
          | some b => if p.find.length > b.find.length then some p else best
        else best) best = some p →
      p ∈ pats ∧ p.find.length > 0 ∧ natPrefixOf p.find input = true := by
    intro l
    induction l with
    | nil => intro best hb _ hf; exact hb p hf
    | cons q qs ih =>
      intro best hb hl hf
      rw [List.foldl_cons] at hf
      refine ih _ ?_ (fun x hx => hl x (List.mem_cons_of_mem _ hx)) hf
      intro b hbb
      split at hbb
      · rename_i hq
        simp only [Bool.and_eq_true, decide_eq_true_eq] at hq
        have hqq : q ∈ pats ∧ q.find.length > 0 ∧ natPrefixOf q.find input = true := ⟨hl q (by simp), hq.1, hq.2⟩
        split at hbb
        · injection hbb with hbb; subst hbb; exact hqq
        · split at hbb
          · injection hbb with hbb; subst hbb; exact hqq
          · exact hb b hbb
      · exact hb b hbb
  exact gen pats none (by simp) (fun _ h => h) h

/-- a replacement of a pattern is one of its rules' or its default -/
private theorem okReplacement_mem (p : OkPattern) (pre suf : Char) :
    okReplacement p pre suf = p.dflt ∨ ∃ r ∈ p.rules, okReplacement p pre suf = r.2 := by
  unfold okReplacement
  split
  · rename_i r hr
    exact Or.inr ⟨r, List.mem_of_find?_eq_some hr, rfl⟩
  · exact Or.inl rfl

/-- the parser loop never lengthens an all-punctuation input -/
theorem okLoop_meta_length : ∀ (fuel : Nat) (input : List Char) (pre : Char) (out : List Char),
    input.all isMeta = true → (okLoop okkhorPatterns fuel input pre out).length ≤ out.length + input.length
  | 0, _, _, _, _ => by simp [okLoop]
  | _ + 1, [], _, _, _ => by simp [okLoop]
  | fuel + 1, c :: cs, pre, out, hall => by
    simp only [okLoop]
    split
    · rename_i p hp
      obtain ⟨hmem, hpos, hpre⟩ := okFindPattern_spec _ _ _ hp
      obtain ⟨hlen, hchars⟩ := natPrefixOf_spec _ _ hpre
      have hfm : p.find.all (fun n => metaSet.contains n) = true := by
        rw [List.all_eq_true]
        intro n hn
        obtain ⟨d, hd, rfl⟩ := hchars n hn
        exact List.all_eq_true.mp hall d hd
      have htab := List.all_eq_true.mp ok_meta_patterns_short p hmem
      simp only [hfm, Bool.not_true, Bool.false_or, Bool.and_eq_true, decide_eq_true_eq, List.all_eq_true] at htab
      have hrep : (okReplacement p pre (((c :: cs).drop p.find.length).headD ' ')).length ≤ p.find.length := by
        rcases okReplacement_mem p pre (((c :: cs).drop p.find.length).headD ' ') with h | ⟨r, hr, h⟩
        · rw [h]; exact htab.1
        · rw [h]; exact htab.2 r hr
      have hrest : ((c :: cs).drop p.find.length).all isMeta = true := by
        rw [List.all_eq_true] at hall ⊢
        exact fun x hx => hall x (List.mem_of_mem_drop hx)
      have ih := okLoop_meta_length fuel ((c :: cs).drop p.find.length) (Char.ofNat (p.find.getLastD 32))
        (out ++ natsToChars (okReplacement p pre (((c :: cs).drop p.find.length).headD ' '))) hrest
      have hn : ∀ l : List Nat, (natsToChars l).length = l.length := by intro l; simp [natsToChars]
      rw [List.length_append, hn, List.length_drop] at ih
      omega
    · have hrest : cs.all isMeta = true := by
        simp only [List.all_cons, Bool.and_eq_true] at hall; exact hall.2
      have ih := okLoop_meta_length fuel cs c (out ++ [c]) hrest
      simp only [List.length_append, List.length_cons, List.length_nil] at ih ⊢
      omega

/-- the okkhor transliteration of an all-punctuation text is not longer than the text -/
theorem okConvert_meta_length (s : List Char) (h : s.all isMeta = true) : (okConvert s).length ≤ s.length := by
  unfold okConvert
  have hmap : s.map condLower = s := by
    have : s.map condLower = s.map id :=
      List.map_congr_left (fun c hc => condLower_meta c (List.all_eq_true.mp h c hc))
    simpa using this
  simp only [hmap]
  have := okLoop_meta_length s.length s ' ' [] h
  simpa using this

end Riti
