/-
Lemmas/EmojiTables — generic facts about `alookupLast` (the `HashMap` built from an array of rows) and about the passage
between texts and their code points, used by Props/EmojiTables to lift kernel-checked facts about the generated rows
(lists of `Nat`) to the look-up functions over `List Char`.
-/
import RitiModel.Model.EmojiTables
namespace Riti

/-- a code point that is a Unicode scalar value survives `Char.ofNat` -/
theorem toNat_ofNat_of_valid {n : Nat} (h : n.isValidChar) : (Char.ofNat n).toNat = n := by
  unfold Char.ofNat
  rw [dif_pos h]
  simp [Char.ofNatAux, Char.toNat]

/-- Bool form of "every code point of the list is a scalar value" -/
def validCodes (l : List Nat) : Bool := l.all (fun n => decide (n < 0xD800 ∨ (0xDFFF < n ∧ n < 0x110000)))

/-- the code points of the text made from valid code points are those code points -/
theorem codesOf_natsToChars {l : List Nat} (h : validCodes l = true) : codesOf (natsToChars l) = l := by
  induction l with
  | nil => rfl
  | cons n r ih =>
    simp only [validCodes, List.all_cons, Bool.and_eq_true, decide_eq_true_eq] at h
    have hr : validCodes r = true := h.2
    simp only [natsToChars, codesOf, List.map_cons] at ih ⊢
    rw [toNat_ofNat_of_valid h.1, ih hr]

/-- a text is the text of its code points -/
theorem natsToChars_codesOf (s : List Char) : natsToChars (codesOf s) = s := by
  induction s with
  | nil => rfl
  | cons c r ih =>
    simp only [natsToChars, codesOf, List.map_cons] at ih ⊢
    rw [Char.ofNat_toNat, ih]

/-- two texts with the same code points are the same text -/
theorem codesOf_inj {s t : List Char} (h : codesOf s = codesOf t) : s = t := by
  rw [← natsToChars_codesOf s, ← natsToChars_codesOf t, h]

/-- a text whose code points are the valid list `l` is the text made from `l` -/
theorem eq_natsToChars_of_codesOf {s : List Char} {l : List Nat} (h : codesOf s = l) : s = natsToChars l := by
  rw [← h, natsToChars_codesOf]

/-- a character of the text made from `l` is `Char.ofNat` of a member of `l` -/
theorem mem_natsToChars {l : List Nat} {c : Char} (h : c ∈ natsToChars l) : ∃ n ∈ l, c = Char.ofNat n := by
  obtain ⟨n, hn, rfl⟩ := List.mem_map.mp h
  exact ⟨n, hn, rfl⟩

section alookupLast
variable {α β : Type} [BEq α] [LawfulBEq α]

/-- an answer of the look-up is a row of the array -/
theorem alookupLast_mem {l : List (α × β)} {a : α} {v : β} (h : alookupLast l a = some v) : (a, v) ∈ l := by
  induction l with
  | nil => simp [alookupLast] at h
  | cons p r ih =>
    obtain ⟨k, w⟩ := p
    unfold alookupLast at h
    split at h
    · next w' hw' =>
      cases h
      exact List.mem_cons_of_mem _ (ih hw')
    · split at h
      · next hk =>
        cases h
        have : k = a := eq_of_beq hk
        subst this
        exact List.mem_cons_self
      · cases h

/-- no row with the key: no answer (and conversely) -/
theorem alookupLast_eq_none_iff {l : List (α × β)} {a : α} : alookupLast l a = none ↔ a ∉ l.map Prod.fst := by
  induction l with
  | nil => simp [alookupLast]
  | cons p r ih =>
    obtain ⟨k, w⟩ := p
    unfold alookupLast
    cases hr : alookupLast r a with
    | some w' =>
      have : a ∈ r.map Prod.fst := by
        apply Classical.byContradiction
        intro hn
        rw [ih.mpr hn] at hr
        cases hr
      simp [this]
    | none =>
      have hn := ih.mp hr
      by_cases hk : k = a
      · subst hk; simp
      · have hb : (k == a) = false := by simpa using hk
        simp only [hb, Bool.false_eq_true, if_false, List.map_cons, List.mem_cons, not_or, true_iff]
        exact ⟨fun h => hk h.symm, hn⟩

/-- with pairwise distinct keys every row is found under its key -/
theorem alookupLast_of_mem_nodup {l : List (α × β)} (hd : (l.map Prod.fst).Nodup) {k : α} {v : β} (h : (k, v) ∈ l) :
    alookupLast l k = some v := by
  induction l with
  | nil => cases h
  | cons p r ih =>
    obtain ⟨k', w⟩ := p
    simp only [List.map_cons, List.nodup_cons] at hd
    unfold alookupLast
    rcases List.mem_cons.mp h with heq | hr
    · cases heq
      have : alookupLast r k = none := alookupLast_eq_none_iff.mpr hd.1
      simp [this]
    · rw [ih hd.2 hr]

/-- with pairwise distinct keys "last row wins" and "first row wins" are the same function -/
theorem alookupLast_eq_alookup_of_nodup {l : List (α × β)} (hd : (l.map Prod.fst).Nodup) (a : α) :
    alookupLast l a = alookup l a := by
  induction l with
  | nil => rfl
  | cons p r ih =>
    obtain ⟨k, w⟩ := p
    simp only [List.map_cons, List.nodup_cons] at hd
    unfold alookupLast alookup
    by_cases hk : k = a
    · subst hk
      have : alookupLast r k = none := alookupLast_eq_none_iff.mpr hd.1
      simp [this]
    · have hb : (k == a) = false := by simpa using hk
      rw [hb, ← ih hd.2]
      cases alookupLast r a <;> simp

end alookupLast

/-- pairwise distinctness of a list of keys, as a Bool the kernel evaluates (quadratic) -/
def distinctB : List (List Nat) → Bool
  | [] => true
  | a :: r => !(r.contains a) && distinctB r

theorem nodup_of_distinctB {l : List (List Nat)} (h : distinctB l = true) : l.Nodup := by
  induction l with
  | nil => exact List.nodup_nil
  | cons a r ih =>
    simp only [distinctB, Bool.and_eq_true, Bool.not_eq_true', List.contains_eq_mem, decide_eq_false_iff_not] at h
    exact List.nodup_cons.mpr ⟨h.1, ih h.2⟩

end Riti
