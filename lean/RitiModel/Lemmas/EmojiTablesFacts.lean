/-
Lemmas/EmojiTablesFacts — the kernel-evaluated checks on the generated emojicon rows (`Gen/EmojiTables.lean`), kept apart
from Props/EmojiTables so that they are evaluated once.  Every check is a closed Bool / list equation decided by
`decide +kernel`; the checkers are written so that the kernel does a linear amount of work wherever the table allows it
(the two name tables are strictly ascending in the source, so distinctness of their keys is an adjacent comparison; the
emoticon table is not sorted: 321² / 2 comparisons).
-/
import RitiModel.Lemmas.EmojiTables
import RitiModel.Lemmas.SplitWord
namespace Riti.EmojiTables
open Riti Riti.Gen

/-! ### checkers -/

/-- code-point-wise equality of two keys -/
def eqCodes : List Nat → List Nat → Bool
  | [], [] => true
  | a :: r, b :: s => decide (a = b) && eqCodes r s
  | _, _ => false

theorem eqCodes_iff {a b : List Nat} : eqCodes a b = true ↔ a = b := by
  induction a generalizing b with
  | nil => cases b <;> simp [eqCodes]
  | cons x r ih => cases b with
    | nil => simp [eqCodes]
    | cons y s => simp [eqCodes, ih]

/-- lexicographic "strictly smaller" on keys (code point order = the order of Rust's `str`) -/
def ltCodes : List Nat → List Nat → Bool
  | [], [] => false
  | [], _ :: _ => true
  | _ :: _, [] => false
  | a :: r, b :: s => decide (a < b) || (decide (a = b) && ltCodes r s)

theorem ltCodes_irrefl (a : List Nat) : ltCodes a a = false := by
  induction a with
  | nil => rfl
  | cons x r ih => simp [ltCodes, ih]

theorem ltCodes_trans {a b c : List Nat} (h1 : ltCodes a b = true) (h2 : ltCodes b c = true) : ltCodes a c = true := by
  induction a generalizing b c with
  | nil =>
    cases b with
    | nil => simp [ltCodes] at h1
    | cons y s => cases c with
      | nil => simp [ltCodes] at h2
      | cons z t => rfl
  | cons x r ih =>
    cases b with
    | nil => simp [ltCodes] at h1
    | cons y s =>
      cases c with
      | nil => simp [ltCodes] at h2
      | cons z t =>
        simp only [ltCodes, Bool.or_eq_true, Bool.and_eq_true, decide_eq_true_eq] at h1 h2 ⊢
        rcases h1 with h1 | ⟨h1, h1'⟩ <;> rcases h2 with h2 | ⟨h2, h2'⟩
        · exact Or.inl (by omega)
        · exact Or.inl (by omega)
        · exact Or.inl (by omega)
        · exact Or.inr ⟨by omega, ih h1' h2'⟩

/-- the keys of the rows are strictly ascending (adjacent comparison) -/
def keysAscending {β : Type} : List (List Nat × β) → Bool
  | a :: b :: r => ltCodes a.1 b.1 && keysAscending (b :: r)
  | _ => true

theorem nodup_of_keysAscending {β : Type} {l : List (List Nat × β)} (h : keysAscending l = true) : (l.map Prod.fst).Nodup := by
  have key : ∀ (l : List (List Nat × β)), keysAscending l = true →
      (l.map Prod.fst).Nodup ∧ ∀ a r, l = a :: r → ∀ k ∈ r.map Prod.fst, ltCodes a.1 k = true := by
    intro l
    induction l with
    | nil => intro _; exact ⟨List.nodup_nil, fun _ _ h => by cases h⟩
    | cons a r ih =>
      intro h
      cases r with
      | nil => exact ⟨by simp, fun a' r' h' k hk => by cases h'; simp at hk⟩
      | cons b s =>
        simp only [keysAscending, Bool.and_eq_true] at h
        obtain ⟨hnd, hlt⟩ := ih h.2
        have hall : ∀ k ∈ (b :: s).map Prod.fst, ltCodes a.1 k = true := by
          intro k hk
          simp only [List.map_cons, List.mem_cons] at hk
          rcases hk with rfl | hk
          · exact h.1
          · exact ltCodes_trans h.1 (hlt b s rfl k hk)
        refine ⟨?_, fun a' r' h' k hk => by cases h'; exact hall k hk⟩
        rw [List.map_cons, List.nodup_cons]
        refine ⟨fun hmem => ?_, hnd⟩
        have := hall a.1 hmem
        rw [ltCodes_irrefl] at this
        cases this
  exact (key l h).1

/-- the key occurs in none of the rows -/
def keyNotIn {β : Type} (a : List Nat) : List (List Nat × β) → Bool
  | [] => true
  | r :: rest => if eqCodes a r.1 then false else keyNotIn a rest

theorem keyNotIn_iff {β : Type} {a : List Nat} {l : List (List Nat × β)} : keyNotIn a l = true ↔ a ∉ l.map Prod.fst := by
  induction l with
  | nil => simp [keyNotIn]
  | cons r rest ih =>
    unfold keyNotIn
    by_cases h : eqCodes a r.1 = true
    · have := eqCodes_iff.mp h
      rw [if_pos h]
      simp [this]
    · have hne : a ≠ r.1 := fun he => h (eqCodes_iff.mpr he)
      rw [if_neg h, ih]
      simp [hne]

/-- pairwise distinct keys, quadratic -/
def keysDistinct {β : Type} : List (List Nat × β) → Bool
  | [] => true
  | r :: rest => keyNotIn r.1 rest && keysDistinct rest

theorem nodup_of_keysDistinct {β : Type} {l : List (List Nat × β)} (h : keysDistinct l = true) : (l.map Prod.fst).Nodup := by
  induction l with
  | nil => exact List.nodup_nil
  | cons r rest ih =>
    simp only [keysDistinct, Bool.and_eq_true] at h
    rw [List.map_cons, List.nodup_cons]
    exact ⟨keyNotIn_iff.mp h.1, ih h.2⟩

/-- ascending if the table is sorted (the cheap test), else the quadratic test -/
def keysOk {β : Type} (l : List (List Nat × β)) : Bool := keysAscending l || keysDistinct l

theorem nodup_of_keysOk {β : Type} {l : List (List Nat × β)} (h : keysOk l = true) : (l.map Prod.fst).Nodup := by
  simp only [keysOk, Bool.or_eq_true] at h
  rcases h with h | h
  · exact nodup_of_keysAscending h
  · exact nodup_of_keysDistinct h

/-- printable ASCII -/
def printable (c : Nat) : Bool := Nat.ble 33 c && Nat.ble c 126
/-- a lower-case letter, a digit or `_`: the characters of all but five English names -/
def wordCode (c : Nat) : Bool := (Nat.ble 97 c && Nat.ble c 122) || (Nat.ble 48 c && Nat.ble c 57) || Nat.beq c 95
/-- neither U+0000 nor one of the four curly quotes -/
def plainCode (n : Nat) : Bool := n != 0 && n != 0x2018 && n != 0x2019 && n != 0x201C && n != 0x201D
/-- at or above U+2100 -/
def highCode (n : Nat) : Bool := Nat.ble 0x2100 n
/-- first and last code point are neither in riti's punctuation set nor a back-tick: the key is its own word part -/
def edgesPlain (k : List Nat) : Bool :=
  match k, k.getLast? with
  | x :: _, some y => !(metaSet.contains x) && !(metaSet.contains y) && y != 96
  | _, _ => false

/-! ### the checks -/
set_option maxRecDepth 100000

theorem sizes_ok : emoticonRows.length = 321 ∧ emojiNameRows.length = 1389 ∧ bengaliNameRows.length = 1007 ∧
    emojiNameSource = "emoji.rs" ∧ emojiconFeatures.contains "custom" = true := by decide +kernel

theorem valid_ok :
    emoticonRows.all (fun r => validCodes r.1 && validCodes r.2) = true ∧
    emojiNameRows.all (fun r => validCodes r.1 && r.2.all validCodes) = true ∧
    bengaliNameRows.all (fun r => validCodes r.1 && r.2.all validCodes) = true := by decide +kernel

theorem emoticon_keys_ok : keysOk emoticonRows = true := by decide +kernel
theorem name_keys_ok : keysOk emojiNameRows = true := by decide +kernel
theorem bengali_keys_ok : keysOk bengaliNameRows = true := by decide +kernel

theorem emoticons_printable_ok : emoticonRows.all (fun r => r.1.all printable) = true := by decide +kernel

theorem names_not_printable_ok : emojiNameRows.filter (fun r => !(r.1.all printable)) =
    [([108, 105, 102, 101, 32, 112, 114, 101, 115, 101, 114, 118, 101, 114], [[128735]])] := by decide +kernel

theorem names_edges_ok : emojiNameRows.filter (fun r => !(edgesPlain r.1)) =
    [([33], [[10071]]), ([43, 49], [[128077]]), ([45, 49], [[128078]])] := by decide +kernel

theorem bengali_edges_ok : bengaliNameRows.filter (fun r => !(edgesPlain r.1)) =
    [([35], [[35, 65039, 8419]]), ([42], [[42, 65039, 8419]])] := by decide +kernel

theorem sizes_lists_ok :
    emojiNameRows.all (fun r => Nat.ble 1 r.2.length && Nat.ble r.2.length 8) = true ∧
    emojiNameRows.filter (fun r => Nat.blt 7 r.2.length) =
      [([119, 111, 114, 107, 111, 117, 116], [[128166], [128170], [127939], [127939, 8205, 9794, 65039], [127939, 8205, 9792, 65039],
        [127947, 65039], [127947, 65039, 8205, 9794, 65039], [127947, 65039, 8205, 9792, 65039]])] ∧
    bengaliNameRows.all (fun r => Nat.ble 1 r.2.length && Nat.ble r.2.length 10) = true ∧
    bengaliNameRows.filter (fun r => Nat.blt 7 r.2.length) =
      [([2489, 2499, 2470, 2527], [[9829], [10083], [10084], [128147], [128148], [128150], [128151], [128152], [128157], [128420]])] := by
  decide +kernel

theorem lists_nodup_ok :
    emojiNameRows.all (fun r => distinctB r.2) = true ∧ bengaliNameRows.all (fun r => distinctB r.2) = true := by decide +kernel

theorem plain_ok :
    emoticonRows.all (fun r => r.1.all plainCode && r.2.all plainCode) = true ∧
    emojiNameRows.all (fun r => r.1.all plainCode && r.2.all (fun e => e.all plainCode)) = true ∧
    bengaliNameRows.all (fun r => r.1.all plainCode && r.2.all (fun e => e.all plainCode)) = true := by decide +kernel

theorem high_ok :
    emoticonRows.all (fun r => r.2.any highCode) = true ∧
    emojiNameRows.all (fun r => r.2.all (fun e => e.any highCode)) = true := by decide +kernel

/-- the emoticons made of word characters only: `x3`; the English names with another character: five -/
theorem classes_ok :
    emoticonRows.filter (fun r => r.1.all wordCode) = [([120, 51], [128104])] ∧
    emojiNameRows.filter (fun r => !(r.1.all wordCode)) =
      [([33], [[10071]]), ([43, 49], [[128077]]), ([45, 49], [[128078]]),
       ([108, 105, 102, 101, 32, 112, 114, 101, 115, 101, 114, 118, 101, 114], [[128735]]), ([116, 45, 114, 101, 120], [[129430]])] := by
  decide +kernel

/-- `x3` is no English name; the five names with other characters are no emoticons -/
theorem cross_ok :
    keyNotIn [120, 51] emojiNameRows = true ∧
    [[33], [43, 49], [45, 49], [108, 105, 102, 101, 32, 112, 114, 101, 115, 101, 114, 118, 101, 114], [116, 45, 114, 101, 120]].all
      (fun k => keyNotIn k emoticonRows) = true := by decide +kernel

/-- the word part of an emoticon (phonetic `split`), as code points -/
def emoWord (r : List Nat × List Nat) : List Nat := codesOf (word (natsToChars r.1))
/-- the word part is not empty, consists of word characters and is a key of the English name table -/
def emoWordIsName (r : List Nat × List Nat) : Bool :=
  !(emoWord r).isEmpty && (emoWord r).all wordCode && !(keyNotIn (emoWord r) emojiNameRows)

/-- the emoticons whose word part consists of word characters and is an English name, with that word part -/
theorem emoticon_words_ok :
    (emoticonRows.filter emoWordIsName).map (fun r => (r.1, emoWord r)) =
      [([111, 61, 41], [111]), ([111, 61, 93], [111]), ([111, 61, 45, 41], [111]), ([111, 61, 45, 93], [111]), ([120, 41], [120]),
       ([120, 93], [120]), ([120, 45, 41], [120]), ([120, 45, 93], [120]), ([61, 111], [111]), ([61, 45, 111], [111])] := by
  decide +kernel

/-- no emoticon has one of the five English names with other characters as its word part; no name is empty -/
theorem emoticon_words_special_ok :
    emoticonRows.all (fun r =>
      [[33], [43, 49], [45, 49], [108, 105, 102, 101, 32, 112, 114, 101, 115, 101, 114, 118, 101, 114], [116, 45, 114, 101, 120]].all
        (fun k => !(eqCodes (emoWord r) k))) = true ∧
    emojiNameRows.all (fun r => !r.1.isEmpty) = true := by decide +kernel

theorem printable_keys_ok : (List.range' 33 94).all (fun c => vcHeader.any (fun k => alookup keyChar k == some c)) = true ∧
    vcHeader.all (fun k => alookup keyChar k != some 32) = true := by decide +kernel

theorem samples_ok :
    (([58, 41], [128515]) : List Nat × List Nat) ∈ emoticonRows ∧ (([66, 45, 41], [128526]) : List Nat × List Nat) ∈ emoticonRows ∧
    (([99, 111, 111, 108], [[128526], [127378]]) : List Nat × List (List Nat)) ∈ emojiNameRows := by decide +kernel

end Riti.EmojiTables
