/-
Lemmas/Ffi — the handle table of Model/Ffi: look-up after insert / erase / allocation, the
well-formedness invariant (live handles are below the counter and pairwise distinct), and the
effect of one call on the sets of live handles.
-/
import RitiModel.Model.Ffi
namespace Riti

/-- the keys (handles) of a table -/
def keys {β : Type} (l : List (Nat × β)) : List Nat := l.map (·.1)

@[simp] theorem keys_nil {β : Type} : keys ([] : List (Nat × β)) = [] := rfl
@[simp] theorem keys_cons {β : Type} (p : Nat × β) (l : List (Nat × β)) : keys (p :: l) = p.1 :: keys l := rfl

theorem alookup_cons_nat {β : Type} (k : Nat) (v : β) (l : List (Nat × β)) (a : Nat) :
    alookup ((k, v) :: l) a = if k = a then some v else alookup l a := by
  simp [alookup]

/-- look-up after insert (handle tables) -/
theorem alookup_ainsert_nat {β : Type} (l : List (Nat × β)) (k k' : Nat) (v : β) :
    alookup (ainsert l k v) k' = if k = k' then some v else alookup l k' := by
  induction l with
  | nil => simp [ainsert, alookup]
  | cons p rest ih =>
    obtain ⟨k0, v0⟩ := p
    simp only [ainsert]
    by_cases h0 : k0 = k
    · subst h0; simp only [alookup, beq_self_eq_true, if_true]; split <;> simp_all
    · by_cases h1 : k = k'
      · subst h1; simp [alookup, h0, ih]
      · simp [alookup, h0, ih, h1]

/-- look-up after erase: the erased handle is dead, the others are untouched -/
theorem alookup_aerase {β : Type} (l : List (Nat × β)) (h h' : Nat) :
    alookup (aerase l h) h' = if h = h' then none else alookup l h' := by
  induction l with
  | nil => simp [aerase, alookup]
  | cons p rest ih =>
    obtain ⟨k0, v0⟩ := p
    simp only [aerase] at ih
    by_cases h0 : k0 = h
    · subst h0
      simp only [aerase, List.filter, bne_self_eq_false]
      rw [ih]
      by_cases h1 : k0 = h'
      · simp [h1]
      · simp [alookup, h1]
    · have : (k0 != h) = true := by simp [h0]
      simp only [aerase, List.filter, this]
      by_cases h1 : h = h'
      · subst h1; simp [alookup, h0]; simpa using ih
      · simp only [alookup, h1, if_false]
        split
        · rfl
        · rw [ih]; simp [h1]

theorem alookup_isSome_iff {β : Type} (l : List (Nat × β)) (k : Nat) :
    (alookup l k).isSome = true ↔ k ∈ keys l := by
  induction l with
  | nil => simp [alookup]
  | cons p rest ih =>
    obtain ⟨k0, v0⟩ := p
    simp only [alookup, keys_cons, List.mem_cons]
    by_cases h : k0 = k
    · simp [h]
    · simp only [beq_iff_eq, h, if_false, ih]
      constructor
      · exact Or.inr
      · rintro (h1 | h1)
        · exact absurd h1.symm h
        · exact h1

theorem mem_keys_of_alookup {β : Type} {l : List (Nat × β)} {k : Nat} {v : β} (h : alookup l k = some v) :
    k ∈ keys l := (alookup_isSome_iff l k).mp (by simp [h])

theorem alookup_none_of_not_mem {β : Type} {l : List (Nat × β)} {k : Nat} (h : k ∉ keys l) :
    alookup l k = none := by
  cases hl : alookup l k with
  | none => rfl
  | some v => exact absurd (mem_keys_of_alookup hl) h

/-- replacing the value of a live handle does not change the set of handles -/
theorem keys_ainsert_of_mem {β : Type} (l : List (Nat × β)) (k : Nat) (v : β) (h : k ∈ keys l) :
    keys (ainsert l k v) = keys l := by
  induction l with
  | nil => simp at h
  | cons p rest ih =>
    obtain ⟨k0, v0⟩ := p
    simp only [ainsert]
    by_cases h0 : k0 = k
    · simp [h0]
    · have hk : k ∈ keys rest := by
        simp only [keys_cons, List.mem_cons] at h
        rcases h with h | h
        · exact absurd h.symm h0
        · exact h
      simp [h0, ih hk]

theorem keys_aerase {β : Type} (l : List (Nat × β)) (h : Nat) :
    keys (aerase l h) = (keys l).filter (fun x => x != h) := by
  induction l with
  | nil => rfl
  | cons p rest ih =>
    simp only [aerase] at ih
    simp only [aerase, keys_cons, List.filter]
    split <;> simp [ih]

/-! ### well-formed heaps -/

/-- every live handle of every kind, in one list -/
def Heap.all (hp : Heap) : List Nat :=
  keys hp.configs ++ keys hp.contexts ++ keys hp.suggestions ++ keys hp.strings

theorem Heap.live_eq (hp : Heap) (k : Kind) :
    hp.live k = match k with
      | .config => keys hp.configs | .context => keys hp.contexts
      | .suggestion => keys hp.suggestions | .string => keys hp.strings := by
  cases k <;> rfl

theorem Heap.mem_all {hp : Heap} {x : Nat} : x ∈ hp.all ↔ ∃ k, x ∈ hp.live k := by
  simp only [Heap.all, List.mem_append]
  constructor
  · rintro (((h | h) | h) | h)
    · exact ⟨.config, h⟩
    · exact ⟨.context, h⟩
    · exact ⟨.suggestion, h⟩
    · exact ⟨.string, h⟩
  · rintro ⟨k, h⟩
    cases k
    · exact Or.inl (Or.inl (Or.inl h))
    · exact Or.inl (Or.inl (Or.inr h))
    · exact Or.inl (Or.inr h)
    · exact Or.inr h

/-- the invariant of the handle table: every live handle was issued by the counter, and no handle
    is live twice — neither within a kind nor across kinds (a pointer has one type) -/
structure Heap.WF (hp : Heap) : Prop where
  lt : ∀ x ∈ hp.all, x < hp.next
  nodup : hp.all.Nodup

theorem Heap.wf_empty : Heap.empty.WF := ⟨by simp [Heap.all, Heap.empty], by simp [Heap.all, Heap.empty]⟩

/-- what a call hands out: the fresh handle, if it is of kind `k` -/
def FfiOut.returned (o : FfiOut) (k : Kind) : List Nat :=
  match o with
  | .handle k' h => if k' = k then [h] else []
  | _ => []

/-- the (non-NULL) handle of kind `k` a call is asked to free -/
def FfiOp.frees (op : FfiOp) (k : Kind) : Option Nat :=
  match op, k with
  | .configFree (some h), .config => some h
  | .contextFree (some h), .context => some h
  | .suggestionFree (some h), .suggestion => some h
  | .stringFree (some h), .string => some h
  | _, _ => none

/-- does the call hand out a fresh handle? -/
def FfiOut.isHandle : FfiOut → Bool
  | .handle _ _ => true
  | _ => false

/-- the complete effect of one call on the live handles and the counter -/
structure StepSpec (hp hp' : Heap) (op : FfiOp) (o : FfiOut) : Prop where
  /-- live after = returned ++ (live before − freed) -/
  live : ∀ k, hp'.live k = o.returned k ++ (hp.live k).filter (fun x => some x != op.frees k)
  /-- a returned handle is the counter value, and the counter moves on -/
  fresh : ∀ k h, o = .handle k h → h = hp.next
  next : hp'.next = if o.isHandle then hp.next + 1 else hp.next
  /-- a call that frees returns nothing -/
  excl : ∀ k h, op.frees k = some h → o = .unit
  /-- only a live handle can be freed (double free / foreign pointer = error) -/
  freesLive : ∀ k h, op.frees k = some h → h ∈ hp.live k

theorem filter_ne_none (l : List Nat) : l.filter (fun x => some x != (none : Option Nat)) = l := by
  simp

theorem filter_bne_some (l : List Nat) (h : Nat) :
    l.filter (fun x => some x != some h) = l.filter (fun x => x != h) := by
  congr 1

theorem stepSpec_ctxEvent {w : World} {hp hp' : Heap} {fs fs' : FS} {h : Nat} {ev : Event} {o : FfiOut}
    {op : FfiOp} (hop : ∀ k, op.frees k = none)
    (hs : ctxEvent w hp fs h ev = .ok (hp', fs', o)) : StepSpec hp hp' op o := by
  unfold ctxEvent at hs
  split at hs
  · cases hs
  · rename_i c hc
    have hk := mem_keys_of_alookup hc
    split at hs
    · cases hs
    · cases hs
      refine ⟨fun k => ?_, ?_, rfl, ?_, ?_⟩
      · cases k <;> simp [Heap.live, FfiOut.returned, hop, filter_ne_none, ← keys.eq_def, keys_ainsert_of_mem _ _ _ hk]
      · intro k h ho; cases ho
      · intro k h hf; simp [hop] at hf
      · intro k h hf; simp [hop] at hf
    · cases hs
      refine ⟨fun k => ?_, ?_, rfl, ?_, ?_⟩
      · cases k <;>
          simp [Heap.live, Heap.allocSugg, FfiOut.returned, hop, filter_ne_none, ← keys.eq_def, keys_ainsert_of_mem _ _ _ hk]
      · intro k h ho; cases ho; rfl
      · intro k h hf; simp [hop] at hf
      · intro k h hf; simp [hop] at hf

theorem stepSpec_readStr {hp hp' : Heap} {fs fs' : FS} {h : Nat} {f : Sugg → Res Str} {o : FfiOut}
    {op : FfiOp} (hop : ∀ k, op.frees k = none)
    (hs : readStr hp fs h f = .ok (hp', fs', o)) : StepSpec hp hp' op o := by
  unfold readStr at hs
  split at hs
  · cases hs
  · split at hs
    · cases hs
    · cases hs
      refine ⟨fun k => ?_, ?_, rfl, ?_, ?_⟩
      · cases k <;> simp [Heap.live, Heap.allocStr, FfiOut.returned, hop, filter_ne_none]
      · intro k h ho; cases ho; rfl
      · intro k h hf; simp [hop] at hf
      · intro k h hf; simp [hop] at hf

theorem stepSpec_readVal {hp hp' : Heap} {fs fs' : FS} {h : Nat} {f : Sugg → Res FfiOut} {o : FfiOut}
    {op : FfiOp} (hop : ∀ k, op.frees k = none) (hno : ∀ sg o, f sg = .ok o → o.isHandle = false)
    (hs : readVal hp fs h f = .ok (hp', fs', o)) : StepSpec hp hp' op o := by
  unfold readVal at hs
  split at hs
  · cases hs
  · split at hs
    · cases hs
    · rename_i sg _ o' ho'
      cases hs
      have hh := hno _ _ ho'
      refine ⟨fun k => ?_, ?_, by simp [hh], ?_, ?_⟩
      · cases o <;> simp [FfiOut.returned, hop, FfiOut.isHandle, filter_ne_none] at hh ⊢
      · intro k h ho; subst ho; simp [FfiOut.isHandle] at hh
      · intro k h hf; simp [hop] at hf
      · intro k h hf; simp [hop] at hf

/-- **one call, accounted for**: the live handles after a successful call are the handle it
    returned plus the handles live before minus the one it was asked to free -/
theorem stepSpec {w : World} {hp hp' : Heap} {fs fs' : FS} {op : FfiOp} {o : FfiOut}
    (hs : ffiStep w hp fs op = .ok (hp', fs', o)) : StepSpec hp hp' op o := by
  cases op with
  | configNew =>
    cases hs
    refine ⟨fun k => ?_, ?_, rfl, ?_, ?_⟩
    · cases k <;> simp [Heap.live, FfiOut.returned, FfiOp.frees, filter_ne_none]
    · intro k h ho; cases ho; rfl
    · intro k h hf; simp [FfiOp.frees] at hf
    · intro k h hf; simp [FfiOp.frees] at hf
  | configSet h st =>
    simp only [ffiStep] at hs
    split at hs
    · cases hs
    · rename_i c hc
      cases hs
      have hk := mem_keys_of_alookup hc
      have hno : ((st.apply c).2).isHandle = false := by
        cases st <;> simp only [CfgSet.apply] <;> (try split) <;> rfl
      refine ⟨fun k => ?_, ?_, by simp [hno], ?_, ?_⟩
      · have hr : (st.apply c).2.returned k = [] := by
          cases hst : (st.apply c).2 <;> simp_all [FfiOut.returned, FfiOut.isHandle]
        cases k <;> simp [Heap.live, hr, FfiOp.frees, filter_ne_none, ← keys.eq_def, keys_ainsert_of_mem _ _ _ hk]
      · intro k h ho; rw [ho] at hno; simp [FfiOut.isHandle] at hno
      · intro k h hf; simp [FfiOp.frees] at hf
      · intro k h hf; simp [FfiOp.frees] at hf
  | configFree oh =>
    cases oh with
    | none =>
      cases hs
      refine ⟨fun k => ?_, ?_, rfl, ?_, ?_⟩
      · simp [FfiOut.returned, FfiOp.frees, filter_ne_none]
      · intro k h ho; cases ho
      · intro k h hf; simp [FfiOp.frees] at hf
      · intro k h hf; simp [FfiOp.frees] at hf
    | some h =>
      simp only [ffiStep] at hs
      split at hs
      · cases hs
      · rename_i c hc
        cases hs
        refine ⟨fun k => ?_, ?_, rfl, ?_, ?_⟩
        · cases k <;> simp [Heap.live, FfiOut.returned, FfiOp.frees, filter_ne_none, filter_bne_some, ← keys.eq_def, keys_aerase]
        · intro k h ho; cases ho
        · intro k h hf; rfl
        · intro k h' hf
          cases k <;> simp [FfiOp.frees] at hf
          subst hf; exact mem_keys_of_alookup hc
  | contextNew ch =>
    simp only [ffiStep] at hs
    split at hs
    · cases hs
    · split at hs
      · cases hs
      · cases hs
        refine ⟨fun k => ?_, ?_, rfl, ?_, ?_⟩
        · cases k <;> simp [Heap.live, FfiOut.returned, FfiOp.frees, filter_ne_none]
        · intro k h ho; cases ho; rfl
        · intro k h hf; simp [FfiOp.frees] at hf
        · intro k h hf; simp [FfiOp.frees] at hf
  | contextFree oh =>
    cases oh with
    | none =>
      cases hs
      refine ⟨fun k => ?_, ?_, rfl, ?_, ?_⟩
      · simp [FfiOut.returned, FfiOp.frees, filter_ne_none]
      · intro k h ho; cases ho
      · intro k h hf; simp [FfiOp.frees] at hf
      · intro k h hf; simp [FfiOp.frees] at hf
    | some h =>
      simp only [ffiStep] at hs
      split at hs
      · cases hs
      · rename_i c hc
        cases hs
        refine ⟨fun k => ?_, ?_, rfl, ?_, ?_⟩
        · cases k <;> simp [Heap.live, FfiOut.returned, FfiOp.frees, filter_ne_none, filter_bne_some, ← keys.eq_def, keys_aerase]
        · intro k h ho; cases ho
        · intro k h hf; rfl
        · intro k h' hf
          cases k <;> simp [FfiOp.frees] at hf
          subst hf; exact mem_keys_of_alookup hc
  | key h c m s => exact stepSpec_ctxEvent (by intro k; simp [FfiOp.frees]) hs
  | backspace h c => exact stepSpec_ctxEvent (by intro k; simp [FfiOp.frees]) hs
  | commit h i => exact stepSpec_ctxEvent (by intro k; simp [FfiOp.frees]) hs
  | finish h => exact stepSpec_ctxEvent (by intro k; simp [FfiOp.frees]) hs
  | update h ch =>
    simp only [ffiStep] at hs
    split at hs
    · cases hs
    · exact stepSpec_ctxEvent (by intro k; simp [FfiOp.frees]) hs
  | ongoing h =>
    simp only [ffiStep] at hs
    split at hs
    · cases hs
    · cases hs
      refine ⟨fun k => ?_, ?_, rfl, ?_, ?_⟩
      · simp [FfiOut.returned, FfiOp.frees, filter_ne_none]
      · intro k h ho; cases ho
      · intro k h hf; simp [FfiOp.frees] at hf
      · intro k h hf; simp [FfiOp.frees] at hf
  | suggestionFree oh =>
    cases oh with
    | none =>
      cases hs
      refine ⟨fun k => ?_, ?_, rfl, ?_, ?_⟩
      · simp [FfiOut.returned, FfiOp.frees, filter_ne_none]
      · intro k h ho; cases ho
      · intro k h hf; simp [FfiOp.frees] at hf
      · intro k h hf; simp [FfiOp.frees] at hf
    | some h =>
      simp only [ffiStep] at hs
      split at hs
      · cases hs
      · rename_i c hc
        cases hs
        refine ⟨fun k => ?_, ?_, rfl, ?_, ?_⟩
        · cases k <;> simp [Heap.live, FfiOut.returned, FfiOp.frees, filter_ne_none, filter_bne_some, ← keys.eq_def, keys_aerase]
        · intro k h ho; cases ho
        · intro k h hf; rfl
        · intro k h' hf
          cases k <;> simp [FfiOp.frees] at hf
          subst hf; exact mem_keys_of_alookup hc
  | getSuggestion h i => exact stepSpec_readStr (by intro k; simp [FfiOp.frees]) hs
  | getLonely h => exact stepSpec_readStr (by intro k; simp [FfiOp.frees]) hs
  | getAux h => exact stepSpec_readStr (by intro k; simp [FfiOp.frees]) hs
  | getPreEdit h i => exact stepSpec_readStr (by intro k; simp [FfiOp.frees]) hs
  | prevIndex h =>
    refine stepSpec_readVal (by intro k; simp [FfiOp.frees]) ?_ hs
    intro sg o ho; cases sg <;> simp [Sugg.prevIndex, Except.map] at ho <;> (subst ho; rfl)
  | length h =>
    refine stepSpec_readVal (by intro k; simp [FfiOp.frees]) ?_ hs
    intro sg o ho; cases sg <;> simp [Sugg.len, Except.map] at ho <;> (subst ho; rfl)
  | isLonely h =>
    simp only [ffiStep] at hs
    refine stepSpec_readVal (by intro k; simp [FfiOp.frees]) ?_ hs
    intro sg o ho; cases ho; rfl
  | isEmpty h =>
    simp only [ffiStep] at hs
    refine stepSpec_readVal (by intro k; simp [FfiOp.frees]) ?_ hs
    intro sg o ho; cases ho; rfl
  | stringFree oh =>
    cases oh with
    | none =>
      cases hs
      refine ⟨fun k => ?_, ?_, rfl, ?_, ?_⟩
      · simp [FfiOut.returned, FfiOp.frees, filter_ne_none]
      · intro k h ho; cases ho
      · intro k h hf; simp [FfiOp.frees] at hf
      · intro k h hf; simp [FfiOp.frees] at hf
    | some h =>
      simp only [ffiStep] at hs
      split at hs
      · cases hs
      · rename_i c hc
        cases hs
        refine ⟨fun k => ?_, ?_, rfl, ?_, ?_⟩
        · cases k <;> simp [Heap.live, FfiOut.returned, FfiOp.frees, filter_ne_none, filter_bne_some, ← keys.eq_def, keys_aerase]
        · intro k h ho; cases ho
        · intro k h hf; rfl
        · intro k h' hf
          cases k <;> simp [FfiOp.frees] at hf
          subst hf; exact mem_keys_of_alookup hc

theorem Heap.all_eq (hp : Heap) :
    hp.all = hp.live .config ++ hp.live .context ++ hp.live .suggestion ++ hp.live .string := rfl

theorem StepSpec.returned_eq {hp hp' : Heap} {op : FfiOp} {o : FfiOut} (sp : StepSpec hp hp' op o)
    {k : Kind} {x : Nat} (hx : x ∈ o.returned k) : o = .handle k x ∧ x = hp.next := by
  cases o with
  | handle k' h =>
    simp only [FfiOut.returned] at hx
    split at hx
    · rename_i hk; subst hk
      simp at hx; subst hx
      exact ⟨rfl, sp.fresh _ _ rfl⟩
    · simp at hx
  | _ => simp [FfiOut.returned] at hx

/-- the counter never goes back -/
theorem StepSpec.next_le {hp hp' : Heap} {op : FfiOp} {o : FfiOut} (sp : StepSpec hp hp' op o) :
    hp.next ≤ hp'.next := by
  rw [sp.next]; split <;> omega

theorem StepSpec.mem_live {hp hp' : Heap} {op : FfiOp} {o : FfiOut} (sp : StepSpec hp hp' op o)
    {k : Kind} {x : Nat} : x ∈ hp'.live k ↔ x ∈ o.returned k ∨ (x ∈ hp.live k ∧ op.frees k ≠ some x) := by
  rw [sp.live k]
  simp only [List.mem_append, List.mem_filter, bne_iff_ne, ne_eq]
  constructor
  · rintro (h | ⟨h1, h2⟩)
    · exact Or.inl h
    · exact Or.inr ⟨h1, fun h => h2 h.symm⟩
  · rintro (h | ⟨h1, h2⟩)
    · exact Or.inl h
    · exact Or.inr ⟨h1, fun h => h2 h.symm⟩

/-- well-formedness is an invariant of the interface -/
theorem StepSpec.wf {hp hp' : Heap} {op : FfiOp} {o : FfiOut} (sp : StepSpec hp hp' op o) (hwf : hp.WF) :
    hp'.WF := by
  have hle := sp.next_le
  constructor
  · intro x hx
    obtain ⟨k, hk⟩ := Heap.mem_all.mp hx
    rcases sp.mem_live.mp hk with h | ⟨h, _⟩
    · obtain ⟨ho, hxn⟩ := sp.returned_eq h
      have := sp.next
      rw [ho] at this
      simp [FfiOut.isHandle] at this
      omega
    · have := hwf.lt x (Heap.mem_all.mpr ⟨k, h⟩)
      omega
  · by_cases hh : o.isHandle = true
    · -- an allocation: nothing is freed, the fresh handle is above every live one
      cases o with
      | handle k h =>
        have hf : ∀ k', op.frees k' = none := by
          intro k'
          cases hfr : op.frees k' with
          | none => rfl
          | some y => have := sp.excl k' y hfr; cases this
        have hn := sp.fresh k h rfl
        have hnot : h ∉ hp.all := fun hm => by have := hwf.lt h hm; omega
        have hl : ∀ k', hp'.live k' = (if k = k' then [h] else []) ++ hp.live k' := by
          intro k'; rw [sp.live k', hf k']; simp [FfiOut.returned, filter_ne_none]
        have hperm : hp'.all.Perm (h :: hp.all) := by
          rw [Heap.all_eq, Heap.all_eq, hl, hl, hl, hl]
          cases k <;> simp
          · simpa [List.append_assoc] using (List.perm_middle (l₁ := hp.live .config ++ hp.live .context)
              (a := h) (l₂ := hp.live .suggestion ++ hp.live .string))
          · simpa [List.append_assoc] using (List.perm_middle
              (l₁ := hp.live .config ++ hp.live .context ++ hp.live .suggestion) (a := h) (l₂ := hp.live .string))
        rw [hperm.nodup_iff]
        exact List.nodup_cons.mpr ⟨hnot, hwf.nodup⟩
      | _ => simp [FfiOut.isHandle] at hh
    · have hr : ∀ k, o.returned k = [] := by
        intro k; cases o <;> simp_all [FfiOut.returned, FfiOut.isHandle]
      have hsub : hp'.all.Sublist hp.all := by
        rw [Heap.all_eq, Heap.all_eq, sp.live, sp.live, sp.live, sp.live, hr, hr, hr, hr]
        simp only [List.nil_append]
        exact (((List.filter_sublist).append (List.filter_sublist)).append (List.filter_sublist)).append
          (List.filter_sublist)
      exact hwf.nodup.sublist hsub

theorem wf_step {w : World} {hp hp' : Heap} {fs fs' : FS} {op : FfiOp} {o : FfiOut}
    (hs : ffiStep w hp fs op = .ok (hp', fs', o)) (hwf : hp.WF) : hp'.WF := (stepSpec hs).wf hwf

/-- every heap reached through the interface is well-formed -/
theorem wf_run {w : World} {hp hp' : Heap} {fs fs' : FS} {ops : List FfiOp} {os : List FfiOut}
    (hr : ffiRun w hp fs ops = .ok (hp', fs', os)) (hwf : hp.WF) : hp'.WF := by
  induction ops generalizing hp fs os with
  | nil => cases hr; exact hwf
  | cons op ops ih =>
    simp only [ffiRun] at hr
    split at hr
    · cases hr
    · rename_i hp1 fs1 o hs
      split at hr
      · cases hr
      · rename_i hp2 fs2 os2 hr2
        cases hr
        exact ih hr2 (wf_step hs hwf)

/-! ### values behind suggestion and string handles -/

theorem ctxEvent_tables {w : World} {hp hp' : Heap} {fs fs' : FS} {h : Nat} {ev : Event} {o : FfiOut}
    (hs : ctxEvent w hp fs h ev = .ok (hp', fs', o)) :
    hp'.strings = hp.strings ∧ hp'.configs = hp.configs ∧
    (hp'.suggestions = hp.suggestions ∨
      ∃ c c' fs1 sg, alookup hp.contexts h = some c ∧ step w c fs ev = .ok (c', fs1, .sugg sg) ∧
        hp'.suggestions = (hp.next, sg) :: hp.suggestions) := by
  unfold ctxEvent at hs
  split at hs
  · cases hs
  · rename_i c hc
    split at hs
    · cases hs
    · cases hs; exact ⟨rfl, rfl, Or.inl rfl⟩
    · rename_i c' fs1 sg hst
      cases hs; exact ⟨rfl, rfl, Or.inr ⟨c, c', _, sg, hc, hst, rfl⟩⟩

theorem readStr_tables {hp hp' : Heap} {fs fs' : FS} {h : Nat} {f : Sugg → Res Str} {o : FfiOut}
    (hs : readStr hp fs h f = .ok (hp', fs', o)) :
    hp'.suggestions = hp.suggestions ∧ hp'.configs = hp.configs ∧ hp'.contexts = hp.contexts ∧ fs' = fs ∧
    ∃ sg s, alookup hp.suggestions h = some sg ∧ f sg = .ok s ∧ hp'.strings = (hp.next, s) :: hp.strings ∧
      o = .handle .string hp.next := by
  unfold readStr at hs
  split at hs
  · cases hs
  · rename_i sg hsg
    split at hs
    · cases hs
    · rename_i s hf
      cases hs; exact ⟨rfl, rfl, rfl, rfl, sg, s, hsg, hf, rfl, rfl⟩

theorem readVal_tables {hp hp' : Heap} {fs fs' : FS} {h : Nat} {f : Sugg → Res FfiOut} {o : FfiOut}
    (hs : readVal hp fs h f = .ok (hp', fs', o)) :
    hp' = hp ∧ fs' = fs ∧ ∃ sg, alookup hp.suggestions h = some sg ∧ f sg = .ok o := by
  unfold readVal at hs
  split at hs
  · cases hs
  · rename_i sg hsg
    split at hs
    · cases hs
    · rename_i o' hf
      cases hs; exact ⟨rfl, rfl, sg, hsg, hf⟩

/-- how one call changes the table of suggestion values: not at all, by boxing a new value under
    the fresh handle, or by dropping the handle it was asked to free -/
theorem suggestions_step {w : World} {hp hp' : Heap} {fs fs' : FS} {op : FfiOp} {o : FfiOut}
    (hs : ffiStep w hp fs op = .ok (hp', fs', o)) :
    hp'.suggestions = hp.suggestions ∨ (∃ sg, hp'.suggestions = (hp.next, sg) :: hp.suggestions) ∨
    (∃ h, op = .suggestionFree (some h) ∧ hp'.suggestions = aerase hp.suggestions h) := by
  have hev : ∀ {h ev}, ctxEvent w hp fs h ev = .ok (hp', fs', o) →
      hp'.suggestions = hp.suggestions ∨ (∃ sg, hp'.suggestions = (hp.next, sg) :: hp.suggestions) ∨
      (∃ h, op = .suggestionFree (some h) ∧ hp'.suggestions = aerase hp.suggestions h) := by
    intro h ev he
    rcases (ctxEvent_tables he).2.2 with h1 | ⟨_, _, _, sg, _, _, h1⟩
    · exact Or.inl h1
    · exact Or.inr (Or.inl ⟨sg, h1⟩)
  cases op with
  | configNew => cases hs; exact Or.inl rfl
  | configSet h st => simp only [ffiStep] at hs; split at hs <;> cases hs; exact Or.inl rfl
  | configFree oh =>
    cases oh with
    | none => cases hs; exact Or.inl rfl
    | some h => simp only [ffiStep] at hs; split at hs <;> cases hs; exact Or.inl rfl
  | contextNew ch =>
    simp only [ffiStep] at hs
    split at hs
    · cases hs
    · split at hs <;> cases hs; exact Or.inl rfl
  | contextFree oh =>
    cases oh with
    | none => cases hs; exact Or.inl rfl
    | some h => simp only [ffiStep] at hs; split at hs <;> cases hs; exact Or.inl rfl
  | key h c m s => exact hev hs
  | backspace h c => exact hev hs
  | commit h i => exact hev hs
  | finish h => exact hev hs
  | update h ch =>
    simp only [ffiStep] at hs
    split at hs
    · cases hs
    · exact hev hs
  | ongoing h => simp only [ffiStep] at hs; split at hs <;> cases hs; exact Or.inl rfl
  | suggestionFree oh =>
    cases oh with
    | none => cases hs; exact Or.inl rfl
    | some h =>
      simp only [ffiStep] at hs; split at hs <;> cases hs
      exact Or.inr (Or.inr ⟨h, rfl, rfl⟩)
  | getSuggestion h i => exact Or.inl (readStr_tables hs).1
  | getLonely h => exact Or.inl (readStr_tables hs).1
  | getAux h => exact Or.inl (readStr_tables hs).1
  | getPreEdit h i => exact Or.inl (readStr_tables hs).1
  | prevIndex h => exact Or.inl (by rw [(readVal_tables hs).1])
  | length h => exact Or.inl (by rw [(readVal_tables hs).1])
  | isLonely h => simp only [ffiStep] at hs; exact Or.inl (by rw [(readVal_tables hs).1])
  | isEmpty h => simp only [ffiStep] at hs; exact Or.inl (by rw [(readVal_tables hs).1])
  | stringFree oh =>
    cases oh with
    | none => cases hs; exact Or.inl rfl
    | some h => simp only [ffiStep] at hs; split at hs <;> cases hs; exact Or.inl rfl

/-- how one call changes the table of C strings -/
theorem strings_step {w : World} {hp hp' : Heap} {fs fs' : FS} {op : FfiOp} {o : FfiOut}
    (hs : ffiStep w hp fs op = .ok (hp', fs', o)) :
    hp'.strings = hp.strings ∨ (∃ s, hp'.strings = (hp.next, s) :: hp.strings) ∨
    (∃ h, op = .stringFree (some h) ∧ hp'.strings = aerase hp.strings h) := by
  have hrd : ∀ {h f}, readStr hp fs h f = .ok (hp', fs', o) →
      hp'.strings = hp.strings ∨ (∃ s, hp'.strings = (hp.next, s) :: hp.strings) ∨
      (∃ h, op = .stringFree (some h) ∧ hp'.strings = aerase hp.strings h) := by
    intro h f he
    obtain ⟨_, _, _, _, _, s, _, _, h1, _⟩ := readStr_tables he
    exact Or.inr (Or.inl ⟨s, h1⟩)
  cases op with
  | configNew => cases hs; exact Or.inl rfl
  | configSet h st => simp only [ffiStep] at hs; split at hs <;> cases hs; exact Or.inl rfl
  | configFree oh =>
    cases oh with
    | none => cases hs; exact Or.inl rfl
    | some h => simp only [ffiStep] at hs; split at hs <;> cases hs; exact Or.inl rfl
  | contextNew ch =>
    simp only [ffiStep] at hs
    split at hs
    · cases hs
    · split at hs <;> cases hs; exact Or.inl rfl
  | contextFree oh =>
    cases oh with
    | none => cases hs; exact Or.inl rfl
    | some h => simp only [ffiStep] at hs; split at hs <;> cases hs; exact Or.inl rfl
  | key h c m s => exact Or.inl (ctxEvent_tables hs).1
  | backspace h c => exact Or.inl (ctxEvent_tables hs).1
  | commit h i => exact Or.inl (ctxEvent_tables hs).1
  | finish h => exact Or.inl (ctxEvent_tables hs).1
  | update h ch =>
    simp only [ffiStep] at hs
    split at hs
    · cases hs
    · exact Or.inl (ctxEvent_tables hs).1
  | ongoing h => simp only [ffiStep] at hs; split at hs <;> cases hs; exact Or.inl rfl
  | suggestionFree oh =>
    cases oh with
    | none => cases hs; exact Or.inl rfl
    | some h => simp only [ffiStep] at hs; split at hs <;> cases hs; exact Or.inl rfl
  | getSuggestion h i => exact hrd hs
  | getLonely h => exact hrd hs
  | getAux h => exact hrd hs
  | getPreEdit h i => exact hrd hs
  | prevIndex h => exact Or.inl (by rw [(readVal_tables hs).1])
  | length h => exact Or.inl (by rw [(readVal_tables hs).1])
  | isLonely h => simp only [ffiStep] at hs; exact Or.inl (by rw [(readVal_tables hs).1])
  | isEmpty h => simp only [ffiStep] at hs; exact Or.inl (by rw [(readVal_tables hs).1])
  | stringFree oh =>
    cases oh with
    | none => cases hs; exact Or.inl rfl
    | some h =>
      simp only [ffiStep] at hs; split at hs <;> cases hs
      exact Or.inr (Or.inr ⟨h, rfl, rfl⟩)

theorem Heap.WF.sugg_lt {hp : Heap} (hwf : hp.WF) {h : Nat} {v : Sugg} (hv : alookup hp.suggestions h = some v) :
    h < hp.next := hwf.lt h (Heap.mem_all.mpr ⟨.suggestion, mem_keys_of_alookup hv⟩)

theorem Heap.WF.str_lt {hp : Heap} (hwf : hp.WF) {h : Nat} {v : Str} (hv : alookup hp.strings h = some v) :
    h < hp.next := hwf.lt h (Heap.mem_all.mpr ⟨.string, mem_keys_of_alookup hv⟩)

end Riti
