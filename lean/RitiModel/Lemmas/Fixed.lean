/-
Lemmas/Fixed — helper lemmas about `processKeyValue` with the old vowel-sign order option off
(used by Props/C12).
-/
import RitiModel.Model.Fixed
import RitiModel.Spec.FixedRules
namespace Riti
open Riti.Spec

/-! ### the literals of the specification are the regenerated constants -/

/-- the seven literals of the specification are the regenerated constants (`lit_*`) -/
theorem lit_R : 'র' = cR := by decide
theorem lit_hasanta : '্' = cHasanta := by decide
theorem lit_chandra : 'ঁ' = cChandra := by decide
theorem lit_lengthMark : 'ৗ' = cLengthMark := by decide
theorem lit_OU : 'ঔ' = cOU := by decide
theorem lit_ZWJ : '\u200d' = cZWJ := by decide
theorem lit_ZWNJ : '\u200c' = cZWNJ := by decide
/-- the specification's zo-fola value is the model's -/
theorem zoFolaValue_eq : zoFolaValue = zoFola := by decide

/-- the specification's sign ↦ independent vowel table is the `match` of `process_key_value` -/
theorem karToVowel_eq_spec (c : Char) : karToVowel c = independentOf c := by
  have e : signVowelTable = [(cAAKar, cAA), (cIKar, cI), (cIIKar, cII), (cUKar, cU), (cUUKar, cUU),
      (cRRIKar, cRRI), (cEKar, cE), (cOIKar, cOI), (cOKar, cO), (cOUKar, cOU)] := by decide
  by_cases h1 : cAAKar = c; · subst h1; decide
  by_cases h2 : cIKar = c; · subst h2; decide
  by_cases h3 : cIIKar = c; · subst h3; decide
  by_cases h4 : cUKar = c; · subst h4; decide
  by_cases h5 : cUUKar = c; · subst h5; decide
  by_cases h6 : cRRIKar = c; · subst h6; decide
  by_cases h7 : cEKar = c; · subst h7; decide
  by_cases h8 : cOIKar = c; · subst h8; decide
  by_cases h9 : cOKar = c; · subst h9; decide
  by_cases h10 : cOUKar = c; · subst h10; decide
  have b1 : (cAAKar == c) = false := by simpa using h1
  have d1 : (c == cAAKar) = false := by simpa using fun h : c = cAAKar => h1 h.symm
  have b2 : (cIKar == c) = false := by simpa using h2
  have d2 : (c == cIKar) = false := by simpa using fun h : c = cIKar => h2 h.symm
  have b3 : (cIIKar == c) = false := by simpa using h3
  have d3 : (c == cIIKar) = false := by simpa using fun h : c = cIIKar => h3 h.symm
  have b4 : (cUKar == c) = false := by simpa using h4
  have d4 : (c == cUKar) = false := by simpa using fun h : c = cUKar => h4 h.symm
  have b5 : (cUUKar == c) = false := by simpa using h5
  have d5 : (c == cUUKar) = false := by simpa using fun h : c = cUUKar => h5 h.symm
  have b6 : (cRRIKar == c) = false := by simpa using h6
  have d6 : (c == cRRIKar) = false := by simpa using fun h : c = cRRIKar => h6 h.symm
  have b7 : (cEKar == c) = false := by simpa using h7
  have d7 : (c == cEKar) = false := by simpa using fun h : c = cEKar => h7 h.symm
  have b8 : (cOIKar == c) = false := by simpa using h8
  have d8 : (c == cOIKar) = false := by simpa using fun h : c = cOIKar => h8 h.symm
  have b9 : (cOKar == c) = false := by simpa using h9
  have d9 : (c == cOKar) = false := by simpa using fun h : c = cOKar => h9 h.symm
  have b10 : (cOUKar == c) = false := by simpa using h10
  have d10 : (c == cOUKar) = false := by simpa using fun h : c = cOUKar => h10 h.symm
  simp only [karToVowel, independentOf, e, List.find?, b1, d1, b2, d2, b3, d3, b4, d4, b5, d5, b6, d6, b7, d7, b8, d8, b9, d9, b10, d10]
  simp

/-! ### `processKeyValue` without the old vowel-sign order -/

/-- what `process_key_value` does to the (reversed) buffer when the old vowel-sign order option
    is off: the branches that remain, in the order of the code -/
def stepBuf (cfg : Cfg) (rbuf : Str) (v : Str) : Str :=
  let rmc := rbuf.headD '\x00'
  if v == zoFola then
    pushStr (if rmc == cR && (rbuf.drop 1).headD '\x00' != cHasanta then cZWJ :: rbuf else rbuf) v
  else if v == rephValue && cfg.fixedOldReph then insertOldStyleReph rbuf
  else
    match v.head? with
    | none => pushStr rbuf v
    | some ch =>
      if isKar ch then karTail cfg rbuf rmc ch
      else if ch == cHasanta && rmc == cHasanta then cZWNJ :: rbuf
      else if ch == cLengthMark && rmc == cHasanta then cOU :: rbuf.drop 1
      else pushStr rbuf v

/-- with the old vowel-sign order off, a key value only rewrites the buffer (by `stepBuf`); the
    pending sign, the typed keys and the suggestion list are not touched — whatever they are -/
theorem processKeyValue_noOrder (cfg : Cfg) (s : FState) (v : Str) (h : cfg.fixedKarOrder = false) :
    processKeyValue cfg s v = { s with rbuf := stepBuf cfg s.rbuf v } := by
  simp only [processKeyValue, pkvBody, stepBuf, h, Bool.false_and, Bool.false_eq_true, if_false]
  cases v.head? with
  | none => simp only []; (repeat' split) <;> rfl
  | some ch => simp only []; (repeat' split) <;> rfl

/-! ### the rule list, unfolded -/

/-- `applyFirst rules` as an `if`-chain -/
theorem applyFirst_rules (cfg : Cfg) (rbuf v : Str) :
    applyFirst rules cfg rbuf v =
      if r1.guard cfg rbuf v then r1.action cfg rbuf v
      else if r2.guard cfg rbuf v then r2.action cfg rbuf v
      else if r3.guard cfg rbuf v then r3.action cfg rbuf v
      else if r4.guard cfg rbuf v then r4.action cfg rbuf v
      else if r5.guard cfg rbuf v then r5.action cfg rbuf v
      else if r6.guard cfg rbuf v then r6.action cfg rbuf v
      else if r7.guard cfg rbuf v then r7.action cfg rbuf v
      else append rbuf v := by
  simp only [applyFirst, firstRule, rules, List.find?]
  (repeat' split) <;> simp_all

/-! ### class facts used to discharge side conditions -/

/-- U+0000 (what `unwrap_or_default()` yields on an empty buffer) is in no class the rules test -/
theorem nul_facts : isVowel '\x00' = false ∧ isMark '\x00' = false ∧ isPureConsonant '\x00' = false ∧
    ('\x00' == cChandra) = false ∧ ('\x00' == cHasanta) = false ∧ ('\x00' == cR) = false := by decide

/-- hasanta is not a vowel sign -/
theorem isKar_hasanta : isKar cHasanta = false := by decide
/-- the AU length mark is not a vowel sign (of `is_kar`) -/
theorem isKar_lengthMark : isKar cLengthMark = false := by decide

/-- a sign after any text: the sign branch of the code is rules R2–R5 (in that order) or plain
    appending -/
theorem karTail_eq_rules (cfg : Cfg) (rbuf : Str) (k : Char) (hk : isKar k = true) :
    karTail cfg rbuf (rbuf.headD '\x00') k = applyFirst rules cfg rbuf [k] := by
  have hne1 : (k == cHasanta) = false := by
    cases h : k == cHasanta with
    | false => rfl
    | true => rw [beq_iff_eq.mp h, isKar_hasanta] at hk; cases hk
  have hne2 : (k == cLengthMark) = false := by
    cases h : k == cLengthMark with
    | false => rfl
    | true => rw [beq_iff_eq.mp h, isKar_lengthMark] at hk; cases hk
  obtain ⟨n1, n2, n3, n4, n5, n6⟩ := nul_facts
  rw [applyFirst_rules]
  simp only [r1, r2, r3, r4, r5, r6, r7, signOf, hk, zoFolaValue, lit_R, lit_hasanta, lit_chandra, lit_lengthMark,
    lit_OU, lit_ZWJ, lit_ZWNJ, karTail, autoVowelPos, vowelFormingPosition, append, dropLast1]
  cases rbuf with
  | nil =>
    simp [lastIs, beforeLastIs, n1, n2, n3, n4, n5]
    rw [karToVowel_eq_spec]; rfl
  | cons a rest =>
    simp [lastIs, beforeLastIs, hne1, hne2]
    rw [karToVowel_eq_spec]
    cases cfg.fixedKar <;> cases isLigatureKar k <;> cases isPureConsonant a <;> simp <;> rfl

/-- zo-fola after any text: R1 or plain appending -/
theorem zoFola_eq_rules (cfg : Cfg) (rbuf : Str) :
    stepBuf cfg rbuf zoFola = applyFirst rules cfg rbuf zoFola := by
  obtain ⟨n1, n2, n3, n4, n5, n6⟩ := nul_facts
  have hs : signOf zoFola = none := rfl
  have h6 : (zoFola == [cHasanta]) = false := by decide
  have h7 : (zoFola == [cLengthMark]) = false := by decide
  rw [applyFirst_rules]
  simp only [r1, r2, r3, r4, r5, r6, r7, hs, h6, h7, zoFolaValue_eq, lit_R, lit_hasanta, lit_chandra, lit_lengthMark,
    lit_OU, lit_ZWJ, lit_ZWNJ, stepBuf, append, dropLast1, pushStr]
  match rbuf with
  | [] => simp [lastIs, beforeLastIs, n6]
  | [a] =>
    have n5' : ¬ '\x00' = cHasanta := by decide
    simp [lastIs, beforeLastIs, n5']; split <;> rfl
  | a :: b :: rest => simp [lastIs, beforeLastIs]; split <;> rfl

/-- a lone hasanta after any text: R6 or plain appending -/
theorem hasanta_eq_rules (cfg : Cfg) (rbuf : Str) :
    stepBuf cfg rbuf [cHasanta] = applyFirst rules cfg rbuf [cHasanta] := by
  obtain ⟨n1, n2, n3, n4, n5, n6⟩ := nul_facts
  have hs : signOf [cHasanta] = none := by decide
  have h1 : ([cHasanta] == zoFola) = false := by decide
  have h2 : ([cHasanta] == rephValue) = false := by decide
  have h7 : ([cHasanta] == [cLengthMark]) = false := by decide
  have h8 : ¬ cHasanta = cLengthMark := by decide
  rw [applyFirst_rules]
  simp only [r1, r2, r3, r4, r5, r6, r7, hs, h1, h2, h7, zoFolaValue_eq, lit_R, lit_hasanta, lit_chandra,
    lit_lengthMark, lit_OU, lit_ZWJ, lit_ZWNJ, stepBuf, append, dropLast1, pushStr]
  cases rbuf with
  | nil => simp [lastIs, n5, isKar_hasanta]
  | cons a rest => simp [lastIs, isKar_hasanta, h8]

/-- a lone AU length mark after any text: R7 or plain appending -/
theorem lengthMark_eq_rules (cfg : Cfg) (rbuf : Str) :
    stepBuf cfg rbuf [cLengthMark] = applyFirst rules cfg rbuf [cLengthMark] := by
  obtain ⟨n1, n2, n3, n4, n5, n6⟩ := nul_facts
  have hs : signOf [cLengthMark] = none := by decide
  have h1 : ([cLengthMark] == zoFola) = false := by decide
  have h2 : ([cLengthMark] == rephValue) = false := by decide
  have h7 : ([cLengthMark] == [cHasanta]) = false := by decide
  have h8 : ¬ cLengthMark = cHasanta := by decide
  rw [applyFirst_rules]
  simp only [r1, r2, r3, r4, r5, r6, r7, hs, h1, h2, h7, zoFolaValue_eq, lit_R, lit_hasanta,
    lit_chandra, lit_lengthMark, lit_OU, lit_ZWJ, lit_ZWNJ, stepBuf, append, dropLast1, pushStr]
  cases rbuf with
  | nil => simp [lastIs, n5, isKar_lengthMark]
  | cons a rest => simp [lastIs, isKar_lengthMark, h8]

/-- any other value (empty, or first code point neither sign, hasanta nor length mark), the
    old-reph key excepted: no rule applies, the value is appended -/
theorem other_eq_rules (cfg : Cfg) (rbuf v : Str) (hz : v ≠ zoFola)
    (hr : cfg.fixedOldReph = false ∨ v ≠ rephValue)
    (hv : ∀ c, v.head? = some c → isKar c = false ∧ c ≠ cHasanta ∧ c ≠ cLengthMark) :
    stepBuf cfg rbuf v = applyFirst rules cfg rbuf v ∧ stepBuf cfg rbuf v = pushStr rbuf v := by
  have h1 : (v == zoFola) = false := by simpa using hz
  have h2 : (v == rephValue && cfg.fixedOldReph) = false := by
    rcases hr with hr | hr
    · simp [hr]
    · simp [hr]
  have hs : signOf v = none := by
    match v, hv with
    | [], _ => rfl
    | [c], hv => simp [signOf, (hv c rfl).1]
    | _ :: _ :: _, _ => rfl
  have h6 : (v == [cHasanta]) = false := by
    cases h : v == [cHasanta] with
    | false => rfl
    | true => rw [beq_iff_eq.mp h] at hv; exact absurd rfl (hv cHasanta rfl).2.1
  have h7 : (v == [cLengthMark]) = false := by
    cases h : v == [cLengthMark] with
    | false => rfl
    | true => rw [beq_iff_eq.mp h] at hv; exact absurd rfl (hv cLengthMark rfl).2.2
  have hstep : stepBuf cfg rbuf v = pushStr rbuf v := by
    simp only [stepBuf, h1, h2, Bool.false_eq_true, if_false]
    cases hh : v.head? with
    | none => rfl
    | some c =>
      obtain ⟨k1, k2, k3⟩ := hv c hh
      simp [k1, k2, k3]
  refine ⟨?_, hstep⟩
  rw [hstep, applyFirst_rules]
  simp only [r1, r2, r3, r4, r5, r6, r7, hs, h1, h6, h7, zoFolaValue_eq, lit_hasanta, lit_lengthMark, append, pushStr]
  simp

/-- the key values for which the documented rules (which speak of the value *as a whole*) and the
    code (which looks at the value's *first code point* only) agree: a single code point, the
    zo-fola value, or a value that does not start with a vowel sign, hasanta or the length mark -/
def CoveredValue (v : Str) : Prop :=
  v.length = 1 ∨ v = zoFola ∨ ∀ c, v.head? = some c → isKar c = false ∧ c ≠ cHasanta ∧ c ≠ cLengthMark

/-- coverage is decidable (so concrete instances are closed by `decide`) -/
instance (v : Str) : Decidable (CoveredValue v) := by
  unfold CoveredValue
  cases v with
  | nil => exact isTrue (Or.inr (Or.inr (fun c h => by simp at h)))
  | cons c t =>
    have : Decidable (∀ c', (c :: t).head? = some c' → isKar c' = false ∧ c' ≠ cHasanta ∧ c' ≠ cLengthMark) :=
      decidable_of_iff (isKar c = false ∧ c ≠ cHasanta ∧ c ≠ cLengthMark)
        ⟨fun h c' hc' => by simp at hc'; subst hc'; exact h, fun h => h c rfl⟩
    exact inferInstance

/-- the buffer rewrite of the code is the rule list, for every covered value but the old-reph key -/
theorem stepBuf_eq_rules (cfg : Cfg) (rbuf v : Str) (hc : CoveredValue v)
    (hr : cfg.fixedOldReph = false ∨ v ≠ rephValue) :
    stepBuf cfg rbuf v = applyFirst rules cfg rbuf v := by
  by_cases hz : v = zoFola
  · subst hz; exact zoFola_eq_rules cfg rbuf
  match v, hc, hr, hz with
  | [], _, hr, hz => exact (other_eq_rules cfg rbuf [] hz hr (fun c h => by simp at h)).1
  | [c], _, hr, hz =>
    by_cases hk : isKar c = true
    · have h1 : ([c] == zoFola) = false := by simp [zoFola]
      have h2 : ([c] == rephValue) = false := by simp [rephValue]
      rw [← karTail_eq_rules cfg rbuf c hk]
      simp [stepBuf, h1, h2, hk]
    by_cases hh : c = cHasanta
    · subst hh; exact hasanta_eq_rules cfg rbuf
    by_cases hl : c = cLengthMark
    · subst hl; exact lengthMark_eq_rules cfg rbuf
    exact (other_eq_rules cfg rbuf [c] hz hr (fun c' h => by
      simp at h; subst h; exact ⟨by simpa using hk, hh, hl⟩)).1
  | c :: d :: t, hc, hr, hz =>
    rcases hc with hc | hc | hc
    · simp at hc
    · exact absurd hc hz
    · exact (other_eq_rules cfg rbuf _ hz hr hc).1

/-! ### locality: only the last two code points matter -/

/-- what a vowel sign `k` does after a non-empty text ending in `a`: (code points popped, code
    points pushed — right-most first) -/
def karEffect (cfg : Cfg) (a k : Char) : Nat × Str :=
  if cfg.fixedVowel && (isVowel a || isMark a) then
    match karToVowel k with
    | some w => (0, [w])
    | none => (0, [])
  else if cfg.fixedChandra && a == cChandra then (1, [cChandra, k])
  else if a == cHasanta then
    match karToVowel k with
    | some w => (1, [w])
    | none => (0, [])
  else if cfg.fixedKar && isPureConsonant a then (0, if isLigatureKar k then [k, cZWNJ] else [k])
  else (0, [k])

/-- the effect of a key value on a text of at least two code points, as a function of the last
    code point `a`, the one before `b`, the value and the options only: (code points popped — 0 or
    1 —, code points pushed, right-most first).  Old vowel-sign order off, old-reph key excluded. -/
def localEffect (cfg : Cfg) (a b : Char) (v : Str) : Nat × Str :=
  if v == zoFola then (0, v.reverse ++ (if a == cR && b != cHasanta then [cZWJ] else []))
  else
    match v.head? with
    | none => (0, [])
    | some ch =>
      if isKar ch then karEffect cfg a ch
      else if ch == cHasanta && a == cHasanta then (0, [cZWNJ])
      else if ch == cLengthMark && a == cHasanta then (1, [cOU])
      else (0, v.reverse)

/-- a sign pops at most one code point -/
theorem karEffect_le (cfg : Cfg) (a k : Char) : (karEffect cfg a k).1 ≤ 1 := by
  unfold karEffect
  (repeat' split) <;> simp

/-- a key value pops at most one code point -/
theorem localEffect_le (cfg : Cfg) (a b : Char) (v : Str) : (localEffect cfg a b v).1 ≤ 1 := by
  unfold localEffect
  (repeat' split) <;> first | exact karEffect_le _ _ _ | simp

/-- the sign branch only looks at the last code point -/
theorem karTail_local (cfg : Cfg) (a k : Char) (rest : Str) :
    karTail cfg (a :: rest) a k = (karEffect cfg a k).2 ++ (a :: rest).drop (karEffect cfg a k).1 := by
  have hp : autoVowelPos (a :: rest) a = (isVowel a || isMark a) := by simp [autoVowelPos]
  rw [karTail, karEffect, hp]
  by_cases c1 : (cfg.fixedVowel && (isVowel a || isMark a)) = true
  · simp only [c1, ↓reduceIte]; cases karToVowel k <;> rfl
  simp only [c1]
  by_cases c2 : (cfg.fixedChandra && a == cChandra) = true
  · simp only [c2, ↓reduceIte]; rfl
  simp only [c2]
  by_cases c3 : (a == cHasanta) = true
  · simp only [c3, ↓reduceIte]; cases karToVowel k <;> simp [beq_iff_eq.mp c3]
  simp only [c3]
  by_cases c4 : (cfg.fixedKar && isPureConsonant a) = true
  · simp only [c4, ↓reduceIte]; cases isLigatureKar k <;> simp
  simp only [c4]; rfl

/-- the rewrite of a text of ≥ 2 code points pops `(localEffect …).1` code points and pushes
    `(localEffect …).2`, whatever lies further left -/
theorem stepBuf_local (cfg : Cfg) (a b : Char) (rest v : Str)
    (hr : cfg.fixedOldReph = false ∨ v ≠ rephValue) :
    stepBuf cfg (a :: b :: rest) v =
      (localEffect cfg a b v).2 ++ (a :: b :: rest).drop (localEffect cfg a b v).1 := by
  have h2 : (v == rephValue && cfg.fixedOldReph) = false := by
    rcases hr with hr | hr
    · simp [hr]
    · simp [hr]
  simp only [stepBuf, localEffect, h2, Bool.false_eq_true, if_false, List.headD_cons, List.drop_succ_cons, List.drop_zero]
  by_cases hz : (v == zoFola) = true
  · simp only [hz, ↓reduceIte, pushStr]
    by_cases c : (a == cR && b != cHasanta) = true
    · simp only [c, ↓reduceIte]; simp
    · simp only [c]; simp
  simp only [hz]
  match v with
  | [] => simp [pushStr]
  | ch :: t =>
    simp only [List.head?_cons]
    by_cases c1 : isKar ch = true
    · simp only [c1, ↓reduceIte]; exact karTail_local cfg a ch (b :: rest)
    simp only [c1]
    by_cases c2 : (ch == cHasanta && a == cHasanta) = true
    · simp only [c2, ↓reduceIte]; simp
    simp only [c2]
    by_cases c3 : (ch == cLengthMark && a == cHasanta) = true
    · simp only [c3, ↓reduceIte]; simp
    simp only [c3]; simp [pushStr]

/-! ### which rule fires -/

/-- chandrabindu / hasanta / ZWJ / ZWNJ are in no other class the rules test (`*_facts`) -/
theorem chandra_facts : isVowel cChandra = false ∧ isMark cChandra = false ∧ isPureConsonant cChandra = false ∧
    (cChandra == cHasanta) = false ∧ (cChandra == cR) = false := by decide
theorem hasanta_facts : isVowel cHasanta = false ∧ isMark cHasanta = false ∧ isPureConsonant cHasanta = false ∧
    (cHasanta == cChandra) = false ∧ (cHasanta == cR) = false := by decide
theorem zwj_facts : isVowel cZWJ = false ∧ isMark cZWJ = false ∧ isPureConsonant cZWJ = false ∧
    (cZWJ == cChandra) = false ∧ (cZWJ == cHasanta) = false ∧ (cZWJ == cR) = false := by decide
theorem zwnj_facts : isVowel cZWNJ = false ∧ isMark cZWNJ = false ∧ isPureConsonant cZWNJ = false ∧
    (cZWNJ == cChandra) = false ∧ (cZWNJ == cHasanta) = false ∧ (cZWNJ == cR) = false := by decide

/-- the guards of all seven rules, unfolded over the regenerated constants -/
theorem guards_unfold (cfg : Cfg) (rbuf v : Str) :
    r1.guard cfg rbuf v = (v == zoFola && lastIs (· == cR) rbuf && !beforeLastIs (· == cHasanta) rbuf) ∧
    r2.guard cfg rbuf v = (cfg.fixedVowel && (signOf v).isSome && (rbuf.isEmpty || lastIs isVowel rbuf || lastIs isMark rbuf)) ∧
    r3.guard cfg rbuf v = (cfg.fixedChandra && (signOf v).isSome && lastIs (· == cChandra) rbuf) ∧
    r4.guard cfg rbuf v = ((signOf v).isSome && lastIs (· == cHasanta) rbuf) ∧
    r5.guard cfg rbuf v = (cfg.fixedKar && (signOf v).any isLigatureKar && lastIs isPureConsonant rbuf) ∧
    r6.guard cfg rbuf v = (v == [cHasanta] && lastIs (· == cHasanta) rbuf) ∧
    r7.guard cfg rbuf v = (v == [cLengthMark] && lastIs (· == cHasanta) rbuf) := by
  simp only [r1, r2, r3, r4, r5, r6, r7, zoFolaValue_eq, lit_R, lit_hasanta, lit_chandra, lit_lengthMark,
    vowelFormingPosition, and_self]

/-- the name of the first rule that applies, `none` when the value is just appended -/
def firedRule (cfg : Cfg) (rbuf v : Str) : Option String := (firstRule rules cfg rbuf v).map (·.name)

/-- `firedRule` as an `if`-chain -/
theorem firedRule_eq (cfg : Cfg) (rbuf v : Str) :
    firedRule cfg rbuf v =
      if r1.guard cfg rbuf v then some r1.name else if r2.guard cfg rbuf v then some r2.name
      else if r3.guard cfg rbuf v then some r3.name else if r4.guard cfg rbuf v then some r4.name
      else if r5.guard cfg rbuf v then some r5.name else if r6.guard cfg rbuf v then some r6.name
      else if r7.guard cfg rbuf v then some r7.name else none := by
  simp only [firedRule, firstRule, rules, List.find?]
  (repeat' split) <;> simp_all

/-- a lone sign is a sign value -/
theorem signOf_kar (k : Char) (hk : isKar k = true) : signOf [k] = some k := by simp [signOf, hk]

/-- a lone sign is neither zo-fola, a lone hasanta nor a lone length mark -/
theorem kar_value_facts (k : Char) (hk : isKar k = true) :
    ([k] == zoFola) = false ∧ ([k] == [cHasanta]) = false ∧ ([k] == [cLengthMark]) = false := by
  refine ⟨by simp [zoFola], ?_, ?_⟩
  · cases h : [k] == [cHasanta] with
    | false => rfl
    | true => simp at h; rw [h, isKar_hasanta] at hk; cases hk
  · cases h : [k] == [cLengthMark] with
    | false => rfl
    | true => simp at h; rw [h, isKar_lengthMark] at hk; cases hk

/-! ### the guards are mutually exclusive -/

/-- disjoint tables: a member of one is not a member of the other -/
theorem not_contains_of_all {l1 l2 : List Nat} (h : l1.all (fun n => !l2.contains n) = true) {n : Nat}
    (h1 : l1.contains n = true) : l2.contains n = false := by
  simp only [List.all_eq_true, Bool.not_eq_eq_eq_not, Bool.not_true] at h
  exact h n (by simpa using h1)

/-- no code point is both a vowel (or vowel sign) and a pure consonant -/
theorem vowel_not_consonant (a : Char) (h : isVowel a = true) : isPureConsonant a = false :=
  not_contains_of_all (l1 := Gen.vowelSet) (l2 := Gen.pureConsonantSet) (by decide) h

/-- no code point is both punctuation (`MARKS`) and a pure consonant -/
theorem mark_not_consonant (a : Char) (h : isMark a = true) : isPureConsonant a = false :=
  not_contains_of_all (l1 := Gen.marksSet) (l2 := Gen.pureConsonantSet) (by decide) h

/-- the positions tested by R2, R3, R4/R6/R7 and R5 exclude one another -/
theorem position_exclusive (a : Char) :
    ((isVowel a || isMark a) = true → (a == cChandra) = false ∧ (a == cHasanta) = false ∧ isPureConsonant a = false) ∧
    ((a == cChandra) = true → (a == cHasanta) = false ∧ isPureConsonant a = false) ∧
    ((a == cHasanta) = true → isPureConsonant a = false) := by
  refine ⟨fun h => ⟨?_, ?_, ?_⟩, fun h => ?_, fun h => ?_⟩
  · cases hc : a == cChandra with
    | false => rfl
    | true => rw [beq_iff_eq.mp hc, chandra_facts.1, chandra_facts.2.1] at h; cases h
  · cases hc : a == cHasanta with
    | false => rfl
    | true => rw [beq_iff_eq.mp hc, hasanta_facts.1, hasanta_facts.2.1] at h; cases h
  · rcases Bool.or_eq_true _ _ ▸ h with h | h
    · exact vowel_not_consonant a h
    · exact mark_not_consonant a h
  · rw [beq_iff_eq.mp h]; exact ⟨chandra_facts.2.2.2.1, chandra_facts.2.2.1⟩
  · rw [beq_iff_eq.mp h]; exact hasanta_facts.2.2.1

/-- at most one of seven booleans, given pairwise exclusion in one direction -/
theorem atMostOne7 (b1 b2 b3 b4 b5 b6 b7 : Bool)
    (h1 : b1 = true → b2 = false ∧ b3 = false ∧ b4 = false ∧ b5 = false ∧ b6 = false ∧ b7 = false)
    (h2 : b2 = true → b3 = false ∧ b4 = false ∧ b5 = false ∧ b6 = false ∧ b7 = false)
    (h3 : b3 = true → b4 = false ∧ b5 = false ∧ b6 = false ∧ b7 = false)
    (h4 : b4 = true → b5 = false ∧ b6 = false ∧ b7 = false)
    (h5 : b5 = true → b6 = false ∧ b7 = false)
    (h6 : b6 = true → b7 = false) :
    ([b1, b2, b3, b4, b5, b6, b7].filter id).length ≤ 1 := by
  revert h1 h2 h3 h4 h5 h6
  cases b1 <;> cases b2 <;> cases b3 <;> cases b4 <;> cases b5 <;> cases b6 <;> cases b7 <;> simp

/-- counting the elements that satisfy `p` = counting the `true`s of `map p` -/
theorem length_filter_map {α : Type} (p : α → Bool) (l : List α) :
    (l.filter p).length = ((l.map p).filter id).length := by
  induction l with
  | nil => rfl
  | cons x xs ih => cases h : p x <;> simp [List.filter, h, ih]

/-- a sign value is exactly one code point of `is_kar` -/
theorem signOf_some {v : Str} {k : Char} (h : signOf v = some k) : v = [k] ∧ isKar k = true := by
  match v, h with
  | [], h => simp [signOf] at h
  | [c], h =>
    simp only [signOf] at h
    split at h
    · rename_i hc; simp at h; subst h; exact ⟨rfl, hc⟩
    · simp at h
  | _ :: _ :: _, h => simp [signOf] at h

/-- for every configuration, text and value, AT MOST ONE guard of the rule list holds: the
    priority order of the list is immaterial (given the regenerated character classes) -/
theorem guards_exclusive (cfg : Cfg) (rbuf v : Str) :
    (rules.filter (fun r => r.guard cfg rbuf v)).length ≤ 1 := by
  rw [length_filter_map]
  show ([r1.guard cfg rbuf v, r2.guard cfg rbuf v, r3.guard cfg rbuf v, r4.guard cfg rbuf v,
    r5.guard cfg rbuf v, r6.guard cfg rbuf v, r7.guard cfg rbuf v].filter id).length ≤ 1
  obtain ⟨g1, g2, g3, g4, g5, g6, g7⟩ := guards_unfold cfg rbuf v
  rw [g1, g2, g3, g4, g5, g6, g7]
  have z6 : (zoFola == [cHasanta]) = false := by decide
  have z7 : (zoFola == [cLengthMark]) = false := by decide
  have z8 : ([cHasanta] == [cLengthMark]) = false := by decide
  cases hs : signOf v with
  | none =>
    apply atMostOne7 <;> intro h <;> simp_all
  | some k =>
    obtain ⟨rfl, hk⟩ := signOf_some hs
    obtain ⟨k1, k2, k3⟩ := kar_value_facts k hk
    cases rbuf with
    | nil => apply atMostOne7 <;> intro h <;> simp_all [lastIs]
    | cons a rest =>
      obtain ⟨p1, p2, p3⟩ := position_exclusive a
      simp only [k1, k2, k3, lastIs, Option.isSome_some, Bool.and_true, Bool.false_and, List.isEmpty_cons, Bool.false_or]
      apply atMostOne7 <;> intro h <;> simp_all

/-! ### the coverage restriction is tight -/

/-- for EVERY value that is not covered, code and rule list differ on the text `্` (all options
    off): the code keeps at most two code points, the rules append the whole value -/
theorem stepBuf_ne_rules_of_not_covered (v : Str) (h : ¬ CoveredValue v) :
    stepBuf {} [cHasanta] v ≠ applyFirst rules {} [cHasanta] v := by
  match v, h with
  | [], h => exact absurd (Or.inr (Or.inr (fun c hc => by simp at hc))) h
  | [c], h => exact absurd (Or.inl rfl) h
  | c :: d :: t, h =>
    have hz : (c :: d :: t) ≠ zoFola := fun e => h (Or.inr (Or.inl e))
    have hc : ¬ (isKar c = false ∧ c ≠ cHasanta ∧ c ≠ cLengthMark) := fun e =>
      h (Or.inr (Or.inr (fun c' hc' => by simp at hc'; subst hc'; exact e)))
    have hspec : applyFirst rules {} [cHasanta] (c :: d :: t) = (c :: d :: t).reverse ++ [cHasanta] := by
      obtain ⟨g1, g2, g3, g4, g5, g6, g7⟩ := guards_unfold {} [cHasanta] (c :: d :: t)
      rw [applyFirst_rules, g1, g2, g3, g4, g5, g6, g7]
      simp [signOf, hz, append]
    have hcode : (stepBuf {} [cHasanta] (c :: d :: t)).length ≤ 2 := by
      have h1 : ((c :: d :: t) == zoFola) = false := by simpa using hz
      simp only [stepBuf, h1, Bool.and_false, Bool.false_eq_true, if_false, List.head?_cons, List.headD_cons]
      by_cases k : isKar c = true
      · simp only [k, if_true, karTail, autoVowelPos]
        cases karToVowel c <;> simp
      · have k' : isKar c = false := by simpa using k
        by_cases k2 : c = cHasanta
        · subst k2; simp [isKar_hasanta]
        · by_cases k3 : c = cLengthMark
          · subst k3
            have : ¬ cLengthMark = cHasanta := by decide
            simp [isKar_lengthMark, this]
          · exact absurd ⟨k', k2, k3⟩ hc
    intro e
    rw [e, hspec] at hcode
    simp at hcode

/-! ### what the code does with the values that are not covered -/

/-- a value of ≥ 2 code points (not zo-fola) that starts with a vowel sign — or with hasanta / the
    length mark when the text ends in hasanta — is treated as its first code point alone: the
    rest of the value is lost -/
theorem stepBuf_cut (cfg : Cfg) (rbuf : Str) (c d : Char) (t : Str) (hz : c :: d :: t ≠ zoFola)
    (h : isKar c = true ∨ ((c = cHasanta ∨ c = cLengthMark) ∧ rbuf.head? = some cHasanta)) :
    stepBuf cfg rbuf (c :: d :: t) = stepBuf cfg rbuf [c] := by
  have h1 : ((c :: d :: t) == zoFola) = false := by simpa using hz
  have h1' : ([c] == zoFola) = false := by simp [zoFola]
  have h2' : ([c] == rephValue) = false := by simp [rephValue]
  have hR : isKar cR = false ∧ ¬ cR = cHasanta ∧ ¬ cR = cLengthMark := by decide
  have h2 : ((c :: d :: t) == rephValue) = false := by
    cases e : (c :: d :: t) == rephValue with
    | false => rfl
    | true =>
      have : c = cR := by
        have := beq_iff_eq.mp e
        simp [rephValue] at this; exact this.1
      subst this
      rcases h with h | ⟨h | h, -⟩
      · rw [hR.1] at h; cases h
      · exact absurd h hR.2.1
      · exact absurd h hR.2.2
  simp only [stepBuf, h1, h1', h2, h2', Bool.false_and, Bool.false_eq_true, if_false, List.head?_cons]
  rcases h with h | ⟨h, hl⟩
  · simp [h]
  · rcases h with h | h
    · subst h; simp [hl, isKar_hasanta]
    · subst h
      have : ¬ cLengthMark = cHasanta := by decide
      simp [hl, isKar_lengthMark, this]

/-- … and when the text does not end in hasanta, a value starting with hasanta or the length
    mark is appended whole (this is where ro-fola `্র`, bo-fola … normally end up) -/
theorem stepBuf_uncovered_append (cfg : Cfg) (rbuf : Str) (c d : Char) (t : Str) (hz : c :: d :: t ≠ zoFola)
    (hc : c = cHasanta ∨ c = cLengthMark) (hl : rbuf.head? ≠ some cHasanta) :
    stepBuf cfg rbuf (c :: d :: t) = (c :: d :: t).reverse ++ rbuf := by
  have h1 : ((c :: d :: t) == zoFola) = false := by simpa using hz
  have hk : isKar c = false := by rcases hc with rfl | rfl <;> decide
  have h2 : ((c :: d :: t) == rephValue) = false := by
    have : ¬ c = cR := by rcases hc with rfl | rfl <;> decide
    simp [rephValue, this]
  have hr : (rbuf.headD '\x00' == cHasanta) = false := by
    cases rbuf with
    | nil => exact nul_facts.2.2.2.2.1
    | cons a r => simpa using hl
  simp only [stepBuf, h1, h2, hk, hr, Bool.false_and, Bool.and_false, Bool.false_eq_true, if_false, List.head?_cons,
    pushStr]

end Riti
