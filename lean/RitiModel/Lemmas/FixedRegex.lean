/-
Lemmas/FixedRegex — the pattern `^clean[class]{0,need}$` of the fixed-layout dictionary look-up (src/fixed/search.rs
`search_dictionary`) as an expression of `Model/Regex`, and the languages of its building blocks:

* `rxLit t`     — the literal text `t` (a concatenation of one-character expressions);
* `rxUpTo a n`  — the bounded repetition `a{0,n}`, unfolded into `n` nested optional groups `(a(a(…)?)?)?`
                  (`Rx` has no repetition operator; this unfolding is the definition of `{0,n}`);
* `rxFixed clean need` — `clean` followed by at most `need` characters of the class.

Helpers only; the statements about the look-up are in `Props/FixedRegex`.
-/
import RitiModel.Model.Fixed
import RitiModel.Model.Regex
import RitiModel.Lemmas.Regex
namespace Riti
open Gen

/-! ### the expression -/

/-- a literal text: one `chr` per character -/
def rxLit : List Char → Rx
  | [] => .eps
  | c :: cs => .cat (.chr c) (rxLit cs)

/-- `a{0,n}`: at most `n` consecutive matches of `a` -/
def rxUpTo (a : Rx) : Nat → Rx
  | 0 => .eps
  | n + 1 => .opt (.cat a (rxUpTo a n))

/-- the characters between the brackets of the pattern (regenerated from the Rust source as code points) -/
def regexClassChars : List Char := Gen.regexClassSet.map Char.ofNat

/-- `^clean[class]{0,need}$` (whole-string matching: the anchors are implicit in `Rx.matches` / `Lang`) -/
def rxFixed (clean : Str) (need : Nat) : Rx := .cat (rxLit clean) (rxUpTo (.cls regexClassChars) need)

/-- the characters the `regex` crate treats specially in a pattern (`regex_syntax::is_meta_character`):
    `\ . + * ? ( ) | [ ] { } ^ $ # & - ~` -/
def regexCrateMeta (c : Char) : Bool :=
  c = '\\' || c = '.' || c = '+' || c = '*' || c = '?' || c = '(' || c = ')' || c = '|' || c = '[' || c = ']' ||
  c = '{' || c = '}' || c = '^' || c = '$' || c = '#' || c = '&' || c = '-' || c = '~'

/-! ### list facts -/

/-- cutting a text into its characters and gluing them back gives the text -/
theorem flatten_map_singleton {α : Type} : ∀ (s : List α), (s.map (fun c => [c])).flatten = s
  | [] => rfl
  | c :: s => by simp [flatten_map_singleton s]

/-- a concatenation of one-character pieces taken from `cs`: as long as the number of pieces, all characters in `cs` -/
theorem flatten_singletons {cs : List Char} : ∀ (parts : List (List Char)),
    (∀ p ∈ parts, ∃ x, x ∈ cs ∧ p = [x]) → parts.flatten.length = parts.length ∧ ∀ c ∈ parts.flatten, c ∈ cs
  | [], _ => by simp
  | p :: ps, h => by
    obtain ⟨x, hx, rfl⟩ := h p (List.mem_cons_self ..)
    obtain ⟨h1, h2⟩ := flatten_singletons ps (fun q hq => h q (List.mem_cons_of_mem _ hq))
    refine ⟨by simp [h1], ?_⟩
    intro c hc
    simp only [List.flatten_cons, List.singleton_append, List.mem_cons] at hc
    rcases hc with rfl | hc
    · exact hx
    · exact h2 c hc

/-! ### the class as characters -/

/-- every code point of the generated class is a Unicode scalar value: turning it into a `Char` loses nothing -/
theorem regexClassSet_valid : ∀ n ∈ regexClassSet, (Char.ofNat n).toNat = n := by decide

/-- a character is recovered from its code point -/
theorem char_ofNat_toNat (c : Char) : Char.ofNat c.toNat = c := by
  have hv : c.toNat.isValidChar := c.valid
  unfold Char.ofNat
  rw [dif_pos hv]
  rfl

/-! ### the model's reader on a text without special characters -/

/-- a character that is not special is none of the characters the reader branches on -/
theorem not_rxSpecial {c : Char} (h : rxSpecial c = false) :
    c ≠ '(' ∧ c ≠ ')' ∧ c ≠ '|' ∧ c ≠ '?' ∧ c ≠ '[' := by
  refine ⟨?_, ?_, ?_, ?_, ?_⟩ <;> (rintro rfl; revert h; decide)

/-- no postfix `?` is consumed in front of a text without special characters -/
theorem applyOpts_literal (a : Rx) {cs : List Char} (h : ∀ c ∈ cs, rxSpecial c = false) : applyOpts a cs = (a, cs) := by
  cases cs with
  | nil => rfl
  | cons d r =>
    have := (not_rxSpecial (h d (List.mem_cons_self ..))).2.2.2.1
    simp [applyOpts, this]

/-- the concatenation reader on a text without special characters: one `chr` per character, nothing left unread -/
theorem parseCat_literal : ∀ (t : List Char) (f : Nat), t.length ≤ f → (∀ c ∈ t, rxSpecial c = false) →
    parseCat (f + 1) t = some (rxLit t, [])
  | [], f, _, _ => by simp [parseCat, rxLit]
  | c :: cs, f, hf, h => by
    obtain ⟨f', rfl⟩ : ∃ f', f = f' + 1 := ⟨f - 1, by simp at hf; omega⟩
    have hc := h c (List.mem_cons_self ..)
    obtain ⟨h1, h2, h3, _, h5⟩ := not_rxSpecial hc
    have hcs : ∀ d ∈ cs, rxSpecial d = false := fun d hd => h d (List.mem_cons_of_mem _ hd)
    have ih := parseCat_literal cs f' (by simp at hf; omega) hcs
    rw [parseCat]
    simp only [h2, h3, or_self, if_false]
    rw [parseAtom]
    simp only [h1, h5, hc, if_false, Bool.false_eq_true]
    rw [applyOpts_literal (.chr c) hcs]
    simp only [ih, rxLit]

end Riti
