/-
Lemmas/FixedStale — the fixed method's `suggestions` field (the list last built) is dead data
whenever nothing is being composed or suggestions are off: two states that differ only in it
return the same suggestions for every call and stay that way.  Used by C11 (an idle updated
context against a new one).
-/
import RitiModel.Model.Context
namespace Riti

/-- replace the list last built -/
def withSugg (L : List Rank) (x : FState) : FState := { x with suggestions := L }

theorem withSugg_self (x : FState) : withSugg x.suggestions x = x := rfl

theorem withSugg_withSugg (L L' : List Rank) (x : FState) : withSugg L (withSugg L' x) = withSugg L x := rfl

/-- `process_key_value` neither reads nor writes the list -/
theorem pkvBody_stale (recur : FState → FState) (cfg : Cfg) (s : FState) (v : Str) (L : List Rank)
    (hrec : ∀ s', recur (withSugg L s') = withSugg L (recur s')) :
    pkvBody recur cfg (withSugg L s) v = withSugg L (pkvBody recur cfg s v) := by
  rcases s with ⟨rbuf, rtyped, pending, sg⟩
  unfold pkvBody
  simp only [withSugg]
  change _ = withSugg L _
  repeat' (first | rfl | exact hrec _ | (split <;> try simp only [*, ↓reduceIte]))
  all_goals (first | (exact hrec _) | (simp_all [withSugg]; done) | (simp_all [withSugg]; exact hrec ⟨_, _, _, sg⟩))

theorem processKeyValue_stale (cfg : Cfg) (s : FState) (v : Str) (L : List Rank) :
    processKeyValue cfg (withSugg L s) v = withSugg L (processKeyValue cfg s v) := by
  unfold processKeyValue
  apply pkvBody_stale
  intro s'
  apply pkvBody_stale
  intro s''; rfl

theorem fKeyState_stale (layout : Layout) (cfg : Cfg) (s : FState) (key modifier : Nat) (L : List Rank) :
    fKeyState layout cfg (withSugg L s) key modifier = (fKeyState layout cfg s key modifier).map (withSugg L) := by
  unfold fKeyState
  split
  · rfl
  · next value _ =>
    simp only [processKeyValue_stale]
    have e1 : (withSugg L (processKeyValue cfg s value)).rbuf = (processKeyValue cfg s value).rbuf := rfl
    have e2 : (withSugg L (processKeyValue cfg s value)).pending = (processKeyValue cfg s value).pending := rfl
    simp only [e1, e2]
    split
    · rfl
    · split
      · split <;> rfl
      · rfl

theorem fBackspaceState_stale (s : FState) (ctrl : Bool) (L : List Rank) :
    fBackspaceState (withSugg L s) ctrl = (withSugg L (fBackspaceState s ctrl).1, (fBackspaceState s ctrl).2) := by
  rcases s with ⟨rbuf, rtyped, pending, sg⟩
  cases ctrl <;> cases pending <;> cases rbuf with
  | nil => simp [fBackspaceState, withSugg]
  | cons c cs => cases cs <;> simp [fBackspaceState, withSugg]

/-- a backspace that returns the empty suggestion leaves nothing composed -/
theorem fBackspaceState_false_rbuf (s : FState) (ctrl : Bool) (h : (fBackspaceState s ctrl).2 = false) :
    (fBackspaceState s ctrl).1.rbuf = [] := by
  rcases s with ⟨rbuf, rtyped, pending, sg⟩
  cases ctrl <;> cases pending <;> cases rbuf with
  | nil => simp [fBackspaceState]
  | cons c cs => cases cs <;> simp [fBackspaceState] at h ⊢

/-- `a` is `b` up to the list last built, and the list agrees whenever it can be read
    (suggestions on and something composed) -/
def Stale (cfg : Cfg) (a b : FState) : Prop :=
  (∃ L, a = withSugg L b) ∧ (cfg.fixedSuggestion = true → b.rbuf ≠ [] → a = b)

theorem Stale.refl (cfg : Cfg) (a : FState) : Stale cfg a a := ⟨⟨a.suggestions, rfl⟩, fun _ _ => rfl⟩

/-- an idle state against the initial state -/
theorem stale_idle (cfg : Cfg) (s : FState) : Stale cfg (fClear s) {} := ⟨⟨s.suggestions, rfl⟩, fun _ h => absurd rfl h⟩

theorem fCreateSuggestion_stale (w : World) (cfg : Cfg) (b : FState) (L : List Rank) :
    (fCreateSuggestion w cfg (withSugg L b)).2 = (fCreateSuggestion w cfg b).2 ∧
    Stale cfg (fCreateSuggestion w cfg (withSugg L b)).1 (fCreateSuggestion w cfg b).1 := by
  unfold fCreateSuggestion
  by_cases hc : cfg.fixedSuggestion = true
  · simp only [hc, if_true]
    exact ⟨rfl, Stale.refl _ _⟩
  · simp only [hc]
    exact ⟨rfl, ⟨L, rfl⟩, fun h => absurd h hc⟩

/-- a key: same suggestion, and the states stay related -/
theorem fKey_stale (w : World) (l : Layout) (cfg : Cfg) (a b : FState) (key modifier : Nat) (h : Stale cfg a b) :
    (fKey w l cfg a key modifier).2 = (fKey w l cfg b key modifier).2 ∧
    Stale cfg (fKey w l cfg a key modifier).1 (fKey w l cfg b key modifier).1 := by
  obtain ⟨⟨L, hL⟩, heq⟩ := h
  subst hL
  unfold fKey
  rw [fKeyState_stale]
  cases hk : fKeyState l cfg b key modifier with
  | some b' =>
    simp only [Option.map_some]
    have e1 : (withSugg L b').rbuf = b'.rbuf := rfl
    have e2 : (withSugg L b').pending = b'.pending := rfl
    simp only [e1, e2]
    split
    · rename_i hidle
      refine ⟨rfl, ⟨L, rfl⟩, fun _ hne => ?_⟩
      simp only [Bool.and_eq_true, List.isEmpty_iff] at hidle
      exact absurd hidle.1 hne
    · exact fCreateSuggestion_stale w cfg b' L
  | none =>
    simp only [Option.map_none]
    refine ⟨?_, ⟨L, rfl⟩, heq⟩
    simp only [fCurrentSuggestion]
    by_cases hr : b.rbuf = []
    · have : (withSugg L b).rbuf = [] := hr
      simp [hr, this]
    · by_cases hc : cfg.fixedSuggestion = true
      · rw [heq hc hr]
      · have : (withSugg L b).rbuf = b.rbuf := rfl
        simp [hc, this, fLonely, FState.buffer]

/-- a backspace: same suggestion, and the states stay related -/
theorem fBackspace_stale (w : World) (cfg : Cfg) (a b : FState) (ctrl : Bool) (h : Stale cfg a b) :
    (fBackspace w cfg a ctrl).2 = (fBackspace w cfg b ctrl).2 ∧
    Stale cfg (fBackspace w cfg a ctrl).1 (fBackspace w cfg b ctrl).1 := by
  obtain ⟨⟨L, hL⟩, heq⟩ := h
  subst hL
  unfold fBackspace
  rw [fBackspaceState_stale]
  by_cases hmk : (fBackspaceState b ctrl).2 = true
  · simp only [hmk, if_true]
    exact fCreateSuggestion_stale w cfg _ L
  · have hmk' : (fBackspaceState b ctrl).2 = false := by simpa using hmk
    simp only [hmk', Bool.false_eq_true, if_false]
    exact ⟨trivial, ⟨L, rfl⟩, fun _ hne => absurd (fBackspaceState_false_rbuf b ctrl hmk') hne⟩

/-- commit / finish: both end idle -/
theorem fClear_stale (cfg : Cfg) (a b : FState) (h : Stale cfg a b) : Stale cfg (fClear a) (fClear b) := by
  obtain ⟨⟨L, hL⟩, _⟩ := h
  subst hL
  exact ⟨⟨L, rfl⟩, fun _ hne => absurd rfl hne⟩

/-- the relation survives a change of configuration made while idle -/
theorem stale_cfg_idle (cfg cfg' : Cfg) (a b : FState) (h : Stale cfg a b) (hidle : b.rbuf = []) : Stale cfg' a b :=
  ⟨h.1, fun _ hne => absurd hidle hne⟩

theorem stale_ongoing (cfg : Cfg) (a b : FState) (h : Stale cfg a b) : fOngoing a = fOngoing b := by
  obtain ⟨⟨L, hL⟩, _⟩ := h
  subst hL; rfl

end Riti
