/-
Lemmas/FixedSuggest — the candidate list of the fixed method (`create_dictionary_suggestion`):
shape of `fixedBase` / `fixedEmoji` / `fixedCands`, what any `sort_unstable`-like ordering keeps,
and a concrete ordering (`keySort`) showing that the ordering contract is satisfiable.
Used by C15 and C16.
-/
import RitiModel.Model.Context
import RitiModel.Lemmas.Rank
import RitiModel.Lemmas.Phonetic
namespace Riti
open Gen

/-! ### the ordering contract -/

/-- what `sort_unstable` guarantees: a permutation of the input in which no item is followed by
    a strictly smaller one.  Order among equal items is left open. -/
def IsSortPerm (sorter : List Rank → List Rank) : Prop :=
  ∀ l, (sorter l).Perm l ∧ (sorter l).Pairwise (fun a b => a.le b = true)

/-! ### wrapping -/

/-- what `wrapAll` does to one item -/
def wrapOne (parts : Parts) (r : Rank) : Rank :=
  if !parts.pre.isEmpty || !parts.trail.isEmpty then r.setText (wrapText parts.pre parts.trail r.text) else r

theorem wrapAll_eq_map (parts : Parts) (l : List Rank) : wrapAll parts l = l.map (wrapOne parts) := by
  unfold wrapAll wrapOne
  split <;> simp

@[simp] theorem wrapText_nil (t : Str) : wrapText [] [] t = t := by simp [wrapText]

@[simp] theorem wrapOne_variant (parts : Parts) (r : Rank) : (wrapOne parts r).variant = r.variant := by
  unfold wrapOne; split <;> simp

@[simp] theorem wrapOne_num (parts : Parts) (r : Rank) : (wrapOne parts r).num = r.num := by
  unfold wrapOne; split <;> simp

/-- wrapping with two empty parts changes nothing, so the text is always `pre ++ text ++ trail` -/
@[simp] theorem wrapOne_text (parts : Parts) (r : Rank) :
    (wrapOne parts r).text = wrapText parts.pre parts.trail r.text := by
  unfold wrapOne
  split
  · simp
  · rename_i h
    have h1 : parts.pre = [] := by
      cases hp : parts.pre with
      | nil => rfl
      | cons a b => simp [hp] at h
    have h2 : parts.trail = [] := by
      cases hp : parts.trail with
      | nil => rfl
      | cons a b => simp [hp] at h
    simp [h1, h2]

/-! ### `dedup()` -/

/-- `dedup()` keeps the first item and only ever removes items -/
theorem dedupAdjacent_cons (x : Rank) (l : List Rank) :
    ∃ t, dedupAdjacent (x :: l) = x :: t ∧ t.Sublist l := by
  induction l generalizing x with
  | nil => exact ⟨[], by simp [dedupAdjacent]⟩
  | cons y ys ih =>
    simp only [dedupAdjacent]
    split
    · obtain ⟨t, ht, hs⟩ := ih x
      exact ⟨t, ht, hs.trans (List.sublist_cons_self y ys)⟩
    · obtain ⟨t, ht, hs⟩ := ih y
      exact ⟨y :: t, by rw [ht], hs.cons_cons y⟩

theorem dedupAdjacent_sublist (l : List Rank) : (dedupAdjacent l).Sublist l := by
  cases l with
  | nil => simp [dedupAdjacent]
  | cons x xs =>
    obtain ⟨t, ht, hs⟩ := dedupAdjacent_cons x xs
    rw [ht]; exact hs.cons_cons x

/-! ### the split loses nothing -/

/-- the three parts of `split`, put together again, are the input -/
theorem split_parts_append (b : Str) (ic : Bool) :
    (split b ic).pre ++ (split b ic).word ++ (split b ic).trail = b := by
  unfold split
  simp only
  split
  · simp
  · simp only [List.append_assoc, List.take_append_drop, List.takeWhile_append_dropWhile]

/-! ### the candidates -/

theorem variant_newSuggestion (a b : Str) : (Rank.newSuggestion a b).variant = .other := rfl
theorem text_newSuggestion (a b : Str) : (Rank.newSuggestion a b).text = a := rfl

/-- every dictionary hit is an `Other` item -/
theorem fixedHits_variant {env : Env} {cfg : Cfg} {word : Str} {r : Rank} (h : r ∈ fixedHits env cfg word) :
    r.variant = .other := by
  unfold fixedHits at h
  split at h
  · simp at h
  · simp only [List.mem_map] at h
    obtain ⟨w, _, rfl⟩ := h
    rfl

/-- the Bengali part of the candidates: the typed word as `First`, then `Other` items that are
    (wrapped) dictionary hits -/
theorem fixedBase_shape (env : Env) (cfg : Cfg) (parts : Parts) :
    ∃ t : List Rank, t.Sublist (fixedHits env cfg parts.word) ∧
      fixedBase env cfg parts = wrapOne parts (Rank.first parts.word) :: t.map (wrapOne parts) := by
  obtain ⟨t, ht, hs⟩ := dedupAdjacent_cons (Rank.first parts.word) (fixedHits env cfg parts.word)
  exact ⟨t, hs, by simp [fixedBase, wrapAll_eq_map, ht]⟩

/-- every emoji item is an `Emoji` item -/
theorem fixedEmoji_variant {env : Env} {cfg : Cfg} {parts : Parts} {typed : Str} {r : Rank}
    (h : r ∈ fixedEmoji env cfg parts typed) : r.variant = .emoji := by
  unfold fixedEmoji at h
  split at h
  · simp at h
  · split at h
    · simp at h; subst h; rfl
    · split at h
      · simp only [List.mem_map] at h
        obtain ⟨⟨x, n⟩, _, rfl⟩ := h
        rfl
      · simp at h

/-- the candidate list handed to the sort does not depend on the English option -/
theorem fixedCands_cands (env : Env) (cfg : Cfg) (s : FState) :
    (fixedCands env cfg s).cands =
      fixedBase env cfg (fixedParts cfg s.buffer) ++ fixedEmoji env cfg (fixedParts cfg s.buffer) s.typed := by
  unfold fixedCands; simp only; split <;> rfl

theorem fixedCands_keep_english (env : Env) (cfg : Cfg) (s : FState) :
    ((fixedCands env cfg s).keep = 8 ∧ (fixedCands env cfg s).english = some (Rank.last s.typed 1) ∧
        cfg.english = true ∧ s.buffer ≠ s.typed) ∨
    ((fixedCands env cfg s).keep = 9 ∧ (fixedCands env cfg s).english = none ∧
        (cfg.english = false ∨ s.buffer = s.typed)) := by
  unfold fixedCands; simp only
  split
  · rename_i h
    simp at h
    exact Or.inl ⟨rfl, rfl, h.1, h.2⟩
  · rename_i h
    simp at h
    refine Or.inr ⟨rfl, rfl, ?_⟩
    cases he : cfg.english with
    | false => exact Or.inl rfl
    | true => exact Or.inr (h he)

/-- the list stored and shown by `create_dictionary_suggestion` -/
theorem fDictSuggestion_list (w : World) (cfg : Cfg) (s : FState) :
    (fDictSuggestion w cfg s).1.suggestions =
      (w.sorter (fixedCands w.env cfg s).cands).take (fixedCands w.env cfg s).keep ++
        (fixedCands w.env cfg s).english.toList := rfl

/-- no candidate handed to the sort is a `Last` item -/
theorem fixedCands_variant {env : Env} {cfg : Cfg} {s : FState} {r : Rank}
    (h : r ∈ (fixedCands env cfg s).cands) :
    r.variant = .first ∨ r.variant = .other ∨ r.variant = .emoji := by
  rw [fixedCands_cands, List.mem_append] at h
  rcases h with h | h
  · obtain ⟨t, hs, he⟩ := fixedBase_shape env cfg (fixedParts cfg s.buffer)
    rw [he] at h
    simp only [List.mem_cons, List.mem_map] at h
    rcases h with rfl | ⟨r0, hr0, rfl⟩
    · left; rw [wrapOne_variant]; rfl
    · right; left; simpa using fixedHits_variant (hs.subset hr0)
  · right; right; exact fixedEmoji_variant h

/-- an item of the final list is a candidate or the English item -/
theorem mem_fDict_list {w : World} (hs : IsSortPerm w.sorter) {cfg : Cfg} {s : FState} {r : Rank}
    (h : r ∈ (fDictSuggestion w cfg s).1.suggestions) :
    r ∈ (fixedCands w.env cfg s).cands ∨ (fixedCands w.env cfg s).english = some r := by
  rw [fDictSuggestion_list, List.mem_append] at h
  rcases h with h | h
  · exact Or.inl (((hs _).1.mem_iff).mp (List.mem_of_mem_take h))
  · right
    cases he : (fixedCands w.env cfg s).english with
    | none => simp [he] at h
    | some e => simp [he] at h; rw [h]

/-! ### what any admissible ordering keeps -/

theorem natCmp_ne_gt_iff (a b : Nat) : natCmp a b ≠ .gt ↔ a ≤ b := by
  unfold natCmp
  by_cases h1 : a < b
  · simp [h1]; omega
  · by_cases h2 : a = b
    · simp [h2]
    · simp [h1, h2]; omega

/-- a `First` item is strictly smaller than every item of another class -/
theorem le_first_false {a b : Rank} (hb : b.variant = .first) (ha : a.variant ≠ .first) : a.le b = false := by
  cases a <;> cases b <;> simp_all [Rank.le, Rank.cmp, cmpArm, Rank.variant]

/-- between `First`/`Other` items the comparator orders by the stored number -/
theorem num_le_of_le {a b : Rank} (ha : a.variant = .first ∨ a.variant = .other)
    (hb : b.variant = .first ∨ b.variant = .other) (h : a.le b = true) : a.num ≤ b.num := by
  cases a <;> cases b <;> simp_all [Rank.le, Rank.cmp, cmpArm, Rank.variant, Rank.num]
  exact (natCmp_ne_gt_iff _ _).mp h

/-- if exactly one candidate is `First`, every admissible ordering puts it in front -/
theorem sorted_head_first {sorted rest : List Rank} {F : Rank}
    (hp : sorted.Perm (F :: rest)) (hpw : sorted.Pairwise (fun a b => a.le b = true))
    (hF : F.variant = .first) (hrest : ∀ r ∈ rest, r.variant ≠ .first) :
    ∃ tl, sorted = F :: tl := by
  cases sorted with
  | nil => simpa using hp.length_eq
  | cons h tl =>
    by_cases hh : h = F
    · exact ⟨tl, by rw [hh]⟩
    · exfalso
      have hmem : h ∈ F :: rest := hp.mem_iff.mp (by simp)
      have hrv : h.variant ≠ .first := by
        rcases List.mem_cons.mp hmem with h1 | h1
        · exact absurd h1 hh
        · exact hrest h h1
      have hFm : F ∈ h :: tl := hp.mem_iff.mpr (by simp)
      rcases List.mem_cons.mp hFm with h1 | h1
      · exact hh h1.symm
      · have := (List.pairwise_cons.mp hpw).1 F h1
        rw [le_first_false hF hrv] at this
        cases this

/-! ### dictionary hits -/

/-- what a dictionary hit is: a word of the table selected by the first character, extending the
    cleaned typed word by at most `needCharsUpto` characters of the regex class; shown with ZWNJ
    inserted under traditional joining; ranked by its distance to the typed word -/
theorem mem_fixedHits {env : Env} {cfg : Cfg} {word : Str} {r : Rank} (h : r ∈ fixedHits env cfg word) :
    ∃ tbl d, fixedTableName word = some tbl ∧ d ∈ env.fixedTable tbl ∧ cleanString word <+: d ∧
      (d.drop (cleanString word).length).length ≤ needCharsUpto (cleanString word).length ∧
      (∀ c ∈ d.drop (cleanString word).length, inRegexClass c = true) ∧
      r = Rank.newSuggestion (if cfg.fixedKar then tradKarWord d else d) word := by
  unfold fixedHits at h
  split at h
  · simp at h
  · rename_i tbl htbl
    simp only [List.mem_map, List.mem_filter] at h
    obtain ⟨d, ⟨hd, hm⟩, rfl⟩ := h
    simp only [fixedMatches, Bool.and_eq_true, List.all_eq_true, decide_eq_true_eq] at hm
    exact ⟨tbl, d, htbl, hd, List.isPrefixOf_iff_prefix.mp hm.1.1, hm.2, hm.1.2, rfl⟩

/-- the ZWNJs added for traditional joining are the only difference to the dictionary word -/
theorem tradKar_strip (d : Str) :
    (tradKarWord d).filter (fun c => c != cZWNJ) = d.filter (fun c => c != cZWNJ) := by
  induction d with
  | nil => rfl
  | cons c cs ih =>
    have : tradKarWord (c :: cs) = (if isLigatureKar c then [cZWNJ, c] else [c]) ++ tradKarWord cs := by
      simp [tradKarWord]
    rw [this, List.filter_append, ih]
    by_cases hc : c = cZWNJ <;> split <;> simp [hc]

/-- … and `clean_string` removes them -/
theorem cleanString_tradKar (d : Str) : cleanString (tradKarWord d) = cleanString d := by
  induction d with
  | nil => rfl
  | cons c cs ih =>
    have : tradKarWord (c :: cs) = (if isLigatureKar c then [cZWNJ, c] else [c]) ++ tradKarWord cs := by
      simp [tradKarWord]
    unfold cleanString at ih ⊢
    rw [this, List.filter_append, ih]
    have hz : isCleaned cZWNJ = true := by decide
    cases hc : isCleaned c <;> split <;> simp [hz, hc]

theorem cleanString_idem (w : Str) : cleanString (cleanString w) = cleanString w := by
  simp [cleanString, List.filter_filter]

/-! ### an admissible ordering exists -/

/-- class of an item for `keySort`: `First` < `Emoji`/`Other` < `Last` -/
def Rank.classKey : Rank → Nat
  | .first _ => 0 | .emoji _ _ => 1 | .other _ _ => 1 | .last _ _ => 2

/-- order by class, then by number: a total preorder that refines `Rank.le` -/
def keyLe (a b : Rank) : Prop := a.classKey < b.classKey ∨ (a.classKey = b.classKey ∧ a.num ≤ b.num)

instance (a b : Rank) : Decidable (keyLe a b) := by unfold keyLe; exact inferInstance

theorem keyLe_total (a b : Rank) : keyLe a b ∨ keyLe b a := by unfold keyLe; omega
theorem keyLe_trans {a b c : Rank} (h1 : keyLe a b) (h2 : keyLe b c) : keyLe a c := by
  unfold keyLe at *; omega

theorem le_of_keyLe {a b : Rank} (h : keyLe a b) : a.le b = true := by
  cases a <;> cases b <;>
    simp_all [keyLe, Rank.classKey, Rank.le, Rank.cmp, cmpArm, Rank.variant, Rank.num] <;>
    exact (natCmp_ne_gt_iff _ _).mpr h

def keyInsert (x : Rank) : List Rank → List Rank
  | [] => [x]
  | y :: ys => if keyLe x y then x :: y :: ys else y :: keyInsert x ys

/-- insertion sort by class and number: one of the orderings `sort_unstable` may produce -/
def keySort : List Rank → List Rank
  | [] => []
  | x :: xs => keyInsert x (keySort xs)

theorem keyInsert_perm (x : Rank) (l : List Rank) : (keyInsert x l).Perm (x :: l) := by
  induction l with
  | nil => simp [keyInsert]
  | cons y ys ih =>
    simp only [keyInsert]
    split
    · exact List.Perm.refl _
    · exact (List.Perm.cons y ih).trans (List.Perm.swap x y ys)

theorem keySort_perm (l : List Rank) : (keySort l).Perm l := by
  induction l with
  | nil => simp [keySort]
  | cons x xs ih => exact (keyInsert_perm x _).trans (List.Perm.cons x ih)

theorem keyInsert_sorted (x : Rank) (l : List Rank) (h : l.Pairwise keyLe) : (keyInsert x l).Pairwise keyLe := by
  induction l with
  | nil => simp [keyInsert]
  | cons y ys ih =>
    simp only [keyInsert]
    have hy := List.pairwise_cons.mp h
    split
    · rename_i hxy
      refine List.pairwise_cons.mpr ⟨?_, h⟩
      intro z hz
      rcases List.mem_cons.mp hz with rfl | hz
      · exact hxy
      · exact keyLe_trans hxy (hy.1 z hz)
    · rename_i hxy
      have hyx : keyLe y x := (keyLe_total x y).resolve_left hxy
      refine List.pairwise_cons.mpr ⟨?_, ih hy.2⟩
      intro z hz
      rcases List.mem_cons.mp ((keyInsert_perm x ys).mem_iff.mp hz) with rfl | hz
      · exact hyx
      · exact hy.1 z hz

theorem keySort_sorted (l : List Rank) : (keySort l).Pairwise keyLe := by
  induction l with
  | nil => simp [keySort]
  | cons x xs ih => exact keyInsert_sorted x _ ih

/-- the ordering contract is satisfiable -/
theorem isSortPerm_keySort : IsSortPerm keySort :=
  fun l => ⟨keySort_perm l, (keySort_sorted l).imp le_of_keyLe⟩

/-! ### a kernel-reducible copy

`dedupAdjacent` is compiled by well-founded recursion (its first recursive call is on `x :: rest`,
not on a sub-term), so `decide` cannot evaluate it.  The copies below are structurally recursive
and provably equal; concrete examples rewrite with `fDict_list_eq_R` and then `decide`. -/

/-- `dedupAdjacent (x :: l)` with the kept item carried along -/
def dedupFrom : Rank → List Rank → List Rank
  | x, [] => [x]
  | x, y :: rest => if x.sameText y then dedupFrom x rest else x :: dedupFrom y rest

theorem dedupAdjacent_eq_dedupFrom (x : Rank) (l : List Rank) : dedupAdjacent (x :: l) = dedupFrom x l := by
  induction l generalizing x with
  | nil => simp [dedupAdjacent, dedupFrom]
  | cons y ys ih => simp only [dedupAdjacent, dedupFrom]; split <;> simp [ih]

/-- `fixedCands`, evaluable by the kernel -/
def fixedCandsR (env : Env) (cfg : Cfg) (s : FState) : FixedCands :=
  let parts := fixedParts cfg s.buffer
  let cands := wrapAll parts (dedupFrom (Rank.first parts.word) (fixedHits env cfg parts.word)) ++
    fixedEmoji env cfg parts s.typed
  if cfg.english && s.buffer != s.typed then ⟨cands, 8, some (Rank.last s.typed 1)⟩
  else ⟨cands, 9, none⟩

theorem fixedCands_eq_R (env : Env) (cfg : Cfg) (s : FState) : fixedCands env cfg s = fixedCandsR env cfg s := by
  simp [fixedCands, fixedCandsR, fixedBase, dedupAdjacent_eq_dedupFrom]

/-- the list of `fDictSuggestion`, evaluable by the kernel -/
def fDictListR (w : World) (cfg : Cfg) (s : FState) : List Rank :=
  (w.sorter (fixedCandsR w.env cfg s).cands).take (fixedCandsR w.env cfg s).keep ++
    (fixedCandsR w.env cfg s).english.toList

theorem fDict_list_eq_R (w : World) (cfg : Cfg) (s : FState) :
    (fDictSuggestion w cfg s).1.suggestions = fDictListR w cfg s := by
  simp [fDictSuggestion, fDictListR, fixedCands_eq_R]

theorem fDict_sugg_eq_R (w : World) (cfg : Cfg) (s : FState) :
    (fDictSuggestion w cfg s).2 = .full s.buffer ((fDictListR w cfg s).map Rank.text) 0 cfg.ansi := by
  simp [fDictSuggestion, fDictListR, fixedCands_eq_R]

end Riti
