/-
Lemmas/Json — helper lemmas for Props/Json: proper prefixes of lists; the JSON reader of Model/Json
step by step over what the writer prints (read-back and cut-anywhere-is-an-error, from one
character up to the whole object); stability of the reader's successes under appended input; the
UTF-8 decoder over the encoder's output and its strictness; association-list facts for `toStore`.
-/
import RitiModel.Model.Json
import RitiModel.Lemmas.Store
namespace Riti.Json
open Riti Riti.AList



/-! ### proper prefixes -/

/-- `p` is a proper prefix of `t` -/
def PP {α : Type} (p t : List α) : Prop := p <+: t ∧ p ≠ t

/-- nothing is a proper prefix of the empty list -/
theorem pp_nil {α : Type} (p : List α) : ¬ PP p [] := by
  rintro ⟨h, hne⟩; exact hne (List.prefix_nil.mp h)

/-- the proper prefixes of `x :: t`: the empty list, and `x ::` a proper prefix of `t` -/
theorem pp_cons {α : Type} (p : List α) (x : α) (t : List α) :
    PP p (x :: t) ↔ p = [] ∨ ∃ q, p = x :: q ∧ PP q t := by
  constructor
  · rintro ⟨h, hne⟩
    cases p with
    | nil => exact .inl rfl
    | cons y q =>
      obtain ⟨rfl, hq⟩ := List.cons_prefix_cons.mp h
      exact .inr ⟨q, rfl, hq, fun e => hne (by rw [e])⟩
  · rintro (rfl | ⟨q, rfl, hq, hne⟩)
    · exact ⟨List.nil_prefix, by simp⟩
    · exact ⟨List.cons_prefix_cons.mpr ⟨rfl, hq⟩, fun e => hne (List.cons.inj e).2⟩

/-- a proper prefix of `A ++ B` is a proper prefix of `A`, or `A` followed by a proper prefix of `B` -/
theorem pp_append {α : Type} (A B p : List α) (h : PP p (A ++ B)) :
    PP p A ∨ ∃ q, p = A ++ q ∧ PP q B := by
  induction A generalizing p with
  | nil => exact .inr ⟨p, rfl, h⟩
  | cons a A ih =>
    rw [List.cons_append, pp_cons] at h
    rcases h with rfl | ⟨q, rfl, hq⟩
    · exact .inl ((pp_cons _ _ _).mpr (.inl rfl))
    · rcases ih q hq with h1 | ⟨q', rfl, h2⟩
      · exact .inl ((pp_cons _ _ _).mpr (.inr ⟨q, rfl, h1⟩))
      · exact .inr ⟨q', rfl, h2⟩

/-! ### one character of a string body -/

/-- the two hex digits printed for a control character read back as its code -/
theorem hex_roundtrip : ∀ n, n < 32 → hex4 '0' '0' (hexDigit (n / 16)) (hexDigit (n % 16)) = some n := by
  decide

/-- reading what `printChar` wrote yields the character and continues after it -/
theorem parseBody_printChar (c : Char) (q : List Char) :
    parseBody 0 (printChar c ++ q) = push c (parseBody 0 q) := by
  unfold printChar
  split
  · subst_vars; simp [parseBody, decodeEscape, simpleEscape]
  split
  · subst_vars; simp [parseBody, decodeEscape, simpleEscape]
  split
  · subst_vars; simp [parseBody, decodeEscape, simpleEscape]
  split
  · subst_vars; simp [parseBody, decodeEscape, simpleEscape]
  split
  · subst_vars; simp [parseBody, decodeEscape, simpleEscape]
  split
  · subst_vars; simp [parseBody, decodeEscape, simpleEscape]
  split
  · subst_vars; simp [parseBody, decodeEscape, simpleEscape]
  split
  · next h =>
    have hr := hex_roundtrip c.toNat h
    have hlt : c.toNat < 0xD800 := by omega
    simp [parseBody, decodeEscape, hr, hlt]
  · next h1 h2 _ _ _ _ _ h3 =>
    simp [parseBody, h1, h2, h3]

/-- the only proper prefix of a one-element list is the empty list -/
theorem pp1 {α : Type} {p : List α} {a : α} (h : PP p [a]) : p = [] := by
  simp only [pp_cons, pp_nil] at h; simp_all

/-- the proper prefixes of a two-element list -/
theorem pp2 {α : Type} {p : List α} {a b : α} (h : PP p [a, b]) : p = [] ∨ p = [a] := by
  rcases (pp_cons _ _ _).mp h with rfl | ⟨q, rfl, hq⟩
  · exact .inl rfl
  · exact .inr (by rw [pp1 hq])

/-- the proper prefixes of a six-element list -/
theorem pp6 {α : Type} {p : List α} {a b c d e f : α} (h : PP p [a, b, c, d, e, f]) :
    p = [] ∨ p = [a] ∨ p = [a, b] ∨ p = [a, b, c] ∨ p = [a, b, c, d] ∨ p = [a, b, c, d, e] := by
  rcases (pp_cons _ _ _).mp h with rfl | ⟨q, rfl, h1⟩
  · simp
  rcases (pp_cons _ _ _).mp h1 with rfl | ⟨q, rfl, h2⟩
  · simp
  rcases (pp_cons _ _ _).mp h2 with rfl | ⟨q, rfl, h3⟩
  · simp
  rcases (pp_cons _ _ _).mp h3 with rfl | ⟨q, rfl, h4⟩
  · simp
  rcases pp2 h4 with rfl | rfl <;> simp

/-- a cut inside what `printChar` wrote (the character's escape sequence is incomplete) is an error -/
theorem parseBody_pp_printChar (c : Char) (p : List Char) (h : PP p (printChar c)) :
    parseBody 0 p = none := by
  unfold printChar at h
  repeat' split at h
  any_goals (rcases pp2 h with rfl | rfl <;> simp [parseBody, decodeEscape])
  · rcases pp6 h with rfl | rfl | rfl | rfl | rfl | rfl <;> simp [parseBody, decodeEscape]
  · rw [pp1 h]; simp [parseBody]

/-! ### string literals -/

/-- reading a printed string body yields the text and stops just after the closing quote -/
theorem parseBody_printBody (s : Str) (rest : List Char) :
    parseBody 0 (printBody s ++ rest) = some (s, rest) := by
  induction s with
  | nil => simp [printBody, parseBody]
  | cons c cs ih => simp [printBody, List.append_assoc, parseBody_printChar, ih, push]

/-- a printed string body cut anywhere before its end is an error (no closing quote yet, or an
    incomplete escape) -/
theorem parseBody_pp (s : Str) (p : List Char) (h : PP p (printBody s)) : parseBody 0 p = none := by
  induction s generalizing p with
  | nil => rw [pp1 h]; simp [parseBody]
  | cons c cs ih =>
    rcases pp_append _ _ _ h with h1 | ⟨q, rfl, h2⟩
    · exact parseBody_pp_printChar c p h1
    · rw [parseBody_printChar, ih q h2]; rfl

/-- a quote is not whitespace -/
theorem skipWs_quote (t : List Char) : skipWs ('"' :: t) = '"' :: t := by
  simp [skipWs, isWs]

/-- reading a printed string yields the text and stops just after it -/
theorem parseString_printString (s : Str) (rest : List Char) :
    parseString (printString s ++ rest) = some (s, rest) := by
  simp [parseString, printString, skipWs_quote, parseBody_printBody]

/-- a printed string cut anywhere before its end is an error -/
theorem parseString_pp (s : Str) (p : List Char) (h : PP p (printString s)) : parseString p = none := by
  rcases (pp_cons _ _ _).mp h with rfl | ⟨q, rfl, hq⟩
  · simp [parseString, skipWs]
  · simp [parseString, skipWs_quote, parseBody_pp s q hq]

/-! ### members -/

/-- reading a printed member yields the key and the value and stops just after it -/
theorem parseMember_printMember (kv : Str × Str) (rest : List Char) :
    parseMember (printMember kv ++ rest) = some (kv, rest) := by
  simp [parseMember, printMember, List.append_assoc, parseString_printString, skipWs, isWs]

/-- a printed member cut anywhere before its end is an error -/
theorem parseMember_pp (kv : Str × Str) (p : List Char) (h : PP p (printMember kv)) :
    parseMember p = none := by
  rcases pp_append _ _ _ h with h1 | ⟨q, rfl, h2⟩
  · simp [parseMember, parseString_pp _ _ h1]
  · rcases (pp_cons _ _ _).mp h2 with rfl | ⟨q', rfl, h3⟩
    · have := parseString_printString kv.1 []
      simp only [List.append_nil] at this
      simp [parseMember, this, skipWs]
    · simp [parseMember, parseString_printString, skipWs, isWs, parseString_pp _ _ h3]

/-- a printed member starts with the opening quote of its key -/
theorem printMember_eq (kv : Str × Str) : printMember kv = '"' :: (printBody kv.1 ++ ':' :: printString kv.2) := rfl

/-! ### the member list -/

/-- reading the printed rest of an object (enough fuel) yields the entries and stops after the brace -/
theorem parseTail_printTail (m : Entries) (fuel : Nat) (rest : List Char) (hf : m.length < fuel) :
    parseTail fuel (printTail m ++ rest) = some (m, rest) := by
  induction m generalizing fuel with
  | nil =>
    obtain ⟨f, rfl⟩ : ∃ f, fuel = f + 1 := ⟨fuel - 1, by simp at hf; omega⟩
    simp [printTail, parseTail, skipWs, isWs]
  | cons kv m ih =>
    obtain ⟨f, rfl⟩ : ∃ f, fuel = f + 1 := ⟨fuel - 1, by simp at hf; omega⟩
    have hf' : m.length < f := by simp at hf; omega
    simp [printTail, parseTail, skipWs, isWs, List.append_assoc, parseMember_printMember, ih f hf']

/-- the printed rest of an object cut anywhere before its end is an error (whatever the fuel) -/
theorem parseTail_pp (m : Entries) (fuel : Nat) (p : List Char) (h : PP p (printTail m)) :
    parseTail fuel p = none := by
  induction m generalizing fuel p with
  | nil => rw [pp1 h]; cases fuel <;> simp [parseTail, skipWs]
  | cons kv m ih =>
    cases fuel with
    | zero => simp [parseTail]
    | succ f =>
      rcases (pp_cons _ _ _).mp h with rfl | ⟨q, rfl, hq⟩
      · simp [parseTail, skipWs]
      · rcases pp_append _ _ _ hq with h1 | ⟨q', rfl, h2⟩
        · simp [parseTail, skipWs, isWs, parseMember_pp _ _ h1]
        · simp [parseTail, skipWs, isWs, parseMember_printMember, ih f q' h2]

/-- the printed rest of an object is longer than its number of entries (so fuel = input length suffices) -/
theorem length_printTail (m : Entries) : m.length < (printTail m).length := by
  induction m with
  | nil => simp [printTail]
  | cons kv m ih => simp [printTail]; omega

/-! ### the object and the whole text -/

/-- reading a printed object yields the entries and stops just after the closing brace -/
theorem parseObject_printStore (m : Entries) (rest : List Char) :
    parseObject (printStore m ++ rest) = some (m, rest) := by
  cases m with
  | nil => simp [printStore, parseObject, skipWs, isWs]
  | cons kv m =>
    have hl : m.length < (printTail m).length + rest.length := by
      have := length_printTail m; omega
    have hm := parseMember_printMember kv (printTail m ++ rest)
    rw [printMember_eq] at hm
    simp only [List.cons_append, List.append_assoc] at hm
    simp [printStore, parseObject, skipWs, isWs, printMember_eq, List.append_assoc, hm,
      parseTail_printTail m _ rest hl]

/-- a printed object cut anywhere before its end is an error -/
theorem parseObject_pp (m : Entries) (p : List Char) (h : PP p (printStore m)) : parseObject p = none := by
  cases m with
  | nil =>
    rcases pp2 h with rfl | rfl <;> simp [parseObject, skipWs, isWs]
  | cons kv m =>
    rcases (pp_cons _ _ _).mp h with rfl | ⟨q, rfl, hq⟩
    · simp [parseObject, skipWs]
    · rcases pp_append _ _ _ hq with h1 | ⟨q', rfl, h2⟩
      · have hn := parseMember_pp _ _ h1
        rw [printMember_eq] at h1
        rcases (pp_cons _ _ _).mp h1 with rfl | ⟨q', rfl, _⟩
        · simp [parseObject, skipWs, isWs]
        · simp [parseObject, skipWs, isWs, hn]
      · have hm := parseMember_printMember kv q'
        rw [printMember_eq] at hm
        simp only [List.cons_append, List.append_assoc] at hm
        simp [parseObject, skipWs, isWs, printMember_eq, List.append_assoc, hm, parseTail_pp m _ q' h2]

/-! ### successes are stable under more input (the reader never looks past what it consumes) -/

/-- skipping whitespace that stops at a character is unaffected by appended input -/
theorem skipWs_ext (p x : List Char) (c : Char) (r : List Char) (h : skipWs p = c :: r) :
    skipWs (p ++ x) = c :: (r ++ x) := by
  induction p with
  | nil => simp [skipWs] at h
  | cons a p ih =>
    simp only [skipWs, List.cons_append] at h ⊢
    split
    · next hw => rw [if_pos hw] at h; exact ih h
    · next hw => rw [if_neg hw] at h; cases h; rfl

/-- a decoded escape is unaffected by appended input -/
theorem decodeEscape_ext (p x : List Char) (a : Char × Nat) (h : decodeEscape p = some a) :
    decodeEscape (p ++ x) = some a := by
  cases p with
  | nil => simp [decodeEscape] at h
  | cons e r =>
    by_cases he : e = 'u'
    · subst he
      rcases r with _ | ⟨h1, _ | ⟨h2, _ | ⟨h3, _ | ⟨h4, r2⟩⟩⟩⟩ <;> try (simp [decodeEscape] at h)
      cases hh : hex4 h1 h2 h3 h4 with
      | none => simp [hh] at h
      | some n =>
        by_cases hn : n < 0xD800 ∨ 0xDFFF < n
        · simp [decodeEscape, hh, hn] at h ⊢; exact h
        · by_cases hn2 : 0xDC00 ≤ n
          · simp [hh, hn, hn2] at h
          · rcases r2 with _ | ⟨b, _ | ⟨u, _ | ⟨g1, _ | ⟨g2, _ | ⟨g3, _ | ⟨g4, r3⟩⟩⟩⟩⟩⟩ <;>
              try (simp [hh, hn, hn2] at h)
            simp only [decodeEscape, hh, hn, hn2, List.cons_append, if_true, if_false] at h ⊢
            rw [if_pos h.1]; exact h.2
    · simp only [decodeEscape, he, List.cons_append, if_false] at h ⊢
      exact h

/-- inversion of `push` -/
theorem push_eq_some (c : Char) (o : Option (Str × List Char)) (s : Str) (r : List Char)
    (h : push c o = some (s, r)) : ∃ s', o = some (s', r) ∧ s = c :: s' := by
  cases o with
  | none => simp [push] at h
  | some a => obtain ⟨s', r'⟩ := a; simp [push] at h; obtain ⟨rfl, rfl⟩ := h; exact ⟨s', rfl, rfl⟩

/-- a string body read successfully is read the same way with more input after it -/
theorem parseBody_ext (p x : List Char) (k : Nat) (s : Str) (r : List Char)
    (h : parseBody k p = some (s, r)) : parseBody k (p ++ x) = some (s, r ++ x) := by
  induction p generalizing k s r with
  | nil => cases k <;> simp [parseBody] at h
  | cons c rest ih =>
    cases k with
    | succ k => simp only [parseBody, List.cons_append] at h ⊢; exact ih _ _ _ h
    | zero =>
      simp only [parseBody, List.cons_append] at h ⊢
      split
      · next hc => rw [if_pos hc] at h; cases h; rfl
      · next hc =>
        rw [if_neg hc] at h
        split
        · next hb =>
          rw [if_pos hb] at h
          cases hd : decodeEscape rest with
          | none => simp [hd] at h
          | some a =>
            obtain ⟨ch, k'⟩ := a
            rw [decodeEscape_ext _ x _ hd]
            simp only [hd] at h ⊢
            obtain ⟨s', h', rfl⟩ := push_eq_some _ _ _ _ h
            rw [ih _ _ _ h']; rfl
        · next hb =>
          rw [if_neg hb] at h
          split
          · next hl => rw [if_pos hl] at h; cases h
          · next hl =>
            rw [if_neg hl] at h
            obtain ⟨s', h', rfl⟩ := push_eq_some _ _ _ _ h
            rw [ih _ _ _ h']; rfl

/-- a string read successfully is read the same way with more input after it -/
theorem parseString_ext (p x : List Char) (s : Str) (r : List Char)
    (h : parseString p = some (s, r)) : parseString (p ++ x) = some (s, r ++ x) := by
  unfold parseString at h ⊢
  cases hs : skipWs p with
  | nil => simp [hs] at h
  | cons c r1 =>
    rw [skipWs_ext _ x _ _ hs]
    simp only [hs] at h ⊢
    split
    · next hc => rw [if_pos hc] at h; exact parseBody_ext _ _ _ _ _ h
    · next hc => rw [if_neg hc] at h; cases h

/-- a member read successfully is read the same way with more input after it -/
theorem parseMember_ext (p x : List Char) (kv : Str × Str) (r : List Char)
    (h : parseMember p = some (kv, r)) : parseMember (p ++ x) = some (kv, r ++ x) := by
  unfold parseMember at h ⊢
  cases h1 : parseString p with
  | none => simp [h1] at h
  | some a =>
    obtain ⟨k, r0⟩ := a
    rw [parseString_ext _ x _ _ h1]
    simp only [h1] at h ⊢
    cases hs : skipWs r0 with
    | nil => simp [hs] at h
    | cons c r1 =>
      rw [skipWs_ext _ x _ _ hs]
      simp only [hs] at h ⊢
      split
      · next hc =>
        rw [if_pos hc] at h
        cases h2 : parseString r1 with
        | none => simp [h2] at h
        | some b =>
          obtain ⟨v, r2⟩ := b
          rw [parseString_ext _ x _ _ h2]
          simp only [h2] at h ⊢
          cases h; rfl
      · next hc => rw [if_neg hc] at h; cases h

/-- the rest of an object read successfully is read the same way with more input after it and more fuel -/
theorem parseTail_ext (fuel fuel' : Nat) (p x : List Char) (m : Entries) (r : List Char)
    (hf : fuel ≤ fuel') (h : parseTail fuel p = some (m, r)) : parseTail fuel' (p ++ x) = some (m, r ++ x) := by
  induction fuel generalizing fuel' p m r with
  | zero => simp [parseTail] at h
  | succ f ih =>
    obtain ⟨f', rfl⟩ : ∃ f', fuel' = f' + 1 := ⟨fuel' - 1, by omega⟩
    simp only [parseTail] at h ⊢
    cases hs : skipWs p with
    | nil => simp [hs] at h
    | cons c r1 =>
      rw [skipWs_ext _ x _ _ hs]
      simp only [hs] at h ⊢
      split
      · next hc => rw [if_pos hc] at h; cases h; rfl
      · next hc =>
        rw [if_neg hc] at h
        split
        · next hc2 =>
          rw [if_pos hc2] at h
          cases h1 : parseMember r1 with
          | none => simp [h1] at h
          | some a =>
            obtain ⟨kv, r2⟩ := a
            rw [parseMember_ext _ x _ _ h1]
            simp only [h1] at h ⊢
            cases h2 : parseTail f r2 with
            | none => simp [h2] at h
            | some b =>
              obtain ⟨m', r3⟩ := b
              rw [ih f' r2 m' r3 (by omega) h2]
              simp only [h2] at h ⊢
              cases h; rfl
        · next hc2 => rw [if_neg hc2] at h; cases h

/-- an object read successfully is read the same way with more input after it -/
theorem parseObject_ext (p x : List Char) (m : Entries) (r : List Char)
    (h : parseObject p = some (m, r)) : parseObject (p ++ x) = some (m, r ++ x) := by
  unfold parseObject at h ⊢
  cases hs : skipWs p with
  | nil => simp [hs] at h
  | cons c r0 =>
    rw [skipWs_ext _ x _ _ hs]
    simp only [hs] at h ⊢
    split
    · next hc =>
      rw [if_pos hc] at h
      cases hs1 : skipWs r0 with
      | nil => simp [hs1] at h
      | cons d r1 =>
        rw [skipWs_ext _ x _ _ hs1]
        simp only [hs1] at h ⊢
        split
        · next hd => rw [if_pos hd] at h; cases h; rfl
        · next hd =>
          rw [if_neg hd] at h
          cases h1 : parseMember (d :: r1) with
          | none => simp [h1] at h
          | some a =>
            obtain ⟨kv, r2⟩ := a
            have := parseMember_ext _ x _ _ h1
            rw [List.cons_append] at this
            rw [this]
            simp only [h1] at h ⊢
            cases h2 : parseTail r2.length r2 with
            | none => simp [h2] at h
            | some b =>
              obtain ⟨m', r3⟩ := b
              rw [parseTail_ext r2.length (r2 ++ x).length r2 x m' r3 (by simp) h2]
              simp only [h2] at h ⊢
              cases h; rfl
    · next hc => rw [if_neg hc] at h; cases h

/-- if skipping whitespace consumes everything, everything was whitespace -/
theorem skipWs_eq_nil (l : List Char) (h : skipWs l = []) : ∀ c ∈ l, isWs c = true := by
  induction l with
  | nil => simp
  | cons a l ih =>
    simp only [skipWs] at h
    split at h
    · next hw =>
      intro c hc
      rcases List.mem_cons.mp hc with rfl | hc
      · exact hw
      · exact ih h c hc
    · next hw => cases h

/-! ### UTF-8 layer -/

/-- a number below 256 survives the conversion to a byte -/
theorem toNat_toUInt8 (n : Nat) (h : n < 256) : (n.toUInt8).toNat = n := by
  simp; omega

/-- decoding the one-byte form -/
theorem decodeSeq_1 (b0 : UInt8) (n : Nat) (r : List UInt8) (h0 : b0.toNat = n) (h : n < 0x80) :
    decodeSeq b0 r = some (Char.ofNat n, 0) := by
  simp [decodeSeq, h0, h]

/-- decoding the two-byte form of `n` -/
theorem decodeSeq_2 (b0 b1 : UInt8) (n : Nat) (r : List UInt8)
    (h0 : b0.toNat = 0xC0 + n / 0x40) (h1 : b1.toNat = 0x80 + n % 0x40) (hl : 0x80 ≤ n) (hu : n < 0x800) :
    decodeSeq b0 (b1 :: r) = some (Char.ofNat n, 1) := by
  have a1 : ¬ (0xC0 + n / 0x40 < 0x80) := by omega
  have a2 : ¬ (0xC0 + n / 0x40 < 0xC0) := by omega
  have a3 : (0xC0 + n / 0x40 < 0xE0) := by omega
  have a4 : n / 64 * 64 + n % 64 = n := by omega
  have a5 : 0x80 + n % 0x40 < 0xC0 := by omega
  simp [decodeSeq, isCont, h0, h1, a1, a2, a3, a4, a5, hl]

/-- decoding the three-byte form of `n` -/
theorem decodeSeq_3 (b0 b1 b2 : UInt8) (n : Nat) (r : List UInt8)
    (h0 : b0.toNat = 0xE0 + n / 0x1000) (h1 : b1.toNat = 0x80 + n / 0x40 % 0x40) (h2 : b2.toNat = 0x80 + n % 0x40)
    (hl : 0x800 ≤ n) (hu : n < 0x10000) (hs : n < 0xD800 ∨ 0xDFFF < n) :
    decodeSeq b0 (b1 :: b2 :: r) = some (Char.ofNat n, 2) := by
  have a1 : ¬ (0xE0 + n / 0x1000 < 0x80) := by omega
  have a2 : ¬ (0xE0 + n / 0x1000 < 0xC0) := by omega
  have a3 : ¬ (0xE0 + n / 0x1000 < 0xE0) := by omega
  have a3' : (0xE0 + n / 0x1000 < 0xF0) := by omega
  have a4 : (n / 4096 * 64 + n / 64 % 64) * 64 + n % 64 = n := by omega
  have a5 : 0x80 + n % 0x40 < 0xC0 := by omega
  have a6 : 0x80 + n / 0x40 % 0x40 < 0xC0 := by omega
  simp [decodeSeq, isCont, h0, h1, h2, a1, a2, a3, a3', a4, a5, a6, hl, hs]

/-- decoding the four-byte form of `n` -/
theorem decodeSeq_4 (b0 b1 b2 b3 : UInt8) (n : Nat) (r : List UInt8)
    (h0 : b0.toNat = 0xF0 + n / 0x40000) (h1 : b1.toNat = 0x80 + n / 0x1000 % 0x40)
    (h2 : b2.toNat = 0x80 + n / 0x40 % 0x40) (h3 : b3.toNat = 0x80 + n % 0x40)
    (hl : 0x10000 ≤ n) (hu : n < 0x110000) :
    decodeSeq b0 (b1 :: b2 :: b3 :: r) = some (Char.ofNat n, 3) := by
  have a1 : ¬ (0xF0 + n / 0x40000 < 0x80) := by omega
  have a2 : ¬ (0xF0 + n / 0x40000 < 0xC0) := by omega
  have a3 : ¬ (0xF0 + n / 0x40000 < 0xE0) := by omega
  have a3' : ¬ (0xF0 + n / 0x40000 < 0xF0) := by omega
  have a3'' : (0xF0 + n / 0x40000 < 0xF8) := by omega
  have a4 : ((n / 262144 * 64 + n / 4096 % 64) * 64 + n / 64 % 64) * 64 + n % 64 = n := by omega
  have a5 : 0x80 + n % 0x40 < 0xC0 := by omega
  have a6 : 0x80 + n / 0x40 % 0x40 < 0xC0 := by omega
  have a7 : 0x80 + n / 0x1000 % 0x40 < 0xC0 := by omega
  simp [decodeSeq, isCont, h0, h1, h2, h3, a1, a2, a3, a3', a3'', a4, a5, a6, a7, hl, hu]

/-- one decoding step over a one-byte character -/
theorem step1 (b0 : UInt8) (r : List UInt8) (c : Char) (h : decodeSeq b0 r = some (c, 0)) :
    utf8DecodeFrom 0 (b0 :: r) = consO c (utf8DecodeFrom 0 r) := by
  simp [utf8DecodeFrom, h]

/-- one decoding step over a two-byte character -/
theorem step2 (b0 b1 : UInt8) (r : List UInt8) (c : Char) (h : decodeSeq b0 (b1 :: r) = some (c, 1)) :
    utf8DecodeFrom 0 (b0 :: b1 :: r) = consO c (utf8DecodeFrom 0 r) := by
  simp [utf8DecodeFrom, h]

/-- one decoding step over a three-byte character -/
theorem step3 (b0 b1 b2 : UInt8) (r : List UInt8) (c : Char) (h : decodeSeq b0 (b1 :: b2 :: r) = some (c, 2)) :
    utf8DecodeFrom 0 (b0 :: b1 :: b2 :: r) = consO c (utf8DecodeFrom 0 r) := by
  simp [utf8DecodeFrom, h]

/-- one decoding step over a four-byte character -/
theorem step4 (b0 b1 b2 b3 : UInt8) (r : List UInt8) (c : Char) (h : decodeSeq b0 (b1 :: b2 :: b3 :: r) = some (c, 3)) :
    utf8DecodeFrom 0 (b0 :: b1 :: b2 :: b3 :: r) = consO c (utf8DecodeFrom 0 r) := by
  simp [utf8DecodeFrom, h]

/-- decoding what `utf8EncodeChar` produced yields the character and continues after it -/
theorem utf8DecodeFrom_encodeChar (c : Char) (r : List UInt8) :
    utf8DecodeFrom 0 (utf8EncodeChar c ++ r) = consO c (utf8DecodeFrom 0 r) := by
  have hv : c.toNat < 0xD800 ∨ (0xDFFF < c.toNat ∧ c.toNat < 0x110000) := c.valid
  have hc := Char.ofNat_toNat c
  unfold utf8EncodeChar
  simp only []
  split
  · next h =>
    refine step1 _ _ _ ?_
    rw [decodeSeq_1 _ c.toNat _ (toNat_toUInt8 _ (by omega)) h, hc]
  split
  · next h' h =>
    refine step2 _ _ _ _ ?_
    rw [decodeSeq_2 _ _ c.toNat _ (toNat_toUInt8 _ (by omega)) (toNat_toUInt8 _ (by omega)) (by omega) h, hc]
  split
  · next h'' h' h =>
    refine step3 _ _ _ _ _ ?_
    rw [decodeSeq_3 _ _ _ c.toNat _ (toNat_toUInt8 _ (by omega)) (toNat_toUInt8 _ (by omega))
      (toNat_toUInt8 _ (by omega)) (by omega) h (by omega), hc]
  · next h'' h' h =>
    refine step4 _ _ _ _ _ _ ?_
    rw [decodeSeq_4 _ _ _ _ c.toNat _ (toNat_toUInt8 _ (by omega)) (toNat_toUInt8 _ (by omega))
      (toNat_toUInt8 _ (by omega)) (toNat_toUInt8 _ (by omega)) (by omega) (by omega), hc]

/-- the proper prefixes of a three-element list -/
theorem pp3 {α : Type} {p : List α} {a b c : α} (h : PP p [a, b, c]) : p = [] ∨ p = [a] ∨ p = [a, b] := by
  rcases (pp_cons _ _ _).mp h with rfl | ⟨q, rfl, h1⟩
  · simp
  rcases pp2 h1 with rfl | rfl <;> simp

/-- the proper prefixes of a four-element list -/
theorem pp4 {α : Type} {p : List α} {a b c d : α} (h : PP p [a, b, c, d]) :
    p = [] ∨ p = [a] ∨ p = [a, b] ∨ p = [a, b, c] := by
  rcases (pp_cons _ _ _).mp h with rfl | ⟨q, rfl, h1⟩
  · simp
  rcases pp3 h1 with rfl | rfl | rfl <;> simp

/-- a two-byte lead with nothing after it is an error -/
theorem decodeSeq_short2 (b0 : UInt8) (h1 : 0xC0 ≤ b0.toNat) (h2 : b0.toNat < 0xE0) :
    decodeSeq b0 [] = none := by
  have a1 : ¬ b0.toNat < 0x80 := by omega
  have a2 : ¬ b0.toNat < 0xC0 := by omega
  simp [decodeSeq, a1, a2, h2]

/-- a three-byte lead with fewer than two bytes after it is an error -/
theorem decodeSeq_short3 (b0 : UInt8) (r : List UInt8) (h1 : 0xE0 ≤ b0.toNat) (h2 : b0.toNat < 0xF0)
    (hr : r.length < 2) : decodeSeq b0 r = none := by
  have a1 : ¬ b0.toNat < 0x80 := by omega
  have a2 : ¬ b0.toNat < 0xC0 := by omega
  have a3 : ¬ b0.toNat < 0xE0 := by omega
  match r, hr with
  | [], _ => simp [decodeSeq, a1, a2, a3, h2]
  | [_], _ => simp [decodeSeq, a1, a2, a3, h2]

/-- a four-byte lead with fewer than three bytes after it is an error -/
theorem decodeSeq_short4 (b0 : UInt8) (r : List UInt8) (h1 : 0xF0 ≤ b0.toNat)
    (hr : r.length < 3) : decodeSeq b0 r = none := by
  have a1 : ¬ b0.toNat < 0x80 := by omega
  have a2 : ¬ b0.toNat < 0xC0 := by omega
  have a3 : ¬ b0.toNat < 0xE0 := by omega
  have a4 : ¬ b0.toNat < 0xF0 := by omega
  match r, hr with
  | [], _ => simp [decodeSeq, a1, a2, a3, a4]
  | [_], _ => simp [decodeSeq, a1, a2, a3, a4]
  | [_, _], _ => simp [decodeSeq, a1, a2, a3, a4]

/-- a non-empty cut inside the encoding of one character (a multi-byte sequence cut short) is not
    valid UTF-8 -/
theorem utf8DecodeFrom_pp_encodeChar (c : Char) (b : List UInt8) (h : PP b (utf8EncodeChar c))
    (hne : b ≠ []) : utf8DecodeFrom 0 b = none := by
  have hv : c.toNat < 0xD800 ∨ (0xDFFF < c.toNat ∧ c.toNat < 0x110000) := c.valid
  unfold utf8EncodeChar at h
  simp only [] at h
  split at h
  · exact absurd (pp1 h) hne
  split at h
  · next h' hlt =>
    rcases pp2 h with rfl | rfl
    · exact absurd rfl hne
    · have e := toNat_toUInt8 (0xC0 + c.toNat / 0x40) (by omega)
      simp only [utf8DecodeFrom]
      rw [decodeSeq_short2 _ (by omega) (by omega)]
  split at h
  · next h'' h' hlt =>
    have e := toNat_toUInt8 (0xE0 + c.toNat / 0x1000) (by omega)
    rcases pp3 h with rfl | rfl | rfl
    · exact absurd rfl hne
    · simp only [utf8DecodeFrom]
      rw [decodeSeq_short3 _ _ (by omega) (by omega) (by simp)]
    · simp only [utf8DecodeFrom]
      rw [decodeSeq_short3 _ _ (by omega) (by omega) (by simp)]
  · next h'' h' hlt =>
    have e := toNat_toUInt8 (0xF0 + c.toNat / 0x40000) (by omega)
    rcases pp4 h with rfl | rfl | rfl | rfl
    · exact absurd rfl hne
    · simp only [utf8DecodeFrom]
      rw [decodeSeq_short4 _ _ (by omega) (by simp)]
    · simp only [utf8DecodeFrom]
      rw [decodeSeq_short4 _ _ (by omega) (by simp)]
    · simp only [utf8DecodeFrom]
      rw [decodeSeq_short4 _ _ (by omega) (by simp)]

/-- inversion of `consO` -/
theorem consO_some (c : Char) (o : Option Str) (s : Str) : consO c o = some s ↔ ∃ s', o = some s' ∧ s = c :: s' := by
  cases o <;> simp [consO, eq_comm]

/-- `Char.ofNat` keeps the number of a scalar value -/
theorem toNat_ofNat_valid (n : Nat) (h : n < 0xD800 ∨ (0xDFFF < n ∧ n < 0x110000)) : (Char.ofNat n).toNat = n := by
  have hv : n.isValidChar := h
  unfold Char.ofNat
  rw [dif_pos hv]
  simp [Char.ofNatAux, Char.toNat]

/-- a byte is determined by its number -/
theorem toUInt8_eq (b : UInt8) (n : Nat) (h : n = b.toNat) : n.toUInt8 = b := by
  subst h; simp

/-- what `decodeSeq` accepts is exactly the encoding of the character it returns -/
theorem decodeSeq_sound (b0 : UInt8) (r : List UInt8) (c : Char) (k : Nat)
    (h : decodeSeq b0 r = some (c, k)) :
    ∃ pre r', r = pre ++ r' ∧ pre.length = k ∧ utf8EncodeChar c = b0 :: pre := by
  unfold decodeSeq at h
  simp only [] at h
  split at h
  · next h0 =>
    cases h
    refine ⟨[], r, rfl, rfl, ?_⟩
    have e := toNat_ofNat_valid b0.toNat (by omega)
    simp only [utf8EncodeChar, e, if_pos h0]
    rw [toUInt8_eq b0 _ rfl]
  split at h
  · cases h
  split at h
  · next h0 h1 h2 =>
    rcases r with _ | ⟨b1, r'⟩
    · cases h
    simp only [isCont, Bool.and_eq_true, decide_eq_true_eq] at h
    split at h
    · next hc =>
      simp only [Option.some.injEq, Prod.mk.injEq] at h
      obtain ⟨rfl, rfl⟩ := h
      obtain ⟨⟨c1, c2⟩, c3⟩ := hc
      refine ⟨[b1], r', rfl, rfl, ?_⟩
      have e := toNat_ofNat_valid ((b0.toNat - 0xC0) * 0x40 + (b1.toNat - 0x80)) (by omega)
      have g1 : ¬ ((b0.toNat - 0xC0) * 0x40 + (b1.toNat - 0x80) < 0x80) := by omega
      have g2 : (b0.toNat - 0xC0) * 0x40 + (b1.toNat - 0x80) < 0x800 := by omega
      simp only [utf8EncodeChar, e, if_neg g1, if_pos g2]
      rw [toUInt8_eq b0 _ (by omega), toUInt8_eq b1 _ (by omega)]
    · cases h
  split at h
  · next h0 h1 h2 h3 =>
    rcases r with _ | ⟨b1, _ | ⟨b2, r'⟩⟩
    · cases h
    · cases h
    simp only [isCont, Bool.and_eq_true, decide_eq_true_eq] at h
    split at h
    · next hc =>
      simp only [Option.some.injEq, Prod.mk.injEq] at h
      obtain ⟨rfl, rfl⟩ := h
      obtain ⟨⟨c1, c2⟩, ⟨c3, c4⟩, c5, c6⟩ := hc
      refine ⟨[b1, b2], r', rfl, rfl, ?_⟩
      have e := toNat_ofNat_valid (((b0.toNat - 0xE0) * 0x40 + (b1.toNat - 0x80)) * 0x40 + (b2.toNat - 0x80)) (by omega)
      have g1 : ¬ (((b0.toNat - 0xE0) * 0x40 + (b1.toNat - 0x80)) * 0x40 + (b2.toNat - 0x80) < 0x80) := by omega
      have g2 : ¬ (((b0.toNat - 0xE0) * 0x40 + (b1.toNat - 0x80)) * 0x40 + (b2.toNat - 0x80) < 0x800) := by omega
      have g3 : ((b0.toNat - 0xE0) * 0x40 + (b1.toNat - 0x80)) * 0x40 + (b2.toNat - 0x80) < 0x10000 := by omega
      simp only [utf8EncodeChar, e, if_neg g1, if_neg g2, if_pos g3]
      rw [toUInt8_eq b0 _ (by omega), toUInt8_eq b1 _ (by omega), toUInt8_eq b2 _ (by omega)]
    · cases h
  split at h
  · next h0 h1 h2 h3 h4 =>
    rcases r with _ | ⟨b1, _ | ⟨b2, _ | ⟨b3, r'⟩⟩⟩
    · cases h
    · cases h
    · cases h
    simp only [isCont, Bool.and_eq_true, decide_eq_true_eq] at h
    split at h
    · next hc =>
      simp only [Option.some.injEq, Prod.mk.injEq] at h
      obtain ⟨rfl, rfl⟩ := h
      obtain ⟨⟨c1, c2⟩, ⟨c3, c4⟩, ⟨c5, c6⟩, c7, c8⟩ := hc
      refine ⟨[b1, b2, b3], r', rfl, rfl, ?_⟩
      have e := toNat_ofNat_valid ((((b0.toNat - 0xF0) * 0x40 + (b1.toNat - 0x80)) * 0x40 + (b2.toNat - 0x80)) * 0x40 + (b3.toNat - 0x80)) (by omega)
      have g1 : ¬ ((((b0.toNat - 0xF0) * 0x40 + (b1.toNat - 0x80)) * 0x40 + (b2.toNat - 0x80)) * 0x40 + (b3.toNat - 0x80) < 0x80) := by omega
      have g2 : ¬ ((((b0.toNat - 0xF0) * 0x40 + (b1.toNat - 0x80)) * 0x40 + (b2.toNat - 0x80)) * 0x40 + (b3.toNat - 0x80) < 0x800) := by omega
      have g3 : ¬ ((((b0.toNat - 0xF0) * 0x40 + (b1.toNat - 0x80)) * 0x40 + (b2.toNat - 0x80)) * 0x40 + (b3.toNat - 0x80) < 0x10000) := by omega
      simp only [utf8EncodeChar, e, if_neg g1, if_neg g2, if_neg g3]
      rw [toUInt8_eq b0 _ (by omega), toUInt8_eq b1 _ (by omega), toUInt8_eq b2 _ (by omega), toUInt8_eq b3 _ (by omega)]
    · cases h
  · cases h

/-- skipping exactly the continuation bytes of a decoded character resumes after them -/
theorem utf8DecodeFrom_skip (pre r : List UInt8) : utf8DecodeFrom pre.length (pre ++ r) = utf8DecodeFrom 0 r := by
  induction pre with
  | nil => rfl
  | cons a pre ih => simp only [List.length_cons, List.cons_append, utf8DecodeFrom]; exact ih

/-- whatever the decoder accepts is the encoding of what it returns (induction on the length) -/
theorem utf8DecodeFrom_sound (n : Nat) : ∀ (b : List UInt8) (cs : Str), b.length ≤ n →
    utf8DecodeFrom 0 b = some cs → utf8Encode cs = b := by
  induction n with
  | zero =>
    intro b cs hl h
    have : b = [] := List.eq_nil_of_length_eq_zero (by omega)
    subst this
    simp [utf8DecodeFrom] at h; subst h; rfl
  | succ n ih =>
    intro b cs hl h
    cases b with
    | nil => simp [utf8DecodeFrom] at h; subst h; rfl
    | cons b0 r =>
      simp only [utf8DecodeFrom] at h
      cases hd : decodeSeq b0 r with
      | none => simp [hd] at h
      | some a =>
        obtain ⟨c, k⟩ := a
        simp only [hd] at h
        obtain ⟨s', hs', rfl⟩ := (consO_some _ _ _).mp h
        obtain ⟨pre, r', rfl, rfl, he⟩ := decodeSeq_sound _ _ _ _ hd
        rw [utf8DecodeFrom_skip] at hs'
        have := ih r' s' (by simp at hl; omega) hs'
        simp only [utf8Encode, this, he, List.cons_append]

/-- a prefix of `A ++ B` is a proper prefix of `A`, or `A` followed by a prefix of `B` -/
theorem prefix_append_cases {α : Type} (A B p : List α) (h : p <+: A ++ B) :
    PP p A ∨ ∃ q, p = A ++ q ∧ q <+: B := by
  by_cases e : p = A ++ B
  · exact .inr ⟨B, e, List.prefix_refl B⟩
  · rcases pp_append A B p ⟨h, e⟩ with h1 | ⟨q, rfl, h2⟩
    · exact .inl h1
    · exact .inr ⟨q, rfl, h2.1⟩

/-! ### from entries to the engine's map, and to the `FileState` of Model/Context -/

/-- inserting an unbound key appends the binding -/
theorem ainsert_fresh {α β : Type} [BEq α] [LawfulBEq α] (st : List (α × β)) (k : α) (v : β)
    (h : k ∉ akeys st) : ainsert st k v = st ++ [(k, v)] := by
  induction st with
  | nil => rfl
  | cons a st ih =>
    obtain ⟨k', v'⟩ := a
    simp only [akeys, List.map_cons, List.mem_cons, not_or] at h
    have hne : (k' == k) = false := by simpa using fun e => h.1 e.symm
    simp only [ainsert, hne, List.cons_append]
    rw [ih h.2]; rfl

/-- inserting entries with fresh, pairwise distinct keys one after the other appends them in order -/
theorem foldl_ainsert_nodup (acc m : Entries) (h : (akeys (acc ++ m)).Nodup) :
    m.foldl (fun st kv => ainsert st kv.1 kv.2) acc = acc ++ m := by
  induction m generalizing acc with
  | nil => simp
  | cons kv m ih =>
    have hk : kv.1 ∉ akeys acc := by
      intro hmem
      simp only [akeys, List.map_append, List.map_cons] at h hmem
      have := (List.nodup_append.mp h).2.2 _ hmem _ (List.mem_cons_self)
      exact this rfl
    simp only [List.foldl_cons]
    rw [ainsert_fresh _ _ _ hk, ih]
    · simp
    · simpa using h

/-- look-up in a concatenation: the first list has priority -/
theorem alookup_append (a b : Entries) (k : Str) : alookup (a ++ b) k = (alookup a k).or (alookup b k) := by
  induction a with
  | nil => simp [alookup]
  | cons x a ih =>
    obtain ⟨k', v'⟩ := x
    simp only [List.cons_append, alookup]
    split
    · simp
    · exact ih

end Riti.Json
