/-
Lemmas/JsonValue — the printer for `JVal` (compact, pretty, and with ARBITRARY whitespace between
the tokens), well-formedness of a value, and the read-back lemma: the reader of Model/JsonValue
returns exactly the value that was printed.
-/
import RitiModel.Model.JsonValue
import RitiModel.Lemmas.Json
import RitiModel.Lemmas.Store
namespace Riti.JsonValue
open Riti.Json (Str skipWs isWs parseBody parseString printString printBody)

/-! ### printing -/

/-- a whitespace decoration: the whitespace written at slot `k` of the node whose path from the
    root is `p` (child indices, innermost first).  Slots: 0 inside an empty container; 1 before
    the comma that precedes this child; 2 before this child (after `[` `{` `,`); 3 between key and
    colon; 4 after the colon; 5 before the closing bracket (on the index one past the last child).
    Every token position of a document has its own (path, slot), so EVERY way of putting
    whitespace between the tokens of a document is one such function. -/
abbrev Deco := List Nat → Nat → List Char

mutual
/-- a value printed under the decoration `w`; `p` = path of this value -/
def printW (w : Deco) : List Nat → JVal → List Char
  | _, .null => ['n', 'u', 'l', 'l']
  | _, .bool true => ['t', 'r', 'u', 'e']
  | _, .bool false => ['f', 'a', 'l', 's', 'e']
  | _, .num lx => lx
  | _, .str s => printString s
  | p, .arr [] => '[' :: (w p 0 ++ [']'])
  | p, .arr (v :: vs) => '[' :: (w (0 :: p) 2 ++ (printW w (0 :: p) v ++ printElemsW w p 1 vs))
  | p, .obj [] => '{' :: (w p 0 ++ ['}'])
  | p, .obj ((k, v) :: ms) =>
    '{' :: (w (0 :: p) 2 ++ (printString k ++ (w (0 :: p) 3 ++ ':' :: (w (0 :: p) 4 ++ (printW w (0 :: p) v ++ printMembersW w p 1 ms)))))
/-- the elements after the first (each preceded by a comma) and the closing bracket; `i` = index
    of the next element -/
def printElemsW (w : Deco) : List Nat → Nat → List JVal → List Char
  | p, i, [] => w (i :: p) 5 ++ [']']
  | p, i, v :: vs => w (i :: p) 1 ++ ',' :: (w (i :: p) 2 ++ (printW w (i :: p) v ++ printElemsW w p (i + 1) vs))
/-- the members after the first and the closing brace -/
def printMembersW (w : Deco) : List Nat → Nat → List (Str × JVal) → List Char
  | p, i, [] => w (i :: p) 5 ++ ['}']
  | p, i, (k, v) :: ms =>
    w (i :: p) 1 ++ ',' :: (w (i :: p) 2 ++ (printString k ++ (w (i :: p) 3 ++ ':' :: (w (i :: p) 4 ++ (printW w (i :: p) v ++ printMembersW w p (i + 1) ms)))))
end

/-- no whitespace at all -/
def compactDeco : Deco := fun _ _ => []

/-- **the canonical printer**: compact, like `serde_json::to_string` (for a `Value` whose numbers
    print as their lexemes) -/
def printValue (v : JVal) : List Char := printW compactDeco [] v

/-- `serde_json::to_string_pretty` with an indentation of `ind` spaces (serde_json: 2; the bundled
    layout files: 4): a line break and the indentation of the child before every child, a line
    break and the indentation of the container before its closing bracket, one space after the
    colon, nothing inside an empty container -/
def prettyDeco (ind : Nat) : Deco := fun p k =>
  if k = 2 then '\n' :: List.replicate (ind * p.length) ' '
  else if k = 5 then '\n' :: List.replicate (ind * (p.length - 1)) ' '
  else if k = 4 then [' ']
  else []

def printPretty (ind : Nat) (v : JVal) : List Char := printW (prettyDeco ind) [] v

/-! ### well-formed values -/

/-- a number lexeme is valid when the lexer reads exactly it (JSON grammar, at most 200 integer
    digits, at most 2 exponent digits) -/
def validNumber (lx : List Char) : Prop := lexNumber lx = .ok (lx, [])

mutual
/-- every number lexeme in the value is valid -/
def JVal.wf : JVal → Prop
  | .num lx => validNumber lx
  | .arr l => wfList l
  | .obj ms => wfMembers ms
  | _ => True
def wfList : List JVal → Prop
  | [] => True
  | v :: vs => v.wf ∧ wfList vs
def wfMembers : List (Str × JVal) → Prop
  | [] => True
  | (_, v) :: ms => v.wf ∧ wfMembers ms
end

mutual
/-- nesting depth of containers: 0 for a scalar, 1 for a flat array or object -/
def JVal.depth : JVal → Nat
  | .arr l => depthList l + 1
  | .obj ms => depthMembers ms + 1
  | _ => 0
def depthList : List JVal → Nat
  | [] => 0
  | v :: vs => max v.depth (depthList vs)
def depthMembers : List (Str × JVal) → Nat
  | [] => 0
  | (_, v) :: ms => max v.depth (depthMembers ms)
end


/-! ### whitespace -/

/-- a text of JSON whitespace only -/
def AllWs (w : List Char) : Prop := ∀ c ∈ w, isWs c = true

/-- leading whitespace is skipped -/
theorem skipWs_append_ws (w t : List Char) (hw : AllWs w) : skipWs (w ++ t) = skipWs t := by
  induction w with
  | nil => rfl
  | cons c cs ih =>
    have hc : isWs c = true := hw c (by simp)
    have hcs : AllWs cs := fun x hx => hw x (by simp [hx])
    simp [skipWs, hc, ih hcs]

/-- a text that does not start with whitespace is left alone -/
theorem skipWs_cons_of_not_ws (c : Char) (t : List Char) (h : isWs c = false) : skipWs (c :: t) = c :: t := by
  simp [skipWs, h]

/-- whitespace only: nothing is left -/
theorem skipWs_all_ws (w : List Char) (hw : AllWs w) : skipWs w = [] := by
  have := skipWs_append_ws w [] hw
  simpa [skipWs] using this

/-- the value reader skips leading whitespace -/
theorem pValue_skip (w t : List Char) (hw : AllWs w) (f d : Nat) : pValue f d (w ++ t) = pValue f d t := by
  cases f with
  | zero => simp [pValue]
  | succ f => simp only [pValue, skipWs_append_ws w t hw]

/-- the element reader skips leading whitespace -/
theorem pElems_skip (w t : List Char) (hw : AllWs w) (f d : Nat) : pElems f d (w ++ t) = pElems f d t := by
  cases f with
  | zero => simp [pElems]
  | succ f => simp only [pElems, skipWs_append_ws w t hw]

/-- the member reader skips leading whitespace -/
theorem pMembers_skip (w t : List Char) (hw : AllWs w) (f d : Nat) : pMembers f d (w ++ t) = pMembers f d t := by
  cases f with
  | zero => simp [pMembers]
  | succ f => simp only [pMembers, skipWs_append_ws w t hw]

/-- the string reader skips leading whitespace -/
theorem parseString_skip (w t : List Char) (hw : AllWs w) : parseString (w ++ t) = parseString t := by
  simp only [parseString, skipWs_append_ws w t hw]

/-! ### numbers -/

/-- the text after a number does not continue it: it does not start with a digit, `.`, `e`, `E` -/
def numStop (rest : List Char) : Prop :=
  ∀ c, rest.head? = some c → isDigit c = false ∧ c ≠ '.' ∧ c ≠ 'e' ∧ c ≠ 'E'

/-- the digit scanner on a text extended by something that does not start with a digit -/
theorem digits_ext (a rest : List Char) (h : ∀ c, rest.head? = some c → isDigit c = false) :
    digits (a ++ rest) = ((digits a).1, (digits a).2 ++ rest) := by
  induction a with
  | nil =>
    cases rest with
    | nil => rfl
    | cons c r => simp [digits, h c rfl]
  | cons c cs ih =>
    by_cases hc : isDigit c = true
    · simp [digits, hc, ih]
    · simp [digits, hc]

/-- the exponent reader on an extended text -/
theorem lexExp_ext (a rest x r : List Char) (n : Nat) (hs : numStop rest) (h : lexExp a = .ok (x, n, r)) :
    lexExp (a ++ rest) = .ok (x, n, r ++ rest) := by
  have hd : ∀ c, rest.head? = some c → isDigit c = false := fun c hc => (hs c hc).1
  cases a with
  | nil =>
    simp only [lexExp, Except.ok.injEq, Prod.mk.injEq] at h
    obtain ⟨rfl, rfl, rfl⟩ := h
    cases rest with
    | nil => rfl
    | cons c r =>
      have := hs c rfl
      simp [lexExp, this.2.2.1, this.2.2.2]
  | cons e r0 =>
    by_cases he : e = 'e' ∨ e = 'E'
    · cases r0 with
      | nil => simp [lexExp, he] at h
      | cons s r1 =>
        by_cases hsg : s = '+' ∨ s = '-'
        · simp only [lexExp, he, hsg, if_true] at h
          simp only [List.cons_append, lexExp, he, hsg, if_true, digits_ext r1 rest hd]
          split at h
          · cases h
          · rename_i hne
            simp only [Except.ok.injEq, Prod.mk.injEq] at h
            obtain ⟨rfl, rfl, rfl⟩ := h
            simp [hne]
        · simp only [lexExp, he, hsg, if_true, if_false] at h
          have : digits (s :: r1 ++ rest) = ((digits (s :: r1)).1, (digits (s :: r1)).2 ++ rest) := digits_ext (s :: r1) rest hd
          simp only [List.cons_append, lexExp, he, hsg, if_true, if_false]
          rw [show s :: (r1 ++ rest) = s :: r1 ++ rest from rfl, this]
          split at h
          · cases h
          · rename_i hne
            simp only [Except.ok.injEq, Prod.mk.injEq] at h
            obtain ⟨rfl, rfl, rfl⟩ := h
            simp [hne]
    · simp only [lexExp, he, if_false, Except.ok.injEq, Prod.mk.injEq] at h
      obtain ⟨rfl, rfl, rfl⟩ := h
      simp [lexExp, he]


/-- the fraction-and-exponent reader on an extended text -/
theorem lexFracExp_ext (a rest x r : List Char) (n : Nat) (hs : numStop rest) (h : lexFracExp a = .ok (x, n, r)) :
    lexFracExp (a ++ rest) = .ok (x, n, r ++ rest) := by
  have hd : ∀ c, rest.head? = some c → isDigit c = false := fun c hc => (hs c hc).1
  cases a with
  | nil =>
    simp only [lexFracExp, Except.ok.injEq, Prod.mk.injEq] at h
    obtain ⟨rfl, rfl, rfl⟩ := h
    cases rest with
    | nil => rfl
    | cons c r =>
      have hc := hs c rfl
      have := lexExp_ext [] (c :: r) [] [] 0 hs rfl
      simp only [List.nil_append] at this
      simp [lexFracExp, hc.2.1, this]
  | cons pt r0 =>
    by_cases hp : pt = '.'
    · simp only [lexFracExp, hp, if_true] at h
      simp only [List.cons_append, lexFracExp, hp, if_true, digits_ext r0 rest hd]
      split at h
      · cases h
      · rename_i hne
        simp only [hne]
        cases hx : lexExp (digits r0).2 with
        | error e => simp [hx] at h
        | ok val =>
          obtain ⟨ex, m, rr⟩ := val
          simp only [hx, Except.ok.injEq, Prod.mk.injEq] at h
          obtain ⟨rfl, rfl, rfl⟩ := h
          simp [lexExp_ext _ rest _ _ _ hs hx]
    · simp only [lexFracExp, hp, if_false] at h
      have := lexExp_ext (pt :: r0) rest x r n hs h
      simp only [List.cons_append] at this
      simp [lexFracExp, hp, this]

/-- the integer-part reader on an extended text -/
theorem lexInt_ext (a rest x r : List Char) (hs : numStop rest) (h : lexInt a = .ok (x, r)) :
    lexInt (a ++ rest) = .ok (x, r ++ rest) := by
  have hd : ∀ c, rest.head? = some c → isDigit c = false := fun c hc => (hs c hc).1
  cases a with
  | nil => simp [lexInt] at h
  | cons c r0 =>
    by_cases hz : c = '0'
    · cases r0 with
      | nil =>
        simp only [lexInt, hz, if_true, Except.ok.injEq, Prod.mk.injEq] at h
        obtain ⟨rfl, rfl⟩ := h
        cases rest with
        | nil => simp [lexInt, hz]
        | cons d r1 => simp [lexInt, hz, hd d rfl]
      | cons d r1 =>
        simp only [lexInt, hz, if_true] at h
        simp only [List.cons_append, lexInt, hz, if_true]
        split at h
        · cases h
        · rename_i hnd
          simp only [Except.ok.injEq, Prod.mk.injEq] at h
          obtain ⟨rfl, rfl⟩ := h
          simp [hnd]
    · by_cases hdg : isDigit c = true
      · simp only [lexInt, hz, hdg, if_true, if_false, Except.ok.injEq, Prod.mk.injEq] at h
        obtain ⟨rfl, rfl⟩ := h
        simp [lexInt, hz, hdg, digits_ext r0 rest hd]
      · simp [lexInt, hz, hdg] at h

/-- **the number reader on an extended text**: what follows a number token does not change it -/
theorem lexNumber_ext (a rest x r : List Char) (hs : numStop rest) (h : lexNumber a = .ok (x, r)) :
    lexNumber (a ++ rest) = .ok (x, r ++ rest) := by
  cases a with
  | nil => simp [lexNumber, lexInt] at h
  | cons c r0 =>
    by_cases hm : c = '-'
    · simp only [lexNumber, hm, if_true] at h
      simp only [List.cons_append, lexNumber, hm, if_true]
      cases hi : lexInt r0 with
      | error e => simp [hi] at h
      | ok val =>
        obtain ⟨int, ri⟩ := val
        simp only [hi] at h
        rw [lexInt_ext r0 rest int ri hs hi]
        cases hf : lexFracExp ri with
        | error e => simp [hf] at h
        | ok val2 =>
          obtain ⟨fe, nexp, rr⟩ := val2
          simp only [hf] at h
          simp only [lexFracExp_ext ri rest fe rr nexp hs hf]
          split at h
          · rename_i hok
            simp only [Except.ok.injEq, Prod.mk.injEq] at h
            obtain ⟨rfl, rfl⟩ := h
            simp [hok]
          · cases h
    · simp only [lexNumber, hm, if_false] at h
      simp only [List.cons_append, lexNumber, hm, if_false]
      cases hi : lexInt (c :: r0) with
      | error e => simp [hi] at h
      | ok val =>
        obtain ⟨int, ri⟩ := val
        simp only [hi] at h
        have := lexInt_ext (c :: r0) rest int ri hs hi
        simp only [List.cons_append] at this
        rw [this]
        cases hf : lexFracExp ri with
        | error e => simp [hf] at h
        | ok val2 =>
          obtain ⟨fe, nexp, rr⟩ := val2
          simp only [hf] at h
          simp only [lexFracExp_ext ri rest fe rr nexp hs hf]
          split at h
          · rename_i hok
            simp only [Except.ok.injEq, Prod.mk.injEq] at h
            obtain ⟨rfl, rfl⟩ := h
            simp [hok]
          · cases h

/-- a valid number lexeme followed by anything that does not continue it is read as that lexeme -/
theorem lexNumber_valid (lx rest : List Char) (hv : validNumber lx) (hs : numStop rest) :
    lexNumber (lx ++ rest) = .ok (lx, rest) := by
  have := lexNumber_ext lx rest lx [] hs hv
  simpa using this

/-- a valid number lexeme starts with `-` or a digit -/
theorem validNumber_head (lx : List Char) (hv : validNumber lx) :
    ∃ c r, lx = c :: r ∧ (c = '-' ∨ isDigit c = true) := by
  cases lx with
  | nil => simp [validNumber, lexNumber, lexInt] at hv
  | cons c r =>
    refine ⟨c, r, rfl, ?_⟩
    by_cases hm : c = '-'
    · exact Or.inl hm
    · right
      simp only [validNumber, lexNumber, hm, if_false] at hv
      by_cases hz : c = '0'
      · subst hz; decide
      · by_cases hd : isDigit c = true
        · exact hd
        · simp [lexInt, hz, hd] at hv


/-! ### the first character of a printed value -/

/-- a digit differs from every character that is not a digit -/
theorem isDigit_ne (c x : Char) (h : isDigit c = true) (hx : isDigit x = false) : c ≠ x := by
  intro e; subst e; simp [h] at hx

/-- whitespace is none of the characters that continue a number -/
theorem isWs_numStop (x : Char) (h : isWs x = true) : isDigit x = false ∧ x ≠ '.' ∧ x ≠ 'e' ∧ x ≠ 'E' := by
  simp only [isWs, Bool.or_eq_true, decide_eq_true_eq] at h
  rcases h with ((rfl | rfl) | rfl) | rfl <;> decide

/-- a digit is not whitespace -/
theorem isDigit_not_ws (c : Char) (h : isDigit c = true) : isWs c = false := by
  cases hw : isWs c with
  | false => rfl
  | true => have := (isWs_numStop c hw).1; simp [h] at this

/-- whitespace followed by a separator or a closing bracket does not continue a number -/
theorem numStop_ws_sep (w : List Char) (c : Char) (t : List Char) (hw : AllWs w)
    (hc : c = ',' ∨ c = ']' ∨ c = '}') : numStop (w ++ c :: t) := by
  intro x hx
  cases w with
  | nil =>
    simp only [List.nil_append, List.head?_cons, Option.some.injEq] at hx
    subst hx
    rcases hc with rfl | rfl | rfl <;> decide
  | cons y ys =>
    simp only [List.cons_append, List.head?_cons, Option.some.injEq] at hx
    subst hx
    exact isWs_numStop _ (hw _ (by simp))

/-- whitespace only (or nothing) does not continue a number -/
theorem numStop_ws (w : List Char) (hw : AllWs w) : numStop w := by
  intro x hx
  cases w with
  | nil => simp at hx
  | cons y ys =>
    simp only [List.head?_cons, Option.some.injEq] at hx
    subst hx
    exact isWs_numStop _ (hw _ (by simp))

/-- what follows an array element never continues a number -/
theorem printElemsW_numStop (w : Deco) (hw : ∀ p k, AllWs (w p k)) (p : List Nat) (i : Nat) (vs : List JVal) (rest : List Char) :
    numStop (printElemsW w p i vs ++ rest) := by
  cases vs with
  | nil => simp only [printElemsW, List.append_assoc, List.cons_append, List.nil_append]; exact numStop_ws_sep _ _ _ (hw _ _) (by simp)
  | cons v vs => simp only [printElemsW, List.append_assoc, List.cons_append]; exact numStop_ws_sep _ _ _ (hw _ _) (by simp)

/-- what follows an object member never continues a number -/
theorem printMembersW_numStop (w : Deco) (hw : ∀ p k, AllWs (w p k)) (p : List Nat) (i : Nat) (ms : List (Str × JVal)) (rest : List Char) :
    numStop (printMembersW w p i ms ++ rest) := by
  cases ms with
  | nil => simp only [printMembersW, List.append_assoc, List.cons_append, List.nil_append]; exact numStop_ws_sep _ _ _ (hw _ _) (by simp)
  | cons kv ms =>
    obtain ⟨k, v⟩ := kv
    simp only [printMembersW, List.append_assoc, List.cons_append]; exact numStop_ws_sep _ _ _ (hw _ _) (by simp)

/-- the first character of a printed value is not whitespace and not a closing bracket -/
theorem printW_head (w : Deco) (p : List Nat) (v : JVal) (hv : v.wf) :
    ∃ c r, printW w p v = c :: r ∧ isWs c = false ∧ c ≠ ']' ∧ c ≠ '}' := by
  cases v with
  | null => exact ⟨'n', ['u', 'l', 'l'], by simp only [printW], by decide, by decide, by decide⟩
  | bool b =>
    cases b
    · exact ⟨'f', ['a', 'l', 's', 'e'], by simp only [printW], by decide, by decide, by decide⟩
    · exact ⟨'t', ['r', 'u', 'e'], by simp only [printW], by decide, by decide, by decide⟩
  | num lx =>
    simp only [JVal.wf] at hv
    obtain ⟨c, r, rfl, hc⟩ := validNumber_head lx hv
    refine ⟨c, r, by simp only [printW], ?_⟩
    rcases hc with rfl | hd
    · decide
    · exact ⟨isDigit_not_ws c hd, isDigit_ne c _ hd (by decide), isDigit_ne c _ hd (by decide)⟩
  | str s => exact ⟨'"', printBody s, by simp only [printW, printString], by decide, by decide, by decide⟩
  | arr l =>
    cases l with
    | nil => exact ⟨'[', _, by simp only [printW]; rfl, by decide, by decide, by decide⟩
    | cons v vs => exact ⟨'[', _, by simp only [printW]; rfl, by decide, by decide, by decide⟩
  | obj ms =>
    cases ms with
    | nil => exact ⟨'{', _, by simp only [printW]; rfl, by decide, by decide, by decide⟩
    | cons kv ms => obtain ⟨k, v⟩ := kv; exact ⟨'{', _, by simp only [printW]; rfl, by decide, by decide, by decide⟩

/-! ### reading back the scalars -/

/-- a valid number followed by a text that does not continue it -/
theorem pValue_num (f d : Nat) (lx rest : List Char) (hv : validNumber lx) (hs : numStop rest) :
    pValue (f + 1) d (lx ++ rest) = .ok (.num lx, rest) := by
  obtain ⟨c, r, rfl, hc⟩ := validNumber_head lx hv
  have hl := lexNumber_valid (c :: r) rest hv hs
  have hnd : ∀ x, isDigit x = false → x ≠ '-' → c ≠ x := by
    intro x hx hm
    rcases hc with rfl | hd
    · exact fun e => hm e.symm
    · exact isDigit_ne c x hd hx
  have hws : isWs c = false := by
    rcases hc with rfl | hd
    · decide
    · exact isDigit_not_ws c hd
  simp only [List.cons_append] at hl ⊢
  simp only [pValue, skipWs_cons_of_not_ws _ _ hws]
  simp [hnd '"' (by decide) (by decide), hnd '[' (by decide) (by decide), hnd '{' (by decide) (by decide),
    hnd 'n' (by decide) (by decide), hnd 't' (by decide) (by decide), hnd 'f' (by decide) (by decide), hc, hl]

/-- a printed string -/
theorem pValue_str (f d : Nat) (s : Str) (rest : List Char) :
    pValue (f + 1) d (printString s ++ rest) = .ok (.str s, rest) := by
  simp [pValue, printString, Riti.Json.skipWs_quote, Riti.Json.parseBody_printBody]


/-- a printed member `"k" w3 : w4 value`, given what the value reader makes of the value -/
theorem pMemberWith_print (pv : List Char → R (JVal × List Char)) (k : Str) (w3 : List Char) (T R' : List Char) (v : JVal)
    (h3 : AllWs w3) (hv : pv T = .ok (v, R')) :
    pMemberWith pv (printString k ++ (w3 ++ ':' :: T)) = .ok ((k, v), R') := by
  simp only [pMemberWith, Riti.Json.parseString_printString, skipWs_append_ws w3 _ h3,
    skipWs_cons_of_not_ws ':' T (by decide), if_true, hv]

/-! ### reading back a printed value -/

mutual
/-- **read-back**: the reader, started on a well-formed value printed under ANY whitespace
    decoration and followed by any text `rest` (one that does not continue a number, if the value
    is a number), returns the value and stops exactly in front of `rest` — provided the value is
    shallower than the remaining recursion depth `d` and the fuel exceeds the length of the text -/
theorem pValue_printW (w : Deco) (hw : ∀ p k, AllWs (w p k)) :
    (v : JVal) → (p : List Nat) → (f d : Nat) → (rest : List Char) → v.wf → v.depth < d →
      ((∃ lx, v = .num lx) → numStop rest) → (printW w p v).length + rest.length < f →
      pValue f d (printW w p v ++ rest) = .ok (v, rest)
  | .null, p, f, d, rest, _, _, _, hf => by
    cases f with
    | zero => exact absurd hf (Nat.not_lt_zero _)
    | succ f => simp [printW, pValue, skipWs, isWs]
  | .bool true, p, f, d, rest, _, _, _, hf => by
    cases f with
    | zero => exact absurd hf (Nat.not_lt_zero _)
    | succ f => simp [printW, pValue, skipWs, isWs]
  | .bool false, p, f, d, rest, _, _, _, hf => by
    cases f with
    | zero => exact absurd hf (Nat.not_lt_zero _)
    | succ f => simp [printW, pValue, skipWs, isWs]
  | .num lx, p, f, d, rest, hwf, _, hs, hf => by
    cases f with
    | zero => exact absurd hf (Nat.not_lt_zero _)
    | succ f =>
      simp only [JVal.wf] at hwf
      simp only [printW]
      exact pValue_num f d lx rest hwf (hs ⟨lx, rfl⟩)
  | .str s, p, f, d, rest, _, _, _, hf => by
    cases f with
    | zero => exact absurd hf (Nat.not_lt_zero _)
    | succ f => simp only [printW]; exact pValue_str f d s rest
  | .arr [], p, f, d, rest, _, hd, _, hf => by
    cases f with
    | zero => exact absurd hf (Nat.not_lt_zero _)
    | succ f =>
      simp only [JVal.depth, depthList] at hd
      have hd2 : ¬ d ≤ 1 := by omega
      simp only [printW, List.cons_append, List.append_assoc, pValue, skipWs_cons_of_not_ws '[' _ (by decide),
        skipWs_append_ws _ _ (hw p 0), skipWs_cons_of_not_ws ']' _ (by decide)]
      simp [hd2]
  | .arr (v :: vs), p, f, d, rest, hwf, hd, _, hf => by
    cases f with
    | zero => exact absurd hf (Nat.not_lt_zero _)
    | succ f =>
      simp only [JVal.wf, wfList] at hwf
      simp only [JVal.depth, depthList] at hd
      have hd2 : ¬ d ≤ 1 := by omega
      simp only [printW, List.length_cons, List.length_append] at hf
      obtain ⟨c, r, he, hc1, hc2, _⟩ := printW_head w (0 :: p) v hwf.1
      have iv := pValue_printW w hw v (0 :: p) f (d - 1) (printElemsW w p 1 vs ++ rest) hwf.1 (by omega)
        (fun _ => printElemsW_numStop w hw p 1 vs rest) (by simp only [List.length_append]; omega)
      have ie := pElems_printW w hw vs p 1 f (d - 1) rest hwf.2 (by omega) (by omega)
      simp only [printW, List.cons_append, List.append_assoc, pValue, skipWs_cons_of_not_ws '[' _ (by decide),
        skipWs_append_ws _ _ (hw (0 :: p) 2)]
      rw [he] at iv ⊢
      simp only [List.cons_append] at iv ⊢
      simp only [skipWs_cons_of_not_ws c _ hc1]
      simp [hd2, hc2, iv, ie]
  | .obj [], p, f, d, rest, _, hd, _, hf => by
    cases f with
    | zero => exact absurd hf (Nat.not_lt_zero _)
    | succ f =>
      simp only [JVal.depth, depthMembers] at hd
      have hd2 : ¬ d ≤ 1 := by omega
      simp only [printW, List.cons_append, List.append_assoc, pValue, skipWs_cons_of_not_ws '{' _ (by decide),
        skipWs_append_ws _ _ (hw p 0), skipWs_cons_of_not_ws '}' _ (by decide)]
      simp [hd2]
  | .obj ((k, v) :: ms), p, f, d, rest, hwf, hd, _, hf => by
    cases f with
    | zero => exact absurd hf (Nat.not_lt_zero _)
    | succ f =>
      simp only [JVal.wf, wfMembers] at hwf
      simp only [JVal.depth, depthMembers] at hd
      have hd2 : ¬ d ≤ 1 := by omega
      simp only [printW, List.length_cons, List.length_append] at hf
      have iv := pValue_printW w hw v (0 :: p) f (d - 1) (printMembersW w p 1 ms ++ rest) hwf.1 (by omega)
        (fun _ => printMembersW_numStop w hw p 1 ms rest) (by simp only [List.length_append]; omega)
      have im := pMembers_printW w hw ms p 1 f (d - 1) rest hwf.2 (by omega) (by omega)
      have iv' : pValue f (d - 1) (w (0 :: p) 4 ++ (printW w (0 :: p) v ++ (printMembersW w p 1 ms ++ rest))) =
          .ok (v, printMembersW w p 1 ms ++ rest) := by rw [pValue_skip _ _ (hw _ _)]; exact iv
      have hm := pMemberWith_print (pValue f (d - 1)) k (w (0 :: p) 3) _ _ v (hw _ _) iv'
      simp only [printW, List.cons_append, List.append_assoc, pValue, skipWs_cons_of_not_ws '{' _ (by decide),
        skipWs_append_ws _ _ (hw (0 :: p) 2)]
      simp only [printString, List.cons_append] at hm ⊢
      simp only [Riti.Json.skipWs_quote]
      simp [hd2, hm, im]
/-- read-back of the elements after the first and the closing bracket -/
theorem pElems_printW (w : Deco) (hw : ∀ p k, AllWs (w p k)) :
    (vs : List JVal) → (p : List Nat) → (i f d : Nat) → (rest : List Char) → wfList vs → depthList vs < d →
      (printElemsW w p i vs).length + rest.length < f →
      pElems f d (printElemsW w p i vs ++ rest) = .ok (vs, rest)
  | [], p, i, f, d, rest, _, _, hf => by
    cases f with
    | zero => exact absurd hf (Nat.not_lt_zero _)
    | succ f =>
      simp only [printElemsW, List.append_assoc, List.cons_append, List.nil_append, pElems,
        skipWs_append_ws _ _ (hw (i :: p) 5), skipWs_cons_of_not_ws ']' _ (by decide)]
      simp
  | v :: vs, p, i, f, d, rest, hwf, hd, hf => by
    cases f with
    | zero => exact absurd hf (Nat.not_lt_zero _)
    | succ f =>
      simp only [wfList] at hwf
      simp only [depthList] at hd
      simp only [printElemsW, List.length_cons, List.length_append] at hf
      have iv := pValue_printW w hw v (i :: p) f d (printElemsW w p (i + 1) vs ++ rest) hwf.1 (by omega)
        (fun _ => printElemsW_numStop w hw p (i + 1) vs rest) (by simp only [List.length_append]; omega)
      have ie := pElems_printW w hw vs p (i + 1) f d rest hwf.2 (by omega) (by omega)
      have iv' : pValue f d (w (i :: p) 2 ++ (printW w (i :: p) v ++ (printElemsW w p (i + 1) vs ++ rest))) =
          .ok (v, printElemsW w p (i + 1) vs ++ rest) := by rw [pValue_skip _ _ (hw _ _)]; exact iv
      simp only [printElemsW, List.append_assoc, List.cons_append, pElems,
        skipWs_append_ws _ _ (hw (i :: p) 1), skipWs_cons_of_not_ws ',' _ (by decide)]
      simp [iv', ie]
/-- read-back of the members after the first and the closing brace -/
theorem pMembers_printW (w : Deco) (hw : ∀ p k, AllWs (w p k)) :
    (ms : List (Str × JVal)) → (p : List Nat) → (i f d : Nat) → (rest : List Char) → wfMembers ms → depthMembers ms < d →
      (printMembersW w p i ms).length + rest.length < f →
      pMembers f d (printMembersW w p i ms ++ rest) = .ok (ms, rest)
  | [], p, i, f, d, rest, _, _, hf => by
    cases f with
    | zero => exact absurd hf (Nat.not_lt_zero _)
    | succ f =>
      simp only [printMembersW, List.append_assoc, List.cons_append, List.nil_append, pMembers,
        skipWs_append_ws _ _ (hw (i :: p) 5), skipWs_cons_of_not_ws '}' _ (by decide)]
      simp
  | (k, v) :: ms, p, i, f, d, rest, hwf, hd, hf => by
    cases f with
    | zero => exact absurd hf (Nat.not_lt_zero _)
    | succ f =>
      simp only [wfMembers] at hwf
      simp only [depthMembers] at hd
      simp only [printMembersW, List.length_cons, List.length_append] at hf
      have iv := pValue_printW w hw v (i :: p) f d (printMembersW w p (i + 1) ms ++ rest) hwf.1 (by omega)
        (fun _ => printMembersW_numStop w hw p (i + 1) ms rest) (by simp only [List.length_append]; omega)
      have im := pMembers_printW w hw ms p (i + 1) f d rest hwf.2 (by omega) (by omega)
      have iv' : pValue f d (w (i :: p) 4 ++ (printW w (i :: p) v ++ (printMembersW w p (i + 1) ms ++ rest))) =
          .ok (v, printMembersW w p (i + 1) ms ++ rest) := by rw [pValue_skip _ _ (hw _ _)]; exact iv
      have hm := pMemberWith_print (pValue f d) k (w (i :: p) 3) _ _ v (hw _ _) iv'
      have hm' : pMemberWith (pValue f d) (w (i :: p) 2 ++ (printString k ++ (w (i :: p) 3 ++ ':' :: (w (i :: p) 4 ++ (printW w (i :: p) v ++ (printMembersW w p (i + 1) ms ++ rest)))))) =
          .ok ((k, v), printMembersW w p (i + 1) ms ++ rest) := by
        simp only [pMemberWith, parseString_skip _ _ (hw (i :: p) 2)] at hm ⊢
        exact hm
      simp only [printMembersW, List.append_assoc, List.cons_append, pMembers,
        skipWs_append_ws _ _ (hw (i :: p) 1), skipWs_cons_of_not_ws ',' _ (by decide)]
      simp [hm', im]
end


/-! ### the map a member list denotes -/

/-- look-up in a concatenation: the first list has priority -/
theorem alookup_append_gen {β : Type} (a b : List (Str × β)) (k : Str) :
    alookup (a ++ b) k = (alookup a k).or (alookup b k) := by
  induction a with
  | nil => simp [alookup]
  | cons x a ih =>
    obtain ⟨k', v'⟩ := x
    simp only [List.cons_append, alookup]
    split
    · simp
    · exact ih

/-- with duplicate member names the LAST one wins (`BTreeMap::insert` / `HashMap::insert` in document order) -/
theorem alookup_dedup {β : Type} (ms : List (Str × β)) (k : Str) : alookup (dedup ms) k = lookupLast ms k := by
  unfold dedup lookupLast
  suffices ∀ acc : List (Str × β), alookup (ms.foldl (fun st kv => ainsert st kv.1 kv.2) acc) k =
      (alookup ms.reverse k).or (alookup acc k) by
    have h := this []
    simpa [alookup] using h
  induction ms with
  | nil => intro acc; simp [alookup]
  | cons kv m ih =>
    intro acc
    simp only [List.foldl_cons, List.reverse_cons]
    rw [ih, Riti.AList.alookup_ainsert, alookup_append_gen]
    obtain ⟨k', v'⟩ := kv
    by_cases e : k = k'
    · subst e; cases alookup m.reverse k <;> simp [alookup]
    · have e' : ¬ k' = k := fun h => e h.symm
      cases alookup m.reverse k <;> simp [alookup, e, e']

/-- members all of whose values are strings, as JSON values -/
def strMembers (lay : List (Str × Str)) : List (Str × JVal) := lay.map (fun kv => (kv.1, JVal.str kv.2))

/-- insertion commutes with a map on the values -/
theorem ainsert_map {β γ : Type} (g : β → γ) (acc : List (Str × β)) (k : Str) (v : β) :
    ainsert (acc.map (fun kv => (kv.1, g kv.2))) k (g v) = (ainsert acc k v).map (fun kv => (kv.1, g kv.2)) := by
  induction acc with
  | nil => simp [ainsert]
  | cons x xs ih =>
    obtain ⟨a, b⟩ := x
    simp only [List.map_cons, ainsert]
    split
    · simp
    · simp [ih]

/-- resolving duplicates commutes with a map on the values -/
theorem dedup_map {β γ : Type} (g : β → γ) (ms : List (Str × β)) :
    dedup (ms.map (fun kv => (kv.1, g kv.2))) = (dedup ms).map (fun kv => (kv.1, g kv.2)) := by
  unfold dedup
  suffices ∀ acc : List (Str × β),
      (ms.map (fun kv => (kv.1, g kv.2))).foldl (fun st kv => ainsert st kv.1 kv.2) (acc.map (fun kv => (kv.1, g kv.2))) =
        (ms.foldl (fun st kv => ainsert st kv.1 kv.2) acc).map (fun kv => (kv.1, g kv.2)) by
    simpa using this []
  induction ms with
  | nil => intro acc; rfl
  | cons kv m ih =>
    intro acc
    simp only [List.map_cons, List.foldl_cons]
    rw [ainsert_map g acc kv.1 kv.2, ih]

/-- members that are all strings pass the test, and give their texts -/
theorem allStrings_strMembers (lay : List (Str × Str)) : allStrings (strMembers lay) = some lay := by
  induction lay with
  | nil => rfl
  | cons kv l ih =>
    obtain ⟨k, s⟩ := kv
    simp only [strMembers, List.map_cons] at ih ⊢
    simp [allStrings, ih]

/-- `from_value::<HashMap<String,String>>` of an object of strings: the map with the last binding of every name -/
theorem asStringMap_strMembers (lay : List (Str × Str)) : asStringMap (.obj (strMembers lay)) = some (dedup lay) := by
  simp only [asStringMap, strMembers]
  rw [dedup_map JVal.str lay]
  exact allStrings_strMembers (dedup lay)

/-- a member list that passes the string test consists of strings -/
theorem allStrings_some (ms : List (Str × JVal)) (m : List (Str × Str)) (h : allStrings ms = some m) :
    ms = strMembers m := by
  induction ms generalizing m with
  | nil => simp only [allStrings, Option.some.injEq] at h; subst h; rfl
  | cons kv r ih =>
    obtain ⟨k, v⟩ := kv
    cases v with
    | str s =>
      simp only [allStrings] at h
      cases hr : allStrings r with
      | none => simp [hr] at h
      | some m' =>
        simp only [hr, Option.some.injEq] at h
        subst h
        simp [strMembers, ih m' hr]
    | null => simp [allStrings] at h
    | bool b => simp [allStrings] at h
    | num l => simp [allStrings] at h
    | arr l => simp [allStrings] at h
    | obj l => simp [allStrings] at h

/-- looking a name up among string members -/
theorem alookup_strMembers (m : List (Str × Str)) (k : Str) : alookup (strMembers m) k = (alookup m k).map JVal.str := by
  induction m with
  | nil => rfl
  | cons kv r ih =>
    obtain ⟨a, b⟩ := kv
    simp only [strMembers, List.map_cons, alookup] at ih ⊢
    split
    · rfl
    · exact ih

/-- if an object is accepted as a map of strings, the last binding of every name is a string, and
    it is the value the map gives -/
theorem asStringMap_obj_some (lms : List (Str × JVal)) (m : List (Str × Str)) (h : asStringMap (.obj lms) = some m) (k : Str) :
    lookupLast lms k = (alookup m k).map JVal.str := by
  simp only [asStringMap] at h
  have := allStrings_some _ _ h
  rw [← alookup_dedup, this, alookup_strMembers]

end Riti.JsonValue
