/-
Lemmas/JsonValueTotal — totality facts about the JSON value reader of Model/JsonValue.

* remainders: what a reader hands back is a proper suffix of what it was given (`skipWs`,
  `parseBody`, `lexNumber`, `pValue` / `pElems` / `pMembers` / `pMemberWith`);
* fuel: `parseValue` supplies fuel = input length + 1 and every recursive call is on a shorter
  input, so the outcome `ReadErr.fuel` is impossible (`parseValue_ne_fuel`, `layoutOfFile_ne_fuel`);
  more fuel never changes an outcome other than `fuel` (`pValue_fuel_mono`, `pValue_fuel_le`);
* `unsupportedNumber` (the one thing not modelled): it only comes from a number token with more
  than 200 integer digits or more than 2 exponent digits, so a document in which no three decimal
  digits follow each other is never answered that way (`parseValue_supported`).
  NB the textual condition also excludes harmless documents, e.g. one with the escape `\u0986`.

The three mutual facts (`rem_all`, `err_all`, `mono_all`) are each ONE theorem proved by induction on
the fuel; the leaves of the `match` / `if` cascade are closed by `grind` / `simp_all`.
-/
import RitiModel.Model.JsonValue
namespace Riti.JsonValue
open Riti.Json (Str skipWs isWs parseBody parseString utf8Decode push decodeEscape)

/-! ### remainders of the basic readers -/

/-- skipping whitespace leaves a suffix of the input -/
theorem skipWs_suffix (t : List Char) : skipWs t <:+ t := by
  induction t with
  | nil => exact List.suffix_refl _
  | cons c r ih =>
    rw [skipWs]; split
    · exact ih.trans (List.suffix_cons c r)
    · exact List.suffix_refl _

/-- skipping whitespace never lengthens the input -/
theorem skipWs_length_le (t : List Char) : (skipWs t).length ≤ t.length :=
  (skipWs_suffix t).length_le

/-- the input after a first non-blank character is a proper suffix -/
theorem skipWs_cons_rem {t : List Char} {c : Char} {r : List Char} (h : skipWs t = c :: r) :
    r.length < t.length ∧ r <:+ t := by
  have hs := skipWs_suffix t
  rw [h] at hs
  have := hs.length_le
  simp only [List.length_cons] at this
  exact ⟨by omega, (List.suffix_cons c r).trans hs⟩

/-- `push` keeps the rest of the body it extends -/
theorem push_some {c : Char} {o : Option (Str × List Char)} {s : Str} {r : List Char}
    (h : push c o = some (s, r)) : ∃ s', o = some (s', r) := by
  cases o with
  | none => simp [push] at h
  | some p => obtain ⟨a, b⟩ := p; simp only [push, Option.some.injEq, Prod.mk.injEq] at h; exact ⟨a, by rw [h.2]⟩

/-- the input after a string body (closing quote included) is a proper suffix of the input -/
theorem parseBody_rem (k : Nat) (t : List Char) (s : Str) (r : List Char)
    (h : parseBody k t = some (s, r)) : r.length < t.length ∧ r <:+ t := by
  induction t generalizing k s with
  | nil => simp [parseBody] at h
  | cons c rest ih =>
    have step : ∀ k s, parseBody k rest = some (s, r) → r.length < (c :: rest).length ∧ r <:+ c :: rest := by
      intro k s h
      have := ih k s h
      simp only [List.length_cons]
      exact ⟨by omega, this.2.trans (List.suffix_cons c rest)⟩
    cases k with
    | succ k => rw [parseBody] at h; exact step k s h
    | zero =>
      rw [parseBody] at h
      split at h
      · simp only [Option.some.injEq, Prod.mk.injEq] at h
        rw [← h.2]; simp only [List.length_cons]
        exact ⟨by omega, List.suffix_cons c rest⟩
      · split at h
        · split at h
          · cases h
          · obtain ⟨s', h'⟩ := push_some h; exact step _ _ h'
        · split at h
          · cases h
          · obtain ⟨s', h'⟩ := push_some h; exact step _ _ h'

/-- the input after a string body is strictly shorter than the input -/
theorem parseBody_length (k : Nat) (t : List Char) (s : Str) (r : List Char)
    (h : parseBody k t = some (s, r)) : r.length < t.length := (parseBody_rem k t s r h).1

/-- the input after a string body is a suffix of the input -/
theorem parseBody_suffix (k : Nat) (t : List Char) (s : Str) (r : List Char)
    (h : parseBody k t = some (s, r)) : r <:+ t := (parseBody_rem k t s r h).2

/-! ### numbers -/

/-- the rest after the leading digits is a suffix -/
theorem digits_suffix (t : List Char) : (digits t).2 <:+ t := by
  induction t with
  | nil => exact List.suffix_refl _
  | cons c r ih =>
    rw [digits]; split
    · exact ih.trans (List.suffix_cons c r)
    · exact List.suffix_refl _

/-- the leading digits and the rest make up the input -/
theorem digits_length (t : List Char) : (digits t).1.length + (digits t).2.length = t.length := by
  induction t with
  | nil => rfl
  | cons c r ih =>
    rw [digits]; split
    · simp only [List.length_cons]; omega
    · simp

/-- exponent part: the rest is a suffix, and the digit count is that of the leading digits of some suffix -/
theorem lexExp_ok (t x : List Char) (n : Nat) (r : List Char) (h : lexExp t = .ok (x, n, r)) :
    r <:+ t ∧ ∃ u, u <:+ t ∧ n ≤ (digits u).1.length := by
  unfold lexExp at h
  split at h
  · simp only [Except.ok.injEq, Prod.mk.injEq] at h
    obtain ⟨_, rfl, rfl⟩ := h
    exact ⟨List.suffix_refl _, [], List.suffix_refl _, Nat.zero_le _⟩
  · rename_i e r0
    split at h
    · split at h
      · cases h
      · rename_i s r1
        split at h
        · simp only at h
          split at h
          · cases h
          · simp only [Except.ok.injEq, Prod.mk.injEq] at h
            obtain ⟨_, rfl, rfl⟩ := h
            have h1 : r1 <:+ e :: s :: r1 := (List.suffix_cons s r1).trans (List.suffix_cons e _)
            exact ⟨(digits_suffix r1).trans h1, r1, h1, Nat.le_refl _⟩
        · simp only at h
          split at h
          · cases h
          · simp only [Except.ok.injEq, Prod.mk.injEq] at h
            obtain ⟨_, rfl, rfl⟩ := h
            exact ⟨(digits_suffix _).trans (List.suffix_cons e _), _, List.suffix_cons e _, Nat.le_refl _⟩
    · simp only [Except.ok.injEq, Prod.mk.injEq] at h
      obtain ⟨_, rfl, rfl⟩ := h
      exact ⟨List.suffix_refl _, [], List.nil_suffix, Nat.zero_le _⟩

/-- fraction and exponent part: the same two facts -/
theorem lexFracExp_ok (t x : List Char) (n : Nat) (r : List Char) (h : lexFracExp t = .ok (x, n, r)) :
    r <:+ t ∧ ∃ u, u <:+ t ∧ n ≤ (digits u).1.length := by
  unfold lexFracExp at h
  split at h
  · simp only [Except.ok.injEq, Prod.mk.injEq] at h
    obtain ⟨_, rfl, rfl⟩ := h
    exact ⟨List.suffix_refl _, [], List.suffix_refl _, Nat.zero_le _⟩
  · rename_i p r0
    split at h
    · simp only at h
      split at h
      · cases h
      · split at h
        · cases h
        · rename_i ex n' rest hx
          simp only [Except.ok.injEq, Prod.mk.injEq] at h
          obtain ⟨_, rfl, rfl⟩ := h
          obtain ⟨h1, u, h2, h3⟩ := lexExp_ok _ _ _ _ hx
          have h0 : (digits r0).2 <:+ p :: r0 := (digits_suffix r0).trans (List.suffix_cons p r0)
          exact ⟨h1.trans h0, u, h2.trans h0, h3⟩
    · exact lexExp_ok _ _ _ _ h

/-- integer part: the rest is a proper suffix; its text is one character or the leading digits of the input -/
theorem lexInt_ok (t i r : List Char) (h : lexInt t = .ok (i, r)) :
    r.length < t.length ∧ r <:+ t ∧ (i.length ≤ 1 ∨ i.length = (digits t).1.length) := by
  unfold lexInt at h
  split at h
  · cases h
  · rename_i c r0
    split at h
    · split at h
      · simp only [Except.ok.injEq, Prod.mk.injEq] at h
        obtain ⟨rfl, rfl⟩ := h
        exact ⟨by simp, List.nil_suffix, Or.inl (by simp)⟩
      · split at h
        · cases h
        · simp only [Except.ok.injEq, Prod.mk.injEq] at h
          obtain ⟨rfl, rfl⟩ := h
          exact ⟨by simp, List.suffix_cons _ _, Or.inl (by simp)⟩
    · split at h
      · rename_i hd
        simp only [Except.ok.injEq, Prod.mk.injEq] at h
        obtain ⟨rfl, rfl⟩ := h
        have hl := digits_length r0
        refine ⟨by simp only [List.length_cons]; omega, (digits_suffix r0).trans (List.suffix_cons c r0), Or.inr ?_⟩
        rw [digits, if_pos hd]
      · cases h

/-- the integer part only fails with a syntax error -/
theorem lexInt_err (t : List Char) (e : ReadErr) (h : lexInt t = .error e) : e = .notJson := by
  unfold lexInt at h
  repeat' split at h
  all_goals first | cases h; rfl | cases h

/-- the exponent part only fails with a syntax error -/
theorem lexExp_err (t : List Char) (e : ReadErr) (h : lexExp t = .error e) : e = .notJson := by
  unfold lexExp at h
  simp only at h
  repeat' split at h
  all_goals first | cases h; rfl | cases h

/-- the fraction and exponent part only fails with a syntax error -/
theorem lexFracExp_err (t : List Char) (e : ReadErr) (h : lexFracExp t = .error e) : e = .notJson := by
  unfold lexFracExp at h
  simp only at h
  split at h
  · cases h
  · split at h
    · split at h
      · cases h; rfl
      · split at h
        · rename_i hx; cases h; exact lexExp_err _ _ hx
        · cases h
    · exact lexExp_err _ _ h

/-- a number token once its sign is split off (auxiliary: `lexNumber` with the first `match` resolved) -/
def lexNumberFrom (sign t1 : List Char) : R (List Char × List Char) :=
  match lexInt t1 with
  | .error e => .error e
  | .ok (int, r) =>
    match lexFracExp r with
    | .error e => .error e
    | .ok (fe, nexp, rest) =>
      if int.length ≤ maxIntDigits ∧ nexp ≤ maxExpDigits then .ok (sign ++ int ++ fe, rest)
      else .error .unsupportedNumber

/-- `lexNumber` is `lexNumberFrom` on the input without its sign -/
theorem lexNumber_eq (t : List Char) : ∃ sign t1, t1 <:+ t ∧ lexNumber t = lexNumberFrom sign t1 := by
  cases t with
  | nil => exact ⟨[], [], List.suffix_refl _, rfl⟩
  | cons c r =>
    by_cases hc : c = '-'
    · exact ⟨['-'], r, List.suffix_cons c r, by simp only [lexNumber, lexNumberFrom, if_pos hc]; rfl⟩
    · exact ⟨[], c :: r, List.suffix_refl _, by simp only [lexNumber, lexNumberFrom, if_neg hc]; rfl⟩

/-- the input after a number token is a proper suffix of the input -/
theorem lexNumber_length (t lx r : List Char) (h : lexNumber t = .ok (lx, r)) :
    r.length < t.length ∧ r <:+ t := by
  obtain ⟨sign, t1, ht1, he⟩ := lexNumber_eq t
  rw [he] at h
  unfold lexNumberFrom at h
  split at h
  · cases h
  · rename_i int r0 hi
    split at h
    · cases h
    · rename_i fe nexp rest hf
      split at h
      · simp only [Except.ok.injEq, Prod.mk.injEq] at h
        obtain ⟨_, rfl⟩ := h
        obtain ⟨a1, a2, _⟩ := lexInt_ok _ _ _ hi
        obtain ⟨b1, _⟩ := lexFracExp_ok _ _ _ _ hf
        have b2 := b1.length_le
        have b3 := ht1.length_le
        exact ⟨by omega, (b1.trans a2).trans ht1⟩
      · cases h

/-- a number is only unsupported when some suffix of its text starts with three or more decimal digits -/
theorem lexNumber_unsupported (s : List Char) (h : lexNumber s = .error .unsupportedNumber) :
    ∃ u, u <:+ s ∧ 2 < (digits u).1.length := by
  obtain ⟨sign, t1, ht1, he⟩ := lexNumber_eq s
  rw [he] at h
  unfold lexNumberFrom at h
  split at h
  · rename_i e hi
    cases h; cases lexInt_err _ _ hi
  · rename_i int r0 hi
    split at h
    · rename_i e hf
      cases h; cases lexFracExp_err _ _ hf
    · rename_i fe nexp rest hf
      split at h
      · cases h
      · rename_i hn
        obtain ⟨a1, a2, a3⟩ := lexInt_ok _ _ _ hi
        obtain ⟨b1, u, b2, b3⟩ := lexFracExp_ok _ _ _ _ hf
        simp only [maxIntDigits, maxExpDigits] at hn
        by_cases h200 : int.length ≤ 200
        · exact ⟨u, (b2.trans a2).trans ht1, by omega⟩
        · exact ⟨t1, ht1, by omega⟩

/-! ### members and the three mutual readers -/

/-- the input after a string literal is a proper suffix of the input -/
theorem parseString_rem {t : List Char} {k : Str} {r : List Char} (h : parseString t = some (k, r)) :
    r.length < t.length ∧ r <:+ t := by
  unfold parseString at h
  split at h
  · cases h
  · rename_i c r0 hs
    split at h
    · have a := skipWs_cons_rem hs
      have b := parseBody_rem _ _ _ _ h
      exact ⟨by omega, b.2.trans a.2⟩
    · cases h

/-- a member that is read: its value is read by `pv` on a proper suffix, with the same rest -/
theorem pMemberWith_ok {pv : List Char → R (JVal × List Char)} {t : List Char} {kv : Str × JVal} {r : List Char}
    (h : pMemberWith pv t = .ok (kv, r)) :
    ∃ u, u <:+ t ∧ u.length < t.length ∧ ∃ v, pv u = .ok (v, r) := by
  unfold pMemberWith at h
  split at h
  · cases h
  · rename_i k r0 hk
    split at h
    · cases h
    · rename_i c r1 hs
      split at h
      · split at h
        · cases h
        · rename_i v r2 hv
          simp only [Except.ok.injEq, Prod.mk.injEq] at h
          obtain ⟨_, rfl⟩ := h
          have a := parseString_rem hk
          have b := skipWs_cons_rem hs
          exact ⟨r1, b.2.trans a.2, by omega, v, hv⟩
      · cases h

/-- a member that is not read: a syntax error, or the error of `pv` on a proper suffix -/
theorem pMemberWith_err {pv : List Char → R (JVal × List Char)} {t : List Char} {e : ReadErr}
    (h : pMemberWith pv t = .error e) :
    e = .notJson ∨ ∃ u, u <:+ t ∧ u.length < t.length ∧ pv u = .error e := by
  unfold pMemberWith at h
  split at h
  · cases h; exact Or.inl rfl
  · rename_i k r0 hk
    split at h
    · cases h; exact Or.inl rfl
    · rename_i c r1 hs
      split at h
      · split at h
        · rename_i e' hv
          cases h
          have a := parseString_rem hk
          have b := skipWs_cons_rem hs
          exact Or.inr ⟨r1, b.2.trans a.2, by omega, hv⟩
        · cases h
      · cases h; exact Or.inl rfl

/-- whatever the reader `p` hands back is a proper suffix of its input -/
def Rem {α : Type} (p : List Char → R (α × List Char)) : Prop :=
  ∀ t v r, p t = .ok (v, r) → r.length < t.length ∧ r <:+ t

/-- the member reader hands back a proper suffix if its value reader does -/
theorem pMemberWith_rem (pv : List Char → R (JVal × List Char)) (h : Rem pv) : Rem (pMemberWith pv) := by
  intro t kv r hm
  obtain ⟨u, h1, h2, v, h3⟩ := pMemberWith_ok hm
  have := h u v r h3
  exact ⟨by omega, this.2.trans h1⟩

section mutualFacts

/-- a suffix that is a `cons` gives its tail as a strictly shorter suffix -/
theorem suf_tail {c : Char} {r t : List Char} (h : c :: r <:+ t) : r <:+ t ∧ r.length < t.length := by
  have := h.length_le
  simp only [List.length_cons] at this
  exact ⟨(List.suffix_cons c r).trans h, by omega⟩

local grind_pattern skipWs_suffix => skipWs t
attribute [local grind →] suf_tail parseBody_rem lexNumber_length List.IsSuffix.trans List.IsSuffix.length_le

/-- **remainders**, all three readers at once: the input handed back is a proper suffix -/
theorem rem_all : ∀ f, (∀ d, Rem (pValue f d)) ∧ (∀ d, Rem (pElems f d)) ∧ (∀ d, Rem (pMembers f d)) := by
  intro f
  induction f with
  | zero => refine ⟨?_, ?_, ?_⟩ <;> intro d t v r h <;> simp [pValue, pElems, pMembers] at h
  | succ f ih =>
    obtain ⟨ihv, ihe, ihm⟩ := ih
    have ihw := fun d => pMemberWith_rem _ (ihv d)
    simp only [Rem] at ihv ihe ihm ihw
    refine ⟨?_, ?_, ?_⟩
    · intro d t v r h
      rw [pValue] at h
      repeat' split at h
      all_goals first | cases h | skip
      all_goals grind
    · intro d t v r h
      rw [pElems] at h
      repeat' split at h
      all_goals first | cases h | skip
      all_goals grind
    · intro d t v r h
      rw [pMembers] at h
      repeat' split at h
      all_goals first | cases h | skip
      all_goals grind

/-- where an error of the readers comes from: syntax, depth limit, fuel not above the input length, or an unsupported number token somewhere in the input -/
def ErrFrom (f : Nat) (t : List Char) (e : ReadErr) : Prop :=
  e = .notJson ∨ e = .tooDeep ∨ (e = .fuel ∧ f ≤ t.length) ∨
    (e = .unsupportedNumber ∧ ∃ s, s <:+ t ∧ lexNumber s = .error .unsupportedNumber)

/-- a number token only fails with a syntax error or as unsupported -/
theorem lexNumber_err (t : List Char) (e : ReadErr) (h : lexNumber t = .error e) :
    e = .notJson ∨ e = .unsupportedNumber := by
  obtain ⟨sign, t1, ht1, he⟩ := lexNumber_eq t
  rw [he] at h
  unfold lexNumberFrom at h
  split at h
  · rename_i e hi; cases h; exact Or.inl (lexInt_err _ _ hi)
  · split at h
    · rename_i e hf; cases h; exact Or.inl (lexFracExp_err _ _ hf)
    · split at h
      · cases h
      · cases h; exact Or.inr rfl

/-- an error origin of a recursive call on a strictly shorter suffix is one of the caller, with one more unit of fuel -/
theorem errFrom_lift {f : Nat} {u t : List Char} {e : ReadErr} (h : ErrFrom f u e) (h1 : u <:+ t)
    (h2 : u.length < t.length) : ErrFrom (f + 1) t e := by
  rcases h with h | h | ⟨h, h'⟩ | ⟨h, s, h', h''⟩
  · exact Or.inl h
  · exact Or.inr (Or.inl h)
  · exact Or.inr (Or.inr (Or.inl ⟨h, by omega⟩))
  · exact Or.inr (Or.inr (Or.inr ⟨h, s, h'.trans h1, h''⟩))

/-- an error origin on a suffix is one on the whole input, same fuel -/
theorem errFrom_weaken {f : Nat} {u t : List Char} {e : ReadErr} (h : ErrFrom f u e) (h1 : u <:+ t) :
    ErrFrom f t e := by
  have := h1.length_le
  rcases h with h | h | ⟨h, h'⟩ | ⟨h, s, h', h''⟩
  · exact Or.inl h
  · exact Or.inr (Or.inl h)
  · exact Or.inr (Or.inr (Or.inl ⟨h, by omega⟩))
  · exact Or.inr (Or.inr (Or.inr ⟨h, s, h'.trans h1, h''⟩))

/-- an error of a number token inside the input is an error origin -/
theorem errFrom_lex {f : Nat} {s t : List Char} {e : ReadErr} (h : lexNumber s = .error e) (h1 : s <:+ t) :
    ErrFrom f t e := by
  rcases lexNumber_err _ _ h with rfl | rfl
  · exact Or.inl rfl
  · exact Or.inr (Or.inr (Or.inr ⟨rfl, s, h1, h⟩))

/-- an error of the member reader is a syntax error or an error of its value reader -/
theorem pMemberWith_errFrom {pv : List Char → R (JVal × List Char)} {f : Nat}
    (hpv : ∀ t e, pv t = .error e → ErrFrom f t e) {t : List Char} {e : ReadErr}
    (h : pMemberWith pv t = .error e) : ErrFrom f t e := by
  rcases pMemberWith_err h with rfl | ⟨u, h1, h2, h3⟩
  · exact Or.inl rfl
  · exact errFrom_weaken (hpv u e h3) h1

/-- **error origins**, all three readers at once -/
theorem err_all : ∀ f, (∀ d t e, pValue f d t = .error e → ErrFrom f t e) ∧
    (∀ d t e, pElems f d t = .error e → ErrFrom f t e) ∧
    (∀ d t e, pMembers f d t = .error e → ErrFrom f t e) := by
  intro f
  induction f with
  | zero =>
    refine ⟨?_, ?_, ?_⟩ <;> intro d t e h <;> simp [pValue, pElems, pMembers] at h <;>
      subst h <;> exact Or.inr (Or.inr (Or.inl ⟨rfl, Nat.zero_le _⟩))
  | succ f ih =>
    obtain ⟨ihv, ihe, ihm⟩ := ih
    obtain ⟨rv, re, rm⟩ := rem_all f
    have rw_ := fun d => pMemberWith_rem _ (rv d)
    have ihw : ∀ d t e, pMemberWith (pValue f d) t = .error e → ErrFrom f t e :=
      fun d t e h => pMemberWith_errFrom (ihv d) h
    simp only [Rem] at rv re rm rw_
    refine ⟨?_, ?_, ?_⟩
    · intro d t e h
      rw [pValue] at h
      repeat' split at h
      all_goals first | cases h | skip
      all_goals first | exact Or.inl rfl | exact Or.inr (Or.inl rfl) | skip
      all_goals grind [errFrom_lift, errFrom_lex]
    · intro d t e h
      rw [pElems] at h
      repeat' split at h
      all_goals first | cases h | skip
      all_goals first | exact Or.inl rfl | exact Or.inr (Or.inl rfl) | skip
      all_goals grind [errFrom_lift, errFrom_lex]
    · intro d t e h
      rw [pMembers] at h
      repeat' split at h
      all_goals first | cases h | skip
      all_goals first | exact Or.inl rfl | exact Or.inr (Or.inl rfl) | skip
      all_goals grind [errFrom_lift, errFrom_lex]

/-- `p'` agrees with `p` wherever `p` does not run out of fuel -/
def Mono {α : Type} (p p' : List Char → R α) : Prop := ∀ t, p t ≠ .error .fuel → p' t = p t

/-- the member reader agrees on two value readers that agree except on `fuel` -/
theorem pMemberWith_mono {pv pv' : List Char → R (JVal × List Char)} (h : Mono pv pv') :
    Mono (pMemberWith pv) (pMemberWith pv') := by
  intro t hne
  generalize hx : pMemberWith pv t = x at hne ⊢
  unfold pMemberWith at hx ⊢
  simp only [Mono] at h
  repeat' split at hx
  all_goals subst hx
  all_goals simp_all

/-- **fuel monotonicity**, all three readers at once: one more unit of fuel changes no outcome other than `fuel` -/
theorem mono_all : ∀ f, (∀ d, Mono (pValue f d) (pValue (f + 1) d)) ∧
    (∀ d, Mono (pElems f d) (pElems (f + 1) d)) ∧ (∀ d, Mono (pMembers f d) (pMembers (f + 1) d)) := by
  intro f
  induction f with
  | zero => refine ⟨?_, ?_, ?_⟩ <;> intro d t h <;> simp [pValue, pElems, pMembers] at h
  | succ f ih =>
    obtain ⟨ihv, ihe, ihm⟩ := ih
    have ihw := fun d => pMemberWith_mono (ihv d)
    simp only [Mono] at ihv ihe ihm ihw
    refine ⟨?_, ?_, ?_⟩
    · intro d t hne
      generalize hx : pValue (f + 1) d t = x at hne ⊢
      rw [pValue] at hx ⊢
      repeat' split at hx
      all_goals subst hx
      all_goals (simp_all; try (intro hd; omega))
    · intro d t hne
      generalize hx : pElems (f + 1) d t = x at hne ⊢
      rw [pElems] at hx ⊢
      repeat' split at hx
      all_goals subst hx
      all_goals simp_all
    · intro d t hne
      generalize hx : pMembers (f + 1) d t = x at hne ⊢
      rw [pMembers] at hx ⊢
      repeat' split at hx
      all_goals subst hx
      all_goals simp_all

end mutualFacts

/-! ### the statements for each reader -/

/-- the input after a value is a proper suffix of the input -/
theorem pValue_rem (f d : Nat) (t : List Char) (v : JVal) (r : List Char)
    (h : pValue f d t = .ok (v, r)) : r.length < t.length ∧ r <:+ t := (rem_all f).1 d t v r h

/-- the input after the remaining array elements is a proper suffix of the input -/
theorem pElems_rem (f d : Nat) (t : List Char) (v : List JVal) (r : List Char)
    (h : pElems f d t = .ok (v, r)) : r.length < t.length ∧ r <:+ t := (rem_all f).2.1 d t v r h

/-- the input after the remaining object members is a proper suffix of the input -/
theorem pMembers_rem (f d : Nat) (t : List Char) (v : List (Str × JVal)) (r : List Char)
    (h : pMembers f d t = .ok (v, r)) : r.length < t.length ∧ r <:+ t := (rem_all f).2.2 d t v r h

/-- an error of the value reader is a syntax error, the depth limit, fuel no greater than the input length, or an unsupported number token in the input -/
theorem pValue_errFrom (f d : Nat) (t : List Char) (e : ReadErr) (h : pValue f d t = .error e) :
    ErrFrom f t e := (err_all f).1 d t e h

/-- the same for the array-element reader -/
theorem pElems_errFrom (f d : Nat) (t : List Char) (e : ReadErr) (h : pElems f d t = .error e) :
    ErrFrom f t e := (err_all f).2.1 d t e h

/-- the same for the object-member reader -/
theorem pMembers_errFrom (f d : Nat) (t : List Char) (e : ReadErr) (h : pMembers f d t = .error e) :
    ErrFrom f t e := (err_all f).2.2 d t e h

/-- with more fuel than input characters no reader error is `fuel` -/
theorem errFrom_ne_fuel {f : Nat} {t : List Char} (h : t.length < f) : ¬ ErrFrom f t .fuel := by
  intro he
  rcases he with he | he | ⟨_, he⟩ | ⟨he, _⟩
  · cases he
  · cases he
  · omega
  · cases he

/-- fuel greater than the input length suffices for the value reader -/
theorem pValue_ne_fuel (f d : Nat) (t : List Char) (h : t.length < f) : pValue f d t ≠ .error .fuel :=
  fun he => errFrom_ne_fuel h (pValue_errFrom f d t _ he)

/-- fuel greater than the input length suffices for the array-element reader -/
theorem pElems_ne_fuel (f d : Nat) (t : List Char) (h : t.length < f) : pElems f d t ≠ .error .fuel :=
  fun he => errFrom_ne_fuel h (pElems_errFrom f d t _ he)

/-- fuel greater than the input length suffices for the object-member reader -/
theorem pMembers_ne_fuel (f d : Nat) (t : List Char) (h : t.length < f) : pMembers f d t ≠ .error .fuel :=
  fun he => errFrom_ne_fuel h (pMembers_errFrom f d t _ he)

/-- **the document reader never runs out of fuel**: `fuel` is not an outcome of `parseValue` -/
theorem parseValue_ne_fuel (t : List Char) : parseValue t ≠ .error .fuel := by
  intro h
  unfold parseValue at h
  split at h
  · rename_i e he
    cases h
    exact pValue_ne_fuel _ _ t (Nat.lt_succ_self _) he
  · split at h <;> cases h

/-- reading a file as a JSON value never ends in `fuel` -/
theorem valueOfFile_ne_fuel (b : List UInt8) : valueOfFile b ≠ .error .fuel := by
  intro h
  unfold valueOfFile at h
  split at h
  · cases h
  · exact parseValue_ne_fuel _ h

/-- reading the layout file never ends in `fuel` -/
theorem layoutOfFile_ne_fuel (b : List UInt8) : layoutOfFile b ≠ .error .fuel := by
  intro h
  unfold layoutOfFile at h
  split at h
  · rename_i e he
    cases h
    exact valueOfFile_ne_fuel b he
  · split at h <;> cases h

/-- reading `suffix.json` / `autocorrect.json` never ends in `fuel` -/
theorem stringMapOfFile_ne_fuel (b : List UInt8) : stringMapOfFile b ≠ .error .fuel := by
  intro h
  unfold stringMapOfFile at h
  split at h
  · rename_i e he
    cases e <;> simp only [typedErr, Except.error.injEq, reduceCtorEq] at h
    exact valueOfFile_ne_fuel b he
  · split at h <;> cases h

/-- reading `dictionary.json` never ends in `fuel` -/
theorem tableOfFile_ne_fuel (b : List UInt8) : tableOfFile b ≠ .error .fuel := by
  intro h
  unfold tableOfFile at h
  split at h
  · rename_i e he
    cases e <;> simp only [typedErr, Except.error.injEq, reduceCtorEq] at h
    exact valueOfFile_ne_fuel b he
  · split at h <;> cases h

/-! ### fuel monotonicity -/

/-- one more unit of fuel does not change an outcome of the value reader other than `fuel` -/
theorem pValue_fuel_succ (f d : Nat) (t : List Char) (h : pValue f d t ≠ .error .fuel) :
    pValue (f + 1) d t = pValue f d t := (mono_all f).1 d t h

/-- one more unit of fuel does not change an outcome of the array-element reader other than `fuel` -/
theorem pElems_fuel_succ (f d : Nat) (t : List Char) (h : pElems f d t ≠ .error .fuel) :
    pElems (f + 1) d t = pElems f d t := (mono_all f).2.1 d t h

/-- one more unit of fuel does not change an outcome of the object-member reader other than `fuel` -/
theorem pMembers_fuel_succ (f d : Nat) (t : List Char) (h : pMembers f d t ≠ .error .fuel) :
    pMembers (f + 1) d t = pMembers f d t := (mono_all f).2.2 d t h

/-- a value read with fuel `f` is read, with the same result, with fuel `f + 1` -/
theorem pValue_fuel_mono (f d : Nat) (t : List Char) (x : JVal × List Char) (h : pValue f d t = .ok x) :
    pValue (f + 1) d t = .ok x := by
  rw [pValue_fuel_succ f d t (by rw [h]; exact fun hh => nomatch hh), h]

/-- array elements read with fuel `f` are read, with the same result, with fuel `f + 1` -/
theorem pElems_fuel_mono (f d : Nat) (t : List Char) (x : List JVal × List Char) (h : pElems f d t = .ok x) :
    pElems (f + 1) d t = .ok x := by
  rw [pElems_fuel_succ f d t (by rw [h]; exact fun hh => nomatch hh), h]

/-- object members read with fuel `f` are read, with the same result, with fuel `f + 1` -/
theorem pMembers_fuel_mono (f d : Nat) (t : List Char) (x : List (Str × JVal) × List Char)
    (h : pMembers f d t = .ok x) : pMembers (f + 1) d t = .ok x := by
  rw [pMembers_fuel_succ f d t (by rw [h]; exact fun hh => nomatch hh), h]

/-- any larger amount of fuel does not change an outcome of the value reader other than `fuel` -/
theorem pValue_fuel_le (f f' d : Nat) (t : List Char) (hle : f ≤ f') (h : pValue f d t ≠ .error .fuel) :
    pValue f' d t = pValue f d t := by
  induction hle with
  | refl => rfl
  | step _ ih => rw [pValue_fuel_succ _ d t (by rw [ih]; exact h), ih]

/-- the result of the value reader does not depend on the fuel once it exceeds the input length -/
theorem pValue_fuel_indep (f f' d : Nat) (t : List Char) (h : t.length < f) (h' : t.length < f') :
    pValue f d t = pValue f' d t := by
  rcases Nat.le_total f f' with hle | hle
  · exact (pValue_fuel_le f f' d t hle (pValue_ne_fuel f d t h)).symm
  · exact pValue_fuel_le f' f d t hle (pValue_ne_fuel f' d t h')

/-! ### where `unsupportedNumber` comes from -/

/-- `unsupportedNumber` among the error origins means an unsupported number token in the input -/
theorem errFrom_unsupported {f : Nat} {t : List Char} (h : ErrFrom f t .unsupportedNumber) :
    ∃ s, s <:+ t ∧ lexNumber s = .error .unsupportedNumber := by
  rcases h with he | he | ⟨he, _⟩ | ⟨_, he⟩
  · cases he
  · cases he
  · cases he
  · exact he

/-- the value reader only answers `unsupportedNumber` when a number token in the input is unsupported -/
theorem pValue_unsupported (f d : Nat) (t : List Char) (h : pValue f d t = .error .unsupportedNumber) :
    ∃ s, s <:+ t ∧ lexNumber s = .error .unsupportedNumber := errFrom_unsupported (pValue_errFrom f d t _ h)

/-- the array-element reader only answers `unsupportedNumber` when a number token in the input is unsupported -/
theorem pElems_unsupported (f d : Nat) (t : List Char) (h : pElems f d t = .error .unsupportedNumber) :
    ∃ s, s <:+ t ∧ lexNumber s = .error .unsupportedNumber := errFrom_unsupported (pElems_errFrom f d t _ h)

/-- the object-member reader only answers `unsupportedNumber` when a number token in the input is unsupported -/
theorem pMembers_unsupported (f d : Nat) (t : List Char) (h : pMembers f d t = .error .unsupportedNumber) :
    ∃ s, s <:+ t ∧ lexNumber s = .error .unsupportedNumber := errFrom_unsupported (pMembers_errFrom f d t _ h)

/-- the document reader only answers `unsupportedNumber` when a number token in the document is unsupported -/
theorem parseValue_unsupported (t : List Char) (h : parseValue t = .error .unsupportedNumber) :
    ∃ s, s <:+ t ∧ lexNumber s = .error .unsupportedNumber := by
  unfold parseValue at h
  split at h
  · rename_i e he
    cases h
    exact pValue_unsupported _ _ t he
  · split at h <;> cases h

/-- no suffix of the text starts with three or more decimal digits -/
def noThreeDigits (t : List Char) : Prop := ∀ u, u <:+ t → (digits u).1.length ≤ 2

/-- **a document without three consecutive decimal digits is never `unsupportedNumber`**: the reader's answer on it is the modelled serde_json answer -/
theorem parseValue_supported (t : List Char) (h : noThreeDigits t) : parseValue t ≠ .error .unsupportedNumber := by
  intro he
  obtain ⟨s, hs, hl⟩ := parseValue_unsupported t he
  obtain ⟨u, hu, h3⟩ := lexNumber_unsupported s hl
  have := h u (hu.trans hs)
  omega

/-- a layout file whose text has no three consecutive decimal digits is never `unsupportedNumber` -/
theorem layoutOfFile_supported (b : List UInt8) (t : List Char) (hb : utf8Decode b = some t)
    (h : noThreeDigits t) : layoutOfFile b ≠ .error .unsupportedNumber := by
  intro he
  unfold layoutOfFile at he
  split at he
  · rename_i e hv
    cases he
    unfold valueOfFile at hv
    rw [hb] at hv
    exact parseValue_supported t h hv
  · split at he <;> cases he

/-- executable form of `noThreeDigits` -/
def noThreeDigitsB : List Char → Bool
  | [] => true
  | c :: r => decide ((digits (c :: r)).1.length ≤ 2) && noThreeDigitsB r

/-- the executable check implies the property -/
theorem noThreeDigitsB_sound (t : List Char) (h : noThreeDigitsB t = true) : noThreeDigits t := by
  induction t with
  | nil =>
    intro u hu
    rw [List.suffix_nil] at hu
    subst hu
    exact Nat.zero_le _
  | cons c r ih =>
    simp only [noThreeDigitsB, Bool.and_eq_true, decide_eq_true_eq] at h
    intro u hu
    rcases List.suffix_cons_iff.mp hu with rfl | hu
    · exact h.1
    · exact ih h.2 u hu

/-- the error of a read, if any -/
def errOf {α : Type} : R α → Option ReadErr
  | .ok _ => none
  | .error e => some e

/-- a small layout file: `{"layout": {"Key_A": "আ\u09a6", "Key_B": ""}, "info": {"version": 12, "x": -1.5e-7, "l": [1, 22]}}` -/
def sampleDoc : List Char :=
  ['{', '"', 'l', 'a', 'y', 'o', 'u', 't', '"', ':', ' ', '{', '"', 'K', 'e', 'y', '_', 'A', '"', ':', ' ',
   '"', 'আ', '\\', 'u', '0', '9', 'a', '6', '"', ',', ' ', '"', 'K', 'e', 'y', '_', 'B', '"', ':', ' ', '"',
   '"', '}', ',', ' ', '"', 'i', 'n', 'f', 'o', '"', ':', ' ', '{', '"', 'v', 'e', 'r', 's', 'i', 'o', 'n',
   '"', ':', ' ', '1', '2', ',', ' ', '"', 'x', '"', ':', ' ', '-', '1', '.', '5', 'e', '-', '7', ',', ' ',
   '"', 'l', '"', ':', ' ', '[', '1', ',', ' ', '2', '2', ']', '}', '}']

example : noThreeDigits sampleDoc := noThreeDigitsB_sound _ (by decide)
example : errOf (parseValue sampleDoc) = none := by decide
example : errOf (parseValue ['1', 'e', '9', '9', '9']) = some .unsupportedNumber := by decide
example : errOf (parseValue ['[', '1', 'e', '9', '9', ']']) = none := by decide
example : ¬ noThreeDigitsB ['1', 'e', '9', '9', '9'] = true := by decide
example : errOf (layoutOfFile (Riti.Json.utf8Encode sampleDoc)) = none := by decide
example : utf8Decode (Riti.Json.utf8Encode sampleDoc) = some sampleDoc := by decide


end Riti.JsonValue
