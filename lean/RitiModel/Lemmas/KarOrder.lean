/-
Lemmas/KarOrder — helper lemmas about the "old style kar ordering" branches of `process_key_value`
(src/fixed/method.rs), used by Props/C14: what one key does to the state, in both orders, and the
syllable language over which the two orders are compared.
Everything here is on the REVERSED buffer (head = right-most code point).
-/
import RitiModel.Model.Fixed
namespace Riti
open Gen

/-! ### character classes -/

/-- the left-standing signs are exactly ি ে ৈ -/
theorem isLeftStandingKar_iff (k : Char) :
    isLeftStandingKar k = true ↔ k = cIKar ∨ k = cEKar ∨ k = cOIKar := by
  constructor
  · intro h
    have hk : k = Char.ofNat k.toNat := (Char.ofNat_toNat k).symm
    simp only [isLeftStandingKar, leftStandingKarSet, List.contains_iff_mem, List.mem_cons,
      List.not_mem_nil, or_false] at h
    rcases h with h | h | h <;> rw [h] at hk
    · exact Or.inl hk
    · exact Or.inr (Or.inl hk)
    · exact Or.inr (Or.inr hk)
  · rintro (rfl | rfl | rfl) <;> decide

/-- no pure consonant is a vowel sign, a left-standing sign, a typing mark or a vowel -/
theorem cons_table :
    pureConsonantSet.all (fun n => !karSet.contains n && !leftStandingKarSet.contains n &&
      !marksSet.contains n && !vowelSet.contains n && n != B_HASANTA && n != B_LENGTH_MARK &&
      n != B_CHANDRA && n != B_E_KAR) = true := by decide

/-- what the engine needs to know about a pure consonant `c` -/
structure ConsFacts (c : Char) : Prop where
  kar : isKar c = false
  lsk : isLeftStandingKar c = false
  mark : isMark c = false
  vowel : isVowel c = false
  hasanta : (c == cHasanta) = false
  lengthMark : (c == cLengthMark) = false
  chandra : (c == cChandra) = false
  ekar : (c == cEKar) = false

/-- a pure consonant is in none of the other classes `process_key_value` tests -/
theorem consFacts {c : Char} (h : isPureConsonant c = true) : ConsFacts c := by
  have := List.all_eq_true.mp cons_table c.toNat
    (by simpa [isPureConsonant, List.contains_iff_mem] using h)
  simp only [Bool.and_eq_true, Bool.not_eq_true', bne_iff_ne, ne_eq] at this
  obtain ⟨⟨⟨⟨⟨⟨⟨h1, h2⟩, h3⟩, h4⟩, h5⟩, h6⟩, h7⟩, h8⟩ := this
  have ne : ∀ d : Char, c.toNat ≠ d.toNat → (c == d) = false := by
    intro d hne
    cases hc : c == d with
    | false => rfl
    | true => exact absurd (congrArg Char.toNat (eq_of_beq hc)) hne
  exact ⟨h1, h2, h3, h4, ne _ h5, ne _ h6, ne _ h7, ne _ h8⟩

/-- what the engine needs to know about a left-standing sign `k` -/
structure LskFacts (k : Char) : Prop where
  kar : isKar k = true
  hasanta : (k == cHasanta) = false
  lengthMark : (k == cLengthMark) = false
  ra : (k == cR) = false
  ligature : isLigatureKar k = false
  pending : toPending k = some k
  cons : isPureConsonant k = false

/-- ি ে ৈ are signs, none of them is a ligature-making sign, each is its own pending value -/
theorem lskFacts {k : Char} (h : isLeftStandingKar k = true) : LskFacts k := by
  rcases (isLeftStandingKar_iff k).mp h with rfl | rfl | rfl <;>
    exact ⟨by decide, by decide, by decide, by decide, by decide, by decide, by decide⟩

/-! ### one key, either order -/

/-- a one-code-point value is neither the zo-fola nor the reph value -/
theorem single_ne (x : Char) : ([x] == zoFola) = false ∧ ([x] == rephValue) = false := by
  simp [zoFola, rephValue]

/-- a key whose value is one code point that is no sign, hasanta or length mark (consonant,
    independent vowel, chandrabindu, punctuation …) is appended — in Unicode order always, in
    typewriter order when no sign is waiting -/
theorem pkv_plain (cfg : Cfg) (u t : Str) (p : Option Char) (sg : List Rank) (x : Char)
    (hk : isKar x = false) (hh : (x == cHasanta) = false) (hl : (x == cLengthMark) = false)
    (hp : cfg.fixedKarOrder = true → p = none) :
    processKeyValue cfg ⟨u, t, p, sg⟩ [x] = ⟨x :: u, t, p, sg⟩ := by
  cases hko : cfg.fixedKarOrder with
  | false => simp [processKeyValue, pkvBody, single_ne, hk, hh, hl, hko, pushStr, -List.headD_eq_head?_getD]
  | true =>
    have := hp hko; subst this
    simp [processKeyValue, pkvBody, single_ne, hk, hh, hl, hko, pushStr, -List.headD_eq_head?_getD]

/-- the hasanta key after a consonant (more generally: not after a hasanta, and in typewriter order
    not after a left-standing sign, with no sign waiting) appends the hasanta -/
theorem pkv_hasanta (cfg : Cfg) (u t : Str) (p : Option Char) (sg : List Rank)
    (h1 : (u.headD '\x00' == cHasanta) = false) (h2 : isLeftStandingKar (u.headD '\x00') = false)
    (hp : cfg.fixedKarOrder = true → p = none) :
    processKeyValue cfg ⟨u, t, p, sg⟩ [cHasanta] = ⟨cHasanta :: u, t, p, sg⟩ := by
  have hk : isKar cHasanta = false := by decide
  have hl : (cHasanta == cLengthMark) = false := by decide
  cases hko : cfg.fixedKarOrder with
  | false => simp [processKeyValue, pkvBody, single_ne, hk, h1, h2, hl, hko, pushStr, -List.headD_eq_head?_getD]
  | true =>
    have := hp hko; subst this
    simp [processKeyValue, pkvBody, single_ne, hk, h1, h2, hl, hko, pushStr, -List.headD_eq_head?_getD]

/-- the ro-fola key (value hasanta + র) under the same conditions appends its two code points -/
theorem pkv_rofola (cfg : Cfg) (u t : Str) (p : Option Char) (sg : List Rank)
    (h1 : (u.headD '\x00' == cHasanta) = false) (h2 : isLeftStandingKar (u.headD '\x00') = false)
    (hp : cfg.fixedKarOrder = true → p = none) :
    processKeyValue cfg ⟨u, t, p, sg⟩ [cHasanta, cR] = ⟨cR :: cHasanta :: u, t, p, sg⟩ := by
  have hz : ([cHasanta, cR] == zoFola) = false := by decide
  have hr : ([cHasanta, cR] == rephValue) = false := by decide
  have hk : isKar cHasanta = false := by decide
  have hl : (cHasanta == cLengthMark) = false := by decide
  have hrh : (cR == cHasanta) = false := by decide
  cases hko : cfg.fixedKarOrder with
  | false => simp [processKeyValue, pkvBody, hz, hr, hk, h1, h2, hl, hko, pushStr, -List.headD_eq_head?_getD]
  | true =>
    have := hp hko; subst this
    simp [processKeyValue, pkvBody, hz, hr, hk, h1, h2, hl, hko, pushStr, -List.headD_eq_head?_getD]

/-- where the zo-fola key puts a ZWJ: directly after a র that is not itself joined by a hasanta -/
def zwjBefore (u : Str) : Str :=
  if u.headD '\x00' == cR && (u.drop 1).headD '\x00' != cHasanta then cZWJ :: u else u

/-- the zo-fola key, when the text does not end in a left-standing sign (or in Unicode order),
    appends hasanta + য, after a ZWJ if the text ends in an unjoined র -/
theorem pkv_zofola (cfg : Cfg) (u t : Str) (p : Option Char) (sg : List Rank)
    (h2 : cfg.fixedKarOrder = true → isLeftStandingKar (u.headD '\x00') = false) :
    processKeyValue cfg ⟨u, t, p, sg⟩ zoFola = ⟨cZ :: cHasanta :: zwjBefore u, t, p, sg⟩ := by
  cases hko : cfg.fixedKarOrder with
  | false => simp [processKeyValue, pkvBody, hko, pushStr, zwjBefore, zoFola, -List.headD_eq_head?_getD]
  | true => simp [processKeyValue, pkvBody, hko, pushStr, zwjBefore, zoFola, h2 hko, -List.headD_eq_head?_getD]

/-- a sign after a consonant: appended, with a ZWNJ in front of ু ূ ৃ under traditional joining -/
def karR (cfg : Cfg) (u : Str) (k : Char) : Str :=
  if cfg.fixedKar && isLigatureKar k then k :: cZWNJ :: u else k :: u

/-- `karTail` after a pure consonant: no automatic vowel, no chandrabindu swap, only the
    traditional-joining ZWNJ -/
theorem karTail_cons (cfg : Cfg) (c : Char) (r : Str) (k : Char) (hc : isPureConsonant c = true) :
    karTail cfg (c :: r) c k = karR cfg (c :: r) k := by
  have f := consFacts hc
  simp only [karTail, autoVowelPos, List.isEmpty_cons, f.vowel, f.mark, f.chandra, f.hasanta, hc, karR,
    Bool.or_self, Bool.and_false, Bool.false_eq_true, if_false, Bool.and_true]
  cases cfg.fixedKar <;> cases isLigatureKar k <;> simp

/-- a sign key after a consonant (in typewriter order: a sign that is not left-standing, nothing
    waiting) appends the sign as `karR` says -/
theorem pkv_kar_cons (cfg : Cfg) (c : Char) (r t : Str) (p : Option Char) (sg : List Rank) (k : Char)
    (hc : isPureConsonant c = true) (hk : isKar k = true)
    (hp : cfg.fixedKarOrder = true → p = none ∧ isLeftStandingKar k = false) :
    processKeyValue cfg ⟨c :: r, t, p, sg⟩ [k] = ⟨karR cfg (c :: r) k, t, p, sg⟩ := by
  have f := consFacts hc
  cases hko : cfg.fixedKarOrder with
  | false => simp [processKeyValue, pkvBody, single_ne, hk, hko, karTail_cons cfg c r k hc]
  | true =>
    obtain ⟨rfl, hl⟩ := hp hko
    simp [processKeyValue, pkvBody, single_ne, hk, hko, karTail_cons cfg c r k hc, hl, f.ekar]

/-! ### one key, typewriter order -/

/-- a left-standing sign typed when the text does not end in a hasanta is captured: the text is
    unchanged and the sign waits (a sign already waiting is replaced) -/
theorem pkv_capture (cfg : Cfg) (hon : cfg.fixedKarOrder = true) (u t : Str) (p : Option Char)
    (sg : List Rank) (k : Char) (hk : isLeftStandingKar k = true)
    (h1 : (u.headD '\x00' == cHasanta) = false) :
    processKeyValue cfg ⟨u, t, p, sg⟩ [k] = ⟨u, t, some k, sg⟩ := by
  have f := lskFacts hk
  have h1' : u.headD '\x00' ≠ cHasanta := beq_eq_false_iff_ne.mp h1
  simp [processKeyValue, pkvBody, single_ne, f.kar, hon, hk, h1', f.pending, -List.headD_eq_head?_getD]

/-- with a sign waiting, a consonant (any one-code-point value that is no sign, hasanta or length
    mark) is appended and the waiting sign is put after it -/
theorem pkv_plain_pending (cfg : Cfg) (hon : cfg.fixedKarOrder = true) (u t : Str) (k : Char)
    (sg : List Rank) (x : Char)
    (hk : isKar x = false) (hh : (x == cHasanta) = false) (hl : (x == cLengthMark) = false) :
    processKeyValue cfg ⟨u, t, some k, sg⟩ [x] = ⟨k :: x :: u, t, none, sg⟩ := by
  simp [processKeyValue, pkvBody, single_ne, hk, hh, hl, hon, pushStr]

/-- the hasanta key directly after a left-standing sign takes the sign off the text again (it waits
    for the next consonant of the conjunct) and puts the hasanta in its place -/
theorem pkv_hasanta_left (cfg : Cfg) (hon : cfg.fixedKarOrder = true) (k : Char) (r t : Str)
    (p : Option Char) (sg : List Rank) (hk : isLeftStandingKar k = true) :
    processKeyValue cfg ⟨k :: r, t, p, sg⟩ [cHasanta] = ⟨cHasanta :: r, t, some k, sg⟩ := by
  have f := lskFacts hk
  have hkh : isKar cHasanta = false := by decide
  have hl : (cHasanta == cLengthMark) = false := by decide
  simp [processKeyValue, pkvBody, single_ne, hkh, hl, hon, hk, f.hasanta, f.pending]

/-- the ro-fola key directly after a left-standing sign slips hasanta + র under the sign -/
theorem pkv_rofola_left (cfg : Cfg) (hon : cfg.fixedKarOrder = true) (k : Char) (r t : Str)
    (p : Option Char) (sg : List Rank) (hk : isLeftStandingKar k = true) :
    processKeyValue cfg ⟨k :: r, t, p, sg⟩ [cHasanta, cR] = ⟨k :: cR :: cHasanta :: r, t, p, sg⟩ := by
  have f := lskFacts hk
  have hz : ([cHasanta, cR] == zoFola) = false := by decide
  have hr : ([cHasanta, cR] == rephValue) = false := by decide
  have hkh : isKar cHasanta = false := by decide
  have hl : (cHasanta == cLengthMark) = false := by decide
  simp [processKeyValue, pkvBody, hz, hr, hkh, hl, hon, hk, f.hasanta, pushStr]

/-- the zo-fola key directly after a left-standing sign slips hasanta + য under the sign — and never
    inserts a ZWJ, because the code point it looks at is the sign, not the র under it -/
theorem pkv_zofola_left (cfg : Cfg) (hon : cfg.fixedKarOrder = true) (k : Char) (r t : Str)
    (p : Option Char) (sg : List Rank) (hk : isLeftStandingKar k = true) :
    processKeyValue cfg ⟨k :: r, t, p, sg⟩ zoFola = ⟨k :: cZ :: cHasanta :: r, t, p, sg⟩ := by
  have f := lskFacts hk
  simp [processKeyValue, pkvBody, hon, hk, f.ra, pushStr, zoFola]

/-- া typed directly after ে turns it into ো -/
theorem pkv_ekar_aa (cfg : Cfg) (hon : cfg.fixedKarOrder = true) (r t : Str) (p : Option Char)
    (sg : List Rank) :
    processKeyValue cfg ⟨cEKar :: r, t, p, sg⟩ [cAAKar] = ⟨cOKar :: r, t, p, sg⟩ := by
  have h1 : isKar cAAKar = true := by decide
  have h2 : isLeftStandingKar cAAKar = false := by decide
  simp [processKeyValue, pkvBody, single_ne, hon, h1, h2]

/-- ৌ typed directly after ে replaces it (ে + ৌ = ৌ) -/
theorem pkv_ekar_ou (cfg : Cfg) (hon : cfg.fixedKarOrder = true) (r t : Str) (p : Option Char)
    (sg : List Rank) :
    processKeyValue cfg ⟨cEKar :: r, t, p, sg⟩ [cOUKar] = ⟨cOUKar :: r, t, p, sg⟩ := by
  have h1 : isKar cOUKar = true := by decide
  have h2 : isLeftStandingKar cOUKar = false := by decide
  have h3 : (cOUKar == cAAKar) = false := by decide
  simp [processKeyValue, pkvBody, single_ne, hon, h1, h2, h3]

/-- the length mark ৗ typed directly after ে turns it into ৌ -/
theorem pkv_ekar_lengthMark (cfg : Cfg) (hon : cfg.fixedKarOrder = true) (r t : Str) (p : Option Char)
    (sg : List Rank) :
    processKeyValue cfg ⟨cEKar :: r, t, p, sg⟩ [cLengthMark] = ⟨cOUKar :: r, t, p, sg⟩ := by
  have h1 : isKar cLengthMark = false := by decide
  have h2 : (cLengthMark == cHasanta) = false := by decide
  have h3 : (cEKar == cHasanta) = false := by decide
  simp [processKeyValue, pkvBody, single_ne, hon, h1, h2, h3]

/-! ### the syllable language -/

/-- how a further consonant is joined to a cluster: hasanta key then the consonant key, the
    ro-fola key (one key, value hasanta + র), or the zo-fola key (one key, value hasanta + য) -/
inductive Join where
  | viaHasanta (c : Char)
  | roFola
  | zoFola
  deriving DecidableEq, Repr

/-- a syllable: consonant cluster with optional sign and optional chandrabindu; an independent
    vowel; a punctuation mark / other code point -/
inductive Syl where
  | cons (c₀ : Char) (joins : List Join) (kar : Option Char) (chandra : Bool)
  | indep (v : Char)
  | punct (m : Char)
  deriving DecidableEq, Repr

/-- the key values that type a join -/
def Join.keys : Join → List Str
  | .viaHasanta c => [[cHasanta], [c]]
  | .roFola => [[cHasanta, cR]]
  | .zoFola => [Riti.zoFola]

/-- a hasanta-joined consonant is a pure consonant -/
def Join.wf : Join → Bool
  | .viaHasanta c => isPureConsonant c
  | _ => true

/-- the keys of a cluster: first consonant, then the joins -/
def clusterKeys (c₀ : Char) (joins : List Join) : List Str := [c₀] :: joins.flatMap Join.keys

/-- the chandrabindu key, if the syllable has one -/
def chandraKeys (ch : Bool) : List Str := if ch then [[cChandra]] else []

/-- the signs that typewriter order starts BEFORE the cluster: ি ে ৈ and the two-part ো ৌ -/
def leftFirst (k : Char) : Bool := isLeftStandingKar k || k == cOKar || k == cOUKar

/-- the key values of a syllable in Unicode (storage) order: cluster, sign, chandrabindu -/
def unicodeKeys : Syl → List Str
  | .cons c₀ joins kar ch =>
    (match kar with
     | none => clusterKeys c₀ joins
     | some k => clusterKeys c₀ joins ++ [[k]]) ++ chandraKeys ch
  | .indep v => [[v]]
  | .punct m => [[m]]

/-- the key values of a syllable in typewriter order: ি ে ৈ before the cluster; ো as ে before and
    া after; ৌ as ে before and ৌ (`lm = false`) or the length mark ৗ (`lm = true`) after; any other
    sign after the cluster; chandrabindu last -/
def typewriterKeys (lm : Bool) : Syl → List Str
  | .cons c₀ joins kar ch =>
    (match kar with
     | none => clusterKeys c₀ joins
     | some k =>
       if isLeftStandingKar k then [k] :: clusterKeys c₀ joins
       else if k == cOKar then [cEKar] :: clusterKeys c₀ joins ++ [[cAAKar]]
       else if k == cOUKar then [cEKar] :: clusterKeys c₀ joins ++ [[if lm then cLengthMark else cOUKar]]
       else clusterKeys c₀ joins ++ [[k]]) ++ chandraKeys ch
  | .indep v => [[v]]
  | .punct m => [[m]]

/-- code points allowed as a "punctuation" syllable: anything that is not a consonant, vowel, sign,
    hasanta, chandrabindu, ZWJ, ZWNJ or the length mark -/
def isPunct (m : Char) : Bool :=
  !isPureConsonant m && !isVowel m && !isKar m && m != cHasanta && m != cChandra && m != cZWJ &&
    m != cZWNJ && m != cLengthMark

/-- well-formed syllable: consonants are pure consonants, the sign is a sign, an independent vowel is
    a vowel that is not a sign, a punctuation mark is `isPunct` -/
def Syl.wf : Syl → Bool
  | .cons c₀ joins kar _ =>
    isPureConsonant c₀ && joins.all Join.wf && (match kar with | some k => isKar k | none => true)
  | .indep v => isVowel v && !isKar v
  | .punct m => isPunct m

/-- the one excluded class: র + zo-fola (র‍্য, "ry") carrying a sign that typewriter order starts
    before the cluster -/
def Syl.raZofola : Syl → Bool
  | .cons c₀ (.zoFola :: _) (some k) _ => c₀ == cR && leftFirst k
  | _ => false

/-- feed a list of key values to `process_key_value` -/
def typeAll (cfg : Cfg) (keys : List Str) (s : FState) : FState := keys.foldl (processKeyValue cfg) s

/-- typing `a ++ b` is typing `a`, then `b` -/
theorem typeAll_append (cfg : Cfg) (a b : List Str) (s : FState) :
    typeAll cfg (a ++ b) s = typeAll cfg b (typeAll cfg a s) := by
  simp [typeAll, List.foldl_append]

/-- typing a key, then the rest -/
theorem typeAll_cons (cfg : Cfg) (a : Str) (b : List Str) (s : FState) :
    typeAll cfg (a :: b) s = typeAll cfg b (processKeyValue cfg s a) := rfl

/-- typing nothing changes nothing -/
theorem typeAll_nil (cfg : Cfg) (s : FState) : typeAll cfg [] s = s := rfl

/-! ### the composed text of a syllable (reversed) -/

/-- the text after a join (Unicode order) -/
def joinR (u : Str) : Join → Str
  | .viaHasanta c => c :: cHasanta :: u
  | .roFola => cR :: cHasanta :: u
  | .zoFola => cZ :: cHasanta :: zwjBefore u

/-- the text after a cluster -/
def clusterR (b : Str) (c₀ : Char) (joins : List Join) : Str := joins.foldl joinR (c₀ :: b)

/-- the text after a syllable typed onto `b`; `trad` = traditional joining (`fixed_kar`) -/
def sylR (trad : Bool) (b : Str) : Syl → Str
  | .cons c₀ joins kar ch =>
    let u := clusterR b c₀ joins
    let u := match kar with
      | some k => if trad && isLigatureKar k then k :: cZWNJ :: u else k :: u
      | none => u
    if ch then cChandra :: u else u
  | .indep v => v :: b
  | .punct m => m :: b

/-- the text after a word -/
def wordR (trad : Bool) (b : Str) (w : List Syl) : Str := w.foldl (sylR trad) b

/-- a cluster ends in a pure consonant -/
theorem joins_head (joins : List Join) (hw : joins.all Join.wf = true) :
    ∀ (c : Char) (r : Str), isPureConsonant c = true →
      ∃ c' r', joins.foldl joinR (c :: r) = c' :: r' ∧ isPureConsonant c' = true := by
  induction joins with
  | nil => intro c r hc; exact ⟨c, r, rfl, hc⟩
  | cons j js ih =>
    intro c r hc
    simp only [List.all_cons, Bool.and_eq_true] at hw
    cases j with
    | viaHasanta c' => exact ih hw.2 c' _ (by simpa [Join.wf] using hw.1)
    | roFola => exact ih hw.2 cR _ (by decide)
    | zoFola => exact ih hw.2 cZ _ (by decide)

/-- after a hasanta-joined consonant there is no place for a ZWJ -/
theorem zwjBefore_joined (c : Char) (u : Str) : zwjBefore (c :: cHasanta :: u) = c :: cHasanta :: u := by
  simp [zwjBefore]

/-! ### a cluster, key by key -/

/-- the joins of a cluster typed after its first consonant give `foldl joinR` — in Unicode order, and
    in typewriter order when no sign has been typed before the cluster -/
theorem joins_run (cfg : Cfg) (t : Str) (p : Option Char) (sg : List Rank)
    (hp : cfg.fixedKarOrder = true → p = none) (joins : List Join) (hw : joins.all Join.wf = true) :
    ∀ (c : Char) (r : Str), isPureConsonant c = true →
      typeAll cfg (joins.flatMap Join.keys) ⟨c :: r, t, p, sg⟩ = ⟨joins.foldl joinR (c :: r), t, p, sg⟩ := by
  induction joins with
  | nil => intro c r _; rfl
  | cons j js ih =>
    intro c r hc
    have f := consFacts hc
    simp only [List.all_cons, Bool.and_eq_true] at hw
    rw [List.flatMap_cons, typeAll_append, List.foldl_cons]
    cases j with
    | viaHasanta c' =>
      have hc' : isPureConsonant c' = true := by simpa [Join.wf] using hw.1
      have f' := consFacts hc'
      rw [Join.keys, typeAll_cons, typeAll_cons, typeAll_nil,
        pkv_hasanta cfg (c :: r) _ _ _ f.hasanta f.lsk hp,
        pkv_plain cfg _ _ _ _ c' f'.kar f'.hasanta f'.lengthMark hp]
      exact ih hw.2 c' _ hc'
    | roFola =>
      rw [Join.keys, typeAll_cons, typeAll_nil, pkv_rofola cfg (c :: r) _ _ _ f.hasanta f.lsk hp]
      exact ih hw.2 cR _ (by decide)
    | zoFola =>
      rw [Join.keys, typeAll_cons, typeAll_nil, pkv_zofola cfg (c :: r) _ _ _ (fun _ => f.lsk)]
      exact ih hw.2 cZ _ (by decide)

/-- typewriter order, a left-standing sign `k` already on top of the cluster: every join is slipped
    under the sign; the result is the Unicode-order cluster with `k` on top — provided the first join
    is not a zo-fola that Unicode order would separate from a র by a ZWJ -/
theorem joins_run_left_aux (cfg : Cfg) (hon : cfg.fixedKarOrder = true) (k : Char)
    (hk : isLeftStandingKar k = true) (t : Str) (sg : List Rank) (joins : List Join)
    (hw : joins.all Join.wf = true) :
    ∀ (u : Str), (∀ js, joins = .zoFola :: js → zwjBefore u = u) →
      typeAll cfg (joins.flatMap Join.keys) ⟨k :: u, t, none, sg⟩ = ⟨k :: joins.foldl joinR u, t, none, sg⟩ := by
  induction joins with
  | nil => intro u _; rfl
  | cons j js ih =>
    intro u hz
    simp only [List.all_cons, Bool.and_eq_true] at hw
    rw [List.flatMap_cons, typeAll_append, List.foldl_cons]
    cases j with
    | viaHasanta c' =>
      have hc' : isPureConsonant c' = true := by simpa [Join.wf] using hw.1
      have f' := consFacts hc'
      rw [Join.keys, typeAll_cons, typeAll_cons, typeAll_nil, pkv_hasanta_left cfg hon k _ _ _ _ hk,
        pkv_plain_pending cfg hon _ _ k _ c' f'.kar f'.hasanta f'.lengthMark]
      exact ih hw.2 _ (fun _ _ => zwjBefore_joined _ _)
    | roFola =>
      rw [Join.keys, typeAll_cons, typeAll_nil, pkv_rofola_left cfg hon k _ _ _ _ hk]
      exact ih hw.2 _ (fun _ _ => zwjBefore_joined _ _)
    | zoFola =>
      rw [Join.keys, typeAll_cons, typeAll_nil, pkv_zofola_left cfg hon k _ _ _ _ hk]
      have := ih hw.2 (cZ :: cHasanta :: u) (fun _ _ => zwjBefore_joined _ _)
      rw [this, joinR, hz js rfl]

/-- the joins of a cluster as typewriter order composes them under a left-standing sign: like
    Unicode order, except that a zo-fola as FIRST join never gets a ZWJ -/
def joinsL (u : Str) : List Join → Str
  | .zoFola :: js => js.foldl joinR (cZ :: cHasanta :: u)
  | joins => joins.foldl joinR u

/-- `joinsL` is the Unicode-order cluster unless the first join is a zo-fola after an unjoined র -/
theorem joinsL_eq (u : Str) (joins : List Join) (hz : ∀ js, joins = .zoFola :: js → zwjBefore u = u) :
    joinsL u joins = joins.foldl joinR u := by
  cases joins with
  | nil => rfl
  | cons j js =>
    cases j with
    | viaHasanta c => rfl
    | roFola => rfl
    | zoFola => simp only [joinsL, List.foldl_cons, joinR, hz js rfl]

/-- typewriter order, a left-standing sign `k` already on top of the cluster, any joins: the result
    is `joinsL` with `k` on top -/
theorem joins_run_left (cfg : Cfg) (hon : cfg.fixedKarOrder = true) (k : Char)
    (hk : isLeftStandingKar k = true) (t : Str) (sg : List Rank) (joins : List Join)
    (hw : joins.all Join.wf = true) (u : Str) :
    typeAll cfg (joins.flatMap Join.keys) ⟨k :: u, t, none, sg⟩ = ⟨k :: joinsL u joins, t, none, sg⟩ := by
  by_cases hz : ∀ js, joins = .zoFola :: js → zwjBefore u = u
  · rw [joinsL_eq u joins hz]
    exact joins_run_left_aux cfg hon k hk t sg joins hw u hz
  · cases joins with
    | nil => exact absurd (fun _ h => by cases h) hz
    | cons j js =>
      cases j with
      | viaHasanta c => exact absurd (fun _ h => by cases h) hz
      | roFola => exact absurd (fun _ h => by cases h) hz
      | zoFola =>
        simp only [List.all_cons, Bool.and_eq_true] at hw
        rw [List.flatMap_cons, typeAll_append, Join.keys, typeAll_cons, typeAll_nil,
          pkv_zofola_left cfg hon k _ _ _ _ hk]
        exact joins_run_left_aux cfg hon k hk t sg js hw.2 _ (fun _ _ => zwjBefore_joined _ _)

/-- a whole cluster, no sign typed before it: first consonant, then the joins -/
theorem cluster_run (cfg : Cfg) (b t : Str) (p : Option Char) (sg : List Rank)
    (hp : cfg.fixedKarOrder = true → p = none) (c₀ : Char) (hc : isPureConsonant c₀ = true)
    (joins : List Join) (hw : joins.all Join.wf = true) :
    typeAll cfg (clusterKeys c₀ joins) ⟨b, t, p, sg⟩ = ⟨clusterR b c₀ joins, t, p, sg⟩ := by
  have f := consFacts hc
  rw [clusterKeys, typeAll_cons, pkv_plain cfg _ _ _ _ c₀ f.kar f.hasanta f.lengthMark hp]
  exact joins_run cfg t p sg hp joins hw c₀ b hc

/-- typewriter order: a left-standing sign, then a whole cluster — the sign waits (the text does
    not end in a hasanta), lands after the first consonant and is then carried along on top -/
theorem cluster_run_left (cfg : Cfg) (hon : cfg.fixedKarOrder = true) (k : Char)
    (hk : isLeftStandingKar k = true) (b t : Str) (sg : List Rank)
    (hb : (b.headD '\x00' == cHasanta) = false) (c₀ : Char) (hc : isPureConsonant c₀ = true)
    (joins : List Join) (hw : joins.all Join.wf = true) :
    typeAll cfg ([k] :: clusterKeys c₀ joins) ⟨b, t, none, sg⟩ = ⟨k :: joinsL (c₀ :: b) joins, t, none, sg⟩ := by
  have f := consFacts hc
  rw [clusterKeys, typeAll_cons, typeAll_cons, pkv_capture cfg hon b t none sg k hk hb,
    pkv_plain_pending cfg hon _ _ k _ c₀ f.kar f.hasanta f.lengthMark]
  exact joins_run_left cfg hon k hk t sg joins hw _

/-- the optional chandrabindu key appends the chandrabindu -/
theorem chandra_run (cfg : Cfg) (u t : Str) (p : Option Char) (sg : List Rank)
    (hp : cfg.fixedKarOrder = true → p = none) (ch : Bool) :
    typeAll cfg (chandraKeys ch) ⟨u, t, p, sg⟩ = ⟨if ch then cChandra :: u else u, t, p, sg⟩ := by
  cases ch with
  | false => rfl
  | true =>
    simp only [chandraKeys, if_true, typeAll_cons, typeAll_nil]
    exact pkv_plain cfg u t p sg cChandra (by decide) (by decide) (by decide) hp

/-! ### a syllable -/

/-- no vowel (independent or sign) and no sign is the hasanta or the length mark -/
theorem vowel_kar_table :
    (vowelSet ++ karSet).all (fun n => n != B_HASANTA && n != B_LENGTH_MARK) = true := by decide

/-- a vowel or sign is neither the hasanta nor the length mark -/
theorem vowel_kar_ne {v : Char} (h : isVowel v = true ∨ isKar v = true) :
    (v == cHasanta) = false ∧ (v == cLengthMark) = false := by
  have := List.all_eq_true.mp vowel_kar_table v.toNat
    (by simpa [isVowel, isKar, List.contains_iff_mem] using h)
  simp only [Bool.and_eq_true, bne_iff_ne, ne_eq] at this
  have ne : ∀ d : Char, v.toNat ≠ d.toNat → (v == d) = false := by
    intro d hne
    cases hc : v == d with
    | false => rfl
    | true => exact absurd (congrArg Char.toNat (eq_of_beq hc)) hne
  exact ⟨ne _ this.1, ne _ this.2⟩

/-- a left-standing sign, ো and ৌ are never ligature-making signs -/
theorem leftFirst_not_ligature {k : Char} (h : leftFirst k = true) : isLigatureKar k = false := by
  simp only [leftFirst, Bool.or_eq_true, beq_iff_eq] at h
  rcases h with (h | rfl) | rfl
  · exact (lskFacts h).ligature
  · decide
  · decide

/-- a syllable typed in Unicode order gives `sylR` — also with typewriter order switched on, as long
    as nothing is waiting and the syllable's sign is not a left-standing one -/
theorem syl_run_unicode (cfg : Cfg) (b t : Str) (p : Option Char) (sg : List Rank) (syl : Syl)
    (hw : syl.wf = true)
    (hp : cfg.fixedKarOrder = true → p = none ∧
      ∀ c₀ joins k ch, syl = .cons c₀ joins (some k) ch → isLeftStandingKar k = false) :
    typeAll cfg (unicodeKeys syl) ⟨b, t, p, sg⟩ = ⟨sylR cfg.fixedKar b syl, t, p, sg⟩ := by
  have hp1 : cfg.fixedKarOrder = true → p = none := fun h => (hp h).1
  cases syl with
  | indep v =>
    simp only [Syl.wf, Bool.and_eq_true, Bool.not_eq_true'] at hw
    have := vowel_kar_ne (Or.inl hw.1)
    exact pkv_plain cfg b t p sg v hw.2 this.1 this.2 hp1
  | punct m =>
    simp only [Syl.wf, isPunct, Bool.and_eq_true, Bool.not_eq_true', bne_iff_ne, ne_eq] at hw
    obtain ⟨⟨⟨⟨⟨⟨⟨_, _⟩, h3⟩, h4⟩, _⟩, _⟩, _⟩, h8⟩ := hw
    exact pkv_plain cfg b t p sg m h3 (by simpa using h4) (by simpa using h8) hp1
  | cons c₀ joins kar ch =>
    simp only [Syl.wf, Bool.and_eq_true] at hw
    obtain ⟨⟨hc, hj⟩, hk⟩ := hw
    obtain ⟨c', r', hcr, hc'⟩ := joins_head joins hj c₀ b hc
    cases kar with
    | none =>
      simp only [unicodeKeys, sylR]
      rw [typeAll_append, cluster_run cfg b t p sg hp1 c₀ hc joins hj]
      exact chandra_run cfg _ t p sg hp1 ch
    | some k =>
      simp only [unicodeKeys, sylR]
      rw [typeAll_append, typeAll_append, cluster_run cfg b t p sg hp1 c₀ hc joins hj, typeAll_cons,
        typeAll_nil]
      simp only [clusterR] at hcr ⊢
      rw [hcr, pkv_kar_cons cfg c' r' t p sg k hc' hk
        (fun h => ⟨hp1 h, (hp h).2 c₀ joins k ch rfl⟩)]
      exact chandra_run cfg _ t p sg hp1 ch

/-- the text after a syllable typed in TYPEWRITER order onto `b` (nothing waiting, `b` not ending in
    a hasanta): as `sylR`, except that under an early sign the cluster is `joinsL` -/
def sylT (trad : Bool) (b : Str) : Syl → Str
  | .cons c₀ joins (some k) ch =>
    if leftFirst k then
      if ch then cChandra :: k :: joinsL (c₀ :: b) joins else k :: joinsL (c₀ :: b) joins
    else sylR trad b (.cons c₀ joins (some k) ch)
  | syl => sylR trad b syl

/-- a syllable typed in typewriter order gives `sylT`, with nothing left waiting — from any state
    where nothing is waiting and the text does not end in a hasanta -/
theorem syl_run_typewriter (cfg : Cfg) (hon : cfg.fixedKarOrder = true) (b t : Str) (sg : List Rank)
    (hb : (b.headD '\x00' == cHasanta) = false) (lm : Bool) (syl : Syl) (hw : syl.wf = true) :
    typeAll cfg (typewriterKeys lm syl) ⟨b, t, none, sg⟩ = ⟨sylT cfg.fixedKar b syl, t, none, sg⟩ := by
  have hp1 : cfg.fixedKarOrder = true → (none : Option Char) = none := fun _ => rfl
  cases syl with
  | indep v => exact syl_run_unicode cfg b t none sg _ hw (fun _ => ⟨rfl, by simp⟩)
  | punct m => exact syl_run_unicode cfg b t none sg _ hw (fun _ => ⟨rfl, by simp⟩)
  | cons c₀ joins kar ch =>
    cases kar with
    | none => exact syl_run_unicode cfg b t none sg _ hw (fun _ => ⟨rfl, by simp⟩)
    | some k =>
      by_cases hlf : leftFirst k = true
      · -- the sign is started before the cluster
        have hw' := hw
        simp only [Syl.wf, Bool.and_eq_true] at hw'
        obtain ⟨⟨hc, hj⟩, hk⟩ := hw'
        simp only [sylT, hlf, if_true]
        simp only [leftFirst, Bool.or_eq_true, beq_iff_eq] at hlf
        by_cases hl : isLeftStandingKar k = true
        · simp only [typewriterKeys, hl, if_true]
          rw [typeAll_append, cluster_run_left cfg hon k hl b t sg hb c₀ hc joins hj]
          exact chandra_run cfg _ t none sg hp1 ch
        · have hE : isLeftStandingKar cEKar = true := by decide
          have hO : isLeftStandingKar cOKar = false := by decide
          have hU : isLeftStandingKar cOUKar = false := by decide
          have hUO : (cOUKar == cOKar) = false := by decide
          rcases hlf with (hlf | rfl) | rfl
          · exact absurd hlf hl
          · simp only [typewriterKeys, hO, Bool.false_eq_true, if_false, beq_self_eq_true, if_true]
            rw [typeAll_append, typeAll_append,
              cluster_run_left cfg hon cEKar hE b t sg hb c₀ hc joins hj, typeAll_cons, typeAll_nil,
              pkv_ekar_aa cfg hon]
            exact chandra_run cfg _ t none sg hp1 ch
          · simp only [typewriterKeys, hU, hUO, Bool.false_eq_true, if_false, beq_self_eq_true, if_true]
            rw [typeAll_append, typeAll_append,
              cluster_run_left cfg hon cEKar hE b t sg hb c₀ hc joins hj, typeAll_cons, typeAll_nil]
            cases lm with
            | true =>
              simp only [if_true]
              rw [pkv_ekar_lengthMark cfg hon]
              exact chandra_run cfg _ t none sg hp1 ch
            | false =>
              simp only [Bool.false_eq_true, if_false]
              rw [pkv_ekar_ou cfg hon]
              exact chandra_run cfg _ t none sg hp1 ch
      · -- any other sign: the two orders have the same keys
        have hlf' : leftFirst k = false := by simpa using hlf
        simp only [sylT, hlf', Bool.false_eq_true, if_false]
        simp only [leftFirst, Bool.or_eq_false_iff] at hlf'
        obtain ⟨⟨h1, h2⟩, h3⟩ := hlf'
        have hkeys : typewriterKeys lm (.cons c₀ joins (some k) ch) = unicodeKeys (.cons c₀ joins (some k) ch) := by
          simp [typewriterKeys, unicodeKeys, h1, h2, h3]
        rw [hkeys]
        refine syl_run_unicode cfg b t none sg _ hw (fun _ => ⟨rfl, ?_⟩)
        intro c₀' joins' k' ch' he
        cases he
        exact h1

/-- a cluster from its second join on has no place for a ZWJ: two code points per join -/
theorem joins_length (js : List Join) : ∀ (c : Char) (u : Str),
    (js.foldl joinR (c :: cHasanta :: u)).length = u.length + 2 + 2 * js.length := by
  induction js with
  | nil => intro c u; simp
  | cons j js ih =>
    intro c u
    cases j with
    | viaHasanta c' => rw [List.foldl_cons, joinR, ih]; simp; omega
    | roFola => rw [List.foldl_cons, joinR, ih]; simp; omega
    | zoFola => rw [List.foldl_cons, joinR, zwjBefore_joined, ih]; simp; omega

/-- EXACTNESS of the exclusion: on a well-formed syllable typed onto a text that does not end in a
    hasanta, typewriter order and Unicode order compose the same text if and only if the syllable
    is not in the class `raZofola` -/
theorem sylT_eq_iff (trad : Bool) (b : Str) (hb : (b.headD '\x00' == cHasanta) = false) (syl : Syl) :
    sylT trad b syl = sylR trad b syl ↔ syl.raZofola = false := by
  cases syl with
  | indep v => simp [sylT, Syl.raZofola]
  | punct m => simp [sylT, Syl.raZofola]
  | cons c₀ joins kar ch =>
    cases kar with
    | none => simp [sylT, Syl.raZofola]
    | some k =>
      by_cases hlf : leftFirst k = true
      · have hlig := leftFirst_not_ligature hlf
        by_cases hz : ∀ js, joins = .zoFola :: js → zwjBefore (c₀ :: b) = c₀ :: b
        · -- no ZWJ at stake: same text, and not in the class
          have h1 : sylT trad b (.cons c₀ joins (some k) ch) = sylR trad b (.cons c₀ joins (some k) ch) := by
            simp only [sylT, hlf, if_true, sylR, hlig, Bool.and_false, Bool.false_eq_true, if_false,
              clusterR, joinsL_eq _ joins hz]
          have h2 : (Syl.cons c₀ joins (some k) ch).raZofola = false := by
            cases joins with
            | nil => rfl
            | cons j js =>
              cases j with
              | viaHasanta c => rfl
              | roFola => rfl
              | zoFola =>
                have := hz js rfl
                cases hc : c₀ == cR with
                | false => simp [Syl.raZofola, hc]
                | true =>
                  have hb' : b.headD '\x00' ≠ cHasanta := beq_eq_false_iff_ne.mp hb
                  simp [zwjBefore, hc, hb', -List.headD_eq_head?_getD] at this
          simp [h1, h2]
        · -- first join zo-fola after an unjoined র: in the class, and the texts differ in length
          cases joins with
          | nil => exact absurd (fun _ h => by cases h) hz
          | cons j js =>
            cases j with
            | viaHasanta c => exact absurd (fun _ h => by cases h) hz
            | roFola => exact absurd (fun _ h => by cases h) hz
            | zoFola =>
              have hzw : zwjBefore (c₀ :: b) = cZWJ :: c₀ :: b := by
                simp only [zwjBefore] at hz ⊢
                split
                · rfl
                · exact absurd (fun _ _ => by simp_all) hz
              have hc : (c₀ == cR) = true := by
                cases hc : c₀ == cR with
                | true => rfl
                | false => simp [zwjBefore, hc] at hzw
              have h2 : (Syl.cons c₀ (.zoFola :: js) (some k) ch).raZofola = true := by
                simp [Syl.raZofola, hc, hlf]
              have h1 : sylT trad b (.cons c₀ (.zoFola :: js) (some k) ch) ≠
                  sylR trad b (.cons c₀ (.zoFola :: js) (some k) ch) := by
                intro h
                have := congrArg List.length h
                simp only [sylT, hlf, if_true, sylR, hlig, Bool.and_false, Bool.false_eq_true, if_false,
                  clusterR, joinsL, List.foldl_cons, joinR, hzw] at this
                cases ch <;> simp [joins_length] at this
              simp [h1, h2]
      · have hlf' : leftFirst k = false := by simpa using hlf
        have h2 : (Syl.cons c₀ joins (some k) ch).raZofola = false := by
          cases joins with
          | nil => rfl
          | cons j js => cases j <;> simp [Syl.raZofola, hlf']
        simp [sylT, hlf', h2]

/-- no syllable ends in a hasanta -/
theorem sylR_head (trad : Bool) (b : Str) (syl : Syl) (hw : syl.wf = true) :
    ((sylR trad b syl).headD '\x00' == cHasanta) = false := by
  cases syl with
  | indep v =>
    simp only [Syl.wf, Bool.and_eq_true] at hw
    exact (vowel_kar_ne (Or.inl hw.1)).1
  | punct m =>
    simp only [Syl.wf, isPunct, Bool.and_eq_true, bne_iff_ne, ne_eq] at hw
    simpa [sylR] using hw.1.1.1.1.2
  | cons c₀ joins kar ch =>
    cases ch with
    | true => simp only [sylR, if_true, List.headD_cons]; decide
    | false =>
      simp only [Syl.wf, Bool.and_eq_true] at hw
      obtain ⟨⟨hc, hj⟩, hk⟩ := hw
      obtain ⟨c', r', hcr, hc'⟩ := joins_head joins hj c₀ b hc
      cases kar with
      | none => simp only [sylR, clusterR, hcr, Bool.false_eq_true, if_false, List.headD_cons]; exact (consFacts hc').hasanta
      | some k =>
        have := (vowel_kar_ne (Or.inr hk)).1
        simp only [sylR, Bool.false_eq_true, if_false]
        split <;> simpa using this

/-! ### a word -/

/-- a word typed in Unicode order (option off) gives `wordR`; a waiting sign, if any, is ignored -/
theorem word_run_unicode (cfg : Cfg) (hoff : cfg.fixedKarOrder = false) (t : Str) (p : Option Char)
    (sg : List Rank) (w : List Syl) (hw : ∀ syl ∈ w, syl.wf = true) :
    ∀ b, typeAll cfg (w.flatMap unicodeKeys) ⟨b, t, p, sg⟩ = ⟨wordR cfg.fixedKar b w, t, p, sg⟩ := by
  induction w with
  | nil => intro b; rfl
  | cons syl w ih =>
    intro b
    rw [List.flatMap_cons, typeAll_append,
      syl_run_unicode cfg b t p sg syl (hw syl (by simp)) (by simp [hoff])]
    exact ih (fun s hs => hw s (by simp [hs])) _

/-- a word typed in typewriter order (option on; the ৌ spelling chosen per syllable) gives the same
    `wordR` and leaves nothing waiting — from any text that does not end in a hasanta -/
theorem word_run_typewriter (cfg : Cfg) (hon : cfg.fixedKarOrder = true) (t : Str) (sg : List Rank)
    (w : List (Bool × Syl)) (hw : ∀ x ∈ w, x.2.wf = true ∧ x.2.raZofola = false) :
    ∀ b, (b.headD '\x00' == cHasanta) = false →
      typeAll cfg (w.flatMap (fun x => typewriterKeys x.1 x.2)) ⟨b, t, none, sg⟩ =
        ⟨wordR cfg.fixedKar b (w.map Prod.snd), t, none, sg⟩ := by
  induction w with
  | nil => intro b _; rfl
  | cons x w ih =>
    intro b hb
    obtain ⟨h1, h2⟩ := hw x (by simp)
    rw [List.flatMap_cons, typeAll_append, syl_run_typewriter cfg hon b t sg hb x.1 x.2 h1,
      (sylT_eq_iff cfg.fixedKar b hb x.2).mpr h2]
    exact ih (fun s hs => hw s (by simp [hs])) _ (sylR_head _ b x.2 h1)

end Riti
