/-
Lemmas/NoNul — no text the engine builds contains U+0000 (the precondition of
`CString::from_vec_unchecked` in src/ffi.rs).  Part 1: basics, the key table, okkhor's `convert`,
`split`, the phonetic pipeline.
-/
import RitiModel.Model.Context
import RitiModel.Model.Okkhor
import RitiModel.Lemmas.Rank
import RitiModel.Lemmas.Sort
namespace Riti
open Gen

/-- the text contains no U+0000 -/
def NoNul (s : Str) : Prop := '\x00' ∉ s

/-- what C sees of a buffer handed over with `CString::from_vec_unchecked`: the text up to the
    first NUL -/
def cView (s : Str) : Str := s.takeWhile (fun c => c != '\x00')

/-- C sees the whole text iff the text is NUL-free; otherwise it is silently cut (and
    `CString::from_raw` later recomputes a wrong length) -/
theorem cView_eq_iff (s : Str) : cView s = s ↔ NoNul s := by
  unfold cView NoNul
  induction s with
  | nil => simp
  | cons c cs ih =>
    by_cases hc : c = '\x00'
    · simp [List.takeWhile, hc]
    · have : (c != '\x00') = true := by simp [hc]
      simp only [List.takeWhile, this, List.cons.injEq, true_and, ih, List.mem_cons, not_or]
      constructor
      · intro h; exact ⟨fun he => hc he.symm, h⟩
      · intro h; exact h.2

@[simp] theorem noNul_nil : NoNul [] := by simp [NoNul]
theorem noNul_cons {c : Char} {s : Str} : NoNul (c :: s) ↔ c ≠ '\x00' ∧ NoNul s := by
  simp [NoNul, eq_comm]
theorem noNul_append {a b : Str} : NoNul (a ++ b) ↔ NoNul a ∧ NoNul b := by simp [NoNul]
theorem noNul_singleton {c : Char} : NoNul [c] ↔ c ≠ '\x00' := by simp [NoNul, eq_comm]
theorem noNul_reverse {a : Str} : NoNul a.reverse ↔ NoNul a := by simp [NoNul]
theorem NoNul.sublist {a b : Str} (h : NoNul b) (hs : a.Sublist b) : NoNul a := fun hm => h (hs.subset hm)
theorem NoNul.take {a : Str} (h : NoNul a) (n : Nat) : NoNul (a.take n) := h.sublist (List.take_sublist _ _)
theorem NoNul.drop {a : Str} (h : NoNul a) (n : Nat) : NoNul (a.drop n) := h.sublist (List.drop_sublist _ _)
theorem NoNul.dropLast {a : Str} (h : NoNul a) : NoNul a.dropLast := h.sublist (List.dropLast_sublist _)
theorem NoNul.filter {a : Str} (h : NoNul a) (p : Char → Bool) : NoNul (a.filter p) := h.sublist List.filter_sublist
theorem NoNul.takeWhile {a : Str} (h : NoNul a) (p : Char → Bool) : NoNul (a.takeWhile p) :=
  h.sublist (List.takeWhile_sublist _)
theorem NoNul.dropWhile {a : Str} (h : NoNul a) (p : Char → Bool) : NoNul (a.dropWhile p) :=
  h.sublist (List.dropWhile_sublist _)
theorem NoNul.mem {a : Str} (h : NoNul a) {c : Char} (hc : c ∈ a) : c ≠ '\x00' := fun he => h (he ▸ hc)
theorem NoNul.map {a : Str} (h : NoNul a) {f : Char → Char} (hf : ∀ c, c ≠ '\x00' → f c ≠ '\x00') :
    NoNul (a.map f) := by
  intro hm
  obtain ⟨c, hc, he⟩ := List.mem_map.mp hm
  exact hf c (h.mem hc) he

/-! ### the key table -/

/-- no key types U+0000 (checked over the regenerated `keycode_to_char` table) -/
theorem keyChar_noNul : keyChar.all (fun p => Char.ofNat p.2 != '\x00') = true := by decide

theorem alookup_mem_nat {l : List (Nat × Nat)} {k n : Nat} (h : alookup l k = some n) : ∃ p ∈ l, p.2 = n := by
  induction l with
  | nil => simp [alookup] at h
  | cons p ps ih =>
    obtain ⟨a, b⟩ := p
    simp only [alookup] at h
    split at h
    · exact ⟨(a, b), by simp, by simpa using h⟩
    · obtain ⟨q, hq, hqn⟩ := ih h; exact ⟨q, by simp [hq], hqn⟩

/-- `keycode_to_char` never yields U+0000 -/
theorem keycodeToChar_ne_nul {k : Nat} {c : Char} (h : keycodeToChar k = some c) : c ≠ '\x00' := by
  unfold keycodeToChar at h
  cases hl : alookup keyChar k with
  | none => simp [hl] at h
  | some n =>
    simp [hl] at h
    subst h
    have hall := keyChar_noNul
    rw [List.all_eq_true] at hall
    obtain ⟨p, hp, hpn⟩ := alookup_mem_nat hl
    have := hall p hp
    rw [hpn] at this
    simpa using this

/-! ### okkhor's `convert` -/

/-- every replacement text of the generated okkhor pattern table is NUL-free -/
theorem okkhorPatterns_noNul :
    okkhorPatterns.all (fun p => (natsToChars p.dflt).all (fun c => c != '\x00') &&
      p.rules.all (fun r => (natsToChars r.2).all (fun c => c != '\x00'))) = true := by decide +kernel

theorem okFindPattern_mem {pats : List OkPattern} {input : List Char} {p : OkPattern}
    (h : okFindPattern pats input = some p) : p ∈ pats := by
  unfold okFindPattern at h
  have gen : ∀ (l : List OkPattern) (init : Option OkPattern),
      (∀ q, init = some q → q ∈ pats) → (∀ q ∈ l, q ∈ pats) →
      ∀ q, l.foldl (fun best p =>
        if p.find.length > 0 && natPrefixOf p.find input then
          match best with
          | none => some p
          | some b => if p.find.length > b.find.length then some p else best
        else best) init = some q → q ∈ pats := by
    intro l
    induction l with
    | nil => intro init hi _ q hq; exact hi q hq
    | cons x xs ih =>
      intro init hi hl q hq
      simp only [List.foldl_cons] at hq
      refine ih _ ?_ (fun q hq => hl q (List.mem_cons_of_mem _ hq)) q hq
      intro q' hq'
      split at hq'
      · split at hq'
        · cases hq'; exact hl _ (List.mem_cons_self ..)
        · split at hq'
          · cases hq'; exact hl _ (List.mem_cons_self ..)
          · exact hi q' hq'
      · exact hi q' hq'
  exact gen pats none (by simp) (fun q hq => hq) p h

theorem okReplacement_noNul {p : OkPattern} (hp : p ∈ okkhorPatterns) (pre suf : Char) :
    NoNul (natsToChars (okReplacement p pre suf)) := by
  have hall := okkhorPatterns_noNul
  rw [List.all_eq_true] at hall
  have hp' := hall p hp
  simp only [Bool.and_eq_true, List.all_eq_true] at hp'
  unfold okReplacement
  split
  · rename_i r hr
    have hmem := List.mem_of_find?_eq_some hr
    intro hm
    have := hp'.2 r hmem _ hm
    simp at this
  · intro hm
    have := hp'.1 _ hm
    simp at this

theorem okLoop_noNul (fuel : Nat) (input : List Char) (pre : Char) (out : List Char)
    (hi : NoNul input) (ho : NoNul out) : NoNul (okLoop okkhorPatterns fuel input pre out) := by
  induction fuel generalizing input pre out with
  | zero => simpa [okLoop] using ho
  | succ n ih =>
    cases input with
    | nil => simpa [okLoop] using ho
    | cons c cs =>
      simp only [okLoop]
      split
      · rename_i p hp
        exact ih _ _ _ (hi.drop _) (noNul_append.mpr ⟨ho, okReplacement_noNul (okFindPattern_mem hp) _ _⟩)
      · exact ih _ _ _ (noNul_cons.mp hi).2 (noNul_append.mpr ⟨ho, noNul_singleton.mpr (noNul_cons.mp hi).1⟩)

theorem asciiLower_ne_nul (c : Char) (h : c ≠ '\x00') : asciiLower c ≠ '\x00' := by
  unfold asciiLower
  split
  · rename_i hc
    simp only [Bool.and_eq_true, decide_eq_true_eq] at hc
    have h1 : 65 ≤ c.toNat := hc.1
    have h2 : c.toNat ≤ 90 := hc.2
    have key : ∀ n : Nat, n < 91 → 65 ≤ n → Char.ofNat (n + 32) ≠ '\x00' := by decide
    exact key c.toNat (by omega) h1
  · exact h

theorem condLower_ne_nul (c : Char) (h : c ≠ '\x00') : condLower c ≠ '\x00' := by
  unfold condLower
  simp only
  split
  · exact h
  · exact asciiLower_ne_nul c h

/-- **okkhor's `convert` maps NUL-free text to NUL-free text**: every replacement of the pattern
    table is NUL-free and passed-through characters come from the (case-folded) input -/
theorem okConvert_noNul {raw : Str} (h : NoNul raw) : NoNul (okConvert raw) := by
  unfold okConvert
  exact okLoop_noNul _ _ _ _ (h.map condLower_ne_nul) noNul_nil

/-! ### the environment, stores, memo -/

/-- the data the engine is given is NUL-free: bundled tables, dictionary words, emoji, and the two
    third-party converters map NUL-free text to NUL-free text (`okConvert_noNul` proves the latter
    for the model of okkhor's parser) -/
structure NoNulEnv (env : Env) : Prop where
  conv : ∀ s, NoNul s → NoNul (env.convert s)
  dict : ∀ w l, env.dictPhonetic w = some l → ∀ s ∈ l, NoNul s
  sfx : ∀ k v, env.suffix k = some v → NoNul v
  ac : ∀ k v, env.autocorrect k = some v → NoNul v
  emo : ∀ k v, env.emoticon k = some v → NoNul v
  emoName : ∀ k l, env.emojiByName k = some l → ∀ s ∈ l, NoNul s
  emoBn : ∀ k l, env.emojiBengali k = some l → ∀ s ∈ l, NoNul s
  bij : ∀ s r, NoNul s → env.bijoy s = .ok r → NoNul r
  table : ∀ t, ∀ s ∈ env.fixedTable t, NoNul s

/-- every value of a user store is NUL-free (JSON strings can carry `\u0000`; this excludes it) -/
def StoreNoNul (st : Store) : Prop := ∀ k v, alookup st k = some v → NoNul v

/-- every text in the memo is NUL-free -/
def MemoNoNul (cache : Memo) : Prop := ∀ k e, alookup cache k = some e → ∀ r ∈ e, NoNul r.text

/-- every text of a candidate list is NUL-free -/
def RanksNoNul (l : List Rank) : Prop := ∀ r ∈ l, NoNul r.text

theorem storeNoNul_nil : StoreNoNul [] := by intro k v h; simp [alookup] at h
theorem memoNoNul_nil : MemoNoNul [] := by intro k e h; simp [alookup] at h
theorem ranksNoNul_nil : RanksNoNul [] := by intro r h; simp at h

theorem RanksNoNul.append {a b : List Rank} (ha : RanksNoNul a) (hb : RanksNoNul b) : RanksNoNul (a ++ b) := by
  intro r hr; rcases List.mem_append.mp hr with h | h
  · exact ha r h
  · exact hb r h

theorem RanksNoNul.pushChecked {v : List Rank} {r : Rank} (hv : RanksNoNul v) (hr : NoNul r.text) :
    RanksNoNul (pushChecked v r) := by
  intro x hx
  rcases mem_pushChecked hx with h | h
  · exact hv x h
  · subst h; exact hr

theorem RanksNoNul.foldl_pushChecked {l v : List Rank} (hl : RanksNoNul l) (hv : RanksNoNul v) :
    RanksNoNul (l.foldl Riti.pushChecked v) := by
  intro x hx
  rcases mem_foldl_pushChecked hx with h | h
  · exact hv x h
  · exact hl x h

theorem RanksNoNul.sortStable {l : List Rank} (hl : RanksNoNul l) : RanksNoNul (sortStable l) :=
  fun r hr => hl r (mem_sortStable.mp hr)

@[simp] theorem Rank.text_newSuggestion (s b : Str) : (Rank.newSuggestion s b).text = s := rfl

/-! ### `split`, smart quotes -/

/-- the three parts of `split` are pieces of the input -/
theorem split_noNul {t : Str} (ic : Bool) (h : NoNul t) :
    NoNul (split t ic).pre ∧ NoNul (split t ic).word ∧ NoNul (split t ic).trail := by
  unfold split
  simp only
  split
  · exact ⟨h, noNul_nil, noNul_nil⟩
  · exact ⟨h.takeWhile _, ((h.dropWhile _).take _), ((h.dropWhile _).drop _)⟩

theorem openQuote_ne_nul (c : Char) (h : c ≠ '\x00') : openQuote c ≠ '\x00' := by
  unfold openQuote; split
  · decide
  · split
    · decide
    · exact h

theorem closeQuote_ne_nul (c : Char) (h : c ≠ '\x00') : closeQuote c ≠ '\x00' := by
  unfold closeQuote; split
  · decide
  · split
    · decide
    · exact h

/-- a triple of NUL-free parts -/
def PartsNoNul (p : Parts) : Prop := NoNul p.pre ∧ NoNul p.word ∧ NoNul p.trail

theorem smartQuoter_noNul {p : Parts} (h : PartsNoNul p) : PartsNoNul (smartQuoter p) := by
  unfold smartQuoter; split
  · exact h
  · exact ⟨h.1.map openQuote_ne_nul, h.2.1, h.2.2.map closeQuote_ne_nul⟩

theorem preparedParts_noNul {env : Env} (he : NoNulEnv env) (cfg : Cfg) {term : Str} (h : NoNul term) :
    PartsNoNul (preparedParts env cfg term) := by
  obtain ⟨h1, h2, h3⟩ := split_noNul false h
  have hp : PartsNoNul ⟨env.convert (split term false).pre, (split term false).word, env.convert (split term false).trail⟩ :=
    ⟨he.conv _ h1, h2, he.conv _ h3⟩
  unfold preparedParts
  simp only
  split
  · exact smartQuoter_noNul hp
  · exact hp

/-! ### the phonetic candidate pipeline -/

theorem searchCorrected_noNul {env : Env} (he : NoNulEnv env) {ua : Store} (hua : StoreNoNul ua) {w v : Str}
    (h : searchCorrected env ua w = some v) : NoNul v := by
  unfold searchCorrected at h
  split at h
  · rename_i v' hv; cases h; exact hua _ _ hv
  · exact he.ac _ _ h

/-- a computed memo entry: the transliterated auto-correct value and dictionary words -/
theorem computeEntry_noNul {env : Env} (he : NoNulEnv env) {ua : Store} (hua : StoreNoNul ua) (w : Str) :
    RanksNoNul (computeEntry env ua w) := by
  intro r hr
  unfold computeEntry at hr
  simp only at hr
  rcases List.mem_append.mp hr with h | h
  · split at h
    · rename_i c hc
      simp at h; subst h
      exact he.conv _ (searchCorrected_noNul he hua hc)
    · simp at h
  · obtain ⟨s, hs, rfl⟩ := List.mem_map.mp h
    cases hd : env.dictPhonetic w with
    | none => simp [hd] at hs
    | some l => simp [hd] at hs; exact he.dict _ _ hd s hs

/-- `suggestion_with_dict` keeps the memo NUL-free -/
theorem memoFill_noNul {env : Env} (he : NoNulEnv env) {ua : Store} (hua : StoreNoNul ua) {cache : Memo}
    (hc : MemoNoNul cache) (w : Str) : MemoNoNul (memoFill env ua cache w) := by
  unfold memoFill
  split
  · exact hc
  · intro k e hk
    rw [alookup_ainsert] at hk
    split at hk
    · injection hk with hk; subst hk; exact computeEntry_noNul he hua w
    · exact hc k e hk

theorem joinChecked_noNul {base sfx j : Str} (hb : NoNul base) (hs : NoNul sfx)
    (h : joinChecked base sfx = some j) : NoNul j := by
  unfold joinChecked at h
  split at h
  · cases h
    unfold joinSuffix
    have hY : cY ≠ '\x00' := by decide
    have hT : cT ≠ '\x00' := by decide
    have hN : cNga ≠ '\x00' := by decide
    split
    · exact noNul_append.mpr ⟨noNul_append.mpr ⟨hb, noNul_singleton.mpr hY⟩, hs⟩
    · split
      · exact noNul_append.mpr ⟨noNul_append.mpr ⟨hb.dropLast, noNul_singleton.mpr hT⟩, hs⟩
      · split
        · exact noNul_append.mpr ⟨noNul_append.mpr ⟨hb.dropLast, noNul_singleton.mpr hN⟩, hs⟩
        · exact noNul_append.mpr ⟨hb, hs⟩
  · cases h

/-- `add_suffix_to_suggestions`: memo items and suffix joins -/
theorem addSuffix_noNul {env : Env} (he : NoNulEnv env) {cache : Memo} (hc : MemoNoNul cache) (w : Str) :
    RanksNoNul (addSuffix env cache w) := by
  have hbase : RanksNoNul ((alookup cache w).getD []) := by
    intro r hr
    cases hl : alookup cache w with
    | none => simp [hl] at hr
    | some e => exact hc w e hl r (by simpa [hl] using hr)
  unfold addSuffix
  simp only
  split
  · refine hbase.append ?_
    intro r hr
    obtain ⟨ks, _, hks⟩ := List.mem_flatMap.mp hr
    obtain ⟨sfx, e, b, hs, hce, hb, hj, _⟩ := mem_suffixedAt hks
    exact joinChecked_noNul (hc _ _ hce b hb) (he.sfx _ _ hs) hj
  · exact hbase

theorem wrapText_noNul {p t s : Str} (hp : NoNul p) (ht : NoNul t) (hs : NoNul s) : NoNul (wrapText p t s) :=
  noNul_append.mpr ⟨noNul_append.mpr ⟨hp, hs⟩, ht⟩

theorem wrapAll_noNul {parts : Parts} (hp : PartsNoNul parts) {l : List Rank} (hl : RanksNoNul l) :
    RanksNoNul (wrapAll parts l) := by
  unfold wrapAll
  split
  · intro r hr
    obtain ⟨r0, h0, rfl⟩ := List.mem_map.mp hr
    simpa using wrapText_noNul hp.1 hp.2.2 (hl r0 h0)
  · exact hl

/-- `suggestion_with_dict` -/
theorem dictList_noNul {env : Env} (he : NoNulEnv env) {cache : Memo} (hc : MemoNoNul cache) {parts : Parts}
    (hp : PartsNoNul parts) : RanksNoNul (dictList env cache parts) := by
  unfold dictList
  exact wrapAll_noNul hp
    (((addSuffix_noNul he hc parts.word).foldl_pushChecked ranksNoNul_nil).pushChecked (he.conv _ hp.2.1))

theorem emojiStage_noNul {env : Env} (he : NoNulEnv env) (cfg : Cfg) {term : Str} (ht : NoNul term)
    {parts : Parts} (hp : PartsNoNul parts) {l : List Rank} (hl : RanksNoNul l) :
    RanksNoNul (emojiStage env cfg term parts l).1 := by
  unfold emojiStage
  split
  · exact hl
  · split
    · rename_i e hem
      refine RanksNoNul.append ?_ ?_
      · split
        · exact hl.pushChecked ht
        · exact hl
      · intro r hr; simp at hr; subst hr; exact he.emo _ _ hem
    · split
      · rename_i es hes
        refine hl.append ?_
        intro r hr
        obtain ⟨q, hq, rfl⟩ := List.mem_map.mp hr
        exact wrapText_noNul hp.1 hp.2.2 (he.emoName _ _ hes _ (List.mem_zipIdx hq |>.2.2 ▸ List.getElem_mem _))
      · exact hl

theorem addExtras_noNul {env : Env} (he : NoNulEnv env) (cfg : Cfg) {term : Str} (ht : NoNul term)
    {parts : Parts} (hp : PartsNoNul parts) {l : List Rank} (hl : RanksNoNul l) :
    RanksNoNul (addExtras env cfg term parts l) := by
  unfold addExtras
  simp only
  split
  · exact (emojiStage_noNul he cfg ht hp hl).pushChecked ht
  · exact emojiStage_noNul he cfg ht hp hl

/-- every candidate text of `PhoneticSuggestion::suggest` is NUL-free -/
theorem suggestList_noNul {env : Env} (he : NoNulEnv env) (cfg : Cfg) {cache : Memo} (hc : MemoNoNul cache)
    {term : Str} (ht : NoNul term) : RanksNoNul (suggestList env cfg cache term) := by
  unfold suggestList
  have hp := preparedParts_noNul he cfg ht
  exact (addExtras_noNul he cfg ht hp (dictList_noNul he hc hp)).sortStable

/-- `suggest_only_phonetic` -/
theorem suggestOnlyPhonetic_noNul {env : Env} (he : NoNulEnv env) {term : Str} (ht : NoNul term) :
    NoNul (suggestOnlyPhonetic env term) := by
  obtain ⟨h1, h2, h3⟩ := split_noNul false ht
  unfold suggestOnlyPhonetic
  exact noNul_append.mpr ⟨noNul_append.mpr ⟨he.conv _ h1, he.conv _ h2⟩, he.conv _ h3⟩

/-! ### suggestions and the phonetic method -/

/-- every text a `Suggestion` owns (auxiliary text, candidates, the single suggestion) is NUL-free -/
def NoNulSugg : Sugg → Prop
  | .full aux l _ _ => NoNul aux ∧ ∀ s ∈ l, NoNul s
  | .single s _ => NoNul s

theorem noNulSugg_empty : NoNulSugg Sugg.empty := noNul_nil

/-- the invariant of the phonetic method: buffer, memo and user auto-correct values are NUL-free
    (the learned-selections store only steers the preselected index: its texts are compared,
    never returned) -/
structure NoNulP (s : PState) : Prop where
  buffer : NoNul s.buffer
  cache : MemoNoNul s.cache
  ua : StoreNoNul s.userAutocorrect

/-- `create_suggestion` (phonetic): invariant kept, every returned text NUL-free -/
theorem pCreateSuggestion_noNul {env : Env} (he : NoNulEnv env) (cfg : Cfg) {s : PState} (hs : NoNulP s) :
    NoNulP (pCreateSuggestion env cfg s).1 ∧ NoNulSugg (pCreateSuggestion env cfg s).2 := by
  unfold pCreateSuggestion
  split
  · have hp := preparedParts_noNul he cfg hs.buffer
    have hc := memoFill_noNul he hs.ua hs.cache (preparedParts env cfg s.buffer).word
    have hl := suggestList_noNul he cfg hc hs.buffer
    simp only [suggest]
    refine ⟨⟨hs.buffer, hc, hs.ua⟩, hs.buffer, ?_⟩
    intro t ht
    obtain ⟨r, hr, rfl⟩ := List.mem_map.mp ht
    exact hl r hr
  · exact ⟨hs, suggestOnlyPhonetic_noNul he hs.buffer⟩

/-- `PhoneticMethod::get_suggestion` (a key): invariant kept, every returned text NUL-free -/
theorem pKey_noNul {env : Env} (he : NoNulEnv env) (cfg : Cfg) {s : PState} (hs : NoNulP s) (key sel : Nat) :
    NoNulP (pKey env cfg s key sel).1 ∧ NoNulSugg (pKey env cfg s key sel).2 := by
  unfold pKey
  split
  · split
    · exact ⟨hs, noNulSugg_empty⟩
    · exact pCreateSuggestion_noNul he cfg hs
  · rename_i ch hk
    have hs' : NoNulP { s with buffer := s.buffer ++ [ch] } :=
      ⟨noNul_append.mpr ⟨hs.buffer, noNul_singleton.mpr (keycodeToChar_ne_nul hk)⟩, hs.cache, hs.ua⟩
    have := pCreateSuggestion_noNul he cfg hs'
    simp only
    split
    · rename_i aux l sel' ansi hsg
      rw [hsg] at this
      exact ⟨this.1, this.2⟩
    · exact this

/-- `PhoneticMethod::backspace_event` -/
theorem pBackspace_noNul {env : Env} (he : NoNulEnv env) (cfg : Cfg) {s : PState} (hs : NoNulP s) (ctrl : Bool) :
    NoNulP (pBackspace env cfg s ctrl).1 ∧ NoNulSugg (pBackspace env cfg s ctrl).2 := by
  unfold pBackspace
  split
  · split
    · exact ⟨⟨noNul_nil, hs.cache, hs.ua⟩, noNulSugg_empty⟩
    · simp only
      split
      · exact ⟨⟨hs.buffer.dropLast, hs.cache, hs.ua⟩, noNulSugg_empty⟩
      · exact pCreateSuggestion_noNul he cfg ⟨hs.buffer.dropLast, hs.cache, hs.ua⟩
  · exact ⟨hs, noNulSugg_empty⟩

/-- `PhoneticMethod::candidate_committed` -/
theorem pCommit_noNul (cfg : Cfg) {s s' : PState} {wr : Option Store} (hs : NoNulP s) (i : Nat)
    (h : pCommit cfg s i = .ok (s', wr)) : NoNulP s' := by
  unfold pCommit at h
  split at h
  · split at h
    · cases h
    · cases h; exact ⟨noNul_nil, hs.cache, hs.ua⟩
  · cases h; exact ⟨noNul_nil, hs.cache, hs.ua⟩

theorem pFinish_noNul {s : PState} (hs : NoNulP s) : NoNulP (pFinish s) := ⟨noNul_nil, hs.cache, hs.ua⟩

/-- the user auto-correct file, as far as it parses, holds NUL-free values -/
def NoNulFS (fs : FS) : Prop := ∀ t st, fs.ac = some (t, some st) → StoreNoNul st

theorem pNew_noNul {fs : FS} (hfs : NoNulFS fs) : NoNulP (pNew fs) := by
  unfold pNew
  refine ⟨noNul_nil, memoNoNul_nil, ?_⟩
  simp only
  split
  · rename_i t st h; exact hfs t st h
  · exact storeNoNul_nil

theorem pUpdate_noNul {fs : FS} (hfs : NoNulFS fs) {s : PState} (hs : NoNulP s) : NoNulP (pUpdate fs s) := by
  unfold pUpdate
  split
  · rename_i t parsed hac
    split
    · refine ⟨hs.buffer, memoNoNul_nil, ?_⟩
      cases parsed with
      | none => exact storeNoNul_nil
      | some st => exact hfs t st hac
    · exact hs
  · split
    · exact ⟨hs.buffer, memoNoNul_nil, storeNoNul_nil⟩
    · exact hs

end Riti
