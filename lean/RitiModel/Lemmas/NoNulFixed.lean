/-
Lemmas/NoNulFixed — NUL-freedom, part 2: the fixed-layout method (`process_key_value`, the
dictionary candidates, `create_suggestion`, backspace) and the `Method` dispatch (`step`).
-/
import RitiModel.Lemmas.NoNul
namespace Riti
open Gen

/-- the pending left-standing sign, if any, is not U+0000 -/
def PendOk (p : Option Char) : Prop := ∀ c, p = some c → c ≠ '\x00'

/-- the invariant of the fixed method: composition buffer, raw keys, pending sign and the list
    last built are NUL-free -/
structure NoNulF (s : FState) : Prop where
  rbuf : NoNul s.rbuf
  rtyped : NoNul s.rtyped
  pending : PendOk s.pending
  suggestions : RanksNoNul s.suggestions

theorem noNulF_init : NoNulF {} := ⟨noNul_nil, noNul_nil, (by intro c h; cases h), ranksNoNul_nil⟩

theorem NoNulF.set {s : FState} (hs : NoNulF s) {rb : Str} {p : Option Char} (hrb : NoNul rb) (hp : PendOk p) :
    NoNulF { s with rbuf := rb, pending := p } := ⟨hrb, hs.rtyped, hp, hs.suggestions⟩

theorem NoNulF.setBuf {s : FState} (hs : NoNulF s) {rb : Str} (hrb : NoNul rb) :
    NoNulF { s with rbuf := rb } := ⟨hrb, hs.rtyped, hs.pending, hs.suggestions⟩

theorem pendOk_none : PendOk none := by intro c h; cases h

theorem pushStr_noNul {rbuf v : Str} (hb : NoNul rbuf) (hv : NoNul v) : NoNul (pushStr rbuf v) :=
  noNul_append.mpr ⟨noNul_reverse.mpr hv, hb⟩

theorem karToVowel_ne_nul {c v : Char} (h : karToVowel c = some v) : v ≠ '\x00' := by
  unfold karToVowel at h
  repeat (split at h; (· cases h; decide))
  cases h

theorem toPending_ok (c : Char) : PendOk (toPending c) := by
  intro d hd
  unfold toPending at hd
  split at hd
  · rename_i hc
    cases hd
    simp only [Bool.or_eq_true, beq_iff_eq] at hc
    rcases hc with (hc | hc) | hc <;> (rw [hc]; decide)
  · cases hd

theorem insertOldStyleReph_noNul {rbuf : Str} (h : NoNul rbuf) : NoNul (insertOldStyleReph rbuf) := by
  have hH : cHasanta ≠ '\x00' := by decide
  have hR : cR ≠ '\x00' := by decide
  have h2 : NoNul [cHasanta, cR] := noNul_cons.mpr ⟨hH, noNul_singleton.mpr hR⟩
  unfold insertOldStyleReph
  split
  · exact noNul_append.mpr ⟨noNul_append.mpr ⟨h.take _, h2⟩, h.drop _⟩
  · exact noNul_append.mpr ⟨h2, h⟩

theorem karTail_noNul (cfg : Cfg) {rbuf : Str} (rmc : Char) {character : Char} (hb : NoNul rbuf)
    (hc : character ≠ '\x00') : NoNul (karTail cfg rbuf rmc character) := by
  have hCh : cChandra ≠ '\x00' := by decide
  have hZ : cZWNJ ≠ '\x00' := by decide
  unfold karTail
  split
  · split
    · rename_i v hv; exact noNul_cons.mpr ⟨karToVowel_ne_nul hv, hb⟩
    · exact hb
  · split
    · exact noNul_cons.mpr ⟨hCh, noNul_cons.mpr ⟨hc, hb.drop 1⟩⟩
    · split
      · split
        · rename_i v hv; exact noNul_cons.mpr ⟨karToVowel_ne_nul hv, hb.drop 1⟩
        · exact hb
      · split
        · split
          · exact noNul_cons.mpr ⟨hc, noNul_cons.mpr ⟨hZ, hb⟩⟩
          · exact noNul_cons.mpr ⟨hc, hb⟩
        · exact noNul_cons.mpr ⟨hc, hb⟩

/-- the code after the `if let Some(character)` block of `process_key_value` -/
theorem fallthrough_noNul (cfg : Cfg) {value : Str} (hv : NoNul value) {s : FState} (hs : NoNulF s) :
    NoNulF (if cfg.fixedKarOrder then
        match s.pending with
        | some lsk =>
          let rbuf := pushStr s.rbuf value
          if value.getLast? == some cHasanta then { s with rbuf := rbuf }
          else { s with rbuf := lsk :: rbuf, pending := none }
        | none => { s with rbuf := pushStr s.rbuf value }
      else { s with rbuf := pushStr s.rbuf value }) := by
  have hp := pushStr_noNul hs.rbuf hv
  split
  · split
    · rename_i lsk hl
      simp only
      split
      · exact hs.setBuf hp
      · exact hs.set (noNul_cons.mpr ⟨hs.pending lsk hl, hp⟩) pendOk_none
    · exact hs.setBuf hp
  · exact hs.setBuf hp

/-- the body of `process_key_value` keeps the invariant: it only moves characters of the buffer,
    pushes characters of the (NUL-free) layout value, or constants; the `unwrap_or_default()`
    U+0000 of an empty buffer is only compared, never pushed -/
theorem pkvBody_noNul (recur : FState → FState) (hrec : ∀ s, NoNulF s → NoNulF (recur s)) (cfg : Cfg)
    {value : Str} (hv : NoNul value) {s : FState} (hs : NoNulF s) : NoNulF (pkvBody recur cfg s value) := by
  have hZWJ : cZWJ ≠ '\x00' := by decide
  have hZWNJ : cZWNJ ≠ '\x00' := by decide
  have hO : cOKar ≠ '\x00' := by decide
  have hOU : cOUKar ≠ '\x00' := by decide
  have hOUv : cOU ≠ '\x00' := by decide
  have hH : cHasanta ≠ '\x00' := by decide
  unfold pkvBody
  simp only
  split
  · -- zo-fola
    have hrb : NoNul (if (s.rbuf.headD '\x00' == cR && (s.rbuf.drop 1).headD '\x00' != cHasanta) = true
        then cZWJ :: s.rbuf else s.rbuf) := by
      split
      · exact noNul_cons.mpr ⟨hZWJ, hs.rbuf⟩
      · exact hs.rbuf
    revert hrb
    generalize (if (s.rbuf.headD '\x00' == cR && (s.rbuf.drop 1).headD '\x00' != cHasanta) = true
        then cZWJ :: s.rbuf else s.rbuf) = rb
    intro hrb
    split
    · split
      · rename_i kar rest
        have := noNul_cons.mp hrb
        exact hs.setBuf (noNul_cons.mpr ⟨this.1, pushStr_noNul this.2 hv⟩)
      · exact hs.setBuf (pushStr_noNul hrb hv)
    · exact hs.setBuf (pushStr_noNul hrb hv)
  · split
    · exact hs.setBuf (insertOldStyleReph_noNul hs.rbuf)
    · split
      · exact fallthrough_noNul cfg hv hs
      · rename_i character hch
        have hc : character ≠ '\x00' := by
          cases value with
          | nil => simp at hch
          | cons x xs => simp at hch; subst hch; exact (noNul_cons.mp hv).1
        split
        · -- a vowel sign
          split
          · split
            · exact ⟨hs.rbuf, hs.rtyped, toPending_ok _, hs.suggestions⟩
            · split
              · refine hs.setBuf (noNul_cons.mpr ⟨?_, hs.rbuf.drop 1⟩)
                split
                · exact hO
                · exact hOU
              · split
                · rename_i lsk hl
                  split
                  · exact hs.set (karTail_noNul cfg _
                      (noNul_cons.mpr ⟨hH, noNul_cons.mpr ⟨hs.pending lsk hl, hs.rbuf.drop 1⟩⟩) hc) pendOk_none
                  · apply hrec
                    refine hs.set ?_ pendOk_none
                    split
                    · split
                      · rename_i v hv'; exact noNul_cons.mpr ⟨karToVowel_ne_nul hv', hs.rbuf⟩
                      · exact hs.rbuf
                    · exact hs.rbuf
                · exact hs.setBuf (karTail_noNul cfg _ hs.rbuf hc)
          · exact hs.setBuf (karTail_noNul cfg _ hs.rbuf hc)
        · split
          · exact hs.setBuf (noNul_cons.mpr ⟨hZWNJ, hs.rbuf⟩)
          · split
            · exact hs.setBuf (noNul_cons.mpr ⟨hOUv, hs.rbuf.drop 1⟩)
            · split
              · split
                · exact hs.set (noNul_cons.mpr ⟨hc, hs.rbuf.drop 1⟩) (toPending_ok _)
                · split
                  · rename_i kar rest hrb
                    have := hs.rbuf
                    rw [hrb] at this
                    have := noNul_cons.mp this
                    exact hs.setBuf (noNul_cons.mpr ⟨this.1, pushStr_noNul this.2 hv⟩)
                  · exact hs
              · split
                · exact hs.setBuf (noNul_cons.mpr ⟨hOU, hs.rbuf.drop 1⟩)
                · exact fallthrough_noNul cfg hv hs

/-- `process_key_value` keeps the fixed-method invariant for a NUL-free layout value -/
theorem processKeyValue_noNul (cfg : Cfg) {value : Str} (hv : NoNul value) {s : FState} (hs : NoNulF s) :
    NoNulF (processKeyValue cfg s value) := by
  unfold processKeyValue
  exact pkvBody_noNul _ (fun s' hs' => pkvBody_noNul id (fun _ h => h) cfg hv hs') cfg hv hs

/-! ### keys, backspace -/

/-- every value of the parsed layout file is NUL-free -/
def NoNulLayout (l : Layout) : Prop := ∀ k v, l k = some v → NoNul v

theorem nonEmpty_some {v : Option (List Char)} {x : List Char} (h : nonEmpty v = some x) : v = some x := by
  unfold nonEmpty at h
  split at h
  · cases h
  · exact h

theorem getCharForKey_noNul {layout : Layout} (hl : NoNulLayout layout) {key : Nat} {mods : Bool × Bool}
    {numpad : Bool} {v : Str} (h : getCharForKey layout key mods numpad = some v) : NoNul v := by
  unfold getCharForKey at h
  split at h
  · cases h
  · exact hl _ _ (nonEmpty_some h)
  · split at h
    · exact hl _ _ (nonEmpty_some h)
    · cases h

/-- the state change of a key in the fixed method keeps the invariant -/
theorem fKeyState_noNul {layout : Layout} (hl : NoNulLayout layout) (cfg : Cfg) {s s' : FState} (hs : NoNulF s)
    {key modifier : Nat} (h : fKeyState layout cfg s key modifier = some s') : NoNulF s' := by
  unfold fKeyState at h
  split at h
  · cases h
  · rename_i value hval
    have hp := processKeyValue_noNul cfg (getCharForKey_noNul hl hval) hs
    simp only at h
    split at h
    · cases h; exact ⟨hp.rbuf, noNul_nil, hp.pending, hp.suggestions⟩
    · split at h
      · split at h
        · rename_i ch hk
          cases h
          exact ⟨hp.rbuf, noNul_cons.mpr ⟨keycodeToChar_ne_nul hk, hp.rtyped⟩, hp.pending, hp.suggestions⟩
        · cases h; exact hp
      · cases h; exact hp

theorem fBackspaceState_noNul {s : FState} (hs : NoNulF s) (ctrl : Bool) : NoNulF (fBackspaceState s ctrl).1 := by
  unfold fBackspaceState
  split
  · exact ⟨noNul_nil, noNul_nil, pendOk_none, hs.suggestions⟩
  · split
    · split
      · exact ⟨hs.rbuf, noNul_nil, pendOk_none, hs.suggestions⟩
      · exact ⟨hs.rbuf, hs.rtyped.drop 1, pendOk_none, hs.suggestions⟩
    · split
      · simp only
        split
        · exact ⟨hs.rbuf.drop 1, noNul_nil, hs.pending, hs.suggestions⟩
        · exact ⟨hs.rbuf.drop 1, hs.rtyped.drop 1, hs.pending, hs.suggestions⟩
      · exact hs

theorem fClear_noNul {s : FState} (hs : NoNulF s) : NoNulF (fClear s) :=
  ⟨noNul_nil, noNul_nil, pendOk_none, hs.suggestions⟩

theorem NoNulF.buffer {s : FState} (hs : NoNulF s) : NoNul s.buffer := noNul_reverse.mpr hs.rbuf
theorem NoNulF.typed {s : FState} (hs : NoNulF s) : NoNul s.typed := noNul_reverse.mpr hs.rtyped

/-! ### the dictionary candidates of the fixed method -/

theorem fixedParts_noNul (cfg : Cfg) {buffer : Str} (h : NoNul buffer) : PartsNoNul (fixedParts cfg buffer) := by
  unfold fixedParts
  simp only
  split
  · exact smartQuoter_noNul (split_noNul true h)
  · exact split_noNul true h

theorem tradKarWord_noNul {w : Str} (h : NoNul w) : NoNul (tradKarWord w) := by
  unfold tradKarWord
  intro hm
  obtain ⟨c, hc, hcm⟩ := List.mem_flatMap.mp hm
  have hz : cZWNJ ≠ '\x00' := by decide
  split at hcm
  · simp only [List.mem_cons, List.not_mem_nil, or_false] at hcm
    rcases hcm with h1 | h1
    · exact hz h1.symm
    · exact h.mem hc h1.symm
  · simp only [List.mem_cons, List.not_mem_nil, or_false] at hcm
    exact h.mem hc hcm.symm

theorem fixedHits_noNul {env : Env} (he : NoNulEnv env) (cfg : Cfg) (word : Str) :
    RanksNoNul (fixedHits env cfg word) := by
  unfold fixedHits
  split
  · exact ranksNoNul_nil
  · rename_i t _
    intro r hr
    simp only at hr
    obtain ⟨w, hw, rfl⟩ := List.mem_map.mp hr
    have hwn := he.table t w (List.mem_filter.mp hw).1
    simp only [Rank.text_newSuggestion]
    split
    · exact tradKarWord_noNul hwn
    · exact hwn

theorem mem_dedupAdjacent {l : List Rank} {r : Rank} (h : r ∈ dedupAdjacent l) : r ∈ l := by
  fun_induction dedupAdjacent l with
  | case1 => exact h
  | case2 x => exact h
  | case3 x y rest hxy ih =>
    rcases List.mem_cons.mp (ih h) with h1 | h1
    · exact h1 ▸ List.mem_cons_self ..
    · exact List.mem_cons_of_mem _ (List.mem_cons_of_mem _ h1)
  | case4 x y rest hxy ih =>
    rcases List.mem_cons.mp h with h1 | h1
    · exact h1 ▸ List.mem_cons_self ..
    · exact List.mem_cons_of_mem _ (ih h1)

theorem fixedBase_noNul {env : Env} (he : NoNulEnv env) (cfg : Cfg) {parts : Parts} (hp : PartsNoNul parts) :
    RanksNoNul (fixedBase env cfg parts) := by
  unfold fixedBase
  refine wrapAll_noNul hp ?_
  intro r hr
  rcases List.mem_cons.mp (mem_dedupAdjacent hr) with h | h
  · subst h; exact hp.2.1
  · exact fixedHits_noNul he cfg _ r h

theorem fixedEmoji_noNul {env : Env} (he : NoNulEnv env) (cfg : Cfg) {parts : Parts} (hp : PartsNoNul parts)
    (typed : Str) : RanksNoNul (fixedEmoji env cfg parts typed) := by
  unfold fixedEmoji
  split
  · exact ranksNoNul_nil
  · split
    · rename_i e hem
      intro r hr; simp at hr; subst hr; exact he.emo _ _ hem
    · split
      · rename_i es hes
        intro r hr
        obtain ⟨q, hq, rfl⟩ := List.mem_map.mp hr
        exact wrapText_noNul hp.1 hp.2.2 (he.emoBn _ _ hes _ (List.mem_zipIdx hq |>.2.2 ▸ List.getElem_mem _))
      · exact ranksNoNul_nil

/-- the candidates handed to `sort_unstable` and the optional English item are NUL-free -/
theorem fixedCands_noNul {env : Env} (he : NoNulEnv env) (cfg : Cfg) {s : FState} (hs : NoNulF s) :
    RanksNoNul (fixedCands env cfg s).cands ∧ ∀ r, (fixedCands env cfg s).english = some r → NoNul r.text := by
  have hp := fixedParts_noNul cfg hs.buffer
  have hc := (fixedBase_noNul he cfg hp).append (fixedEmoji_noNul he cfg hp s.typed)
  unfold fixedCands
  simp only
  split
  · exact ⟨hc, fun r hr => by cases hr; exact hs.typed⟩
  · exact ⟨hc, fun r hr => by cases hr⟩

/-- `create_dictionary_suggestion`, for ANY ordering function that permutes its input -/
theorem fDictSuggestion_noNul {w : World} (he : NoNulEnv w.env) (hsort : ∀ l, (w.sorter l).Perm l) (cfg : Cfg)
    {s : FState} (hs : NoNulF s) :
    NoNulF (fDictSuggestion w cfg s).1 ∧ NoNulSugg (fDictSuggestion w cfg s).2 := by
  obtain ⟨hc, heng⟩ := fixedCands_noNul he cfg hs
  have hl : RanksNoNul ((w.sorter (fixedCands w.env cfg s).cands).take (fixedCands w.env cfg s).keep ++
      (fixedCands w.env cfg s).english.toList) := by
    refine RanksNoNul.append ?_ ?_
    · intro r hr
      exact hc r ((hsort _).mem_iff.mp (List.mem_of_mem_take hr))
    · intro r hr
      exact heng r (by simpa using hr)
  unfold fDictSuggestion
  refine ⟨⟨hs.rbuf, hs.rtyped, hs.pending, hl⟩, hs.buffer, ?_⟩
  intro t ht
  obtain ⟨r, hr, rfl⟩ := List.mem_map.mp ht
  exact hl r hr

theorem fLonely_noNul (cfg : Cfg) {s : FState} (hs : NoNulF s) : NoNulSugg (fLonely cfg s) := hs.buffer

theorem fCreateSuggestion_noNul {w : World} (he : NoNulEnv w.env) (hsort : ∀ l, (w.sorter l).Perm l) (cfg : Cfg)
    {s : FState} (hs : NoNulF s) :
    NoNulF (fCreateSuggestion w cfg s).1 ∧ NoNulSugg (fCreateSuggestion w cfg s).2 := by
  unfold fCreateSuggestion
  split
  · exact fDictSuggestion_noNul he hsort cfg hs
  · exact ⟨hs, fLonely_noNul cfg hs⟩

theorem fCurrentSuggestion_noNul (cfg : Cfg) {s : FState} (hs : NoNulF s) : NoNulSugg (fCurrentSuggestion cfg s) := by
  unfold fCurrentSuggestion
  split
  · split
    · refine ⟨hs.buffer, ?_⟩
      intro t ht
      obtain ⟨r, hr, rfl⟩ := List.mem_map.mp ht
      exact hs.suggestions r hr
    · exact fLonely_noNul cfg hs
  · exact noNulSugg_empty

/-- `FixedMethod::get_suggestion` (a key): invariant kept, every returned text NUL-free -/
theorem fKey_noNul {w : World} (he : NoNulEnv w.env) (hsort : ∀ l, (w.sorter l).Perm l) {layout : Layout}
    (hl : NoNulLayout layout) (cfg : Cfg) {s : FState} (hs : NoNulF s) (key modifier : Nat) :
    NoNulF (fKey w layout cfg s key modifier).1 ∧ NoNulSugg (fKey w layout cfg s key modifier).2 := by
  unfold fKey
  split
  · exact ⟨hs, fCurrentSuggestion_noNul cfg hs⟩
  · rename_i s' hk
    split
    · exact ⟨fKeyState_noNul hl cfg hs hk, noNulSugg_empty⟩
    · exact fCreateSuggestion_noNul he hsort cfg (fKeyState_noNul hl cfg hs hk)

/-- `FixedMethod::backspace_event` -/
theorem fBackspace_noNul {w : World} (he : NoNulEnv w.env) (hsort : ∀ l, (w.sorter l).Perm l) (cfg : Cfg)
    {s : FState} (hs : NoNulF s) (ctrl : Bool) :
    NoNulF (fBackspace w cfg s ctrl).1 ∧ NoNulSugg (fBackspace w cfg s ctrl).2 := by
  have hb := fBackspaceState_noNul hs ctrl
  unfold fBackspace
  simp only
  split
  · exact fCreateSuggestion_noNul he hsort cfg hb
  · exact ⟨hb, noNulSugg_empty⟩

/-! ### the `Method` dispatch -/

/-- the data of a world is NUL-free and its ordering function permutes -/
structure NoNulWorld (w : World) : Prop where
  env : NoNulEnv w.env
  layouts : ∀ p l, w.layouts p = some l → NoNulLayout l
  sorter : ∀ l, (w.sorter l).Perm l

/-- the invariant of a context: that of its method (and its layout, for the fixed method) -/
def NoNulCtx (c : Ctx) : Prop :=
  match c.m with
  | .phonetic s => NoNulP s
  | .fixed l s => NoNulLayout l ∧ NoNulF s

theorem mNew_noNul {w : World} (hw : NoNulWorld w) {fs : FS} (hfs : NoNulFS fs) {p : String} {m : MState}
    (h : mNew w fs p = some m) : NoNulCtx ⟨cfg, p, m⟩ := by
  unfold mNew at h
  split at h
  · cases h; exact pNew_noNul hfs
  · split at h
    · rename_i l hl; cases h; exact ⟨hw.layouts _ _ hl, noNulF_init⟩
    · cases h

/-- a new context satisfies the invariant -/
theorem ctxNew_noNul {w : World} (hw : NoNulWorld w) {fs : FS} (hfs : NoNulFS fs) {cfg : Cfg} {p : String}
    {c : Ctx} (h : Ctx.new w fs cfg p = some c) : NoNulCtx c := by
  unfold Ctx.new at h
  cases hm : mNew w fs p with
  | none => simp [hm] at h
  | some m => simp [hm] at h; subst h; exact mNew_noNul hw hfs hm

/-- **one API call keeps everything NUL-free**: the context invariant survives and every text of a
    returned `Suggestion` is NUL-free — both methods, every event -/
theorem step_noNul {w : World} (hw : NoNulWorld w) {c c' : Ctx} {fs fs' : FS} {ev : Event} {o : Out}
    (hc : NoNulCtx c) (hfs : NoNulFS fs) (hev : ∀ fs2, ev = .setFs fs2 → NoNulFS fs2)
    (h : step w c fs ev = .ok (c', fs', o)) :
    NoNulCtx c' ∧ NoNulFS fs' ∧ ∀ sg, o = .sugg sg → NoNulSugg sg := by
  unfold NoNulCtx at hc
  cases ev with
  | key code modifier selection =>
    simp only [step] at h
    split at h
    · rename_i s hm
      rw [hm] at hc
      cases h
      have := pKey_noNul hw.env c.cfg hc code selection
      exact ⟨this.1, hfs, fun sg hsg => by cases hsg; exact this.2⟩
    · rename_i l s hm
      rw [hm] at hc
      cases h
      have := fKey_noNul hw.env hw.sorter hc.1 c.cfg hc.2 code modifier
      exact ⟨⟨hc.1, this.1⟩, hfs, fun sg hsg => by cases hsg; exact this.2⟩
  | backspace ctrl =>
    simp only [step] at h
    split at h
    · rename_i s hm
      rw [hm] at hc
      cases h
      have := pBackspace_noNul hw.env c.cfg hc ctrl
      exact ⟨this.1, hfs, fun sg hsg => by cases hsg; exact this.2⟩
    · rename_i l s hm
      rw [hm] at hc
      cases h
      have := fBackspace_noNul hw.env hw.sorter c.cfg hc.2 ctrl
      exact ⟨⟨hc.1, this.1⟩, hfs, fun sg hsg => by cases hsg; exact this.2⟩
  | commit i =>
    simp only [step] at h
    split at h
    · rename_i s hm
      rw [hm] at hc
      split at h
      · cases h
      · rename_i s' wr hcm
        cases h
        refine ⟨pCommit_noNul c.cfg hc i hcm, ?_, fun sg hsg => by cases hsg⟩
        split
        · split
          · exact hfs
          · exact hfs
        · exact hfs
    · rename_i l s hm
      rw [hm] at hc
      cases h
      exact ⟨⟨hc.1, fClear_noNul hc.2⟩, hfs, fun sg hsg => by cases hsg⟩
  | finish =>
    simp only [step] at h
    split at h
    · rename_i s hm
      rw [hm] at hc
      cases h
      exact ⟨pFinish_noNul hc, hfs, fun sg hsg => by cases hsg⟩
    · rename_i l s hm
      rw [hm] at hc
      cases h
      exact ⟨⟨hc.1, fClear_noNul hc.2⟩, hfs, fun sg hsg => by cases hsg⟩
  | update cfg p =>
    simp only [step] at h
    split at h
    · split at h
      · rename_i m hm
        cases h
        exact ⟨mNew_noNul hw hfs hm, hfs, fun sg hsg => by cases hsg⟩
      · cases h
    · split at h
      · rename_i s hm
        rw [hm] at hc
        cases h
        exact ⟨pUpdate_noNul hfs hc, hfs, fun sg hsg => by cases hsg⟩
      · rename_i l s hm
        rw [hm] at hc
        cases h
        exact ⟨hc, hfs, fun sg hsg => by cases hsg⟩
  | setFs fs2 =>
    simp only [step] at h
    cases h
    exact ⟨hc, hev _ rfl, fun sg hsg => by cases hsg⟩

end Riti
