/-
Lemmas/Phonetic — structural facts about the phonetic candidate pipeline.
-/
import RitiModel.Model.Phonetic
import RitiModel.Lemmas.Rank
namespace Riti

theorem pushChecked_prefix (v : List Rank) (r : Rank) : v <+: pushChecked v r := by
  unfold pushChecked; split
  · exact List.prefix_refl _
  · exact List.prefix_append _ _

theorem emojiStage_prefix (env : Env) (cfg : Cfg) (term : Str) (parts : Parts) (l : List Rank) :
    l <+: (emojiStage env cfg term parts l).1 := by
  unfold emojiStage
  split
  · exact List.prefix_refl _
  · split
    · split
      · exact (pushChecked_prefix _ _).trans (List.prefix_append _ _)
      · exact List.prefix_append _ _
    · split
      · exact List.prefix_append _ _
      · exact List.prefix_refl _

/-- the emoji / English stage only appends -/
theorem addExtras_prefix (env : Env) (cfg : Cfg) (term : Str) (parts : Parts) (l : List Rank) :
    l <+: addExtras env cfg term parts l := by
  unfold addExtras
  simp only
  split
  · exact (emojiStage_prefix env cfg term parts l).trans (pushChecked_prefix _ _)
  · exact emojiStage_prefix env cfg term parts l

theorem mem_addExtras_of_mem {env : Env} {cfg : Cfg} {term : Str} {parts : Parts} {l : List Rank} {x : Rank}
    (h : x ∈ l) : x ∈ addExtras env cfg term parts l :=
  (addExtras_prefix env cfg term parts l).subset h

theorem length_le_addExtras (env : Env) (cfg : Cfg) (term : Str) (parts : Parts) (l : List Rank) :
    l.length ≤ (addExtras env cfg term parts l).length :=
  (addExtras_prefix env cfg term parts l).length_le

theorem pushChecked_ne_nil (v : List Rank) (r : Rank) : pushChecked v r ≠ [] := by
  unfold pushChecked; split
  · rename_i h; intro hv; simp [hv] at h
  · simp

theorem dictList_ne_nil (env : Env) (cache : Memo) (parts : Parts) : dictList env cache parts ≠ [] := by
  simp only [dictList, wrapAll]
  split
  · simpa using pushChecked_ne_nil _ _
  · exact pushChecked_ne_nil _ _

/-- the phonetic list is never empty: the transliteration is always pushed -/
theorem suggestList_ne_nil (env : Env) (cfg : Cfg) (cache : Memo) (term : Str) :
    suggestList env cfg cache term ≠ [] := by
  intro h
  have hl := length_sortStable
    (addExtras env cfg term (preparedParts env cfg term) (dictList env cache (preparedParts env cfg term)))
  have h1 := length_le_addExtras env cfg term (preparedParts env cfg term) (dictList env cache (preparedParts env cfg term))
  have h2 : (dictList env cache (preparedParts env cfg term)).length > 0 :=
    List.length_pos_iff.mpr (dictList_ne_nil _ _ _)
  simp only [suggestList] at h
  rw [h] at hl
  simp at hl
  omega

/-- `create_suggestion` never touches the buffer -/
theorem pCreateSuggestion_buffer (env : Env) (cfg : Cfg) (s : PState) :
    (pCreateSuggestion env cfg s).1.buffer = s.buffer := by
  simp only [pCreateSuggestion]; split <;> simp [suggest]

end Riti
