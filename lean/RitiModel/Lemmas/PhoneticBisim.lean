/-
Lemmas/PhoneticBisim — what two phonetic contexts must share to be indistinguishable from now on.
`PInv` packs the three invariants of reachable phonetic states (memo, selection store relative to
the effective store `S₀`, and — new here — the list/index that `commit` reads); it is preserved by
every call and, unlike `C05.Reach`, can be re-indexed to the in-memory store whenever the context
is idle.  Used by Props/C06Phonetic.  (Imports Props/C05 for `Reach`, `suggestionPure`,
`key_is_pure`, `backspace_is_pure`.)
-/
import RitiModel.Lemmas.Transparency
import RitiModel.Props.C05
namespace Riti
open Riti.C05

/-! ### what each call does to buffer, user list and store -/

/-- `create_suggestion` maps equal (composition, store) to equal stores -/
theorem pCreate_selections_congr (env : Env) (cfg : Cfg) (s₁ s₂ : PState)
    (hb : s₁.buffer = s₂.buffer) (hs : s₁.selections = s₂.selections) :
    (pCreateSuggestion env cfg s₁).1.selections = (pCreateSuggestion env cfg s₂).1.selections := by
  cases hon : cfg.phoneticSuggestion with
  | true => rw [pCreate_selections_on env cfg s₁ hon, pCreate_selections_on env cfg s₂ hon, hb, hs]
  | false => rw [pCreate_off env cfg s₁ hon, pCreate_off env cfg s₂ hon]; exact hs

/-- the composition after a key press: the typed character is appended (an unknown key appends nothing) -/
theorem pKey_buffer (env : Env) (cfg : Cfg) (s : PState) (key sel : Nat) :
    (pKey env cfg s key sel).1.buffer =
      match keycodeToChar key with
      | none => s.buffer
      | some ch => s.buffer ++ [ch] := by
  rw [pKey_fst]
  cases keycodeToChar key with
  | none =>
    simp only
    split
    · rfl
    · exact pCreateSuggestion_buffer env cfg s
  | some ch => simp only; rw [pCreateSuggestion_buffer]

/-- a key press never touches the user auto-correct list -/
theorem pKey_ua (env : Env) (cfg : Cfg) (s : PState) (key sel : Nat) :
    (pKey env cfg s key sel).1.userAutocorrect = s.userAutocorrect := by
  rw [pKey_fst]
  cases keycodeToChar key with
  | none =>
    simp only
    split
    · rfl
    · exact pCreate_ua env cfg s
  | some ch => simp only; rw [pCreate_ua]

/-- a key press maps equal (composition, store) to equal stores -/
theorem pKey_selections_congr (env : Env) (cfg : Cfg) (s₁ s₂ : PState) (key sel : Nat)
    (hb : s₁.buffer = s₂.buffer) (hs : s₁.selections = s₂.selections) :
    (pKey env cfg s₁ key sel).1.selections = (pKey env cfg s₂ key sel).1.selections := by
  rw [pKey_fst, pKey_fst, hb]
  cases keycodeToChar key with
  | none =>
    simp only
    split
    · exact hs
    · exact pCreate_selections_congr env cfg s₁ s₂ hb hs
  | some ch =>
    simp only
    exact pCreate_selections_congr env cfg _ _ (by simp only) hs

/-- the composition after a backspace: emptied by ctrl, else one character shorter -/
theorem pBackspace_buffer (env : Env) (cfg : Cfg) (s : PState) (ctrl : Bool) :
    (pBackspace env cfg s ctrl).1.buffer = if ctrl then [] else s.buffer.dropLast := by
  unfold pBackspace
  split
  · cases ctrl with
    | true => rfl
    | false =>
      simp only [Bool.false_eq_true, if_false]
      split
      · rfl
      · exact pCreateSuggestion_buffer env cfg _
  · rename_i h
    have : s.buffer = [] := by simpa using h
    cases ctrl <;> simp [this]

/-- a backspace never touches the user auto-correct list -/
theorem pBackspace_ua (env : Env) (cfg : Cfg) (s : PState) (ctrl : Bool) :
    (pBackspace env cfg s ctrl).1.userAutocorrect = s.userAutocorrect := by
  unfold pBackspace
  split
  · split
    · rfl
    · simp only
      split
      · rfl
      · rw [pCreate_ua]
  · rfl

/-- a backspace maps equal (composition, store) to equal stores -/
theorem pBackspace_selections_congr (env : Env) (cfg : Cfg) (s₁ s₂ : PState) (ctrl : Bool)
    (hb : s₁.buffer = s₂.buffer) (hs : s₁.selections = s₂.selections) :
    (pBackspace env cfg s₁ ctrl).1.selections = (pBackspace env cfg s₂ ctrl).1.selections := by
  unfold pBackspace
  rw [hb]
  split
  · split
    · exact hs
    · simp only
      split
      · exact hs
      · exact pCreate_selections_congr env cfg _ _ (by simp only) hs
  · exact hs

/-! ### the list and index that `commit` reads -/

/-- the preselected index of the memo-free specification `suggestionPure` -/
def pureIndex (env : Env) (cfg : Cfg) (ua S₀ : Store) (b : Str) : Nat :=
  let parts := preparedParts env cfg b
  let l := suggestListPure env ua cfg b
  (l.findIdx? (fun r => r.text == wrapText parts.pre parts.trail ((effSel env S₀ parts.word).getD []))).getD 0

/-- while a word is being composed with suggestions on, the list and the preselected index kept in
    the state (what `commit` reads) are the memo-free ones of the composition -/
def ListInv (env : Env) (cfg : Cfg) (S₀ : Store) (s : PState) : Prop :=
  cfg.phoneticSuggestion = true → s.buffer ≠ [] →
    s.suggestions = suggestListPure env s.userAutocorrect cfg s.buffer ∧
    s.prevSelection = pureIndex env cfg s.userAutocorrect S₀ s.buffer

/-- an idle context satisfies `ListInv` for any store: the stale list is never read in contract -/
theorem listInv_idle (env : Env) (cfg : Cfg) (S₀ : Store) (s : PState) (hb : s.buffer = []) :
    ListInv env cfg S₀ s := fun _ hne => absurd hb hne

/-- with suggestions off `ListInv` says nothing: `commit` does not read the list -/
theorem listInv_off (env : Env) (cfg : Cfg) (S₀ : Store) (s : PState) (hoff : cfg.phoneticSuggestion = false) :
    ListInv env cfg S₀ s := fun hon => by rw [hoff] at hon; cases hon

/-- the list and index stored by `create_suggestion` are the memo-free ones -/
theorem pCreate_list_index (env : Env) (cfg : Cfg) (S₀ : Store) (s : PState) (hon : cfg.phoneticSuggestion = true)
    (h : PreInv env s) (hs : PreSelInv env S₀ s) :
    (pCreateSuggestion env cfg s).1.suggestions = suggestListPure env s.userAutocorrect cfg s.buffer ∧
    (pCreateSuggestion env cfg s).1.prevSelection = pureIndex env cfg s.userAutocorrect S₀ s.buffer := by
  rw [pCreate_on env cfg s hon]
  refine ⟨?_, ?_⟩
  · rw [← create_list_pure env cfg s h]
    simp [suggest]
  · show (suggest env cfg s s.buffer).2.2 = _
    rw [suggest_index, create_list_pure env cfg s h, (selectedFor_spec env S₀ _ _ hs.1 hs.2).1]
    simp only [pureIndex, preparedParts_word]

/-- `create_suggestion` (suggestions on) establishes `ListInv` -/
theorem pCreate_listInv (env : Env) (cfg : Cfg) (S₀ : Store) (s : PState) (hon : cfg.phoneticSuggestion = true)
    (h : PreInv env s) (hs : PreSelInv env S₀ s) : ListInv env cfg S₀ (pCreateSuggestion env cfg s).1 := by
  intro _ _
  rw [pCreateSuggestion_buffer, pCreate_ua]
  exact pCreate_list_index env cfg S₀ s hon h hs

/-! ### the packed invariant -/

/-- everything the transparency theorems need of a phonetic state, relative to the configuration in
    force and the effective store `S₀` (the store as loaded / as of the last learning commit) -/
structure PInv (env : Env) (cfg : Cfg) (S₀ : Store) (s : PState) : Prop where
  memo : Inv env cfg.phoneticSuggestion s
  store : SelInv env S₀ cfg.phoneticSuggestion s
  list : ListInv env cfg S₀ s

/-- a brand-new context satisfies the invariant relative to the selections file it loaded -/
theorem PInv.new (env : Env) (cfg : Cfg) (fs : FS) : PInv env cfg fs.sel.content (pNew fs) :=
  ⟨inv_pNew env _ fs, selInv_pNew env _ fs, listInv_idle env cfg _ _ rfl⟩

/-- an idle context satisfies the invariant relative to its own in-memory store (re-indexing) -/
theorem PInv.reindex_idle {env : Env} {cfg : Cfg} {S₀ : Store} {s : PState} (h : PInv env cfg S₀ s)
    (hb : s.buffer = []) : PInv env cfg s.selections s :=
  ⟨h.memo, selInv_idle_self env _ s hb, listInv_idle env cfg _ s hb⟩

/-- a key press preserves the invariant -/
theorem PInv.key {env : Env} {cfg : Cfg} {S₀ : Store} {s : PState} (h : PInv env cfg S₀ s) (key sel : Nat) :
    PInv env cfg S₀ (pKey env cfg s key sel).1 := by
  have hm := h.memo
  have hs := h.store
  cases hon : cfg.phoneticSuggestion with
  | true =>
    rw [hon] at hm hs
    refine ⟨by rw [hon]; exact pKey_inv_on env cfg s key sel hon hm,
      by rw [hon]; exact pKey_selInv_on env cfg S₀ s key sel hon hs, ?_⟩
    rw [pKey_fst]
    cases keycodeToChar key with
    | none =>
      simp only
      split
      · exact h.list
      · exact pCreate_listInv env cfg S₀ s hon hm.pre hs.pre
    | some ch =>
      simp only
      apply pCreate_listInv env cfg S₀ _ hon
      · exact ⟨hm.1, by simpa only [List.dropLast_concat] using hm.2 rfl⟩
      · exact ⟨hs.1, by simpa only [List.dropLast_concat] using hs.2 rfl⟩
  | false =>
    rw [hon] at hm hs
    exact ⟨by rw [hon]; exact pKey_inv_off env cfg s key sel hon hm,
      by rw [hon]; exact pKey_selInv_off env cfg S₀ s key sel hon hs, listInv_off env cfg S₀ _ hon⟩

/-- a backspace preserves the invariant -/
theorem PInv.backspace {env : Env} {cfg : Cfg} {S₀ : Store} {s : PState} (h : PInv env cfg S₀ s) (ctrl : Bool) :
    PInv env cfg S₀ (pBackspace env cfg s ctrl).1 := by
  have hm := h.memo
  have hs := h.store
  cases hon : cfg.phoneticSuggestion with
  | true =>
    rw [hon] at hm hs
    refine ⟨by rw [hon]; exact pBackspace_inv_on env cfg s ctrl hon hm,
      by rw [hon]; exact pBackspace_selInv_on env cfg S₀ s ctrl hon hs, ?_⟩
    unfold pBackspace
    split
    · split
      · exact listInv_idle env cfg S₀ _ rfl
      · simp only
        split
        · rename_i he
          exact listInv_idle env cfg S₀ _ (by simpa using he)
        · apply pCreate_listInv env cfg S₀ _ hon
          · exact ⟨hm.1, ((hm.2 rfl).mono (List.dropLast_prefix _)).mono (List.dropLast_prefix _)⟩
          · exact ⟨hs.1, ((hs.2 rfl).mono (List.dropLast_prefix _)).mono (List.dropLast_prefix _)⟩
    · exact h.list
  | false =>
    rw [hon] at hm hs
    exact ⟨by rw [hon]; exact pBackspace_inv_off env cfg s ctrl hon hm,
      by rw [hon]; exact pBackspace_selInv_off env cfg S₀ s ctrl hon hs, listInv_off env cfg S₀ _ hon⟩

/-- ending the word preserves the invariant -/
theorem PInv.finish {env : Env} {cfg : Cfg} {S₀ : Store} {s : PState} (h : PInv env cfg S₀ s) :
    PInv env cfg S₀ (pFinish s) :=
  ⟨(pFinish_inv env _ _ s h.memo).1, pFinish_selInv env S₀ _ _ s h.store, listInv_idle env cfg S₀ _ rfl⟩

/-- a commit that learns nothing preserves the invariant relative to the same `S₀` -/
theorem PInv.commitKeep {env : Env} {cfg : Cfg} {S₀ : Store} {s s' : PState} {i : Nat} (h : PInv env cfg S₀ s)
    (hc : pCommit cfg s i = .ok (s', none)) : PInv env cfg S₀ s' :=
  have hi := pCommit_inv env cfg _ cfg.phoneticSuggestion s s' i none h.memo hc
  ⟨hi.1, pCommit_selInv_keep env cfg S₀ _ _ s s' i h.store hc, listInv_idle env cfg S₀ _ hi.2⟩

/-- after any commit the invariant holds relative to the store the commit leaves in memory -/
theorem PInv.commit {env : Env} {cfg : Cfg} {S₀ : Store} {s s' : PState} {i : Nat} {wr : Option Store}
    (h : PInv env cfg S₀ s) (hc : pCommit cfg s i = .ok (s', wr)) : PInv env cfg s'.selections s' :=
  have hi := pCommit_inv env cfg _ cfg.phoneticSuggestion s s' i wr h.memo hc
  ⟨hi.1, pCommit_selInv env cfg _ s s' i wr hc, listInv_idle env cfg _ _ hi.2⟩

/-- `update_engine` while idle preserves the invariant (for the new options) -/
theorem PInv.update {env : Env} {cfg : Cfg} {S₀ : Store} {s : PState} (h : PInv env cfg S₀ s) (cfg' : Cfg) (fs : FS)
    (hb : s.buffer = []) : PInv env cfg' S₀ (pUpdate fs s) :=
  ⟨(pUpdate_inv env _ _ fs s h.memo hb).1, pUpdate_selInv env S₀ _ _ fs s h.store hb,
    listInv_idle env cfg' S₀ _ (by rw [pUpdate_buffer, hb])⟩

/-- every state reachable through the API satisfies the packed invariant -/
theorem PInv.of_reach {env : Env} {cfg : Cfg} {S₀ : Store} {s : PState} (r : Reach env cfg S₀ s) :
    PInv env cfg S₀ s := by
  induction r with
  | new cfg fs => exact PInv.new env cfg fs
  | key key sel _ ih => exact ih.key key sel
  | backspace ctrl _ ih => exact ih.backspace ctrl
  | commitKeep i _ hc ih => exact ih.commitKeep hc
  | commitLearn i st _ hc ih => exact ih.commit hc
  | finish _ ih => exact ih.finish
  | update cfg' fs _ hb ih => exact ih.update cfg' fs hb

/-! ### equal answers -/

/-- two contexts satisfying the invariant for the same options and effective store, holding the
    same composition under the same user list, answer a key press with EQUAL suggestions -/
theorem pKey_out_congr (env : Env) (cfg : Cfg) (S₀ : Store) (s₁ s₂ : PState)
    (h₁ : PInv env cfg S₀ s₁) (h₂ : PInv env cfg S₀ s₂)
    (hb : s₁.buffer = s₂.buffer) (hu : s₁.userAutocorrect = s₂.userAutocorrect) (key sel : Nat) :
    (pKey env cfg s₁ key sel).2 = (pKey env cfg s₂ key sel).2 := by
  have m₁ := h₁.memo; have m₂ := h₂.memo; have t₁ := h₁.store; have t₂ := h₂.store
  cases hon : cfg.phoneticSuggestion with
  | true =>
    rw [hon] at m₁ m₂ t₁ t₂
    rw [key_is_pure env cfg S₀ s₁ key sel hon m₁ t₁, key_is_pure env cfg S₀ s₂ key sel hon m₂ t₂, hb, hu]
  | false =>
    unfold pKey
    rw [hb]
    cases keycodeToChar key with
    | none =>
      simp only
      split
      · rfl
      · exact c05_off_history_independent env cfg s₁ s₂ hon hb
    | some ch => simp only [pCreate_off env cfg _ hon]

/-- … and a backspace -/
theorem pBackspace_out_congr (env : Env) (cfg : Cfg) (S₀ : Store) (s₁ s₂ : PState)
    (h₁ : PInv env cfg S₀ s₁) (h₂ : PInv env cfg S₀ s₂)
    (hb : s₁.buffer = s₂.buffer) (hu : s₁.userAutocorrect = s₂.userAutocorrect) (ctrl : Bool) :
    (pBackspace env cfg s₁ ctrl).2 = (pBackspace env cfg s₂ ctrl).2 := by
  have m₁ := h₁.memo; have m₂ := h₂.memo; have t₁ := h₁.store; have t₂ := h₂.store
  cases hon : cfg.phoneticSuggestion with
  | true =>
    rw [hon] at m₁ m₂ t₁ t₂
    rw [backspace_is_pure env cfg S₀ s₁ ctrl hon m₁ t₁, backspace_is_pure env cfg S₀ s₂ ctrl hon m₂ t₂, hb, hu]
  | false =>
    unfold pBackspace
    rw [hb]
    split
    · split
      · rfl
      · simp only [pCreate_off env cfg _ hon]
        split <;> rfl
    · rfl

/-! ### `commit` through the binding it learns -/

/-- what a commit learns: `.ok none` = nothing (the preselected candidate, or suggestions off),
    `.ok (some (typed word, chosen word))`, or the panic of an index outside the list -/
def pLearned (cfg : Cfg) (s : PState) (i : Nat) : Res (Option (Str × Str)) :=
  if s.prevSelection != i && cfg.phoneticSuggestion then
    match s.suggestions[i]? with
    | none => .error .indexOutOfRange
    | some r => .ok (some ((split s.buffer false).word, (split r.text true).word))
  else .ok none

/-- `candidate_committed` in terms of the binding learned: the composition is cleared, the binding
    is inserted into the in-memory store and the whole store is handed to `fs::write` -/
theorem pCommit_eq (cfg : Cfg) (s : PState) (i : Nat) :
    pCommit cfg s i =
      match pLearned cfg s i with
      | .error e => .error e
      | .ok none => .ok ({ s with buffer := [] }, none)
      | .ok (some kv) =>
        .ok ({ s with selections := ainsert s.selections kv.1 kv.2, buffer := [] }, some (ainsert s.selections kv.1 kv.2)) := by
  unfold pCommit pLearned
  split
  · cases s.suggestions[i]? <;> rfl
  · rfl

/-- the binding learned only depends on composition, list and preselected index -/
theorem pLearned_congr (cfg : Cfg) (s₁ s₂ : PState) (i : Nat) (hb : s₁.buffer = s₂.buffer)
    (hl : s₁.suggestions = s₂.suggestions) (hp : s₁.prevSelection = s₂.prevSelection) :
    pLearned cfg s₁ i = pLearned cfg s₂ i := by
  unfold pLearned; rw [hb, hl, hp]

/-- with suggestions off a commit learns nothing and cannot panic -/
theorem pLearned_off (cfg : Cfg) (s : PState) (i : Nat) (hoff : cfg.phoneticSuggestion = false) :
    pLearned cfg s i = .ok none := by
  simp [pLearned, hoff]

end Riti
