/-
Lemmas/Quotes — smart quotes (C17): un-curling, the sort commutes with text relabelling, and the
decomposition of the candidate lists into *core* items (wrapped in the punctuation) and *raw*
items (typed text / emoticon emoji, never wrapped).
-/
import RitiModel.Model.Fixed
import RitiModel.Model.Okkhor
import RitiModel.Lemmas.Rank
import RitiModel.Lemmas.Phonetic
namespace Riti
open Gen

/-! ### curly ↔ straight quotes -/

/-- map a curly quote back to the straight one -/
def uncurlChar (c : Char) : Char :=
  if c = '‘' ∨ c = '’' then '\'' else if c = '“' ∨ c = '”' then '"' else c

/-- map every curly quote of a text back to the straight one -/
def uncurl (s : Str) : Str := s.map uncurlChar

/-- the text contains none of the four curly quotes -/
def NoCurly (s : Str) : Prop := ∀ c ∈ s, c ∉ ['‘', '’', '“', '”']

instance (s : Str) : Decidable (NoCurly s) := by unfold NoCurly; infer_instance

/-- un-curling undoes `openQuote` on a character that is not itself curly -/
theorem uncurlChar_openQuote (c : Char) (h : c ∉ ['‘', '’', '“', '”']) : uncurlChar (openQuote c) = c := by
  simp only [List.mem_cons, List.not_mem_nil, or_false, not_or] at h
  obtain ⟨h1, h2, h3, h4⟩ := h
  unfold openQuote
  by_cases a : c = '\''
  · subst a; decide
  · by_cases b : c = '"'
    · subst b; decide
    · simp [a, b, uncurlChar, h1, h2, h3, h4]

/-- un-curling undoes `closeQuote` on a character that is not itself curly -/
theorem uncurlChar_closeQuote (c : Char) (h : c ∉ ['‘', '’', '“', '”']) : uncurlChar (closeQuote c) = c := by
  simp only [List.mem_cons, List.not_mem_nil, or_false, not_or] at h
  obtain ⟨h1, h2, h3, h4⟩ := h
  unfold closeQuote
  by_cases a : c = '\''
  · subst a; decide
  · by_cases b : c = '"'
    · subst b; decide
    · simp [a, b, uncurlChar, h1, h2, h3, h4]

/-- un-curling leaves every non-curly character alone -/
theorem uncurlChar_of_not_curly (c : Char) (h : c ∉ ['‘', '’', '“', '”']) : uncurlChar c = c := by
  simp only [List.mem_cons, List.not_mem_nil, or_false, not_or] at h
  obtain ⟨h1, h2, h3, h4⟩ := h
  simp [uncurlChar, h1, h2, h3, h4]

/-- un-curling leaves a text without curly quotes alone -/
theorem uncurl_of_noCurly {s : Str} (h : NoCurly s) : uncurl s = s := by
  unfold uncurl
  induction s with
  | nil => rfl
  | cons c cs ih =>
    simp only [List.map_cons]
    rw [uncurlChar_of_not_curly c (h c (by simp)), ih (fun d hd => h d (by simp [hd]))]

/-- un-curling undoes the opening-quote substitution on a text without curly quotes -/
theorem uncurl_map_openQuote {s : Str} (h : NoCurly s) : uncurl (s.map openQuote) = s := by
  unfold uncurl
  induction s with
  | nil => rfl
  | cons c cs ih =>
    simp only [List.map_cons]
    rw [uncurlChar_openQuote c (h c (by simp)), ih (fun d hd => h d (by simp [hd]))]

/-- un-curling undoes the closing-quote substitution on a text without curly quotes -/
theorem uncurl_map_closeQuote {s : Str} (h : NoCurly s) : uncurl (s.map closeQuote) = s := by
  unfold uncurl
  induction s with
  | nil => rfl
  | cons c cs ih =>
    simp only [List.map_cons]
    rw [uncurlChar_closeQuote c (h c (by simp)), ih (fun d hd => h d (by simp [hd]))]

/-- un-curling works character by character -/
@[simp] theorem uncurl_append (a b : Str) : uncurl (a ++ b) = uncurl a ++ uncurl b := by
  simp [uncurl]

/-- un-curling is idempotent -/
theorem uncurlChar_idem (c : Char) : uncurlChar (uncurlChar c) = uncurlChar c := by
  unfold uncurlChar
  split
  · decide
  · split
    · decide
    · rfl

/-! ### the comparator only sees (variant, number) -/

/-- `impl Ord for Rank` looks at variant and number only, never at the text -/
theorem Rank.cmp_congr {a a' b b' : Rank} (hav : a.variant = a'.variant) (han : a.num = a'.num)
    (hbv : b.variant = b'.variant) (hbn : b.num = b'.num) : a.cmp b = a'.cmp b' := by
  simp only [Rank.cmp, hav, han, hbv, hbn]

section SortOn
variable {α : Type}

/-- `sortStable.insertSortedFront` on an arbitrary carrier, comparing through `f` -/
def insertOn (f : α → Rank) (x : α) : List α → List α
  | [] => [x]
  | y :: ys => if (f y).cmp (f x) == .lt then y :: insertOn f x ys else x :: y :: ys

/-- `sortStable` on an arbitrary carrier, comparing through `f` -/
def sortOn (f : α → Rank) : List α → List α
  | [] => []
  | x :: xs => insertOn f x (sortOn f xs)

/-- `insertOn` is `insertSortedFront` seen through `f` -/
theorem map_insertOn (f : α → Rank) (x : α) (l : List α) :
    (insertOn f x l).map f = sortStable.insertSortedFront (f x) (l.map f) := by
  induction l with
  | nil => rfl
  | cons y ys ih =>
    simp only [insertOn, List.map_cons, sortStable.insertSortedFront]
    split
    · simp [ih]
    · simp

/-- sorting the images = image of sorting through `f` -/
theorem map_sortOn (f : α → Rank) (l : List α) : (sortOn f l).map f = sortStable (l.map f) := by
  induction l with
  | nil => rfl
  | cons x xs ih => simp only [sortOn, List.map_cons, sortStable, map_insertOn, ih]

/-- insertion only depends on the comparisons -/
theorem insertOn_congr {f g : α → Rank} (h : ∀ a b, (f a).cmp (f b) = (g a).cmp (g b)) (x : α) (l : List α) :
    insertOn f x l = insertOn g x l := by
  induction l with
  | nil => rfl
  | cons y ys ih => simp only [insertOn, h, ih]

/-- two renderings with the same comparisons are sorted by the same permutation -/
theorem sortOn_congr {f g : α → Rank} (h : ∀ a b, (f a).cmp (f b) = (g a).cmp (g b)) (l : List α) :
    sortOn f l = sortOn g l := by
  induction l with
  | nil => rfl
  | cons x xs ih => simp only [sortOn, ih, insertOn_congr h]

/-- insertion adds exactly the new element -/
theorem insertOn_perm (f : α → Rank) (x : α) (l : List α) : (insertOn f x l).Perm (x :: l) := by
  induction l with
  | nil => simp [insertOn]
  | cons y ys ih =>
    simp only [insertOn]
    split
    · exact (List.Perm.cons y ih).trans (List.Perm.swap x y ys)
    · exact List.Perm.refl _

/-- `sortOn` permutes its input -/
theorem sortOn_perm (f : α → Rank) (l : List α) : (sortOn f l).Perm l := by
  induction l with
  | nil => simp [sortOn]
  | cons x xs ih =>
    simp only [sortOn]
    exact (insertOn_perm f x _).trans (List.Perm.cons x ih)

/-- `sortOn` keeps the elements -/
theorem mem_sortOn {f : α → Rank} {l : List α} {x : α} : x ∈ sortOn f l ↔ x ∈ l := (sortOn_perm f l).mem_iff

end SortOn

/-- on ranks themselves `sortOn` is the model's stable sort -/
theorem sortOn_id (l : List Rank) : sortOn id l = sortStable l := by
  have := map_sortOn id l
  simpa using this

/-- the stable sort commutes with every relabelling that keeps variant and number: the order of
    the candidates never depends on their texts -/
theorem sortStable_map_of_cmp_preserving (f : Rank → Rank) (hv : ∀ r, (f r).variant = r.variant)
    (hn : ∀ r, (f r).num = r.num) (l : List Rank) : sortStable (l.map f) = (sortStable l).map f := by
  rw [← map_sortOn f l, ← sortOn_id l]
  congr 1
  exact sortOn_congr (fun a b => Rank.cmp_congr (hv a) (hn a) (hv b) (hn b)) l

/-! ### core and raw items -/

/-- a candidate before rendering: `core` items are wrapped in the leading / trailing punctuation,
    `raw` items (typed text, emoticon emoji) are shown as they are -/
inductive Item where
  | core (r : Rank)
  | raw (r : Rank)
  deriving DecidableEq, Repr

/-- wrap the text of an item in `p … t` -/
def wrapR (p t : Str) (r : Rank) : Rank := r.setText (p ++ r.text ++ t)

/-- the candidate as shown when the punctuation around the word is `p … t` -/
def Item.render (p t : Str) : Item → Rank
  | .core r => wrapR p t r
  | .raw r => r

/-- text of a wrapped item -/
@[simp] theorem wrapR_text (p t : Str) (r : Rank) : (wrapR p t r).text = p ++ r.text ++ t := by simp [wrapR]
/-- wrapping keeps the variant -/
@[simp] theorem wrapR_variant (p t : Str) (r : Rank) : (wrapR p t r).variant = r.variant := by simp [wrapR]
/-- wrapping keeps the rank number -/
@[simp] theorem wrapR_num (p t : Str) (r : Rank) : (wrapR p t r).num = r.num := by simp [wrapR]

/-- `change_item` with the item's own text is the identity -/
theorem Rank.setText_text (r : Rank) : r.setText r.text = r := by cases r <;> rfl

/-- wrapping in empty punctuation is the identity -/
theorem wrapR_nil (r : Rank) : wrapR [] [] r = r := by simp [wrapR, Rank.setText_text]

/-- the variant of a shown item does not depend on the punctuation -/
theorem Item.render_variant (p t p' t' : Str) (i : Item) : (i.render p t).variant = (i.render p' t').variant := by
  cases i <;> simp [Item.render]

/-- the rank number of a shown item does not depend on the punctuation -/
theorem Item.render_num (p t p' t' : Str) (i : Item) : (i.render p t).num = (i.render p' t').num := by
  cases i <;> simp [Item.render]

/-- sorting two renderings of the same items: one common permutation of the items -/
theorem sortStable_render (p t p' t' : Str) (l : List Item) :
    sortStable (l.map (Item.render p t)) = (sortOn (Item.render p t) l).map (Item.render p t) ∧
    sortStable (l.map (Item.render p' t')) = (sortOn (Item.render p t) l).map (Item.render p' t') := by
  refine ⟨(map_sortOn _ l).symm, ?_⟩
  rw [← map_sortOn]
  congr 1
  exact sortOn_congr (fun a b => Rank.cmp_congr (Item.render_variant _ _ _ _ a) (Item.render_num _ _ _ _ a)
    (Item.render_variant _ _ _ _ b) (Item.render_num _ _ _ _ b)) l

/-- wrapping in a fixed prefix and suffix is injective -/
theorem wrap_inj (a b x y : Str) : a ++ x ++ b = a ++ y ++ b ↔ x = y := by
  constructor
  · intro h
    rw [List.append_assoc, List.append_assoc] at h
    exact List.append_cancel_right (List.append_cancel_left h)
  · intro h; rw [h]

/-! ### the phonetic candidate list as core ++ raw -/

/-- the dictionary / suffix / auto-correct / transliteration items before wrapping -/
def baseItems (env : Env) (cache : Memo) (w : Str) : List Rank :=
  pushChecked ((addSuffix env cache w).foldl pushChecked []) (.last (env.convert w) 2)

/-- `wrapAll` wraps every item (the "both empty" shortcut changes nothing) -/
theorem wrapAll_eq (p w t : Str) (l : List Rank) : wrapAll ⟨p, w, t⟩ l = l.map (wrapR p t) := by
  simp only [wrapAll]
  split
  · rfl
  · rename_i h
    have hp : p = [] := by
      cases p with
      | nil => rfl
      | cons a b => simp at h
    have ht : t = [] := by
      cases t with
      | nil => rfl
      | cons a b => simp at h
    subst hp; subst ht
    have : wrapR [] [] = id := funext wrapR_nil
    rw [this, List.map_id]

/-- `suggestion_with_dict`: de-duplication happens on the unwrapped items, then every item is wrapped -/
theorem dictList_eq (env : Env) (cache : Memo) (p w t : Str) :
    dictList env cache ⟨p, w, t⟩ = (baseItems env cache w).map (wrapR p t) := by
  simp only [dictList, wrapAll_eq, baseItems]

/-- the emoji found by the name of the word, before wrapping -/
def nameItems (env : Env) (w : Str) : List Rank :=
  match env.emojiByName w with
  | some es => (es.zipIdx 1).map (fun (s, r) => Rank.emoji s r)
  | none => []

/-- all wrapped candidates of the phonetic method, before wrapping -/
def coreItems (env : Env) (cfg : Cfg) (cache : Memo) (term w : Str) : List Rank :=
  baseItems env cache w ++
    (if cfg.ansi then [] else match env.emoticon term with | some _ => [] | none => nameItems env w)

/-- the never-wrapped candidates: typed text (`Last term 1` with an emoticon, else `Last term 3`
    English) and the emoticon's emoji; `isPre` = "the typed text equals the leading punctuation",
    `collide` = "the typed text equals a wrapped candidate" — the two tests of the code -/
def rawItems (env : Env) (cfg : Cfg) (term : Str) (isPre collide : Bool) : List Rank :=
  if cfg.ansi then [] else
    match env.emoticon term with
    | some e => (if !isPre && !collide then [Rank.last term 1] else []) ++ [Rank.emoji e Gen.emojiDefaultRank]
    | none => if cfg.english && !isPre && !collide then [Rank.last term 3] else []

/-- pushing an item with text `term` onto wrapped items -/
theorem pushChecked_map_wrap (C : List Rank) (p t term : Str) (r : Rank) (hr : r.text = term) :
    pushChecked (C.map (wrapR p t)) r =
      C.map (wrapR p t) ++ (if C.any (fun x => p ++ x.text ++ t == term) then [] else [r]) := by
  have : (C.map (wrapR p t)).any (fun x => x.sameText r) = C.any (fun x => p ++ x.text ++ t == term) := by
    rw [List.any_map]
    congr 1
    funext x
    simp [Rank.sameText, hr]
  unfold pushChecked
  rw [this]
  split <;> simp

/-- the emoji-by-name items of the code are the wrapped `nameItems` -/
theorem map_wrapR_nameItems (env : Env) (w p t : Str) :
    (nameItems env w).map (wrapR p t) =
      match env.emojiByName w with
      | some es => (es.zipIdx 1).map (fun (s, r) => Rank.emoji (wrapText p t s) r)
      | none => [] := by
  unfold nameItems
  split
  · simp [wrapR, wrapText, Rank.setText, Rank.text, Function.comp_def]
  · rfl

/-- the unsorted phonetic list = wrapped core items ++ raw items -/
theorem addExtras_eq (env : Env) (cfg : Cfg) (cache : Memo) (term p w t : Str) :
    addExtras env cfg term ⟨p, w, t⟩ (dictList env cache ⟨p, w, t⟩) =
      (coreItems env cfg cache term w).map (wrapR p t) ++
        rawItems env cfg term (term == p)
          ((coreItems env cfg cache term w).any (fun r => p ++ r.text ++ t == term)) := by
  rw [dictList_eq]
  by_cases hansi : cfg.ansi = true
  · simp [addExtras, emojiStage, coreItems, rawItems, Cfg.english, hansi]
  · have hansi : cfg.ansi = false := by simpa using hansi
    simp only [addExtras, emojiStage, coreItems, rawItems, Cfg.english, hansi]
    cases hemo : env.emoticon term with
    | some e =>
      simp only [pushChecked_map_wrap _ p t term (Rank.last term 1) rfl]
      cases hp : (term == p) <;> simp [bne, hp]
      split <;> simp_all
    | none =>
      have hnm := map_wrapR_nameItems env w p t
      cases hname : env.emojiByName w with
      | none =>
        rw [hname] at hnm
        have hn : nameItems env w = [] := by simp [nameItems, hname]
        simp only [Bool.false_eq_true, ↓reduceIte, hn, List.append_nil,
          pushChecked_map_wrap _ p t term (Rank.last term 3) rfl]
        generalize List.any _ _ = A
        cases hp : (term == p) <;> cases he : cfg.includeEnglish <;> cases A <;> simp [bne, hp]
      | some es =>
        rw [hname] at hnm
        simp only [Bool.false_eq_true, ↓reduceIte, ← hnm, ← List.map_append,
          pushChecked_map_wrap _ p t term (Rank.last term 3) rfl]
        generalize List.any _ _ = A
        cases hp : (term == p) <;> cases he : cfg.includeEnglish <;> cases A <;> simp [bne, hp]

/-- the items (tagged) of the unsorted phonetic list for given outcomes of the two tests -/
def phoneticItems (env : Env) (cfg : Cfg) (cache : Memo) (term w : Str) (isPre collide : Bool) : List Item :=
  (coreItems env cfg cache term w).map Item.core ++ (rawItems env cfg term isPre collide).map Item.raw

/-- rendering the tagged items gives wrapped cores followed by the raw items -/
theorem render_phoneticItems (env : Env) (cfg : Cfg) (cache : Memo) (term w p t : Str) (a b : Bool) :
    (phoneticItems env cfg cache term w a b).map (Item.render p t) =
      (coreItems env cfg cache term w).map (wrapR p t) ++ rawItems env cfg term a b := by
  simp [phoneticItems, Item.render, Function.comp_def]

/-- a raw item is the typed text (`Last term 1` / `Last term 3`) or the emoticon's emoji -/
theorem mem_rawItems {env : Env} {cfg : Cfg} {term : Str} {a b : Bool} {r : Rank}
    (h : r ∈ rawItems env cfg term a b) :
    r = Rank.last term 1 ∨ r = Rank.last term 3 ∨ ∃ e, env.emoticon term = some e ∧ r = Rank.emoji e Gen.emojiDefaultRank := by
  unfold rawItems at h
  split at h
  · simp at h
  · split at h
    · rename_i e he
      simp only [List.mem_append, List.mem_singleton] at h
      rcases h with h | h
      · split at h
        · simp at h; exact Or.inl h
        · simp at h
      · exact Or.inr (Or.inr ⟨e, he, h⟩)
    · split at h
      · simp at h; exact Or.inr (Or.inl h)
      · simp at h

/-- the sorted phonetic list is one permutation of the tagged items, rendered -/
theorem suggestList_items (env : Env) (cfg : Cfg) (cache : Memo) (term p w t : Str)
    (hpp : preparedParts env cfg term = ⟨p, w, t⟩) :
    suggestList env cfg cache term =
      (sortOn (Item.render p t) (phoneticItems env cfg cache term w (term == p)
        ((coreItems env cfg cache term w).any (fun r => p ++ r.text ++ t == term)))).map (Item.render p t) := by
  simp only [suggestList, hpp]
  rw [addExtras_eq, ← render_phoneticItems, map_sortOn]

/-! ### the fixed-method candidate list as core ++ raw -/

/-- the tagged candidates of the fixed method (before the sort) for word `w` and raw keys `typed` -/
def fixedItems (env : Env) (cfg : Cfg) (w typed : Str) : List Item :=
  (dedupAdjacent (Rank.first w :: fixedHits env cfg w)).map Item.core ++
    (if cfg.ansi then []
     else match env.emoticon typed with
      | some e => [Item.raw (Rank.emoji e Gen.emojiDefaultRank)]
      | none =>
        match env.emojiBengali (w.filter (fun c => c != cZWNJ)) with
        | some es => (es.zipIdx 1).map (fun (x, r) => Item.core (Rank.emoji x r))
        | none => [])

/-- the fixed method's unsorted candidates = rendering of `fixedItems` -/
theorem fixed_cands_eq (env : Env) (cfg : Cfg) (p w t typed : Str) :
    fixedBase env cfg ⟨p, w, t⟩ ++ fixedEmoji env cfg ⟨p, w, t⟩ typed =
      (fixedItems env cfg w typed).map (Item.render p t) := by
  simp only [fixedBase, fixedEmoji, fixedItems, wrapAll_eq, List.map_append, List.map_map]
  congr 1
  by_cases hansi : cfg.ansi = true
  · simp [hansi]
  · simp only [hansi]
    cases env.emoticon typed with
    | some e => rfl
    | none =>
      cases env.emojiBengali (w.filter (fun c => c != cZWNJ)) with
      | none => rfl
      | some es => simp [Item.render, wrapR, wrapText, Rank.setText, Rank.text, Function.comp_def]

/-- the only raw item of the fixed method is the emoticon's emoji -/
theorem mem_fixedItems_raw {env : Env} {cfg : Cfg} {w typed : Str} {r : Rank}
    (h : Item.raw r ∈ fixedItems env cfg w typed) :
    ∃ e, env.emoticon typed = some e ∧ r = Rank.emoji e Gen.emojiDefaultRank := by
  simp only [fixedItems, List.mem_append, List.mem_map] at h
  rcases h with ⟨x, _, hx⟩ | h
  · cases hx
  · split at h
    · simp at h
    · split at h
      · rename_i e he
        simp at h
        exact ⟨e, he, h⟩
      · split at h
        · simp at h
        · simp at h

/-! ### `findIdx?` over two renderings -/

/-- searching two renderings of one list with tests that agree item by item finds the same index -/
theorem findIdx?_map_congr {α β : Type} (f g : α → β) (p q : β → Bool) (l : List α)
    (h : ∀ a ∈ l, p (f a) = q (g a)) : (l.map f).findIdx? p = (l.map g).findIdx? q := by
  induction l with
  | nil => rfl
  | cons a as ih =>
    simp only [List.map_cons, List.findIdx?_cons, h a (by simp)]
    rw [ih (fun b hb => h b (by simp [hb]))]

/-! ### the okkhor transliterator never produces a curly quote -/

theorem noCurly_append {a b : Str} : NoCurly (a ++ b) ↔ NoCurly a ∧ NoCurly b := by
  simp only [NoCurly, List.mem_append]
  exact ⟨fun h => ⟨fun c hc => h c (Or.inl hc), fun c hc => h c (Or.inr hc)⟩,
    fun h c hc => hc.elim (h.1 c) (h.2 c)⟩

/-- no replacement text of the generated Avro pattern table contains a curly quote -/
theorem okkhorPatterns_noCurly :
    okkhorPatterns.all (fun p => (p.dflt :: p.rules.map Prod.snd).all (fun r =>
      (natsToChars r).all (fun c => !['‘', '’', '“', '”'].contains c))) = true := by decide +kernel

theorem asciiLower_not_curly (c : Char) (h : c ∉ ['‘', '’', '“', '”']) : asciiLower c ∉ ['‘', '’', '“', '”'] := by
  unfold asciiLower
  split
  · rename_i hc
    have key : ∀ n, n < 91 → 65 ≤ n → Char.ofNat (n + 32) ∉ ['‘', '’', '“', '”'] := by decide
    simp only [Bool.and_eq_true, decide_eq_true_eq, Char.le_def, UInt32.le_iff_toNat_le] at hc
    have h1 : 65 ≤ c.toNat := hc.1
    have h2 : c.toNat ≤ 90 := hc.2
    exact key c.toNat (by omega) h1
  · exact h

theorem condLower_not_curly (c : Char) (h : c ∉ ['‘', '’', '“', '”']) : condLower c ∉ ['‘', '’', '“', '”'] := by
  unfold condLower
  simp only
  split
  · exact h
  · exact asciiLower_not_curly c h

theorem okFindPattern_mem_aux (input : List Char) (l : List OkPattern) (S : List OkPattern) :
    ∀ init : Option OkPattern, (∀ b, init = some b → b ∈ S) → (∀ x ∈ l, x ∈ S) → ∀ p,
      l.foldl (fun best p =>
        if p.find.length > 0 && natPrefixOf p.find input then
          match best with
          | none => some p
          | some b => if p.find.length > b.find.length then some p else best
        else best) init = some p → p ∈ S := by
  induction l with
  | nil => intro init hi _ p hp; exact hi p hp
  | cons x xs ih =>
    intro init hi hl p hp
    simp only [List.foldl_cons] at hp
    refine ih _ ?_ (fun y hy => hl y (by simp [hy])) p hp
    intro b hb
    split at hb
    · cases init with
      | none => simp at hb; subst hb; exact hl _ (by simp)
      | some b0 =>
        simp only at hb
        split at hb
        · simp at hb; subst hb; exact hl _ (by simp)
        · exact hi b hb
    · exact hi b hb

/-- `find_pattern` returns a pattern of the table -/
theorem okFindPattern_mem {pats : List OkPattern} {input : List Char} {p : OkPattern}
    (h : okFindPattern pats input = some p) : p ∈ pats :=
  okFindPattern_mem_aux input pats pats none (by simp) (fun _ hx => hx) p h

theorem okReplacement_mem (p : OkPattern) (pre suf : Char) :
    okReplacement p pre suf ∈ p.dflt :: p.rules.map Prod.snd := by
  unfold okReplacement
  split
  · rename_i r hr
    have := List.mem_of_find?_eq_some hr
    simp only [List.mem_cons, List.mem_map]
    exact Or.inr ⟨r, this, rfl⟩
  · simp

theorem okLoop_noCurly (pats : List OkPattern)
    (hp : ∀ p ∈ pats, ∀ r ∈ p.dflt :: p.rules.map Prod.snd, NoCurly (natsToChars r)) :
    ∀ (fuel : Nat) (input : List Char) (pre : Char) (out : List Char),
      NoCurly input → NoCurly out → NoCurly (okLoop pats fuel input pre out) := by
  intro fuel
  induction fuel with
  | zero => intro input pre out _ ho; simpa [okLoop] using ho
  | succ n ih =>
    intro input pre out hi ho
    cases input with
    | nil => simpa [okLoop] using ho
    | cons c cs =>
      simp only [okLoop]
      cases hf : okFindPattern pats (c :: cs) with
      | none =>
        simp only
        refine ih _ _ _ (fun d hd => hi d (by simp [hd])) (noCurly_append.mpr ⟨ho, ?_⟩)
        intro d hd
        simp only [List.mem_singleton] at hd
        subst hd
        exact hi d (by simp)
      | some p =>
        simp only
        refine ih _ _ _ (fun d hd => hi d (List.mem_of_mem_drop hd)) (noCurly_append.mpr ⟨ho, ?_⟩)
        exact hp p (okFindPattern_mem hf) _ (okReplacement_mem p _ _)

/-- the Avro transliteration of a text without curly quotes (e.g. anything typed on the keyboard)
    contains no curly quote -/
theorem okConvert_noCurly {raw : Str} (h : NoCurly raw) : NoCurly (okConvert raw) := by
  unfold okConvert
  simp only
  apply okLoop_noCurly
  · intro p hp r hr
    have := okkhorPatterns_noCurly
    simp only [List.all_eq_true] at this
    have := this p hp r hr
    intro c hc
    have := this c hc
    simpa using this
  · intro c hc
    simp only [List.mem_map] at hc
    obtain ⟨d, hd, rfl⟩ := hc
    exact condLower_not_curly d (h d hd)
  · intro c hc; simp at hc

end Riti
