/-
Lemmas/Rank — `pushChecked`, `sortStable` and comparator facts used by C03, C07, C16, C18.
-/
import RitiModel.Model.Rank
namespace Riti
open Gen

@[simp] theorem Rank.text_setText (r : Rank) (t : List Char) : (r.setText t).text = t := by
  cases r <;> rfl

@[simp] theorem Rank.variant_setText (r : Rank) (t : List Char) : (r.setText t).variant = r.variant := by
  cases r <;> rfl

@[simp] theorem Rank.num_setText (r : Rank) (t : List Char) : (r.setText t).num = r.num := by
  cases r <;> rfl

theorem mem_pushChecked_of_mem {v : List Rank} {r x : Rank} (h : x ∈ v) : x ∈ pushChecked v r := by
  unfold pushChecked; split <;> simp [h]

/-- after `push_checked` some item carries the pushed text -/
theorem exists_text_pushChecked (v : List Rank) (r : Rank) : ∃ x ∈ pushChecked v r, x.text = r.text := by
  unfold pushChecked
  split
  · rename_i h
    simp [List.any_eq_true, Rank.sameText] at h
    obtain ⟨x, hx, he⟩ := h
    exact ⟨x, hx, he⟩
  · exact ⟨r, by simp, rfl⟩

/-- every item after `push_checked` was there before or is the pushed one -/
theorem mem_pushChecked {v : List Rank} {r x : Rank} (h : x ∈ pushChecked v r) : x ∈ v ∨ x = r := by
  unfold pushChecked at h; split at h
  · exact Or.inl h
  · simpa using h

theorem insertSortedFront_perm (x : Rank) (l : List Rank) : (sortStable.insertSortedFront x l).Perm (x :: l) := by
  induction l with
  | nil => simp [sortStable.insertSortedFront]
  | cons y ys ih =>
    simp only [sortStable.insertSortedFront]
    split
    · exact (List.Perm.cons y ih).trans (List.Perm.swap x y ys)
    · exact List.Perm.refl _

/-- the stable sort is a permutation -/
theorem sortStable_perm (l : List Rank) : (sortStable l).Perm l := by
  induction l with
  | nil => simp [sortStable]
  | cons x xs ih =>
    simp only [sortStable]
    exact (insertSortedFront_perm x _).trans (List.Perm.cons x ih)

theorem mem_sortStable {l : List Rank} {x : Rank} : x ∈ sortStable l ↔ x ∈ l := (sortStable_perm l).mem_iff

theorem length_sortStable (l : List Rank) : (sortStable l).length = l.length := (sortStable_perm l).length_eq

end Riti
