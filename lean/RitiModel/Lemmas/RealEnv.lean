/-
Lemmas/RealEnv — facts about the REAL components (okkhor transliterator `okConvert`, poriborton encoder `Riti.bijoy`)
that are needed to discharge the `Env` side conditions of the property theorems for the real engine
(Props/RealEnv.lean):

* every character the transliterator outputs is a (case-folded) input character or a character of a replacement text
  of the generated pattern table (`okLoop_all`, `okConvert_all`: one induction, any character predicate);
* every code point the encoder outputs is a `MAP` value, a `replace_kar` result, one of twelve literals of the algorithm
  or an input code point taken by the catch-all arm (`encodeNat_pres`: any predicate on code points), hence the encoder
  maps NUL-free text to NUL-free text (`bijoy_noNul`: the `bij` clause of `NoNulEnv`).
-/
import RitiModel.Lemmas.Bijoy
import RitiModel.Lemmas.NoNul
import RitiModel.Lemmas.Quotes
namespace Riti
open Gen

/-! ### the transliterator: where output characters come from -/

/-- the loop of okkhor's `convert_into` only outputs input characters and characters of replacement texts -/
theorem okLoop_all (P : Char → Prop) (pats : List OkPattern)
    (hp : ∀ p ∈ pats, ∀ r ∈ p.dflt :: p.rules.map Prod.snd, ∀ c ∈ natsToChars r, P c) :
    ∀ (fuel : Nat) (input : List Char) (pre : Char) (out : List Char),
      (∀ c ∈ input, P c) → (∀ c ∈ out, P c) → ∀ c ∈ okLoop pats fuel input pre out, P c := by
  intro fuel
  induction fuel with
  | zero => intro input pre out _ ho; simpa [okLoop] using ho
  | succ n ih =>
    intro input pre out hi ho
    cases input with
    | nil => simpa [okLoop] using ho
    | cons c cs =>
      simp only [okLoop]
      cases hf : okFindPattern pats (c :: cs) with
      | none =>
        simp only
        refine ih _ _ _ (fun d hd => hi d (by simp [hd])) ?_
        intro d hd
        rcases List.mem_append.1 hd with h | h
        · exact ho d h
        · simp only [List.mem_singleton] at h; subst h; exact hi d (by simp)
      | some p =>
        simp only
        refine ih _ _ _ (fun d hd => hi d (List.mem_of_mem_drop hd)) ?_
        intro d hd
        rcases List.mem_append.1 hd with h | h
        · exact ho d h
        · exact hp p (okFindPattern_mem hf) _ (okReplacement_mem p _ _) d h

/-- a character predicate that holds of every replacement text of the generated Avro table and is kept by
    `conditional_lowercase` is kept by the transliteration -/
theorem okConvert_all (P : Char → Prop)
    (htbl : ∀ p ∈ okkhorPatterns, ∀ r ∈ p.dflt :: p.rules.map Prod.snd, ∀ c ∈ natsToChars r, P c)
    (hlow : ∀ c, P c → P (condLower c)) {raw : Str} (h : ∀ c ∈ raw, P c) : ∀ c ∈ okConvert raw, P c := by
  unfold okConvert
  simp only
  apply okLoop_all P _ htbl
  · intro c hc
    obtain ⟨d, hd, rfl⟩ := List.mem_map.1 hc
    exact hlow d (h d hd)
  · intro c hc; cases hc

/-- `conditional_lowercase` returns its argument or a lower-case ASCII letter -/
theorem condLower_cases (c : Char) : condLower c = c ∨ (97 ≤ (condLower c).toNat ∧ (condLower c).toNat ≤ 122) := by
  unfold condLower
  simp only
  split
  · exact Or.inl rfl
  · unfold asciiLower
    split
    · rename_i hc
      right
      simp only [Bool.and_eq_true, decide_eq_true_eq] at hc
      have h1 : 65 ≤ c.toNat := hc.1
      have h2 : c.toNat ≤ 90 := hc.2
      have key : ∀ n : Nat, n < 91 → 65 ≤ n → 97 ≤ (Char.ofNat (n + 32)).toNat ∧ (Char.ofNat (n + 32)).toNat ≤ 122 := by
        decide
      exact key c.toNat (by omega) h1
    · exact Or.inl rfl

end Riti

namespace Riti.Bijoy
open Riti Riti.Gen.Bijoy

/-! ### the encoder: where output code points come from -/

/-- the literals pushed by the arms of `unicode_to_bijoy` and by `convert_buffer` -/
def outLits : List Nat :=
  [oZFola, oReph, oHasanta, oAaTail, oAuTail, oGU, oShU, oHU, oTU, oHRri, oDari, oDdari]

/-- a predicate on code points that holds of everything the encoder can push by itself -/
structure OutPred (P : Nat → Prop) : Prop where
  map : ∀ kv ∈ bijoyMap, ∀ n ∈ kv.2, P n
  kar : ∀ n ∈ karOuts, P n
  lits : ∀ n ∈ outLits, P n

/-- every code point of the list satisfies `P` -/
def AllP (P : Nat → Prop) (l : List Nat) : Prop := ∀ n ∈ l, P n

theorem AllP.nil {P : Nat → Prop} : AllP P [] := by intro n h; cases h

theorem AllP.cons {P : Nat → Prop} {a : Nat} {l : List Nat} (ha : P a) (hl : AllP P l) : AllP P (a :: l) := by
  intro n h
  rcases List.mem_cons.1 h with rfl | h
  · exact ha
  · exact hl n h

theorem AllP.append {P : Nat → Prop} {l₁ l₂ : List Nat} (h₁ : AllP P l₁) (h₂ : AllP P l₂) : AllP P (l₁ ++ l₂) := by
  intro n h
  rcases List.mem_append.1 h with h | h
  · exact h₁ n h
  · exact h₂ n h

theorem AllP.tail {P : Nat → Prop} {l : List Nat} (h : AllP P l) : AllP P l.tail := by
  intro n hn; exact h n (List.mem_of_mem_tail hn)

theorem AllP.reverse {P : Nat → Prop} {l : List Nat} (h : AllP P l) : AllP P l.reverse := by
  intro n hn; exact h n (List.mem_reverse.1 hn)

theorem AllP.ite_cons {P : Nat → Prop} {a : Nat} {l : List Nat} (c : Bool) (ha : P a) (hl : AllP P l) :
    AllP P (if c = true then a :: l else l) := by
  split
  · exact AllP.cons ha hl
  · exact hl

theorem mapGet_allP {P : Nat → Prop} (hP : OutPred P) {k v : List Nat} (h : mapGet k = some v) : AllP P v := by
  obtain ⟨k', hk'⟩ := alookup_mem _ _ _ h
  exact hP.map _ hk'

/-- `convert_buffer` only appends `MAP` values and three literals -/
theorem convertBuffer_allP {P : Nat → Prop} (hP : OutPred P) (buf rout : List Nat) (h : AllP P rout) :
    AllP P (convertBuffer buf rout) := by
  unfold convertBuffer
  dsimp only
  apply AllP.ite_cons _ (hP.lits _ (by decide))
  apply AllP.ite_cons _ (hP.lits _ (by decide))
  apply AllP.ite_cons _ (hP.lits _ (by decide))
  split
  · rename_i r hr; exact AllP.append (AllP.reverse (mapGet_allP hP hr)) h
  · exact h

theorem replaceKar_allP {P : Nat → Prop} (hP : OutPred P) {k : Nat} {f : Bool} {p : List Nat} {r : Nat}
    (h : replaceKar k f p = .ok r) : P r :=
  hP.kar r (replaceKar_mem k f p r h)

/-- one loop iteration keeps the output inside `P` when the current code point is -/
theorem step_allP {P : Nat → Prop} (hP : OutPred P) {rpre : List Nat} {c : Nat} {st st' : St} (hc : P c)
    (h : AllP P st.rout) (hs : step rpre c st = .ok st') : AllP P st'.rout := by
  unfold step at hs
  cases ha : classify c st <;> rw [ha] at hs <;> simp only [exec] at hs
  all_goals try split at hs
  all_goals first
    | cases hs
    | skip
  all_goals try dsimp only
  all_goals first
    | exact h
    | exact convertBuffer_allP hP _ _ h
    | exact AllP.cons (hP.lits _ (by decide)) h
    | exact AllP.cons (hP.lits _ (by decide)) (convertBuffer_allP hP _ _ h)
    | exact AllP.cons (hP.lits _ (by decide)) (AllP.tail (convertBuffer_allP hP _ _ h))
    | exact AllP.cons (hP.lits _ (by decide))
        (convertBuffer_allP hP _ _ (AllP.cons (replaceKar_allP hP (by assumption)) h))
    | exact convertBuffer_allP hP _ _ (AllP.cons (replaceKar_allP hP (by assumption)) h)
    | exact AllP.cons (replaceKar_allP hP (by assumption)) (convertBuffer_allP hP _ _ h)
    | exact AllP.cons hc (convertBuffer_allP hP _ _ h)

theorem loop_allP {P : Nat → Prop} (hP : OutPred P) {s rpre : List Nat} {st st' : St} (hs : AllP P s)
    (h : AllP P st.rout) (hl : loop rpre s st = .ok st') : AllP P st'.rout := by
  induction s generalizing rpre st with
  | nil => simp only [loop] at hl; cases hl; exact h
  | cons c cs ih =>
    simp only [loop] at hl
    split at hl
    · cases hl
    · rename_i st1 h1
      exact ih (fun n hn => hs n (List.mem_cons_of_mem _ hn)) (step_allP hP (hs c List.mem_cons_self) h h1) hl

/-- every code point of the encoding is a `MAP` value, a `replace_kar` result, a literal of the algorithm or an input
    code point: a predicate that holds of the first three kinds and of the input holds of the output -/
theorem encodeNat_pres {P : Nat → Prop} (hP : OutPred P) {s t : List Nat} (hs : AllP P s) (h : encodeNat s = .ok t) :
    AllP P t := by
  unfold encodeNat at h
  split at h
  · cases h
  · rename_i st hst
    cases h
    have hc : AllP P st.rout := loop_allP hP hs AllP.nil hst
    apply AllP.reverse
    split
    · exact hc
    · exact convertBuffer_allP hP _ _ hc

/-- "is a code point whose character is not U+0000" holds of everything the encoder pushes by itself (the whole `MAP`
    is checked by the kernel) -/
theorem outPred_nonNul : OutPred (fun n => Char.ofNat n ≠ '\x00') where
  map := by
    have h : bijoyMap.all (fun kv => kv.2.all (fun n => Char.ofNat n != '\x00')) = true := by decide +kernel
    intro kv hkv n hn
    have := List.all_eq_true.1 (List.all_eq_true.1 h kv hkv) n hn
    simpa using this
  kar := by decide
  lits := by decide

end Riti.Bijoy

namespace Riti

/-- **the Bijoy encoder maps NUL-free text to NUL-free text** (the `bij` clause of `NoNulEnv` for the real encoder) -/
theorem bijoy_noNul {s r : Str} (hs : NoNul s) (h : bijoy s = .ok r) : NoNul r := by
  unfold bijoy at h
  split at h
  · cases h
  · rename_i l hl
    cases h
    have hin : Bijoy.AllP (fun n => Char.ofNat n ≠ '\x00') (s.map Char.toNat) := by
      intro n hn
      obtain ⟨c, hc, rfl⟩ := List.mem_map.1 hn
      rw [Char.ofNat_toNat]
      exact hs.mem hc
    have hout := Bijoy.encodeNat_pres Bijoy.outPred_nonNul hin hl
    intro hm
    obtain ⟨n, hn, he⟩ := List.mem_map.1 hm
    exact hout n hn he

end Riti
