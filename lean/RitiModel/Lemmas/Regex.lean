/-
Lemmas/Regex — helpers for Props/Regex: the textbook language of an expression (`Lang`), its inversion lemmas, the length
bounds, and the elementary facts about the reader (`parseClass`, `applyOpts`, equations of the mutual reader).
-/
import RitiModel.Model.Regex
namespace Riti
open Gen

/-! ### the language of an expression -/

/-- membership of a string in the language of an expression: the textbook rules (no repetition operator exists) -/
inductive Lang : Rx → List Char → Prop
  | eps : Lang .eps []
  | chr (c : Char) : Lang (.chr c) [c]
  | cls {cs : List Char} {x : Char} : x ∈ cs → Lang (.cls cs) [x]
  | cat {a b : Rx} {s t : List Char} : Lang a s → Lang b t → Lang (.cat a b) (s ++ t)
  | altL {a b : Rx} {s : List Char} : Lang a s → Lang (.alt a b) s
  | altR {a b : Rx} {s : List Char} : Lang b s → Lang (.alt a b) s
  | optNone {a : Rx} : Lang (.opt a) []
  | optSome {a : Rx} {s : List Char} : Lang a s → Lang (.opt a) s
  | grp {a : Rx} {s : List Char} : Lang a s → Lang (.grp a) s

theorem lang_eps_iff {s : List Char} : Lang .eps s ↔ s = [] :=
  ⟨fun h => by cases h; rfl, fun h => h ▸ .eps⟩

theorem lang_chr_iff {c : Char} {s : List Char} : Lang (.chr c) s ↔ s = [c] :=
  ⟨fun h => by cases h; rfl, fun h => h ▸ .chr c⟩

theorem lang_cls_iff {cs s : List Char} : Lang (.cls cs) s ↔ ∃ x, x ∈ cs ∧ s = [x] :=
  ⟨fun h => by cases h with | cls hx => exact ⟨_, hx, rfl⟩, fun ⟨_, hx, h⟩ => h ▸ .cls hx⟩

theorem lang_cat_iff {a b : Rx} {s : List Char} :
    Lang (.cat a b) s ↔ ∃ s1 s2, s = s1 ++ s2 ∧ Lang a s1 ∧ Lang b s2 :=
  ⟨fun h => by cases h with | cat h1 h2 => exact ⟨_, _, rfl, h1, h2⟩, fun ⟨_, _, h, h1, h2⟩ => h ▸ .cat h1 h2⟩

theorem lang_alt_iff {a b : Rx} {s : List Char} : Lang (.alt a b) s ↔ Lang a s ∨ Lang b s :=
  ⟨fun h => by cases h with | altL h => exact .inl h | altR h => exact .inr h,
   fun h => h.elim .altL .altR⟩

theorem lang_opt_iff {a : Rx} {s : List Char} : Lang (.opt a) s ↔ s = [] ∨ Lang a s :=
  ⟨fun h => by cases h with | optNone => exact .inl rfl | optSome h => exact .inr h,
   fun h => h.elim (fun h => h ▸ .optNone) .optSome⟩

theorem lang_grp_iff {a : Rx} {s : List Char} : Lang (.grp a) s ↔ Lang a s :=
  ⟨fun h => by cases h with | grp h => exact h, .grp⟩

/-! ### length bounds -/

/-- the length of the shortest word of the language (of a non-empty language) -/
def Rx.minLen : Rx → Nat
  | .eps => 0
  | .chr _ => 1
  | .cls _ => 1
  | .cat a b => a.minLen + b.minLen
  | .alt a b => min a.minLen b.minLen
  | .opt _ => 0
  | .grp a => a.minLen

/-- the length of the longest word of the language: finite, there is no repetition -/
def Rx.maxLen : Rx → Nat
  | .eps => 0
  | .chr _ => 1
  | .cls _ => 1
  | .cat a b => a.maxLen + b.maxLen
  | .alt a b => max a.maxLen b.maxLen
  | .opt a => a.maxLen
  | .grp a => a.maxLen

/-! ### the reader -/

theorem parseClass_spec : ∀ (s acc cs rest : List Char), parseClass s acc = some (cs, rest) →
    cs ++ ']' :: rest = acc.reverse ++ s
  | [], _, _, _, h => by simp [parseClass] at h
  | c :: r, acc, cs, rest, h => by
    unfold parseClass at h
    split at h
    · rename_i hc
      split at h
      · simp at h
      · simp at h; obtain ⟨h1, h2⟩ := h; subst h1 h2 hc; simp
    · split at h
      · simp at h
      · have := parseClass_spec r (c :: acc) cs rest h
        simpa using this

/-- the characters of a set are exactly the text between the brackets: none of them is a bracket, `-`, `^` or `\` -/
theorem parseClass_chars : ∀ (s acc cs rest : List Char), parseClass s acc = some (cs, rest) →
    (∀ x ∈ acc, x ≠ ']' ∧ x ≠ '[' ∧ x ≠ '-' ∧ x ≠ '^' ∧ x ≠ '\\') →
    cs ≠ [] ∧ ∀ x ∈ cs, x ≠ ']' ∧ x ≠ '[' ∧ x ≠ '-' ∧ x ≠ '^' ∧ x ≠ '\\'
  | [], _, _, _, h, _ => by simp [parseClass] at h
  | c :: r, acc, cs, rest, h, hacc => by
    unfold parseClass at h
    split at h
    · split at h
      · simp at h
      · rename_i hne
        simp at h; obtain ⟨h1, _⟩ := h; subst h1
        refine ⟨by simpa using hne, ?_⟩
        intro x hx; exact hacc x (by simpa using hx)
    · rename_i hc
      split at h
      · simp at h
      · rename_i hc2
        refine parseClass_chars r (c :: acc) cs rest h ?_
        intro x hx
        rcases List.mem_cons.1 hx with rfl | hx
        · simp only [not_or] at hc2
          exact ⟨hc, hc2.2.2.2, hc2.1, hc2.2.1, hc2.2.2.1⟩
        · exact hacc x hx

theorem applyOpts_render : ∀ (s : List Char) (r : Rx),
    (applyOpts r s).1.render ++ (applyOpts r s).2 = r.render ++ s
  | [], r => by simp [applyOpts]
  | c :: rest, r => by
    unfold applyOpts
    split
    · rename_i hc; subst hc
      rw [applyOpts_render rest (.opt r)]; simp [Rx.render]
    · rfl

/-- what `applyOpts` leaves does not start with `?` -/
theorem applyOpts_rest : ∀ (s : List Char) (r : Rx), (applyOpts r s).2.head? ≠ some '?'
  | [], r => by simp [applyOpts]
  | c :: rest, r => by
    unfold applyOpts
    split
    · exact applyOpts_rest rest (.opt r)
    · rename_i hc; simpa using hc

end Riti
