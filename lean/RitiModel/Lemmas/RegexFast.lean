/-
Lemmas/RegexFast — helpers for Props/RegexFast: segments of a string between two positions, and the bits of `posMask`.
-/
import RitiModel.Model.Regex
import RitiModel.Lemmas.Regex
namespace Riti

/-- the segment of `s` from position `j` (included) to position `i` (excluded) -/
def seg (s : List Char) (j i : Nat) : List Char := (s.drop j).take (i - j)

theorem seg_length {s : List Char} {j i : Nat} (h1 : j ≤ i) (h2 : i ≤ s.length) : (seg s j i).length = i - j := by
  simp only [seg, List.length_take, List.length_drop]; omega

theorem seg_append {s : List Char} {j k i : Nat} (h1 : j ≤ k) (h2 : k ≤ i) :
    seg s j k ++ seg s k i = seg s j i := by
  have e : i - j = (k - j) + (i - k) := by omega
  have e2 : j + (k - j) = k := by omega
  simp only [seg]
  rw [e, List.take_add, List.drop_drop, e2]

theorem seg_eq_nil_iff {s : List Char} {j i : Nat} (h1 : j ≤ i) (h2 : i ≤ s.length) : seg s j i = [] ↔ i = j := by
  rw [← List.length_eq_zero_iff, seg_length h1 h2]; omega

/-- a segment written as a concatenation splits at the position after the first part -/
theorem seg_split {s s1 s2 : List Char} {j i : Nat} (h1 : j ≤ i) (h2 : i ≤ s.length) (h : seg s j i = s1 ++ s2) :
    j + s1.length ≤ i ∧ s1 = seg s j (j + s1.length) ∧ s2 = seg s (j + s1.length) i := by
  have hl := seg_length h1 h2
  rw [h, List.length_append] at hl
  have hk : j + s1.length ≤ i := by omega
  refine ⟨hk, ?_⟩
  have ha := seg_append (s := s) (j := j) (k := j + s1.length) (i := i) (by omega) hk
  rw [h] at ha
  have hlen : (seg s j (j + s1.length)).length = s1.length := by
    rw [seg_length (by omega) (by omega)]; omega
  obtain ⟨e1, e2⟩ := List.append_inj ha hlen
  exact ⟨e1.symm, e2.symm⟩

theorem seg_succ (s : List Char) (j : Nat) : seg s j (j + 1) = s[j]?.toList := by
  have e : j + 1 - j = 1 := by omega
  simp only [seg, e, List.take_one, List.head?_drop]

/-- a one-character segment: the positions are consecutive and the character is the one at the first -/
theorem seg_eq_singleton_iff {s : List Char} {j i : Nat} {c : Char} (h1 : j ≤ i) (h2 : i ≤ s.length) :
    seg s j i = [c] ↔ i = j + 1 ∧ s[j]? = some c := by
  constructor
  · intro h
    have hl := seg_length h1 h2
    rw [h] at hl
    have hi : i = j + 1 := by simp at hl; omega
    subst hi
    rw [seg_succ] at h
    cases hx : s[j]? with
    | none => simp [hx] at h
    | some x => simp [hx] at h; subst h; exact ⟨rfl, rfl⟩
  · rintro ⟨rfl, hx⟩
    rw [seg_succ, hx]; rfl

theorem seg_zero_length (s : List Char) : seg s 0 s.length = s := by simp [seg]

/-- the bits of `posMask`: bit `off + j` is set iff `s[j]` exists and satisfies `p` -/
theorem posMask_testBit_aux (p : Char → Bool) : ∀ (s : List Char) (off i : Nat),
    (posMask p s off).testBit i = true ↔ ∃ j x, i = off + j ∧ s[j]? = some x ∧ p x = true
  | [], off, i => by simp [posMask]
  | y :: r, off, i => by
    rw [posMask, Nat.testBit_or, Bool.or_eq_true, posMask_testBit_aux p r (off + 1) i]
    constructor
    · rintro (h | ⟨j, x, rfl, hx, hp⟩)
      · by_cases hy : p y = true
        · rw [if_pos hy, Nat.one_shiftLeft, Nat.testBit_two_pow] at h
          have : off = i := by simpa using h
          exact ⟨0, y, by omega, by simp, hy⟩
        · rw [if_neg hy, Nat.zero_testBit] at h; cases h
      · exact ⟨j + 1, x, by omega, by simpa using hx, hp⟩
    · rintro ⟨j, x, rfl, hx, hp⟩
      cases j with
      | zero =>
        left
        have : y = x := by simpa using hx
        subst this
        rw [if_pos hp, Nat.one_shiftLeft, Nat.testBit_two_pow]; simp
      | succ j =>
        right
        exact ⟨j, x, by omega, by simpa using hx, hp⟩

end Riti
