/-
Lemmas/RegexTotal — the reader of `Model/Regex` on concatenations of texts: fuel monotonicity, "tail replacement" (what the
reader returned for `text ++ rest` it returns for `text ++ any other admissible rest`), and compositionality of `parseCat`
over texts that it reads completely (`Closed`).  Used by `Props/RegexTotal` for the totality of the look-up.
-/
import RitiModel.Props.Regex
namespace Riti
open Gen Riti.Regex

/-! ### more fuel never hurts -/

theorem parse_mono_all (f : Nat) :
    (∀ s v, parseAlt f s = some v → parseAlt (f + 1) s = some v) ∧
    (∀ s v, parseCat f s = some v → parseCat (f + 1) s = some v) ∧
    (∀ s v, parseAtom f s = some v → parseAtom (f + 1) s = some v) := by
  induction f with
  | zero => simp [parseAlt, parseCat, parseAtom]
  | succ f ih =>
    obtain ⟨ihAlt, ihCat, ihAtom⟩ := ih
    refine ⟨?_, ?_, ?_⟩
    · intro s v h
      rw [parseAlt] at h ⊢
      cases h1 : parseCat f s with
      | none => simp [h1] at h
      | some p =>
        obtain ⟨a, rest1⟩ := p
        rw [ihCat _ _ h1]
        simp only [h1] at h
        cases rest1 with
        | nil => exact h
        | cons c t =>
          simp only at h ⊢
          split
          · rename_i hc
            simp only [hc, if_true] at h
            cases h2 : parseAlt f t with
            | none => simp [h2] at h
            | some q => rw [ihAlt _ _ h2]; simpa [h2] using h
          · rename_i hc
            simpa [hc] using h
    · intro s v h
      cases s with
      | nil => rw [parseCat] at h ⊢; exact h
      | cons c t =>
        rw [parseCat] at h ⊢
        split
        · rename_i hc; simpa [hc] using h
        · rename_i hc
          simp only [hc, if_false] at h
          cases h1 : parseAtom f (c :: t) with
          | none => simp [h1] at h
          | some p =>
            obtain ⟨a, r1⟩ := p
            rw [ihAtom _ _ h1]
            simp only [h1] at h ⊢
            cases h2 : parseCat f (applyOpts a r1).2 with
            | none => simp [h2] at h
            | some q => rw [ihCat _ _ h2]; simpa [h2] using h
    · intro s v h
      cases s with
      | nil => rw [parseAtom] at h; simp at h
      | cons c t =>
        rw [parseAtom] at h ⊢
        split
        · rename_i hc
          simp only [hc, if_true] at h
          cases h1 : parseAlt f t with
          | none => simp [h1] at h
          | some p => rw [ihAlt _ _ h1]; simpa [h1] using h
        · rename_i hc
          simpa [hc] using h

theorem parseAlt_mono {f g : Nat} {s : List Char} {v : Rx × List Char} (h : parseAlt f s = some v) (hfg : f ≤ g) :
    parseAlt g s = some v := by
  induction hfg with
  | refl => exact h
  | step _ ih => exact (parse_mono_all _).1 _ _ ih

theorem parseCat_mono {f g : Nat} {s : List Char} {v : Rx × List Char} (h : parseCat f s = some v) (hfg : f ≤ g) :
    parseCat g s = some v := by
  induction hfg with
  | refl => exact h
  | step _ ih => exact (parse_mono_all _).2.1 _ _ ih

theorem parseAtom_mono {f g : Nat} {s : List Char} {v : Rx × List Char} (h : parseAtom f s = some v) (hfg : f ≤ g) :
    parseAtom g s = some v := by
  induction hfg with
  | refl => exact h
  | step _ ih => exact (parse_mono_all _).2.2 _ _ ih

/-! ### small facts about the pieces -/

theorem applyOpts_of_head {z : List Char} (a : Rx) (hz : z.head? ≠ some '?') : applyOpts a z = (a, z) := by
  cases z with
  | nil => rfl
  | cons c t =>
    unfold applyOpts
    have : c ≠ '?' := by simpa using hz
    simp [this]

/-- `applyOpts` eats a block of `?` and nothing else; the same block in front of any text not starting with `?` gives the
    same expression -/
theorem applyOpts_spec : ∀ (s : List Char) (a : Rx), ∃ k,
    s = List.replicate k '?' ++ (applyOpts a s).2 ∧
    (applyOpts a s).1.render = a.render ++ List.replicate k '?' ∧
    ∀ z, z.head? ≠ some '?' → applyOpts a (List.replicate k '?' ++ z) = ((applyOpts a s).1, z)
  | [], a => ⟨0, by simp [applyOpts], by simp [applyOpts], fun z hz => by simpa [applyOpts] using applyOpts_of_head a hz⟩
  | c :: rest, a => by
    by_cases hc : c = '?'
    · subst hc
      obtain ⟨k, h1, h2, h3⟩ := applyOpts_spec rest (.opt a)
      refine ⟨k + 1, ?_, ?_, ?_⟩
      · rw [applyOpts]; simp only [if_true, List.replicate_succ, List.cons_append]; rw [← h1]
      · rw [applyOpts]; simp only [if_true]; rw [h2]; simp [Rx.render, List.replicate_succ]
      · intro z hz
        rw [List.replicate_succ, List.cons_append, applyOpts]; simp only [if_true]
        rw [h3 z hz]; rw [applyOpts]; simp
    · refine ⟨0, ?_, ?_, ?_⟩
      · rw [applyOpts]; simp [hc]
      · rw [applyOpts]; simp [hc]
      · intro z hz
        rw [applyOpts]; simp only [hc, if_false]
        simpa using applyOpts_of_head a hz

/-- an atom never starts with `?`, `)` or `|`, and its text starts with the character it was read from -/
theorem parseAtom_head {f : Nat} {c : Char} {t : List Char} {a : Rx} {r : List Char}
    (h : parseAtom f (c :: t) = some (a, r)) :
    c ≠ '?' ∧ c ≠ ')' ∧ c ≠ '|' ∧ ∃ tl, a.render = c :: tl := by
  cases f with
  | zero => simp [parseAtom] at h
  | succ f =>
    rw [parseAtom] at h
    split at h
    · rename_i hc; subst hc
      refine ⟨by decide, by decide, by decide, ?_⟩
      split at h
      · split at h
        · simp at h; obtain ⟨rfl, _⟩ := h; exact ⟨_, rfl⟩
        · simp at h
      · simp at h
    · split at h
      · rename_i hc; subst hc
        refine ⟨by decide, by decide, by decide, ?_⟩
        split at h
        · simp at h; obtain ⟨rfl, _⟩ := h; exact ⟨_, rfl⟩
        · simp at h
      · split at h
        · simp at h
        · rename_i hsp
          simp at h; obtain ⟨rfl, _⟩ := h
          refine ⟨?_, ?_, ?_, ⟨[], rfl⟩⟩ <;> (rintro rfl; exact hsp (by decide))

/-- `parseCat` succeeds only on texts that do not start with `?` -/
theorem parseCat_head {f : Nat} {z : List Char} {v : Rx × List Char} (h : parseCat f z = some v) :
    z.head? ≠ some '?' := by
  cases z with
  | nil => simp
  | cons c t =>
    cases f with
    | zero => simp [parseCat] at h
    | succ f =>
      rw [parseCat] at h
      split at h
      · rename_i hc; rcases hc with rfl | rfl <;> simp
      · cases h1 : parseAtom f (c :: t) with
        | none => simp [h1] at h
        | some p =>
          have := (parseAtom_head (a := p.1) (r := p.2) h1).1
          simpa using this

/-- one step of `parseCat` once the atom is known -/
theorem parseCat_step {f : Nat} {s r : List Char} {a0 : Rx} (hat : parseAtom f s = some (a0, r)) :
    parseCat (f + 1) s =
      match parseCat f (applyOpts a0 r).2 with
      | some (b, r'') => some (.cat (applyOpts a0 r).1 b, r'')
      | none => none := by
  cases s with
  | nil => cases f <;> simp [parseAtom] at hat
  | cons c t =>
    obtain ⟨_, h2, h3, _⟩ := parseAtom_head hat
    rw [parseCat]
    simp only [h2, h3, hat, or_self, if_false]
    cases parseCat f (applyOpts a0 r).2 <;> rfl

/-- the body of a set read back -/
theorem parseClass_tail : ∀ (cs acc y : List Char),
    (∀ x ∈ cs, x ≠ ']' ∧ x ≠ '[' ∧ x ≠ '-' ∧ x ≠ '^' ∧ x ≠ '\\') → acc.reverse ++ cs ≠ [] →
    parseClass (cs ++ ']' :: y) acc = some (acc.reverse ++ cs, y)
  | [], acc, y, _, hne => by
    have : acc ≠ [] := by simpa using hne
    simp [parseClass, this]
  | x :: cs, acc, y, hcs, _ => by
    obtain ⟨h1, h2, h3, h4, h5⟩ := hcs x (by simp)
    rw [List.cons_append, parseClass]
    simp only [h1, h2, h3, h4, h5, if_false, or_self]
    rw [parseClass_tail cs (x :: acc) y (fun z hz => hcs z (by simp [hz])) (by simp)]
    simp

/-- where a concatenation stops -/
def StopCat (y : List Char) : Prop := y = [] ∨ ∃ y', y = ')' :: y' ∨ y = '|' :: y'
/-- where an alternation stops -/
def StopAlt (y : List Char) : Prop := y = [] ∨ ∃ y', y = ')' :: y'

theorem StopAlt.stopCat {y : List Char} (h : StopAlt y) : StopCat y := by
  rcases h with rfl | ⟨y', rfl⟩
  · exact .inl rfl
  · exact .inr ⟨y', .inl rfl⟩

theorem parseCat_stop {f : Nat} {y : List Char} (h : StopCat y) : parseCat (f + 1) y = some (.eps, y) := by
  rcases h with rfl | ⟨y', rfl | rfl⟩ <;> simp [parseCat]

/-! ### tail replacement -/

/-- whatever the reader returned for a text, it returns for the text of the result followed by ANY admissible rest: the
    reader looks at nothing beyond the expression except the stop character -/
theorem parse_tail_all (f : Nat) :
    (∀ s a r1, parseAlt f s = some (a, r1) → ∀ y, StopAlt y → parseAlt f (a.render ++ y) = some (a, y)) ∧
    (∀ s a r1, parseCat f s = some (a, r1) → ∀ y, StopCat y → parseCat f (a.render ++ y) = some (a, y)) ∧
    (∀ s a r1, parseAtom f s = some (a, r1) → ∀ y, parseAtom f (a.render ++ y) = some (a, y)) := by
  induction f with
  | zero => simp [parseAlt, parseCat, parseAtom]
  | succ f ih =>
    obtain ⟨ihAlt, ihCat, ihAtom⟩ := ih
    refine ⟨?_, ?_, ?_⟩
    · intro s a r1 h y hy
      rw [parseAlt] at h
      cases h1 : parseCat f s with
      | none => simp [h1] at h
      | some p =>
        obtain ⟨a0, rest1⟩ := p
        simp only [h1] at h
        -- the case where the result is `a0` itself
        have single : parseAlt (f + 1) (a0.render ++ y) = some (a0, y) := by
          rw [parseAlt, ihCat _ _ _ h1 y hy.stopCat]
          rcases hy with rfl | ⟨y', rfl⟩
          · rfl
          · simp
        cases rest1 with
        | nil => simp at h; obtain ⟨rfl, rfl⟩ := h; exact single
        | cons c t =>
          simp only at h
          split at h
          · rename_i hc; subst hc
            cases h2 : parseAlt f t with
            | none => simp [h2] at h
            | some q =>
              obtain ⟨b, r'⟩ := q
              simp [h2] at h; obtain ⟨rfl, rfl⟩ := h
              have e1 := ihCat _ _ _ h1 ('|' :: (b.render ++ y)) (.inr ⟨_, .inr rfl⟩)
              have e2 := ihAlt _ _ _ h2 y hy
              rw [parseAlt]
              simp only [Rx.render, List.append_assoc, List.cons_append]
              rw [e1]; simp [e2]
          · simp at h; obtain ⟨rfl, rfl⟩ := h; exact single
    · intro s a r1 h y hy
      have stopcase : parseCat (f + 1) (Rx.eps.render ++ y) = some (.eps, y) := by
        simpa [Rx.render] using parseCat_stop hy
      cases s with
      | nil => rw [parseCat] at h; simp at h; obtain ⟨rfl, rfl⟩ := h; exact stopcase
      | cons c t =>
        rw [parseCat] at h
        split at h
        · simp at h; obtain ⟨rfl, rfl⟩ := h; exact stopcase
        · cases h1 : parseAtom f (c :: t) with
          | none => simp [h1] at h
          | some p =>
            obtain ⟨a0, r⟩ := p
            simp only [h1] at h
            cases h2 : parseCat f (applyOpts a0 r).2 with
            | none => simp [h2] at h
            | some q =>
              obtain ⟨b0, r''⟩ := q
              simp [h2] at h; obtain ⟨rfl, rfl⟩ := h
              obtain ⟨k, _, hk2, hk3⟩ := applyOpts_spec r a0
              have e2 := ihCat _ _ _ h2 y hy
              have hz := parseCat_head e2
              have e1 := ihAtom _ _ _ h1 (List.replicate k '?' ++ (b0.render ++ y))
              have := parseCat_step e1
              rw [hk3 _ hz] at this
              simp only [e2] at this
              simp only [Rx.render, hk2, List.append_assoc]
              exact this
    · intro s a r1 h y
      cases s with
      | nil => rw [parseAtom] at h; simp at h
      | cons c t =>
        rw [parseAtom] at h
        split at h
        · rename_i hc; subst hc
          cases h1 : parseAlt f t with
          | none => simp [h1] at h
          | some p =>
            obtain ⟨a1, r1'⟩ := p
            cases r1' with
            | nil => simp [h1] at h
            | cons d r' =>
              simp only [h1] at h
              split at h
              · rename_i hd; subst hd
                simp at h; obtain ⟨rfl, rfl⟩ := h
                have e1 := ihAlt _ _ _ h1 (')' :: y) (.inr ⟨_, rfl⟩)
                rw [Rx.render]
                simp only [List.cons_append, List.append_assoc]
                rw [parseAtom]
                simp [e1]
              · simp at h
        · split at h
          · rename_i hc; subst hc
            cases h1 : parseClass t [] with
            | none => simp [h1] at h
            | some p =>
              obtain ⟨cs, r'⟩ := p
              simp [h1] at h; obtain ⟨rfl, rfl⟩ := h
              obtain ⟨hne, hcs⟩ := parseClass_chars _ _ _ _ h1 (by simp)
              have := parseClass_tail cs [] y hcs (by simpa using hne)
              rw [Rx.render]
              simp only [List.cons_append, List.append_assoc]
              rw [parseAtom]
              simp [this]
          · rename_i hc1 hc2
            split at h
            · simp at h
            · rename_i hsp
              simp at h; obtain ⟨rfl, rfl⟩ := h
              show parseAtom (f + 1) (c :: y) = _
              rw [parseAtom]
              simp [hc1, hc2, hsp]

/-- the AST returned by the reader is a fixed point: reading its own text gives it back, with nothing left -/
theorem parseAlt_render_self {f : Nat} {s r1 : List Char} {a : Rx} (h : parseAlt f s = some (a, r1)) :
    parseAlt f a.render = some (a, []) := by
  simpa using (parse_tail_all f).1 s a r1 h [] (.inl rfl)

/-- `render` is a right inverse of `parseRx` on everything `parseRx` accepts, and texts with the same AST are equal:
    on accepted texts the reader is a bijection onto its image -/
theorem parseRx_render_self {s : List Char} {r : Rx} (h : parseRx s = some r) : parseRx r.render = some r := by
  rw [parseRx_render h]; exact h

/-! ### concatenation of texts -/

/-- if `parseCat` read `s` up to `r1` giving `a`, then the text of `a` followed by any text `y` that `parseCat` can read
    is read too, up to where the reading of `y` stops: item sequences compose -/
theorem parseCat_append (f : Nat) : ∀ (s : List Char) (a : Rx) (r1 : List Char), parseCat f s = some (a, r1) →
    ∀ (g : Nat) (y : List Char) (b : Rx) (r' : List Char), parseCat g y = some (b, r') →
    ∃ a', parseCat (f + g) (a.render ++ y) = some (a', r') := by
  induction f with
  | zero => simp [parseCat]
  | succ f ih =>
    intro s a r1 h g y b r' hy
    have stopcase : ∃ a', parseCat (f + 1 + g) (Rx.eps.render ++ y) = some (a', r') :=
      ⟨b, by simpa [Rx.render] using parseCat_mono hy (by omega)⟩
    cases s with
    | nil => rw [parseCat] at h; simp at h; obtain ⟨rfl, rfl⟩ := h; exact stopcase
    | cons c t =>
      rw [parseCat] at h
      split at h
      · simp at h; obtain ⟨rfl, rfl⟩ := h; exact stopcase
      · cases h1 : parseAtom f (c :: t) with
        | none => simp [h1] at h
        | some p =>
          obtain ⟨a0, r⟩ := p
          simp only [h1] at h
          cases h2 : parseCat f (applyOpts a0 r).2 with
          | none => simp [h2] at h
          | some q =>
            obtain ⟨b0, r''⟩ := q
            simp [h2] at h; obtain ⟨rfl, rfl⟩ := h
            obtain ⟨k, _, hk2, hk3⟩ := applyOpts_spec r a0
            obtain ⟨a'', e2⟩ := ih _ _ _ h2 g y b r' hy
            have hz := parseCat_head e2
            have e1 := parseAtom_mono ((parse_tail_all f).2.2 _ _ _ h1 (List.replicate k '?' ++ (b0.render ++ y)))
              (show f ≤ f + g by omega)
            have := parseCat_step e1
            rw [hk3 _ hz] at this
            simp only [e2] at this
            refine ⟨.cat (applyOpts a0 r).1 a'', ?_⟩
            have e : f + 1 + g = f + g + 1 := by omega
            simp only [Rx.render, hk2, List.append_assoc, e]
            exact this

/-- a text that `parseCat` reads completely as a sequence of items, whatever readable text follows, with a fuel bounded
    by four times its length -/
def Closed (t : List Char) : Prop :=
  ∃ n, n ≤ 4 * t.length ∧ ∀ (g : Nat) (y : List Char) (b : Rx) (r' : List Char), parseCat g y = some (b, r') →
    ∃ a, parseCat (n + g) (t ++ y) = some (a, r')

theorem closed_nil : Closed [] := ⟨0, by simp, fun g y b r' h => ⟨b, by simpa using h⟩⟩

theorem closed_append {t u : List Char} (ht : Closed t) (hu : Closed u) : Closed (t ++ u) := by
  obtain ⟨n, hn, ht⟩ := ht
  obtain ⟨m, hm, hu⟩ := hu
  refine ⟨n + m, by simp only [List.length_append]; omega, ?_⟩
  intro g y b r' h
  obtain ⟨a1, h1⟩ := hu g y b r' h
  obtain ⟨a2, h2⟩ := ht _ _ _ _ h1
  exact ⟨a2, by simpa [Nat.add_assoc] using h2⟩

/-- one literal character is a closed text -/
theorem closed_lit {c : Char} (hc : rxSpecial c = false) : Closed [c] := by
  refine ⟨1, by simp, ?_⟩
  intro g y b r' h
  have hz := parseCat_head h
  cases g with
  | zero => simp [parseCat] at h
  | succ g =>
    have hat : parseAtom (g + 1) (c :: y) = some (.chr c, y) := by
      have h1 : c ≠ '(' := by rintro rfl; simp [rxSpecial] at hc
      have h2 : c ≠ '[' := by rintro rfl; simp [rxSpecial] at hc
      rw [parseAtom]; simp [h1, h2, hc]
    have := parseCat_step hat
    rw [applyOpts_of_head _ hz] at this
    simp only [h] at this
    exact ⟨_, by simpa [Nat.add_comm] using this⟩

/-- the executable test: the text is empty, or `parseCat` with fuel `4 * length` reads it to the end -/
def closedChk (t : List Char) : Bool :=
  t.isEmpty || (match parseCat (4 * t.length) t with | some (_, []) => true | _ => false)

theorem closed_of_chk {t : List Char} (h : closedChk t = true) : Closed t := by
  unfold closedChk at h
  rw [Bool.or_eq_true] at h
  rcases h with h | h
  · have : t = [] := by simpa using h
    subst this; exact closed_nil
  · split at h
    · rename_i a heq
      have hr : a.render = t := by simpa using parseCat_render heq
      refine ⟨4 * t.length, Nat.le_refl _, ?_⟩
      intro g y b r' hy
      have := parseCat_append _ _ _ _ heq g y b r' hy
      rwa [hr] at this
    · simp at h

/-- non-vacuity: a group with `?` and a set are closed texts, an unbalanced one is not accepted by the test -/
example : Closed ['(', 'a', '|', 'b', ')', '?', '[', 'c', 'd', ']'] := closed_of_chk (by decide)
example : closedChk ['(', 'a'] = false := by decide

/-- a closed text is a whole expression for `parseRx` -/
theorem parseRx_of_closed {t : List Char} (h : Closed t) : (parseRx t).isSome = true := by
  obtain ⟨n, hn, h⟩ := h
  obtain ⟨a, ha⟩ := h 1 [] .eps [] (by simp [parseCat])
  rw [List.append_nil] at ha
  have h1 : parseCat (4 * t.length + 3) t = some (a, []) := parseCat_mono ha (by omega)
  have h2 : parseAlt (4 * t.length + 4) t = some (a, []) := by rw [parseAlt, h1]
  unfold parseRx
  rw [h2]; rfl

end Riti
