/-
Lemmas/Reph — helper lemmas about `rephScan` / `isRephMoveable` / `insertOldStyleReph`
(src/fixed/method.rs `insert_old_style_reph`, `is_reph_moveable`), used by Props/C13.
Everything here is on the REVERSED buffer (head = right-most code point).
-/
import RitiModel.Model.Fixed
namespace Riti
open Gen

/-! ### the character classes of the scan are pairwise disjoint -/

/-- no code point is both in the vowel table and in the pure-consonant table (`utility.rs`) -/
theorem vowelSet_disjoint_cons : vowelSet.all (fun n => !pureConsonantSet.contains n) = true := by decide

/-- a vowel (independent or sign) is never a pure consonant -/
theorem isVowel_not_cons {c : Char} (h : isVowel c = true) : isPureConsonant c = false := by
  have := List.all_eq_true.mp vowelSet_disjoint_cons c.toNat
  simp only [isVowel, isPureConsonant, List.contains_iff_mem] at *
  simpa using this h

/-- hasanta is not a pure consonant -/
theorem cons_hasanta : isPureConsonant cHasanta = false := by decide
/-- chandrabindu is not a pure consonant -/
theorem cons_chandra : isPureConsonant cChandra = false := by decide
/-- hasanta is not a vowel -/
theorem vowel_hasanta : isVowel cHasanta = false := by decide
/-- chandrabindu is not a vowel -/
theorem vowel_chandra : isVowel cChandra = false := by decide
/-- chandrabindu and hasanta are different code points -/
theorem chandra_ne_hasanta : (cChandra == cHasanta) = false := by decide
/-- U+0000 (`unwrap_or_default`) is not a pure consonant -/
theorem cons_nul : isPureConsonant '\x00' = false := by decide
/-- U+0000 (`unwrap_or_default`) is not a vowel -/
theorem vowel_nul : isVowel '\x00' = false := by decide
/-- U+0000 (`unwrap_or_default`) is not the chandrabindu -/
theorem nul_ne_chandra : ('\x00' == cChandra) = false := by decide

/-- a vowel is not the hasanta, so the scan's hasanta branch does not take it -/
theorem isVowel_ne_hasanta {c : Char} (h : isVowel c = true) : (c == cHasanta) = false := by
  cases hc : c == cHasanta with
  | false => rfl
  | true => rw [eq_of_beq hc, vowel_hasanta] at h; cases h

/-- a vowel is not the chandrabindu -/
theorem isVowel_ne_chandra {c : Char} (h : isVowel c = true) : (c == cChandra) = false := by
  cases hc : c == cChandra with
  | false => rfl
  | true => rw [eq_of_beq hc, vowel_chandra] at h; cases h

/-- a pure consonant is not the chandrabindu -/
theorem cons_ne_chandra {c : Char} (h : isPureConsonant c = true) : (c == cChandra) = false := by
  cases hc : c == cChandra with
  | false => rfl
  | true => rw [eq_of_beq hc, cons_chandra] at h; cases h

/-- a pure consonant is not the hasanta -/
theorem cons_ne_hasanta {c : Char} (h : isPureConsonant c = true) : (c == cHasanta) = false := by
  cases hc : c == cHasanta with
  | false => rfl
  | true => rw [eq_of_beq hc, cons_hasanta] at h; cases h

/-! ### the scan never runs past the buffer -/

/-- the number of code points the scan decides to move is at most what it has counted so far
    plus what is left to look at -/
theorem rephScan_le (rbuf : Str) : ∀ idx k v h ch step,
    rephScan rbuf idx k v h ch step ≤ step + rbuf.length := by
  induction rbuf with
  | nil => intros; simp [rephScan]
  | cons c cs ih =>
    intro idx k v h ch step
    simp only [rephScan, List.length_cons]
    repeat' split
    all_goals first
      | omega
      | exact Nat.le_trans (ih _ _ _ _ _ _) (by omega)

/-- the scan never un-counts -/
theorem le_rephScan (rbuf : Str) : ∀ idx k v h ch step,
    step ≤ rephScan rbuf idx k v h ch step := by
  induction rbuf with
  | nil => intros; simp [rephScan]
  | cons c cs ih =>
    intro idx k v h ch step
    simp only [rephScan]
    repeat' split
    all_goals first
      | omega
      | exact Nat.le_trans (by omega) (ih _ _ _ _ _ _)

/-! ### the syllable grammar (shape predicates are palindromic, so they serve both orientations) -/

/-- a conjunct: pure consonants joined by hasanta, `c (্ c)*` -/
def isConjunct : Str → Bool
  | [] => false
  | [c] => isPureConsonant c
  | c :: h :: rest => isPureConsonant c && h == cHasanta && isConjunct rest

/-- zero or one vowel (independent vowel or vowel sign) -/
def optVowel : Str → Bool
  | [] => true
  | [v] => isVowel v
  | _ => false

/-- zero or one chandrabindu -/
def optChandra : Str → Bool
  | [] => true
  | [c] => c == cChandra
  | _ => false

/-- a conjunct extended on the right by hasanta + consonant is a conjunct -/
theorem isConjunct_snoc (cj : Str) (h c : Char) (hh : h = cHasanta) (hc : isPureConsonant c = true) :
    isConjunct cj = true → isConjunct (cj ++ [h, c]) = true := by
  induction cj using isConjunct.induct with
  | case1 => simp [isConjunct]
  | case2 a => intro ha; simp_all [isConjunct]
  | case3 a b rest ih =>
    intro hab
    simp only [isConjunct, Bool.and_eq_true] at hab
    simp only [List.cons_append, isConjunct, Bool.and_eq_true]
    exact ⟨hab.1, ih hab.2⟩

/-- a conjunct read backwards is a conjunct -/
theorem isConjunct_reverse (cj : Str) : isConjunct cj = true → isConjunct cj.reverse = true := by
  induction cj using isConjunct.induct with
  | case1 => simp [isConjunct]
  | case2 a => simp [isConjunct]
  | case3 a b rest ih =>
    intro hab
    simp only [isConjunct, Bool.and_eq_true, beq_iff_eq] at hab
    have : (a :: b :: rest).reverse = rest.reverse ++ [b, a] := by simp
    rw [this]
    exact isConjunct_snoc _ _ _ hab.1.2 hab.1.1 (ih hab.2)

/-- a conjunct starts (and, by `isConjunct_reverse`, ends) with a pure consonant -/
theorem isConjunct_head {cj : Str} (h : isConjunct cj = true) :
    ∃ c cj', cj = c :: cj' ∧ isPureConsonant c = true := by
  cases cj with
  | nil => simp [isConjunct] at h
  | cons c cj' =>
    refine ⟨c, cj', rfl, ?_⟩
    cases cj' with
    | nil => simpa [isConjunct] using h
    | cons b r => simp only [isConjunct, Bool.and_eq_true] at h; exact h.1.1

/-- zero or one code point reads the same in both directions -/
theorem optVowel_reverse {vow : Str} (h : optVowel vow = true) : vow.reverse = vow := by
  match vow, h with
  | [], _ => rfl
  | [_], _ => rfl

/-- zero or one code point reads the same in both directions -/
theorem optChandra_reverse {chn : Str} (h : optChandra chn = true) : chn.reverse = chn := by
  match chn, h with
  | [], _ => rfl
  | [_], _ => rfl

/-! ### what the scan does on a syllable -/

/-- the scan walks over a whole (reversed) conjunct, counting every code point of it, provided it
    has not yet seen a consonant or has just seen a hasanta -/
theorem rephScan_conj (cj : Str) (rest : Str) : isConjunct cj = true →
    ∀ idx k v h ch step, (k && !h) = false →
      rephScan (cj ++ rest) idx k v h ch step =
        rephScan rest (idx + cj.length) true v false ch (step + cj.length) := by
  induction cj using isConjunct.induct with
  | case1 => simp [isConjunct]
  | case2 c =>
    intro hc idx k v h ch step hk
    simp only [isConjunct] at hc
    simp [rephScan, hc, hk]
  | case3 c b cj' ih =>
    intro hc idx k v h ch step hk
    simp only [isConjunct, Bool.and_eq_true, beq_iff_eq] at hc
    obtain ⟨⟨hc1, hb⟩, hc2⟩ := hc
    subst hb
    simp only [List.cons_append, rephScan, hc1, hk, cons_hasanta, if_true, beq_self_eq_true]
    simp only [Bool.false_eq_true, if_false]
    rw [ih hc2 _ _ _ _ _ _ (by simp)]
    simp only [List.length_cons]
    congr 1 <;> omega

/-- the code point to the left of the syllable at which the scan stops without counting it:
    `v` = a vowel has been counted, `ch` = a chandrabindu has been counted -/
def stopsAt (v ch : Bool) (rest : Str) : Bool :=
  match rest.head? with
  | none => true
  | some d => isPureConsonant d || d == cChandra || (isVowel d && (v || !ch))

/-- after a conjunct (consonant seen, no hasanta open, not at the right edge) the scan stops at a `stopsAt` code point without counting it -/
theorem rephScan_stop (rest : Str) (idx : Nat) (hidx : idx ≠ 0) (v ch : Bool) (step : Nat)
    (h : stopsAt v ch rest = true) : rephScan rest idx true v false ch step = step := by
  cases rest with
  | nil => rfl
  | cons d ds =>
    simp only [stopsAt, List.head?_cons, Bool.or_eq_true, Bool.and_eq_true] at h
    have hidx' : (idx == 0) = false := by simpa using hidx
    simp only [rephScan]
    by_cases hd : isPureConsonant d = true
    · simp [hd]
    · have hd' : isPureConsonant d = false := by simpa using hd
      simp only [hd', Bool.false_eq_true, if_false, false_or] at h ⊢
      rcases h with h | h
      · have := eq_of_beq h
        subst this
        simp [chandra_ne_hasanta, vowel_chandra, hidx']
      · obtain ⟨hv, hvc⟩ := h
        simp only [isVowel_ne_hasanta hv, Bool.false_eq_true, if_false, hv, if_true, hidx', Bool.false_or]
        cases v with
        | true => simp
        | false =>
          cases ch with
          | true => simp at hvc
          | false => simp

/-- on a buffer that ends (reversed: starts) with optional chandrabindu, optional vowel, conjunct,
    and then a code point at which the scan stops, the scan counts exactly the syllable -/
theorem rephScan_shape (chn vow cj rest : Str) (hchn : optChandra chn = true) (hvow : optVowel vow = true)
    (hcj : isConjunct cj = true) (hstop : stopsAt (!vow.isEmpty) (!chn.isEmpty) rest = true) :
    rephScan (chn ++ vow ++ cj ++ rest) 0 false false false false 0 =
      chn.length + vow.length + cj.length := by
  have hlen : 0 < cj.length := by
    obtain ⟨c, cj', rfl, _⟩ := isConjunct_head hcj; simp
  match chn, hchn, vow, hvow with
  | [], _, [], _ =>
    simp only [List.nil_append, List.length_nil, Nat.zero_add]
    rw [rephScan_conj cj rest hcj _ _ _ _ _ _ (by simp)]
    simpa using rephScan_stop rest (0 + cj.length) (by omega) _ _ _ hstop
  | [], _, [v], hv =>
    simp only [optVowel] at hv
    simp only [List.nil_append, List.cons_append, List.length_nil, List.length_cons, Nat.zero_add,
      rephScan, isVowel_not_cons hv, isVowel_ne_hasanta hv, hv]
    simp only [Bool.false_eq_true, if_false, if_true, beq_self_eq_true, Bool.true_or]
    rw [rephScan_conj cj rest hcj _ _ _ _ _ _ (by simp)]
    simpa using rephScan_stop rest (0 + 1 + cj.length) (by omega) _ _ _ hstop
  | [c], hc, [], _ =>
    simp only [optChandra, beq_iff_eq] at hc
    subst hc
    simp only [List.nil_append, List.cons_append, List.append_nil, List.length_nil, List.length_cons, Nat.zero_add,
      rephScan, cons_chandra, chandra_ne_hasanta, vowel_chandra]
    simp only [Bool.false_eq_true, if_false, if_true, beq_self_eq_true]
    rw [rephScan_conj cj rest hcj _ _ _ _ _ _ (by simp)]
    simpa using rephScan_stop rest (0 + 1 + cj.length) (by omega) _ _ _ hstop
  | [c], hc, [v], hv =>
    simp only [optChandra, beq_iff_eq] at hc
    subst hc
    simp only [optVowel] at hv
    simp only [List.nil_append, List.cons_append, List.length_nil, List.length_cons, Nat.zero_add,
      rephScan, cons_chandra, chandra_ne_hasanta, vowel_chandra, isVowel_not_cons hv, isVowel_ne_hasanta hv, hv]
    simp only [Bool.false_eq_true, if_false, if_true, beq_self_eq_true, Bool.or_true]
    rw [rephScan_conj cj rest hcj _ _ _ _ _ _ (by simp)]
    simpa using rephScan_stop rest (0 + 1 + 1 + cj.length) (by omega) _ _ _ hstop

/-- a buffer of that shape always lets the reph move -/
theorem isRephMoveable_shape (chn vow cj rest : Str) (hchn : optChandra chn = true) (hvow : optVowel vow = true)
    (hcj : isConjunct cj = true) : isRephMoveable (chn ++ vow ++ cj ++ rest) = true := by
  obtain ⟨k, cj', rfl, hk⟩ := isConjunct_head hcj
  match chn, hchn, vow, hvow with
  | [], _, [], _ => simp [isRephMoveable, cons_ne_chandra hk, hk]
  | [], _, [v], hv =>
    simp only [optVowel] at hv
    simp [isRephMoveable, isVowel_ne_chandra hv, hv, hk]
  | [c], hc, [], _ =>
    simp only [optChandra, beq_iff_eq] at hc
    subst hc
    simp [isRephMoveable, hk]
  | [c], hc, [v], hv =>
    simp only [optChandra, beq_iff_eq] at hc
    subst hc
    simp only [optVowel] at hv
    simp [isRephMoveable, hv, hk]

/-- drop one trailing (reversed: leading) chandrabindu -/
def dropChandra : Str → Str
  | [] => []
  | c :: rest => if c == cChandra then rest else c :: rest

/-- `is_reph_moveable` in words: after dropping one trailing chandrabindu the text ends in a pure
    consonant, or in a vowel preceded by a pure consonant -/
theorem isRephMoveable_iff (rbuf : Str) : isRephMoveable rbuf = true ↔
    (∃ c rest, dropChandra rbuf = c :: rest ∧ isPureConsonant c = true) ∨
    (∃ v c rest, dropChandra rbuf = v :: c :: rest ∧ isVowel v = true ∧ isPureConsonant c = true) := by
  have key : ∀ r : Str, (isPureConsonant (r.headD '\x00') || (isVowel (r.headD '\x00') && isPureConsonant ((r.drop 1).headD '\x00'))) = true ↔
      (∃ c rest, r = c :: rest ∧ isPureConsonant c = true) ∨
      (∃ v c rest, r = v :: c :: rest ∧ isVowel v = true ∧ isPureConsonant c = true) := by
    intro r
    match r with
    | [] => simp [cons_nul, vowel_nul]
    | [a] => simp [cons_nul]
    | a :: b :: r' =>
      simp only [List.headD_cons, List.drop_succ_cons, List.drop_zero, Bool.or_eq_true, Bool.and_eq_true,
        List.cons.injEq]
      constructor
      · rintro (h | ⟨h1, h2⟩)
        · exact Or.inl ⟨a, _, ⟨rfl, rfl⟩, h⟩
        · exact Or.inr ⟨a, b, r', ⟨rfl, rfl, rfl⟩, h1, h2⟩
      · rintro (⟨c, rest, ⟨rfl, _⟩, h⟩ | ⟨v, c, rest, ⟨rfl, rfl, _⟩, h1, h2⟩)
        · exact Or.inl h
        · exact Or.inr ⟨h1, h2⟩
  rw [← key]
  cases rbuf with
  | nil => simp [isRephMoveable, dropChandra, nul_ne_chandra]
  | cons a r =>
    simp only [isRephMoveable, dropChandra, List.headD_cons, List.drop_succ_cons, List.drop_zero]
    split <;> simp_all

/-! ### every moveable buffer has the syllable shape, with a maximal conjunct -/

/-- (reversed) the conjunct cannot be extended to the left: what precedes it is not
    "pure consonant, hasanta" -/
def rMaximal : Str → Bool
  | h :: k :: _ => !(h == cHasanta && isPureConsonant k)
  | _ => true

/-- a buffer whose right-most code point is a pure consonant ends in a maximal conjunct -/
theorem conj_extend (n : Nat) : ∀ (c : Char) (rest : Str), rest.length ≤ n → isPureConsonant c = true →
    ∃ cj rest', c :: rest = cj ++ rest' ∧ isConjunct cj = true ∧ rMaximal rest' = true := by
  induction n with
  | zero =>
    intro c rest hl hc
    have : rest = [] := List.eq_nil_of_length_eq_zero (by omega)
    subst this
    exact ⟨[c], [], rfl, by simpa [isConjunct] using hc, rfl⟩
  | succ n ih =>
    intro c rest hl hc
    by_cases hm : rMaximal rest = true
    · exact ⟨[c], rest, rfl, by simpa [isConjunct] using hc, hm⟩
    · match rest, hm, hl with
      | h :: k :: r, hm, hl =>
        have hm : (h == cHasanta && isPureConsonant k) = true := by simpa [rMaximal] using hm
        simp only [Bool.and_eq_true, beq_iff_eq] at hm
        obtain ⟨hh, hk⟩ := hm
        obtain ⟨cj, rest', he, hcj, hmx⟩ := ih k r (by simp at hl; omega) hk
        refine ⟨c :: h :: cj, rest', by simp [he], ?_, hmx⟩
        simp [isConjunct, hc, hh, hcj]
      | [], hm, _ => simp [rMaximal] at hm
      | [_], hm, _ => simp [rMaximal] at hm

/-- `dropChandra` removes an optional chandrabindu from the right end and nothing else -/
theorem dropChandra_spec (rbuf : Str) : ∃ chn, optChandra chn = true ∧ rbuf = chn ++ dropChandra rbuf := by
  cases rbuf with
  | nil => exact ⟨[], rfl, rfl⟩
  | cons a r =>
    by_cases h : (a == cChandra) = true
    · exact ⟨[a], by simpa [optChandra] using h, by simp [dropChandra, h]⟩
    · exact ⟨[], rfl, by simp [dropChandra, h]⟩

/-- `is_reph_moveable` says yes exactly on the buffers that end (reversed: start) with optional
    chandrabindu, optional vowel, and a conjunct — which can then be taken maximal -/
theorem isRephMoveable_iff_shape (rbuf : Str) : isRephMoveable rbuf = true ↔
    ∃ chn vow cj rest, rbuf = chn ++ vow ++ cj ++ rest ∧ optChandra chn = true ∧ optVowel vow = true ∧
      isConjunct cj = true ∧ rMaximal rest = true := by
  constructor
  · intro h
    obtain ⟨chn, hchn, hr⟩ := dropChandra_spec rbuf
    rcases (isRephMoveable_iff rbuf).mp h with ⟨c, rest, hd, hc⟩ | ⟨v, c, rest, hd, hv, hc⟩
    · obtain ⟨cj, rest', he, hcj, hmx⟩ := conj_extend rest.length c rest (Nat.le_refl _) hc
      exact ⟨chn, [], cj, rest', by rw [hr, hd, he]; simp, hchn, rfl, hcj, hmx⟩
    · obtain ⟨cj, rest', he, hcj, hmx⟩ := conj_extend rest.length c rest (Nat.le_refl _) hc
      exact ⟨chn, [v], cj, rest', by rw [hr, hd, he]; simp, hchn, by simpa [optVowel] using hv, hcj, hmx⟩
  · rintro ⟨chn, vow, cj, rest, rfl, hchn, hvow, hcj, _⟩
    exact isRephMoveable_shape chn vow cj rest hchn hvow hcj

end Riti
