/-
Lemmas/Sort — comparator-agnostic facts about the model's stable insertion sort (`sortStable`),
`push_checked` and duplicate-freeness, used by C07 (and reusable by C15, C18).
Nothing here assumes that `Rank.cmp` is transitive: every lemma states exactly which comparisons
it needs, so the facts survive the known non-transitivity of `impl Ord for Rank`.
-/
import RitiModel.Model.Rank
import RitiModel.Lemmas.Rank
import RitiModel.Model.Phonetic
import RitiModel.Lemmas.Phonetic
namespace Riti
open Gen

/-! ### `natCmp` -/

@[simp] theorem natCmp_eq_lt (a b : Nat) : natCmp a b = .lt ↔ a < b := by
  unfold natCmp
  by_cases h1 : a < b
  · simp [h1]
  · by_cases h2 : a = b <;> simp [h1, h2]

/-- `u8::cmp` is `Equal` exactly on equal numbers -/
@[simp] theorem natCmp_eq_eq (a b : Nat) : natCmp a b = .eq ↔ a = b := by
  unfold natCmp
  by_cases h1 : a < b
  · simp [h1]; omega
  · by_cases h2 : a = b <;> simp [h1, h2]

/-- `u8::cmp` is `Greater` exactly when the first number is larger -/
@[simp] theorem natCmp_eq_gt (a b : Nat) : natCmp a b = .gt ↔ b < a := by
  unfold natCmp
  by_cases h1 : a < b
  · simp [h1]; omega
  · by_cases h2 : a = b <;> simp [h1, h2] <;> omega

/-! ### insertion -/

theorem mem_insertSortedFront {x y : Rank} {l : List Rank} :
    y ∈ sortStable.insertSortedFront x l ↔ y = x ∨ y ∈ l := by
  simpa using (insertSortedFront_perm x l).mem_iff

/-- inserting into a list that is `R`-sorted keeps it `R`-sorted, provided `R` agrees with the two
    outcomes of the comparison made by the insertion loop and is transitive from `x` on -/
theorem insertSortedFront_pairwise {R : Rank → Rank → Prop} (x : Rank) (S : List Rank)
    (hS : S.Pairwise R)
    (htrans : ∀ b ∈ S, ∀ c ∈ S, R x b → R b c → R x c)
    (hlt : ∀ y ∈ S, y.cmp x = .lt → R y x)
    (hstop : ∀ y ∈ S, y.cmp x ≠ .lt → R x y) :
    (sortStable.insertSortedFront x S).Pairwise R := by
  induction S with
  | nil => simp [sortStable.insertSortedFront]
  | cons y ys ih =>
    simp only [sortStable.insertSortedFront]
    rw [List.pairwise_cons] at hS
    split
    · rename_i h
      have h' : y.cmp x = .lt := by simpa using h
      rw [List.pairwise_cons]
      refine ⟨?_, ih hS.2
        (fun b hb c hc => htrans b (List.mem_cons_of_mem _ hb) c (List.mem_cons_of_mem _ hc))
        (fun z hz => hlt z (List.mem_cons_of_mem _ hz))
        (fun z hz => hstop z (List.mem_cons_of_mem _ hz))⟩
      intro z hz
      rcases mem_insertSortedFront.mp hz with rfl | hz
      · exact hlt y (by simp) h'
      · exact hS.1 z hz
    · rename_i h
      have h' : y.cmp x ≠ .lt := by simpa using h
      have hxy := hstop y (by simp) h'
      rw [List.pairwise_cons]
      refine ⟨?_, List.pairwise_cons.mpr hS⟩
      intro z hz
      rcases List.mem_cons.mp hz with rfl | hz
      · exact hxy
      · exact htrans y (by simp) z (List.mem_cons_of_mem _ hz) hxy (hS.1 z hz)

/-- the sort produces an `R`-sorted list for every relation `R` that (on the members of the input)
    is transitive, contains "strictly less", and contains "`b` not strictly less than `a`" for
    `a` before `b` in the input.  (No transitivity of `Rank.cmp` itself is assumed.) -/
theorem sortStable_pairwise {R : Rank → Rank → Prop} (l : List Rank)
    (htrans : ∀ a ∈ l, ∀ b ∈ l, ∀ c ∈ l, R a b → R b c → R a c)
    (hlt : ∀ a ∈ l, ∀ b ∈ l, a.cmp b = .lt → R a b)
    (hstop : l.Pairwise (fun a b => b.cmp a ≠ .lt → R a b)) :
    (sortStable l).Pairwise R := by
  induction l with
  | nil => simp [sortStable]
  | cons x xs ih =>
    simp only [sortStable]
    rw [List.pairwise_cons] at hstop
    have hm : ∀ {y}, y ∈ sortStable xs → y ∈ x :: xs := fun h => List.mem_cons_of_mem _ (mem_sortStable.mp h)
    apply insertSortedFront_pairwise
    · exact ih (fun a ha b hb c hc => htrans a (List.mem_cons_of_mem _ ha) b (List.mem_cons_of_mem _ hb)
        c (List.mem_cons_of_mem _ hc))
        (fun a ha b hb => hlt a (List.mem_cons_of_mem _ ha) b (List.mem_cons_of_mem _ hb)) hstop.2
    · exact fun b hb c hc => htrans x (by simp) b (hm hb) c (hm hc)
    · exact fun y hy => hlt y (hm hy) x (by simp)
    · exact fun y hy => hstop.1 y (mem_sortStable.mp hy)

/-- insertion keeps the order of a class none of whose members is strictly below `x` -/
theorem insertSortedFront_filter (p : Rank → Bool) (x : Rank) (S : List Rank)
    (h : p x = true → ∀ y ∈ S, p y = true → y.cmp x ≠ .lt) :
    (sortStable.insertSortedFront x S).filter p = (x :: S).filter p := by
  induction S with
  | nil => simp [sortStable.insertSortedFront]
  | cons y ys ih =>
    simp only [sortStable.insertSortedFront]
    split
    · rename_i hlt
      have hlt' : y.cmp x = .lt := by simpa using hlt
      have ih' := ih (fun hx z hz => h hx z (List.mem_cons_of_mem _ hz))
      rw [List.filter_cons, ih']
      cases hpx : p x <;> cases hpy : p y <;> simp [hpx, hpy]
      exact absurd hlt' (h hpx y (by simp) hpy)
    · rfl

/-- the sort keeps the input order of any class `p` of items none of which is strictly below an
    earlier one: this is *stability*, stated without assuming a preorder -/
theorem sortStable_filter (p : Rank → Bool) (l : List Rank)
    (h : l.Pairwise (fun a b => p a = true → p b = true → b.cmp a ≠ .lt)) :
    (sortStable l).filter p = l.filter p := by
  induction l with
  | nil => simp [sortStable]
  | cons x xs ih =>
    rw [List.pairwise_cons] at h
    simp only [sortStable]
    rw [insertSortedFront_filter p x _ (fun hx y hy hpy => h.1 y (mem_sortStable.mp hy) hx hpy)]
    simp only [List.filter_cons, ih h.2]

/-- an item that nothing else is strictly below stays in front -/
theorem sortStable_cons_min (x : Rank) (l : List Rank) (h : ∀ y ∈ l, y.cmp x ≠ .lt) :
    sortStable (x :: l) = x :: sortStable l := by
  simp only [sortStable]
  cases hs : sortStable l with
  | nil => rfl
  | cons y ys =>
    have hy : y ∈ l := mem_sortStable.mp (by rw [hs]; simp)
    simp [sortStable.insertSortedFront, h y hy]

/-- an insertion never passes a final item that is not strictly below the inserted one -/
theorem insertSortedFront_append_max (a x : Rank) (S : List Rank) (h : x.cmp a ≠ .lt) :
    sortStable.insertSortedFront a (S ++ [x]) = sortStable.insertSortedFront a S ++ [x] := by
  induction S with
  | nil => simp [sortStable.insertSortedFront, h]
  | cons y ys ih =>
    simp only [List.cons_append, sortStable.insertSortedFront]
    split
    · rw [ih]; rfl
    · rfl

/-- a final item that is strictly below nothing stays at the end -/
theorem sortStable_append_max (x : Rank) (l : List Rank) (h : ∀ y ∈ l, x.cmp y ≠ .lt) :
    sortStable (l ++ [x]) = sortStable l ++ [x] := by
  induction l with
  | nil => rfl
  | cons a as ih =>
    simp only [List.cons_append, sortStable]
    rw [ih (fun y hy => h y (List.mem_cons_of_mem _ hy))]
    exact insertSortedFront_append_max a x _ (h a (by simp))

/-- in an `R`-sorted list, an item that may not stand after another one stands before it -/
theorem index_lt_of_pairwise {α : Type} {R : α → α → Prop} {l : List α} (h : l.Pairwise R)
    {i j : Nat} (hi : i < l.length) (hj : j < l.length) (hne : i ≠ j) (hnot : ¬ R l[j] l[i]) : i < j := by
  rcases Nat.lt_trichotomy i j with h1 | h1 | h1
  · exact h1
  · exact absurd h1 hne
  · exact absurd (List.pairwise_iff_getElem.mp h j i hj hi h1) hnot

/-! ### `push_checked` and duplicate-free texts -/

theorem text_mem_of_any {v : List Rank} {r : Rank} :
    v.any (fun x => x.sameText r) = true ↔ r.text ∈ v.map Rank.text := by
  simp [List.any_eq_true, Rank.sameText]

/-- `push_checked` never creates a second item with the same text -/
theorem nodup_pushChecked {v : List Rank} (r : Rank) (h : (v.map Rank.text).Nodup) :
    ((pushChecked v r).map Rank.text).Nodup := by
  unfold pushChecked
  split
  · exact h
  · rename_i hn
    have hn' : r.text ∉ v.map Rank.text := fun hm => hn (text_mem_of_any.mpr hm)
    rw [List.map_append, List.nodup_append]
    refine ⟨h, by simp, ?_⟩
    intro a ha b hb
    simp at hb
    subst hb
    intro he; subst he; exact hn' ha

/-- a run of `push_checked` calls never creates a second item with the same text -/
theorem nodup_foldl_pushChecked (l v : List Rank) (h : (v.map Rank.text).Nodup) :
    ((l.foldl pushChecked v).map Rank.text).Nodup := by
  induction l generalizing v with
  | nil => exact h
  | cons x xs ih => exact ih _ (nodup_pushChecked x h)

/-- a run of `push_checked` calls only appends -/
theorem foldl_pushChecked_prefix (l v : List Rank) : v <+: l.foldl pushChecked v := by
  induction l generalizing v with
  | nil => exact List.prefix_refl _
  | cons x xs ih =>
    unfold pushChecked
    simp only [List.foldl_cons]
    split
    · exact ih v
    · exact (List.prefix_append _ _).trans (ih _)

/-- a run of `push_checked` calls adds only items that were pushed -/
theorem mem_foldl_pushChecked {l v : List Rank} {x : Rank} (h : x ∈ l.foldl pushChecked v) : x ∈ v ∨ x ∈ l := by
  induction l generalizing v with
  | nil => exact Or.inl h
  | cons y ys ih =>
    rcases ih h with h1 | h1
    · rcases mem_pushChecked h1 with h2 | h2
      · exact Or.inl h2
      · exact Or.inr (by simp [h2])
    · exact Or.inr (List.mem_cons_of_mem _ h1)

/-! ### where the items of the unsorted candidate list come from -/

/-- `r` carries the class and number of an item stored in the memo (its text may be suffix-built
    and wrapped): suffix-built words inherit the rank of their base -/
def FromMemo (cache : Memo) (r : Rank) : Prop :=
  ∃ k e b, alookup cache k = some e ∧ b ∈ e ∧ r.variant = b.variant ∧ r.num = b.num

/-- a suffix-built candidate is a memo item of the base key with the joined text -/
theorem mem_suffixedAt {env : Env} {cache : Memo} {ks : Str × Str} {r : Rank}
    (hr : r ∈ suffixedAt env cache ks) :
    ∃ sfx e b, env.suffix ks.2 = some sfx ∧ alookup cache ks.1 = some e ∧ b ∈ e ∧
      joinChecked b.text sfx = some r.text ∧ r = b.setText r.text := by
  unfold suffixedAt at hr
  split at hr
  · simp at hr
  · rename_i sfx hs
    split at hr
    · simp at hr
    · rename_i e he
      rw [List.mem_filterMap] at hr
      obtain ⟨b, hb, hbr⟩ := hr
      cases hj : joinChecked b.text sfx with
      | none => simp [hj] at hbr
      | some j =>
        simp [hj] at hbr
        subst hbr
        exact ⟨sfx, e, b, hs, he, hb, by simp [hj], by simp⟩

/-- every candidate of `add_suffix_to_suggestions` carries class and number of a memo item -/
theorem mem_addSuffix {env : Env} {cache : Memo} {w : Str} {r : Rank} (h : r ∈ addSuffix env cache w) :
    FromMemo cache r := by
  have hbase : ∀ r, r ∈ (alookup cache w).getD [] → FromMemo cache r := by
    intro r hr
    cases hc : alookup cache w with
    | none => simp [hc] at hr
    | some e => exact ⟨w, e, r, hc, by simpa [hc] using hr, rfl, rfl⟩
  unfold addSuffix at h
  simp only at h
  split at h
  · rcases List.mem_append.mp h with h | h
    · exact hbase r h
    · obtain ⟨ks, _, hks⟩ := List.mem_flatMap.mp h
      obtain ⟨sfx, e, b, _, he, hb, _, hrb⟩ := mem_suffixedAt hks
      exact ⟨ks.1, e, b, he, hb, by rw [hrb]; simp, by rw [hrb]; simp⟩
  · exact hbase r h

/-- wrapping changes the text only -/
theorem mem_wrapAll {parts : Parts} {l : List Rank} {r : Rank} (h : r ∈ wrapAll parts l) :
    ∃ r0 ∈ l, r.variant = r0.variant ∧ r.num = r0.num ∧ r.text = wrapText parts.pre parts.trail r0.text := by
  unfold wrapAll at h
  split at h
  · obtain ⟨r0, h0, rfl⟩ := List.mem_map.mp h
    exact ⟨r0, h0, by simp, by simp, by simp⟩
  · rename_i hne
    simp at hne
    exact ⟨r, h, rfl, rfl, by simp [wrapText, hne.1, hne.2]⟩

/-- an item of `suggestion_with_dict` comes from the memo or is the transliteration (`Last _ 2`) -/
theorem mem_dictList {env : Env} {cache : Memo} {parts : Parts} {r : Rank} (h : r ∈ dictList env cache parts) :
    FromMemo cache r ∨ (r.variant = .last ∧ r.num = 2) := by
  unfold dictList at h
  obtain ⟨r0, h0, hv, hn, _⟩ := mem_wrapAll h
  rcases mem_pushChecked h0 with h1 | h1
  · rcases mem_foldl_pushChecked h1 with h2 | h2
    · simp at h2
    · obtain ⟨k, e, b, he, hb, hv', hn'⟩ := mem_addSuffix h2
      exact Or.inl ⟨k, e, b, he, hb, hv.trans hv', hn.trans hn'⟩
  · subst h1
    exact Or.inr ⟨hv, hn⟩

/-- the emoji stage adds only emoji numbered from 1 and the typed emoticon text (`Last _ 1`) -/
theorem mem_emojiStage {env : Env} {cfg : Cfg} {term : Str} {parts : Parts} {l : List Rank} {r : Rank}
    (h : r ∈ (emojiStage env cfg term parts l).1) :
    r ∈ l ∨ (r.variant = .emoji ∧ 1 ≤ r.num) ∨ r = .last term 1 := by
  unfold emojiStage at h
  split at h
  · exact Or.inl h
  · split at h
    · rcases List.mem_append.mp h with h | h
      · split at h
        · rcases mem_pushChecked h with h | h
          · exact Or.inl h
          · exact Or.inr (Or.inr h)
        · exact Or.inl h
      · simp at h; subst h
        exact Or.inr (Or.inl ⟨rfl, by simp [Rank.num, emojiDefaultRank]⟩)
    · split at h
      · rcases List.mem_append.mp h with h | h
        · exact Or.inl h
        · obtain ⟨p, hp, rfl⟩ := List.mem_map.mp h
          exact Or.inr (Or.inl ⟨rfl, List.le_snd_of_mem_zipIdx hp⟩)
      · exact Or.inl h

/-- an item of the unsorted list is a dictionary-stage item, an emoji numbered from 1, the typed
    emoticon text (`Last _ 1`) or the raw English text (`Last _ 3`) -/
theorem mem_addExtras {env : Env} {cfg : Cfg} {term : Str} {parts : Parts} {l : List Rank} {r : Rank}
    (h : r ∈ addExtras env cfg term parts l) :
    r ∈ l ∨ (r.variant = .emoji ∧ 1 ≤ r.num) ∨ r = .last term 1 ∨ r = .last term 3 := by
  unfold addExtras at h
  simp only at h
  split at h
  · rcases mem_pushChecked h with h | h
    · rcases mem_emojiStage h with h | h | h
      · exact Or.inl h
      · exact Or.inr (Or.inl h)
      · exact Or.inr (Or.inr (Or.inl h))
    · exact Or.inr (Or.inr (Or.inr h))
  · rcases mem_emojiStage h with h | h | h
    · exact Or.inl h
    · exact Or.inr (Or.inl h)
    · exact Or.inr (Or.inr (Or.inl h))

/-- a memo all of whose stored items are auto-correct (`First`) or dictionary (`Other`) items — what
    `computeEntry` stores -/
def MemoClean (cache : Memo) : Prop :=
  ∀ k e, alookup cache k = some e → ∀ r ∈ e, r.variant = .first ∨ r.variant = .other

/-- the empty memo is clean -/
theorem memoClean_nil : MemoClean [] := by
  intro k e h; simp [alookup] at h

/-- a computed memo entry holds only the auto-correct item and dictionary words -/
theorem computeEntry_clean (env : Env) (ua : Store) (w : Str) :
    ∀ r ∈ computeEntry env ua w, r.variant = .first ∨ r.variant = .other := by
  intro r hr
  unfold computeEntry at hr
  simp only at hr
  rcases List.mem_append.mp hr with h | h
  · split at h
    · simp at h; subst h; exact Or.inl rfl
    · simp at h
  · obtain ⟨s, _, rfl⟩ := List.mem_map.mp h
    exact Or.inr rfl

/-- look-up after insert: the inserted value at the key, the old binding elsewhere -/
theorem alookup_ainsert {β : Type} (c : List (Str × β)) (k k' : Str) (v : β) :
    alookup (ainsert c k v) k' = if k == k' then some v else alookup c k' := by
  induction c with
  | nil => simp [ainsert, alookup]
  | cons p rest ih =>
    obtain ⟨k0, v0⟩ := p
    simp only [ainsert]
    by_cases h0 : k0 = k
    · subst h0; simp only [alookup, beq_self_eq_true, if_true]; split <;> simp_all
    · by_cases h1 : k = k'
      · subst h1; simp [alookup, h0, ih]
      · simp [alookup, h0, ih, h1]

/-- filling the memo for a word keeps it clean: so every memo reachable from the empty one is clean -/
theorem memoClean_fill (env : Env) (ua : Store) (cache : Memo) (w : Str) (h : MemoClean cache) :
    MemoClean (memoFill env ua cache w) := by
  unfold memoFill
  split
  · exact h
  · intro k e he
    rw [alookup_ainsert] at he
    split at he
    · injection he with he; subst he; exact computeEntry_clean env ua w
    · exact h k e he

end Riti
