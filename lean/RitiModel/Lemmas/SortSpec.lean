/-
Lemmas/SortSpec — the list-level facts behind Props/SortSpec: a sorted, stable rearrangement of a
list under `Rank.cmp` is unique and is what the model's insertion sort (`sortStable`) returns; two
sorted rearrangements agree position by position up to ties.  Everything is stated with the raw
predicates (`List.Pairwise`, `List.filter`); Props/SortSpec gives them names.
Only reflexivity and antisymmetry of `Rank.cmp` (true of ALL ranks) are used for uniqueness;
transitivity on the members of the list (`CmpTransOn`) is used only for existence and for ties.
-/
import RitiModel.Model.Rank
import RitiModel.Lemmas.Rank
import RitiModel.Lemmas.Sort
import RitiModel.Props.C07
namespace Riti
open Gen Riti.C07

/-! ### the comparator: the universal laws and the one that is not universal -/

/-- `≤` of `impl Ord for Rank` is transitive on the members of `l` — the only `Ord` law that
    `Rank` can break (reflexivity, antisymmetry, totality hold for all ranks: `C07.cmp_refl`,
    `C07.cmp_lt_iff_gt`, `C07.cmp_eq_symm`, `C07.le_total`) -/
def CmpTransOn (l : List Rank) : Prop :=
  ∀ a ∈ l, ∀ b ∈ l, ∀ c ∈ l, a.cmp b ≠ .gt → b.cmp c ≠ .gt → a.cmp c ≠ .gt

/-- `Rank.le` is "the comparison is not `Greater`" -/
theorem Rank.le_iff_ne_gt (a b : Rank) : a.le b = true ↔ a.cmp b ≠ .gt := by
  simp [Rank.le]

/-- a separated list (the hypothesis of the C07 theorems) has a transitive comparator -/
theorem cmpTransOn_of_separated {l : List Rank} (h : RanksSeparated l) : CmpTransOn l := by
  intro a ha b hb c hc hab hbc
  exact (Rank.le_iff_ne_gt a c).mp
    (le_trans_of_separated h ha hb hc ((Rank.le_iff_ne_gt a b).mpr hab) ((Rank.le_iff_ne_gt b c).mpr hbc))

/-- transitivity is inherited by every list with fewer members -/
theorem CmpTransOn.of_subset {l l' : List Rank} (h : CmpTransOn l) (hs : ∀ x ∈ l', x ∈ l) : CmpTransOn l' :=
  fun a ha b hb c hc => h a (hs a ha) b (hs b hb) c (hs c hc)

/-- two ranks each not `Greater` than the other compare `Equal` (antisymmetry, all ranks) -/
theorem cmp_eq_of_not_gt_both {a b : Rank} (h1 : a.cmp b ≠ .gt) (h2 : b.cmp a ≠ .gt) : a.cmp b = .eq := by
  cases h : a.cmp b
  · exact absurd ((cmp_lt_iff_gt a b).mp h) h2
  · rfl
  · exact absurd h h1

/-- "not `Less`" one way round is "not `Greater`" the other way round (all ranks) -/
theorem cmp_ne_lt_iff_ne_gt (a b : Rank) : a.cmp b ≠ .lt ↔ b.cmp a ≠ .gt :=
  not_congr (cmp_lt_iff_gt a b)

/-- on a list with transitive `≤`, `Equal` is transitive -/
theorem CmpTransOn.eq_trans {l : List Rank} (ht : CmpTransOn l) {a b c : Rank}
    (ha : a ∈ l) (hb : b ∈ l) (hc : c ∈ l) (hab : a.cmp b = .eq) (hbc : b.cmp c = .eq) : a.cmp c = .eq := by
  apply cmp_eq_of_not_gt_both
  · exact ht a ha b hb c hc (by simp [hab]) (by simp [hbc])
  · exact ht c hc b hb a ha (by simp [(cmp_eq_symm b c).mp hbc]) (by simp [(cmp_eq_symm a b).mp hab])

/-- on a list with transitive `≤`: strictly below something that is `≤ b` is strictly below `b` -/
theorem CmpTransOn.lt_of_lt_of_le {l : List Rank} (ht : CmpTransOn l) {y a b : Rank}
    (hy : y ∈ l) (ha : a ∈ l) (hb : b ∈ l) (hya : y.cmp a = .lt) (hab : a.cmp b ≠ .gt) : y.cmp b = .lt := by
  apply Classical.byContradiction
  intro hn
  have hby : b.cmp y ≠ .gt := (cmp_ne_lt_iff_ne_gt y b).mp hn
  exact ht a ha b hb y hy hab hby ((cmp_lt_iff_gt y a).mp hya)

/-! ### existence: the model's sort is sorted and stable when `≤` is transitive on the list -/

/-- with a transitive comparator the model's sort returns an ascending list -/
theorem sortStable_sorted_of_trans {l : List Rank} (ht : CmpTransOn l) :
    (sortStable l).Pairwise (fun a b => a.cmp b ≠ .gt) := by
  apply sortStable_pairwise
  · exact ht
  · intro a _ b _ h; simp [h]
  · exact List.pairwise_of_forall_mem_list (fun a _ b _ h => (cmp_ne_lt_iff_ne_gt b a).mp h)

/-- with a transitive comparator the model's sort keeps the input order inside the tie class of
    every member `x` of the list -/
theorem sortStable_stable_of_trans {l : List Rank} (ht : CmpTransOn l) (x : Rank) (hx : x ∈ l) :
    (sortStable l).filter (fun y => y.cmp x == .eq) = l.filter (fun y => y.cmp x == .eq) := by
  apply sortStable_filter
  apply List.pairwise_of_forall_mem_list
  intro a ha b hb hax hbx
  have hax' : a.cmp x = .eq := by simpa using hax
  have hbx' : b.cmp x = .eq := by simpa using hbx
  have := ht.eq_trans hb hx ha hbx' ((cmp_eq_symm a x).mp hax')
  simp [this]

/-! ### uniqueness: no transitivity needed -/

/-- two ascending rearrangements of the same items in which every tie class stands in the same
    order are the same list.  Uses only reflexivity and antisymmetry of the comparator, so it holds
    for ALL rank lists. -/
theorem eq_of_perm_sorted_sameClasses : ∀ (l₁ l₂ : List Rank), l₁.Perm l₂ →
    l₁.Pairwise (fun a b => a.cmp b ≠ .gt) → l₂.Pairwise (fun a b => a.cmp b ≠ .gt) →
    (∀ x ∈ l₁, l₁.filter (fun y => y.cmp x == .eq) = l₂.filter (fun y => y.cmp x == .eq)) → l₁ = l₂
  | [], l₂, hp, _, _, _ => by simpa using hp.symm
  | a :: t₁, [], hp, _, _, _ => by simp at hp
  | a :: t₁, b :: t₂, hp, h1, h2, hf => by
    have hab : a = b := by
      have am : a ∈ b :: t₂ := hp.subset (by simp)
      have bm : b ∈ a :: t₁ := hp.symm.subset (by simp)
      rcases List.mem_cons.mp am with h | am
      · exact h
      rcases List.mem_cons.mp bm with h | bm
      · exact h.symm
      have h_ab := (List.pairwise_cons.mp h1).1 b bm
      have h_ba := (List.pairwise_cons.mp h2).1 a am
      have he : b.cmp a = .eq := cmp_eq_of_not_gt_both h_ba h_ab
      have := hf a (by simp)
      simp only [List.filter_cons, cmp_refl, he, beq_self_eq_true, if_true] at this
      exact (List.cons.inj this).1
    subst hab
    congr 1
    apply eq_of_perm_sorted_sameClasses t₁ t₂ hp.cons_inv (List.pairwise_cons.mp h1).2
      (List.pairwise_cons.mp h2).2
    intro x hx
    have := hf x (List.mem_cons_of_mem _ hx)
    simp only [List.filter_cons] at this
    split at this
    · exact (List.cons.inj this).2
    · exact this

/-! ### every stable sort is the model's — again without transitivity -/

/-- the insertion loop walks past a run of strictly smaller items and stops at the first item
    that is not strictly smaller -/
theorem insertSortedFront_append (x : Rank) (A B : List Rank) (hA : ∀ y ∈ A, y.cmp x = .lt)
    (hB : ∀ b, B.head? = some b → b.cmp x ≠ .lt) :
    sortStable.insertSortedFront x (A ++ B) = A ++ x :: B := by
  induction A with
  | nil =>
    cases B with
    | nil => rfl
    | cons b B' => simp [sortStable.insertSortedFront, hB b rfl]
  | cons y ys ih =>
    simp only [List.cons_append, sortStable.insertSortedFront, hA y (by simp), beq_self_eq_true, if_true]
    rw [ih (fun z hz => hA z (List.mem_cons_of_mem _ hz))]

/-- if a filtered list with `x` in the middle starts with `x`, nothing before `x` passed the filter -/
theorem filter_prefix_nil {p : Rank → Bool} {x : Rank} {A R S : List Rank} (hx : x ∉ A)
    (h : A.filter p ++ x :: R = x :: S) : A.filter p = [] ∧ R = S := by
  cases hA : A.filter p with
  | nil => rw [hA] at h; exact ⟨rfl, (List.cons.inj h).2⟩
  | cons z zs =>
    rw [hA] at h
    have hz : z = x := (List.cons.inj h).1
    have : z ∈ A.filter p := by rw [hA]; simp
    exact absurd (hz ▸ (List.mem_filter.mp this).1) hx

/-- ANY list that is a rearrangement of `l`, ascending, and keeps every tie class of a member of
    `l` in input order is the list the model's insertion sort returns — for every `l`, transitive
    comparator or not.  (If the comparator is not transitive on `l` such a list may not exist.) -/
theorem eq_sortStable_of_sorted_stable : ∀ (l l' : List Rank), l'.Perm l →
    l'.Pairwise (fun a b => a.cmp b ≠ .gt) →
    (∀ x ∈ l, l'.filter (fun y => y.cmp x == .eq) = l.filter (fun y => y.cmp x == .eq)) →
    l' = sortStable l
  | [], l', hp, _, _ => by simpa [sortStable] using hp
  | x :: xs, l', hp, hs, hf => by
    have hxm : x ∈ l' := hp.symm.subset (by simp)
    obtain ⟨A, B, rfl, hxA⟩ := List.eq_append_cons_of_mem hxm
    have hpAB : (A ++ B).Perm xs := (List.perm_middle.symm.trans hp).cons_inv
    have hsAB : (A ++ B).Pairwise (fun a b => a.cmp b ≠ .gt) :=
      hs.sublist (List.Sublist.append_left (List.sublist_cons_self x B) A)
    rw [List.pairwise_append] at hs
    obtain ⟨_, hsB, hsAxB⟩ := hs
    -- nothing in front of `x` is tied with `x`: `x` is the first of its class in the input
    have hx0 := hf x (by simp)
    simp only [List.filter_append, List.filter_cons, cmp_refl, beq_self_eq_true, if_true] at hx0
    have hAx : A.filter (fun y => y.cmp x == .eq) = [] := (filter_prefix_nil hxA hx0).1
    -- the rest is a stable sort of the rest
    have hfAB : ∀ y ∈ xs, (A ++ B).filter (fun z => z.cmp y == .eq) = xs.filter (fun z => z.cmp y == .eq) := by
      intro y hy
      have := hf y (List.mem_cons_of_mem _ hy)
      simp only [List.filter_append, List.filter_cons] at this ⊢
      split at this
      · obtain ⟨h1, h2⟩ := filter_prefix_nil hxA this
        rw [h1, h2]; rfl
      · exact this
    have ih := eq_sortStable_of_sorted_stable xs (A ++ B) hpAB hsAB hfAB
    simp only [sortStable]
    rw [← ih]
    symm
    apply insertSortedFront_append
    · intro y hy
      have h1 : y.cmp x ≠ .gt := hsAxB y hy x (by simp)
      have h2 : y.cmp x ≠ .eq := by
        intro he
        have : y ∈ A.filter (fun y => y.cmp x == .eq) := List.mem_filter.mpr ⟨hy, by simp [he]⟩
        rw [hAx] at this
        simp at this
      cases h : y.cmp x
      · rfl
      · exact absurd h h2
      · exact absurd h h1
    · intro b hb
      have hbB : b ∈ B := List.mem_of_mem_head? hb
      exact (cmp_ne_lt_iff_ne_gt b x).mpr ((List.pairwise_cons.mp hsB).1 b hbB)

/-! ### ties: the position of a tie class -/

/-- the number of items of `l` strictly below `r`: the index at which the tie class of `r` starts
    in every ascending rearrangement of `l` -/
def tieRank (l : List Rank) (r : Rank) : Nat := l.countP (fun y => y.cmp r == .lt)

/-- `tieRank` does not depend on the order of the list -/
theorem tieRank_perm {l l' : List Rank} (h : l'.Perm l) (r : Rank) : tieRank l' r = tieRank l r :=
  h.countP_eq _

/-- one more item passes the wider test -/
theorem countP_lt_countP {α : Type} {p q : α → Bool} {l : List α} (h : ∀ x ∈ l, p x = true → q x = true)
    {a : α} (ha : a ∈ l) (hq : q a = true) (hp : p a = false) : l.countP p < l.countP q := by
  induction l with
  | nil => simp at ha
  | cons y ys ih =>
    have hmono : ys.countP p ≤ ys.countP q :=
      List.countP_mono_left (fun x hx => h x (List.mem_cons_of_mem _ hx))
    rcases List.mem_cons.mp ha with rfl | ha'
    · simp only [List.countP_cons, hq, hp, if_true]
      simp; omega
    · have ih' := ih (fun x hx => h x (List.mem_cons_of_mem _ hx)) ha'
      simp only [List.countP_cons]
      cases hpy : p y
      · simp; split <;> omega
      · simp [h y (by simp) hpy]; omega

/-- `tieRank` is monotone for the comparator (transitive `≤` on the list) -/
theorem tieRank_mono {l : List Rank} (ht : CmpTransOn l) {a b : Rank} (ha : a ∈ l) (hb : b ∈ l)
    (hab : a.cmp b ≠ .gt) : tieRank l a ≤ tieRank l b := by
  apply List.countP_mono_left
  intro y hy hya
  have hya' : y.cmp a = .lt := by simpa using hya
  simp [ht.lt_of_lt_of_le hy ha hb hya' hab]

/-- `tieRank` is strictly monotone (transitive `≤` on the list) -/
theorem tieRank_strict {l : List Rank} (ht : CmpTransOn l) {a b : Rank} (ha : a ∈ l) (hb : b ∈ l)
    (hab : a.cmp b = .lt) : tieRank l a < tieRank l b := by
  apply countP_lt_countP (a := a)
  · intro y hy hya
    have hya' : y.cmp a = .lt := by simpa using hya
    simp [ht.lt_of_lt_of_le hy ha hb hya' (by simp [hab])]
  · exact ha
  · simp [hab]
  · simp [cmp_refl]

/-- `tieRank` identifies the tie class: two members of the list have the same `tieRank` exactly
    when they compare `Equal` (transitive `≤` on the list) -/
theorem tieRank_eq_iff {l : List Rank} (ht : CmpTransOn l) {a b : Rank} (ha : a ∈ l) (hb : b ∈ l) :
    tieRank l a = tieRank l b ↔ a.cmp b = .eq := by
  constructor
  · intro h
    cases hc : a.cmp b
    · have := tieRank_strict ht ha hb hc; omega
    · rfl
    · have := tieRank_strict ht hb ha ((cmp_lt_iff_gt b a).mpr hc); omega
  · intro h
    exact Nat.le_antisymm (tieRank_mono ht ha hb (by simp [h]))
      (tieRank_mono ht hb ha (by simp [(cmp_eq_symm a b).mp h]))

/-- two ascending rearrangements of `l` carry the same tie class at every position -/
theorem map_tieRank_eq_of_sorted_perm {l l₁ l₂ : List Rank} (ht : CmpTransOn l)
    (hp₁ : l₁.Perm l) (hs₁ : l₁.Pairwise (fun a b => a.cmp b ≠ .gt))
    (hp₂ : l₂.Perm l) (hs₂ : l₂.Pairwise (fun a b => a.cmp b ≠ .gt)) :
    l₁.map (tieRank l) = l₂.map (tieRank l) := by
  apply List.Perm.eq_of_pairwise (le := fun m n : Nat => m ≤ n)
  · intro a b _ _ h1 h2; exact Nat.le_antisymm h1 h2
  · rw [List.pairwise_map]
    exact hs₁.imp_of_mem (fun ha hb h => tieRank_mono ht (hp₁.subset ha) (hp₁.subset hb) h)
  · rw [List.pairwise_map]
    exact hs₂.imp_of_mem (fun ha hb h => tieRank_mono ht (hp₂.subset ha) (hp₂.subset hb) h)
  · exact (hp₁.trans hp₂.symm).map _

end Riti
