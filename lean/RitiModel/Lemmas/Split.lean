/-
Lemmas/Split — facts about `split`, `trailLen`, `takeWhile`/`dropWhile` used by C03, C05, C17.
-/
import RitiModel.Model.Split
namespace Riti
open Gen

/-- ASCII letter or digit -/
def isAlnum (c : Char) : Bool :=
  let n := c.toNat
  (48 ≤ n && n ≤ 57) || (65 ≤ n && n ≤ 90) || (97 ≤ n && n ≤ 122)

/-- the 27 punctuation characters of property C03: `-]~!@#%&*()_=+[{}'";<>/?|.,` -/
def punct27 : List Nat :=
  [45, 93, 126, 33, 64, 35, 37, 38, 42, 40, 41, 95, 61, 43, 91, 123, 125, 39, 34, 59, 60, 62, 47, 63, 124, 46, 44]

def isPunct27 (c : Char) : Bool := punct27.contains c.toNat

theorem alnum_not_meta_nat (n : Nat)
    (h : (48 ≤ n ∧ n ≤ 57) ∨ (65 ≤ n ∧ n ≤ 90) ∨ (97 ≤ n ∧ n ≤ 122)) : metaSet.contains n = false := by
  simp [metaSet]; omega

theorem alnum_not_meta (c : Char) (h : isAlnum c = true) : isMeta c = false := by
  unfold isMeta; apply alnum_not_meta_nat
  simp [isAlnum] at h; omega

theorem alnum_ne_backtick (c : Char) (h : isAlnum c = true) : (c == '`') = false := by
  have : c.toNat ≠ 96 := by simp [isAlnum] at h; omega
  simp; intro hc; subst hc; exact this rfl

theorem alnum_ne_colon (c : Char) (h : isAlnum c = true) : (c == ':') = false := by
  have : c.toNat ≠ 58 := by simp [isAlnum] at h; omega
  simp; intro hc; subst hc; exact this rfl

/-- the regenerated META set contains the property's 27 characters, none of which is the
    escape character or the colon -/
theorem punct27_sub_meta : punct27.all (fun n => metaSet.contains n && n != 96 && n != 58) = true := by decide

theorem punct27_meta (c : Char) (h : isPunct27 c = true) : isMeta c = true := by
  have := punct27_sub_meta
  simp [List.all_eq_true] at this
  have hc : c.toNat ∈ punct27 := by simpa [isPunct27] using h
  have := this _ hc
  simp [isMeta]; exact this.1.1

theorem punct27_ne_backtick (c : Char) (h : isPunct27 c = true) : (c == '`') = false := by
  have := punct27_sub_meta
  simp [List.all_eq_true] at this
  have hc : c.toNat ∈ punct27 := by simpa [isPunct27] using h
  have h96 := (this _ hc).1.2
  simp; intro hcc; subst hcc; exact h96 rfl

theorem takeWhile_append_stop {p : Char → Bool} (l : List Char) (x : Char) (r : List Char)
    (hl : ∀ c ∈ l, p c = true) (hx : p x = false) : (l ++ x :: r).takeWhile p = l := by
  induction l with
  | nil => simp [hx]
  | cons a l ih =>
    have ha : p a = true := hl a (by simp)
    simp [ha]
    exact ih (fun c hc => hl c (by simp [hc]))

theorem dropWhile_append_stop {p : Char → Bool} (l : List Char) (x : Char) (r : List Char)
    (hl : ∀ c ∈ l, p c = true) (hx : p x = false) : (l ++ x :: r).dropWhile p = x :: r := by
  induction l with
  | nil => simp [hx]
  | cons a l ih =>
    have ha : p a = true := hl a (by simp)
    simp [ha]
    exact ih (fun c hc => hl c (by simp [hc]))

/-- scanning over punctuation (meta, not the escape): every character moves the cut -/
theorem trailLen_punct (ic : Bool) (ms rest : List Char) (n last : Nat)
    (hm : ∀ c ∈ ms, isMeta c = true ∧ (c == '`') = false) (hne : ms ≠ []) :
    trailLen ic (ms ++ rest) false n last = trailLen ic rest false (n + ms.length) (n + ms.length) := by
  induction ms generalizing n last with
  | nil => exact absurd rfl hne
  | cons a ms ih =>
    have ha := hm a (by simp)
    cases ms with
    | nil => simp [trailLen, ha.1, ha.2]
    | cons b ms' =>
      have := ih (n + 1) (n + 1) (fun c hc => hm c (by simp [hc])) (by simp)
      simp [trailLen, ha.1, ha.2] at this ⊢
      rw [this]; congr 1 <;> omega

/-- the scan stops at a letter or digit -/
theorem trailLen_stop (ic : Bool) (c : Char) (cs : List Char) (n last : Nat) (h : isAlnum c = true) :
    trailLen ic (c :: cs) false n last = last := by
  simp [trailLen, alnum_ne_backtick c h, alnum_ne_colon c h, alnum_not_meta c h]

end Riti
