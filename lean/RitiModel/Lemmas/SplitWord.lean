/-
Lemmas/SplitWord — the *word part* of a text (`(split b false).word`) as a function:
idempotence, stripping of leading punctuation, fix-points, visited prefixes.  Used by the
transparency theory (C05, C06, C11).
-/
import RitiModel.Model.Phonetic
import RitiModel.Lemmas.Split
namespace Riti

/-- the word part of a typed text: what the engine looks up in the dictionary and memoises -/
def word (b : Str) : Str := (split b false).word

/-! ### the right-to-left scan, normalised to start at 0 -/

/-- length of the trailing part found by the scan started in escape state `esc` -/
def tlen (ic : Bool) (l : List Char) (esc : Bool) : Nat := trailLen ic l esc 0 0

/-- the scan with arbitrary counters in terms of the normalised one -/
theorem trailLen_eq (ic : Bool) (l : List Char) (esc : Bool) (n last : Nat) :
    trailLen ic l esc n last = if tlen ic l esc = 0 then last else n + tlen ic l esc := by
  induction l generalizing esc n last with
  | nil => simp [tlen, trailLen]
  | cons c cs ih =>
    unfold tlen
    simp only [trailLen]
    split
    · rw [ih true (n + 1) last, ih true (0 + 1) 0]
      split <;> simp_all <;> omega
    · split
      · rw [ih false (n + 1) (n + 1), ih false (0 + 1) (0 + 1)]
        split <;> simp_all <;> omega
      · simp

/-- the scan of the empty text cuts nothing -/
theorem tlen_nil (ic : Bool) (esc : Bool) : tlen ic [] esc = 0 := rfl

/-- recursion equation of the normalised scan -/
theorem tlen_cons (ic : Bool) (c : Char) (cs : List Char) (esc : Bool) :
    tlen ic (c :: cs) esc =
      if !esc && c == '`' then (if tlen ic cs true = 0 then 0 else 1 + tlen ic cs true)
      else if ((ic || esc) && c == ':') || isMeta c then 1 + tlen ic cs false
      else 0 := by
  conv => lhs; unfold tlen; simp only [trailLen]
  split
  · rw [trailLen_eq]
  · split
    · rw [trailLen_eq]; split <;> simp_all
    · rfl

/-- the trailing part is never longer than the text scanned -/
theorem tlen_le (ic : Bool) (l : List Char) (esc : Bool) : tlen ic l esc ≤ l.length := by
  induction l generalizing esc with
  | nil => simp [tlen_nil]
  | cons c cs ih =>
    rw [tlen_cons]
    have h1 := ih true
    have h2 := ih false
    simp only [List.length_cons]
    split
    · split <;> omega
    · split <;> omega

/-- after the trailing part has been cut off, a new scan finds nothing more to cut -/
theorem tlen_drop (ic : Bool) (l : List Char) (esc : Bool) (h : tlen ic l esc ≠ 0) :
    tlen ic (l.drop (tlen ic l esc)) false = 0 := by
  induction l generalizing esc with
  | nil => simp [tlen_nil] at h
  | cons c cs ih =>
    rw [tlen_cons] at h ⊢
    split
    · rename_i h1
      rw [if_pos h1] at h
      split
      · rename_i h2; rw [if_pos h2] at h; exact absurd rfl h
      · rename_i h2
        rw [Nat.add_comm, List.drop_succ_cons]
        exact ih true h2
    · rename_i h1
      rw [if_neg h1] at h
      split
      · rw [Nat.add_comm, List.drop_succ_cons]
        by_cases h0 : tlen ic cs false = 0
        · rw [h0]; simpa using h0
        · exact ih false h0
      · rename_i h2; rw [if_neg h2] at h; exact absurd rfl h

/-- `tlen_drop` for a scan started outside an escape (no side condition) -/
theorem tlen_drop_false (ic : Bool) (l : List Char) :
    tlen ic (l.drop (tlen ic l false)) false = 0 := by
  by_cases h : tlen ic l false = 0
  · rw [h]; simpa using h
  · exact tlen_drop ic l false h

/-! ### `split` on a text that starts with a non-punctuation character -/

/-- `split` of a text that starts with a non-punctuation character: no leading part -/
theorem split_cons_nonmeta (x : Char) (xs : List Char) (ic : Bool) (hx : isMeta x = false) :
    split (x :: xs) ic =
      ⟨[], (x :: xs).take ((x :: xs).length - tlen ic (x :: xs).reverse false),
           (x :: xs).drop ((x :: xs).length - tlen ic (x :: xs).reverse false)⟩ := by
  simp [split, hx, tlen]

/-- `split` of punctuation followed by a text starting with a non-punctuation character -/
theorem split_meta_append (pre : List Char) (x : Char) (xs : List Char) (ic : Bool)
    (hpre : ∀ c ∈ pre, isMeta c = true) (hx : isMeta x = false) :
    split (pre ++ x :: xs) ic =
      ⟨pre, (x :: xs).take ((x :: xs).length - tlen ic (x :: xs).reverse false),
            (x :: xs).drop ((x :: xs).length - tlen ic (x :: xs).reverse false)⟩ := by
  simp only [split, takeWhile_append_stop pre x xs hpre hx, dropWhile_append_stop pre x xs hpre hx, tlen]

/-- the empty text has the empty word part -/
theorem word_nil : word [] = [] := rfl

/-- everything `takeWhile` keeps satisfies the predicate -/
theorem mem_takeWhile_true {p : Char → Bool} {l : List Char} {c : Char} (h : c ∈ l.takeWhile p) : p c = true := by
  induction l with
  | nil => simp at h
  | cons a l ih =>
    by_cases ha : p a = true
    · simp only [List.takeWhile_cons, ha, ↓reduceIte, List.mem_cons] at h
      rcases h with rfl | h
      · exact ha
      · exact ih h
    · simp [ha] at h

/-- `dropWhile` of a list that satisfies the predicate throughout is empty -/
theorem dropWhile_nil_of_all {p : Char → Bool} {l : List Char} (h : ∀ c ∈ l, p c = true) : l.dropWhile p = [] := by
  induction l with
  | nil => rfl
  | cons a l ih =>
    have ha : p a = true := h a (by simp)
    simp only [List.dropWhile_cons, ha, ↓reduceIte]
    exact ih (fun c hc => h c (by simp [hc]))

/-- a proper prefix is a prefix of the text without its last character (what was typed before the last key) -/
theorem prefix_dropLast_of_ne {α : Type} {p t : List α} (h : p <+: t) (hne : p ≠ t) : p <+: t.dropLast := by
  rcases List.eq_nil_or_concat t with rfl | ⟨l, a, rfl⟩
  · simp at h; exact absurd h hne
  · rw [List.concat_eq_append] at h hne ⊢
    rw [List.dropLast_concat]
    rcases List.prefix_concat_iff.mp h with h | h
    · exact absurd h hne
    · exact h

/-- the punctuation before the word part is punctuation -/
theorem pre_all_meta (t : Str) : ∀ c ∈ (split t false).pre, isMeta c = true := by
  intro c hc
  simp only [split] at hc
  split at hc
  · rename_i h
    have : t.takeWhile isMeta = t := by
      have := @List.takeWhile_append_dropWhile _ isMeta t
      rw [h] at this; simpa using this
    rw [← this] at hc
    exact (mem_takeWhile_true hc)
  · exact (mem_takeWhile_true hc)

/-- a text is its leading punctuation followed by something the word part is a prefix of -/
theorem split_pre_word (t : Str) : ∃ r, t = (split t false).pre ++ r ∧ word t <+: r := by
  unfold word
  simp only [split]
  split
  · exact ⟨[], by simp, List.prefix_refl _⟩
  · refine ⟨t.dropWhile isMeta, List.takeWhile_append_dropWhile.symm, List.take_prefix _ _⟩

/-- a non-empty word part starts with a non-punctuation character -/
theorem word_head_nonmeta (t : Str) (x : Char) (xs : List Char) (h : word t = x :: xs) : isMeta x = false := by
  unfold word at h
  simp only [split] at h
  split at h
  · simp at h
  · rename_i hne
    have hd := List.head_dropWhile_not isMeta hne
    cases hr : t.dropWhile isMeta with
    | nil => exact absurd hr hne
    | cons y ys =>
      simp only [hr, List.head_cons] at hd
      rw [hr] at h
      cases hn : (y :: ys).length - trailLen false (y :: ys).reverse false 0 0 with
      | zero => rw [hn] at h; simp at h
      | succ m =>
        rw [hn] at h
        simp only [List.take_succ_cons, List.cons.injEq] at h
        rw [← h.1]; exact hd

/-- fix-point words: a text that is its own word part starts with a non-punctuation character
    and has an empty trailing part -/
theorem word_eq_self_iff (x : Char) (xs : List Char) :
    word (x :: xs) = x :: xs ↔ isMeta x = false ∧ tlen false (x :: xs).reverse false = 0 := by
  constructor
  · intro h
    have hx := word_head_nonmeta _ _ _ h
    refine ⟨hx, ?_⟩
    unfold word at h
    rw [split_cons_nonmeta x xs false hx] at h
    simp only at h
    have hlen := congrArg List.length h
    have hle := tlen_le false (x :: xs).reverse false
    simp only [List.length_take, List.length_reverse] at hlen hle
    omega
  · rintro ⟨hx, ht⟩
    unfold word
    rw [split_cons_nonmeta x xs false hx, ht]
    simp

/-- the word part of a word part is itself: only fix-points are ever looked up -/
theorem word_idem (b : Str) : word (word b) = word b := by
  cases hw : word b with
  | nil => rfl
  | cons x xs =>
    have hx := word_head_nonmeta b x xs hw
    rw [word_eq_self_iff]
    refine ⟨hx, ?_⟩
    -- `word b` is `rest.take (len - t)`; its reverse is `rest.reverse.drop t`
    unfold word at hw
    simp only [split] at hw
    split at hw
    · simp at hw
    · have hle := tlen_le false (b.dropWhile isMeta).reverse false
      simp only [List.length_reverse] at hle
      have := tlen_drop_false false (b.dropWhile isMeta).reverse
      rw [← hw, List.reverse_take]
      rw [show (b.dropWhile isMeta).length -
          ((b.dropWhile isMeta).length - trailLen false (b.dropWhile isMeta).reverse false 0 0)
          = tlen false (b.dropWhile isMeta).reverse false from by unfold tlen at hle ⊢; omega]
      exact this

/-- leading punctuation does not change the word part of a fix-point word -/
theorem word_strip (pre k : Str) (hpre : ∀ c ∈ pre, isMeta c = true) (hk : k ≠ []) (hfix : word k = k) :
    word (pre ++ k) = k := by
  cases k with
  | nil => exact absurd rfl hk
  | cons x xs =>
    obtain ⟨hx, ht⟩ := (word_eq_self_iff x xs).mp hfix
    unfold word
    rw [split_meta_append pre x xs false hpre hx, ht]
    simp

/-- a text that is not its own word part is never the word part of anything: it is never a memo key -/
theorem nonfix_never_key (k : Str) (h : word k ≠ k) : ∀ b, word b ≠ k := by
  intro b hb
  apply h
  rw [← hb]; exact word_idem b

/-- every fix-point proper prefix of the word part of `t` is the word part of a proper prefix of `t`
    (which the user necessarily typed on the way to `t`) -/
theorem key_is_visited_strict (t k : Str) (hk : k ≠ []) (hpre : k <+: word t) (hne : k ≠ word t)
    (hfix : word k = k) : ∃ p, p <+: t.dropLast ∧ p ≠ [] ∧ word p = k := by
  obtain ⟨r, ht, hwr⟩ := split_pre_word t
  refine ⟨(split t false).pre ++ k, ?_, by simp [hk], word_strip _ _ (pre_all_meta t) hk hfix⟩
  have hkr : k <+: r := hpre.trans hwr
  have hp : (split t false).pre ++ k <+: t := by
    conv => rhs; rw [ht]
    exact (List.prefix_append_right_inj _).mpr hkr
  -- `pre ++ k` is not the whole text: otherwise `k = r`, and `word t` lies between them
  have hne' : (split t false).pre ++ k ≠ t := by
    intro he
    have : k = r := by
      have h2 : (split t false).pre ++ k = (split t false).pre ++ r := by rw [he]; exact ht
      exact List.append_cancel_left h2
    subst this
    exact hne (List.IsPrefix.eq_of_length_le hpre hwr.length_le)
  exact prefix_dropLast_of_ne hp hne'

/-- every fix-point proper prefix of the word part of `t` is the word part of a prefix of `t` -/
theorem key_is_visited (t k : Str) (hk : k ≠ []) (hpre : k <+: word t) (hne : k ≠ word t)
    (hfix : word k = k) : ∃ p, p <+: t ∧ p ≠ [] ∧ word p = k := by
  obtain ⟨p, hp, h1, h2⟩ := key_is_visited_strict t k hk hpre hne hfix
  exact ⟨p, hp.trans (List.dropLast_prefix t), h1, h2⟩

/-- the word part of a text with no non-punctuation character is empty -/
theorem word_all_meta (t : Str) (h : ∀ c ∈ t, isMeta c = true) : word t = [] := by
  unfold word
  have : t.dropWhile isMeta = [] := dropWhile_nil_of_all h
  simp [split, this]

end Riti
