/-
Lemmas/Store — the association-list map (`alookup` / `ainsert`) behaves like a `HashMap`:
look-up after insert, other keys untouched, keys stay distinct.  Used by C09, C10, C11.
The lemmas live in the sub-namespace `Riti.AList` (`open Riti.AList` to use them): two of them
(`alookup_ainsert_self`, `alookup_ainsert_ne`) are also proved, independently, in
`Lemmas/Transparency.lean` directly under `Riti`, and both files must be importable together.
-/
import RitiModel.Model.Basic
namespace Riti.AList
open Riti

section
variable {α β : Type} [BEq α] [LawfulBEq α]

/-- the keys of an association list, in order -/
def akeys (st : List (α × β)) : List α := st.map Prod.fst

/-- a key just inserted is found, with the inserted value (`HashMap::insert` then `get`) -/
theorem alookup_ainsert_self (st : List (α × β)) (k : α) (v : β) :
    alookup (ainsert st k v) k = some v := by
  induction st with
  | nil => simp [ainsert, alookup]
  | cons p ps ih =>
    obtain ⟨a, b⟩ := p
    by_cases h : a = k
    · subst h; simp [ainsert, alookup]
    · have hb : (a == k) = false := by simpa using h
      simp [ainsert, alookup, hb, ih]

/-- inserting a key does not change what any other key maps to -/
theorem alookup_ainsert_ne (st : List (α × β)) (k k' : α) (v : β) (h : k' ≠ k) :
    alookup (ainsert st k v) k' = alookup st k' := by
  induction st with
  | nil =>
    have hb : (k == k') = false := by simpa using (fun e => h e.symm)
    simp [ainsert, alookup, hb]
  | cons p ps ih =>
    obtain ⟨a, b⟩ := p
    by_cases hak : a = k
    · subst hak
      have hb : (a == k') = false := by simpa using (fun e => h e.symm)
      simp [ainsert, alookup, hb]
    · have hb : (a == k) = false := by simpa using hak
      by_cases hak' : a = k'
      · subst hak'; simp [ainsert, hb, alookup]
      · have hb' : (a == k') = false := by simpa using hak'
        simp [ainsert, hb, alookup, hb', ih]

/-- look-up after insert, both cases at once -/
theorem alookup_ainsert (st : List (α × β)) (k k' : α) (v : β) :
    alookup (ainsert st k v) k' = if k' == k then some v else alookup st k' := by
  split
  · next h => have h := eq_of_beq h; subst h; exact alookup_ainsert_self st k' v
  · next h => exact alookup_ainsert_ne st k k' v (by simpa using h)

/-- an entry other than the inserted key survives an insert (nothing else is lost) -/
theorem alookup_ainsert_keeps (st : List (α × β)) (k k' : α) (v v' : β) (h : k' ≠ k)
    (hl : alookup st k' = some v') : alookup (ainsert st k v) k' = some v' := by
  rw [alookup_ainsert_ne st k k' v h, hl]

/-- a key is found iff it is among the keys -/
theorem alookup_isSome_iff (st : List (α × β)) (k : α) : (alookup st k).isSome = true ↔ k ∈ akeys st := by
  induction st with
  | nil => simp [alookup, akeys]
  | cons p ps ih =>
    obtain ⟨a, b⟩ := p
    by_cases h : a = k
    · subst h; simp [alookup, akeys]
    · have hb : (a == k) = false := by simpa using h
      have : ¬ k = a := fun e => h e.symm
      simpa [alookup, hb, akeys, this] using ih

theorem alookup_eq_none_iff (st : List (α × β)) (k : α) : alookup st k = none ↔ k ∉ akeys st := by
  rw [← alookup_isSome_iff]; cases alookup st k <;> simp

/-- the keys after an insert: unchanged if the key was bound, else the key is appended -/
theorem akeys_ainsert (st : List (α × β)) (k : α) (v : β) :
    akeys (ainsert st k v) = if k ∈ akeys st then akeys st else akeys st ++ [k] := by
  induction st with
  | nil => simp [ainsert, akeys]
  | cons p ps ih =>
    obtain ⟨a, b⟩ := p
    by_cases h : a = k
    · subst h; simp [ainsert, akeys]
    · have hb : (a == k) = false := by simpa using h
      have hne : ¬ k = a := fun e => h e.symm
      simp only [akeys] at ih
      have : akeys (ainsert ((a, b) :: ps) k v) = a :: List.map Prod.fst (ainsert ps k v) := by
        simp [ainsert, hb, akeys]
      rw [this, ih]
      simp only [akeys, List.map_cons, List.mem_cons, hne, false_or]
      split <;> simp_all

/-- `ainsert` keeps the keys distinct if they were (the list stays a map) -/
theorem akeys_ainsert_nodup (st : List (α × β)) (k : α) (v : β) (h : (akeys st).Nodup) :
    (akeys (ainsert st k v)).Nodup := by
  rw [akeys_ainsert]
  split
  · exact h
  · next hk =>
    rw [List.nodup_append]
    refine ⟨h, by simp, ?_⟩
    intro a ha b hb
    simp at hb; subst hb
    intro e; subst e; exact hk ha

/-- every key bound before an insert is bound after it -/
theorem akeys_subset_ainsert (st : List (α × β)) (k : α) (v : β) : ∀ a ∈ akeys st, a ∈ akeys (ainsert st k v) := by
  intro a ha
  rw [akeys_ainsert]; split
  · exact ha
  · simp [ha]

/-- re-inserting the binding a key already has changes nothing -/
theorem ainsert_same (st : List (α × β)) (k : α) (v : β) (h : alookup st k = some v) : ainsert st k v = st := by
  induction st with
  | nil => simp [alookup] at h
  | cons p ps ih =>
    obtain ⟨a, b⟩ := p
    by_cases hak : a = k
    · subst hak; simp [alookup] at h; simp [ainsert, h]
    · have hb : (a == k) = false := by simpa using hak
      simp only [alookup, hb] at h
      simp [ainsert, hb, ih h]

end

end Riti.AList
