/-
Lemmas/Transparency — the per-context memo of the phonetic engine (`PState.cache`) is transparent:
the candidate list computed through it equals a memo-free function of the text, the
configuration, the data (`Env`) and the user auto-correct list.  Shared by C05, C06, C11.
-/
import RitiModel.Model.Context
import RitiModel.Lemmas.SplitWord
import RitiModel.Lemmas.Phonetic
namespace Riti

/-! ### association lists -/

/-- an inserted key is found with the inserted value -/
theorem alookup_ainsert_self {α β : Type} [BEq α] [LawfulBEq α] (l : List (α × β)) (a : α) (b : β) :
    alookup (ainsert l a b) a = some b := by
  induction l with
  | nil => simp [ainsert, alookup]
  | cons x xs ih =>
    obtain ⟨k, v⟩ := x
    by_cases h : (k == a) = true
    · simp [ainsert, alookup, h]
    · simp [ainsert, alookup, h, ih]

/-- inserting a key does not disturb the look-up of any other key -/
theorem alookup_ainsert_ne {α β : Type} [BEq α] [LawfulBEq α] (l : List (α × β)) (a k : α) (b : β) (hne : k ≠ a) :
    alookup (ainsert l a b) k = alookup l k := by
  induction l with
  | nil =>
    have : (a == k) = false := by simp; exact fun h => hne h.symm
    simp [ainsert, alookup, this]
  | cons x xs ih =>
    obtain ⟨k', v⟩ := x
    by_cases h : (k' == a) = true
    · have hk' : k' = a := by simpa using h
      have : (k' == k) = false := by simp; exact fun h2 => hne (h2 ▸ hk' ▸ rfl)
      simp [ainsert, alookup, h, this]
    · have h' : (k' == a) = false := by simpa using h
      simp [ainsert, alookup, h', ih]

/-- `flatMap` only depends on the function at the members of the list -/
theorem flatMap_congr_mem {α β : Type} (l : List α) (f g : α → List β) (h : ∀ x ∈ l, f x = g x) :
    l.flatMap f = l.flatMap g := by
  induction l with
  | nil => rfl
  | cons a l ih =>
    simp only [List.flatMap_cons]
    rw [h a (by simp), ih (fun x hx => h x (by simp [hx]))]

/-! ### the memo-free specification -/

/-- every memo entry is the pure function of its key, and only fix-point words are keys -/
def SoundMemo (env : Env) (ua : Store) (cache : Memo) : Prop :=
  ∀ k v, alookup cache k = some v → v = computeEntry env ua k ∧ word k = k

/-- the word part of every non-empty prefix of the text has been looked up -/
def PrefixComplete (cache : Memo) (buffer : Str) : Prop :=
  ∀ p, p <+: buffer → p ≠ [] → (alookup cache (word p)).isSome

/-- the memo-free "entry" of a key: present exactly for fix-point words -/
def idealLookup (env : Env) (ua : Store) (k : Str) : Option (List Rank) :=
  if word k = k then some (computeEntry env ua k) else none

/-- `suffixedAt` with the memo replaced by `idealLookup` -/
def suffixedAtPure (env : Env) (ua : Store) (ks : Str × Str) : List Rank :=
  match env.suffix ks.2 with
  | none => []
  | some sfx =>
    match idealLookup env ua ks.1 with
    | none => []
    | some entry => entry.filterMap (fun b => (joinChecked b.text sfx).map b.setText)

/-- `addSuffix` with the memo replaced by `idealLookup` -/
def addSuffixPure (env : Env) (ua : Store) (middle : Str) : List Rank :=
  let base := (idealLookup env ua middle).getD []
  if middle.length > 2 then base ++ (splitPoints middle).flatMap (suffixedAtPure env ua)
  else base

/-- `dictList` without a memo -/
def dictListPure (env : Env) (ua : Store) (parts : Parts) : List Rank :=
  let l := (addSuffixPure env ua parts.word).foldl pushChecked []
  let l := pushChecked l (.last (env.convert parts.word) 2)
  wrapAll parts l

/-- `suggestList` without a memo: a function of data, user auto-correct list, configuration and text -/
def suggestListPure (env : Env) (ua : Store) (cfg : Cfg) (term : Str) : List Rank :=
  let parts := preparedParts env cfg term
  sortStable (addExtras env cfg term parts (dictListPure env ua parts))

/-- the empty memo (new context, or just after a reload) is sound -/
theorem soundMemo_nil (env : Env) (ua : Store) : SoundMemo env ua [] := by
  intro k v h; simp [alookup] at h

/-- nothing needs to have been looked up for the empty composition -/
theorem prefixComplete_nil (cache : Memo) : PrefixComplete cache [] := by
  intro p hp hne
  exact absurd (List.prefix_nil.mp hp) hne

/-- completeness is inherited by shorter texts (backspace) -/
theorem PrefixComplete.mono {cache : Memo} {b b' : Str} (h : PrefixComplete cache b) (hb : b' <+: b) :
    PrefixComplete cache b' :=
  fun p hp hne => h p (hp.trans hb) hne

/-! ### `memoFill` -/

/-- looking a word up does not change the memo entry of any other key -/
theorem memoFill_lookup_ne (env : Env) (ua : Store) (cache : Memo) (w k : Str) (hne : k ≠ w) :
    alookup (memoFill env ua cache w) k = alookup cache k := by
  unfold memoFill
  split
  · rfl
  · exact alookup_ainsert_ne _ _ _ _ hne

/-- after looking a word up its entry is the memo-free entry (sound memo) -/
theorem memoFill_lookup_self (env : Env) (ua : Store) (cache : Memo) (w : Str) (hs : SoundMemo env ua cache) :
    alookup (memoFill env ua cache w) w = some (computeEntry env ua w) := by
  unfold memoFill
  split
  · rename_i v hv
    rw [hv, (hs w v hv).1]
  · exact alookup_ainsert_self _ _ _

/-- looking a fix-point word up keeps the memo sound -/
theorem memoFill_sound (env : Env) (ua : Store) (cache : Memo) (w : Str) (hs : SoundMemo env ua cache)
    (hw : word w = w) : SoundMemo env ua (memoFill env ua cache w) := by
  intro k v hk
  by_cases hkw : k = w
  · subst hkw
    rw [memoFill_lookup_self env ua cache k hs] at hk
    exact ⟨(Option.some.inj hk).symm, hw⟩
  · rw [memoFill_lookup_ne env ua cache w k hkw] at hk
    exact hs k v hk

/-- the memo only grows -/
theorem memoFill_mono (env : Env) (ua : Store) (cache : Memo) (w k : Str) (h : (alookup cache k).isSome) :
    (alookup (memoFill env ua cache w) k).isSome := by
  unfold memoFill
  split
  · exact h
  · rename_i hn
    have hne : k ≠ w := by intro he; subst he; rw [hn] at h; simp at h
    rw [alookup_ainsert_ne _ _ _ _ hne]; exact h

/-- one more key typed: the memo filled for the new text is complete for it -/
theorem memoFill_complete (env : Env) (ua : Store) (cache : Memo) (b : Str)
    (hc : PrefixComplete cache b.dropLast) : PrefixComplete (memoFill env ua cache (word b)) b := by
  intro p hp hne
  by_cases hpb : p = b
  · subst hpb
    unfold memoFill
    split
    · rename_i v hv; simp [hv]
    · simp [alookup_ainsert_self]
  · exact memoFill_mono env ua cache _ _ (hc p (prefix_dropLast_of_ne hp hpb) hne)

/-! ### the key step: after the fill, every look-up the engine makes answers as `idealLookup` -/

/-- after the fill, the entry of the looked-up word itself is the memo-free one -/
theorem lookup_word_eq_ideal (env : Env) (ua : Store) (cache : Memo) (t : Str) (hs : SoundMemo env ua cache) :
    alookup (memoFill env ua cache (word t)) (word t) = idealLookup env ua (word t) := by
  rw [memoFill_lookup_self env ua cache _ hs, idealLookup, if_pos (word_idem t)]

/-- for a proper prefix of the looked-up word the memo answers as the memo-free specification:
    present (and right) for fix-points because the prefix was visited, absent otherwise -/
theorem lookup_prefix_eq_ideal (env : Env) (ua : Store) (cache : Memo) (t k : Str)
    (hs : SoundMemo env ua cache) (hc : PrefixComplete cache t.dropLast)
    (hk : k ≠ []) (hpre : k <+: word t) (hne : k ≠ word t) :
    alookup (memoFill env ua cache (word t)) k = idealLookup env ua k := by
  rw [memoFill_lookup_ne env ua cache _ k hne]
  unfold idealLookup
  by_cases hfix : word k = k
  · rw [if_pos hfix]
    obtain ⟨p, hp, hpne, hpk⟩ := key_is_visited_strict t k hk hpre hne hfix
    have := hc p hp hpne
    rw [hpk] at this
    cases hl : alookup cache k with
    | none => rw [hl] at this; simp at this
    | some v => rw [(hs k v hl).1]
  · rw [if_neg hfix]
    cases hl : alookup cache k with
    | none => rfl
    | some v => exact absurd (hs k v hl).2 hfix

/-- the key of every split point is a non-empty proper prefix of the word -/
theorem mem_splitPoints {w : Str} {ks : Str × Str} (h : ks ∈ splitPoints w) :
    ks.1 ≠ [] ∧ ks.1 <+: w ∧ ks.1 ≠ w := by
  simp only [splitPoints, List.mem_map, List.mem_range] at h
  obtain ⟨i, hi, rfl⟩ := h
  refine ⟨?_, List.take_prefix _ _, ?_⟩
  · intro h0
    have := congrArg List.length h0
    simp only [List.length_take, List.length_nil] at this
    omega
  · intro h0
    have := congrArg List.length h0
    simp only [List.length_take] at this
    omega

/-- the suffix stage reads the memo exactly as the memo-free specification does -/
theorem addSuffix_transparent (env : Env) (ua : Store) (cache : Memo) (t w : Str)
    (hs : SoundMemo env ua cache) (hc : PrefixComplete cache t.dropLast) (hw : w = word t) :
    addSuffix env (memoFill env ua cache w) w = addSuffixPure env ua w := by
  subst hw
  unfold addSuffix addSuffixPure
  rw [lookup_word_eq_ideal env ua cache t hs]
  have hpts : (splitPoints (word t)).flatMap (suffixedAt env (memoFill env ua cache (word t))) =
      (splitPoints (word t)).flatMap (suffixedAtPure env ua) := by
    apply flatMap_congr_mem
    intro ks hks
    obtain ⟨h1, h2, h3⟩ := mem_splitPoints hks
    unfold suffixedAt suffixedAtPure
    rw [lookup_prefix_eq_ideal env ua cache t ks.1 hs hc h1 h2 h3]
    cases env.suffix ks.2 with
    | none => rfl
    | some sfx => cases idealLookup env ua ks.1 <;> rfl
  simp only [hpts]

/-- smart quoting never touches the word part -/
theorem smartQuoter_word (p : Parts) : (smartQuoter p).word = p.word := by
  unfold smartQuoter; split <;> rfl

/-- the word the engine memoises is the word part of the raw text (transliterating and
    quoting the punctuation does not touch it) -/
theorem preparedParts_word (env : Env) (cfg : Cfg) (term : Str) : (preparedParts env cfg term).word = word term := by
  unfold preparedParts
  simp only
  split
  · rw [smartQuoter_word]; rfl
  · rfl

/-- `suggestion_with_dict` reads the memo exactly as the memo-free specification does -/
theorem dictList_transparent (env : Env) (ua : Store) (cache : Memo) (t : Str) (parts : Parts)
    (hs : SoundMemo env ua cache) (hc : PrefixComplete cache t.dropLast) (hw : parts.word = word t) :
    dictList env (memoFill env ua cache parts.word) parts = dictListPure env ua parts := by
  unfold dictList dictListPure
  rw [addSuffix_transparent env ua cache t parts.word hs hc hw]

/-- MEMO TRANSPARENCY: with a sound memo that has seen every shorter prefix of the text, the sorted
    candidate list (texts, ranks, order) is the memo-free function of data, user auto-correct list,
    configuration and text -/
theorem memo_transparent (env : Env) (ua : Store) (cfg : Cfg) (cache : Memo) (t : Str)
    (hs : SoundMemo env ua cache) (hc : PrefixComplete cache t.dropLast) :
    suggestList env cfg (memoFill env ua cache (preparedParts env cfg t).word) t = suggestListPure env ua cfg t := by
  unfold suggestList suggestListPure
  simp only
  rw [dictList_transparent env ua cache t _ hs hc (preparedParts_word env cfg t)]

/-- the same with the hypothesis of a memo already complete for the text (state after the look-up) -/
theorem memo_transparent' (env : Env) (ua : Store) (cfg : Cfg) (cache : Memo) (t : Str)
    (hs : SoundMemo env ua cache) (hc : PrefixComplete cache t) :
    suggestList env cfg (memoFill env ua cache (word t)) t = suggestListPure env ua cfg t := by
  rw [← preparedParts_word env cfg t]
  exact memo_transparent env ua cfg cache t hs (hc.mono (List.dropLast_prefix t))

/-! ### the invariant of reachable phonetic states -/

/-- the memo is sound and — while candidate lists are being built (`on`) — has an entry for the
    word part of every prefix of the composition -/
def Inv (env : Env) (on : Bool) (s : PState) : Prop :=
  SoundMemo env s.userAutocorrect s.cache ∧ (on = true → PrefixComplete s.cache s.buffer)

/-- what `create_suggestion` needs to find: a sound memo that has seen every *shorter* prefix -/
def PreInv (env : Env) (s : PState) : Prop :=
  SoundMemo env s.userAutocorrect s.cache ∧ PrefixComplete s.cache s.buffer.dropLast

/-- the invariant gives what `create_suggestion` needs -/
theorem Inv.pre {env : Env} {s : PState} (h : Inv env true s) : PreInv env s :=
  ⟨h.1, (h.2 rfl).mono (List.dropLast_prefix _)⟩

/-- while idle the invariant does not depend on the option: it may be switched -/
theorem Inv.idle {env : Env} {on on' : Bool} {s : PState} (h : Inv env on s) (hb : s.buffer = []) :
    Inv env on' s :=
  ⟨h.1, fun _ => hb ▸ prefixComplete_nil _⟩

/-- the memo half of the invariant does not depend on the option -/
theorem Inv.off {env : Env} {on : Bool} {s : PState} (h : Inv env on s) : Inv env false s :=
  ⟨h.1, fun h => by simp at h⟩

/-- a brand-new context satisfies the invariant -/
theorem inv_pNew (env : Env) (on : Bool) (fs : FS) : Inv env on (pNew fs) :=
  ⟨soundMemo_nil env _, fun _ => prefixComplete_nil _⟩

/-- `create_suggestion` with suggestions on, unfolded -/
theorem pCreate_on (env : Env) (cfg : Cfg) (s : PState) (hon : cfg.phoneticSuggestion = true) :
    pCreateSuggestion env cfg s =
      ({ (suggest env cfg s s.buffer).1 with prevSelection := (suggest env cfg s s.buffer).2.2 },
        .full s.buffer ((suggest env cfg s s.buffer).2.1.map Rank.text) (suggest env cfg s s.buffer).2.2 cfg.ansi) := by
  simp [pCreateSuggestion, hon]

/-- `create_suggestion` with suggestions off: the state (memo, store) is not touched -/
theorem pCreate_off (env : Env) (cfg : Cfg) (s : PState) (hoff : cfg.phoneticSuggestion = false) :
    pCreateSuggestion env cfg s = (s, .single (suggestOnlyPhonetic env s.buffer) cfg.ansi) := by
  simp [pCreateSuggestion, hoff]

/-- the memo after `suggest`: filled for the word part of the text -/
theorem suggest_cache (env : Env) (cfg : Cfg) (s : PState) (t : Str) :
    (suggest env cfg s t).1.cache = memoFill env s.userAutocorrect s.cache (word t) := by
  simp [suggest, preparedParts_word]

/-- the list returned by `suggest` -/
theorem suggest_list (env : Env) (cfg : Cfg) (s : PState) (t : Str) :
    (suggest env cfg s t).2.1 =
      suggestList env cfg (memoFill env s.userAutocorrect s.cache (preparedParts env cfg t).word) t := by
  simp [suggest]

/-- the memo after `create_suggestion` (suggestions on) -/
theorem pCreate_cache_on (env : Env) (cfg : Cfg) (s : PState) (hon : cfg.phoneticSuggestion = true) :
    (pCreateSuggestion env cfg s).1.cache = memoFill env s.userAutocorrect s.cache (word s.buffer) := by
  rw [pCreate_on env cfg s hon]; exact suggest_cache env cfg s s.buffer

/-- `create_suggestion` never touches the user auto-correct list -/
theorem pCreate_ua (env : Env) (cfg : Cfg) (s : PState) :
    (pCreateSuggestion env cfg s).1.userAutocorrect = s.userAutocorrect := by
  simp only [pCreateSuggestion]; split <;> simp [suggest]

/-- `create_suggestion` with suggestions on: establishes the invariant for the text just looked up -/
theorem pCreate_inv_on (env : Env) (cfg : Cfg) (s : PState) (hon : cfg.phoneticSuggestion = true)
    (h : PreInv env s) : Inv env true (pCreateSuggestion env cfg s).1 := by
  refine ⟨?_, fun _ => ?_⟩
  · rw [pCreate_ua, pCreate_cache_on env cfg s hon]
    exact memoFill_sound env _ _ _ h.1 (word_idem _)
  · rw [pCreateSuggestion_buffer, pCreate_cache_on env cfg s hon]
    exact memoFill_complete env _ _ _ h.2

/-- the state component of `pKey` -/
theorem pKey_fst (env : Env) (cfg : Cfg) (s : PState) (key sel : Nat) :
    (pKey env cfg s key sel).1 =
      match keycodeToChar key with
      | none => if s.buffer.isEmpty then s else (pCreateSuggestion env cfg s).1
      | some ch => (pCreateSuggestion env cfg { s with buffer := s.buffer ++ [ch] }).1 := by
  unfold pKey
  cases keycodeToChar key with
  | none => simp only; split <;> rfl
  | some ch =>
    simp only
    cases (pCreateSuggestion env cfg { s with buffer := s.buffer ++ [ch] }).2 <;> rfl

/-- a key press preserves the invariant (suggestions on) -/
theorem pKey_inv_on (env : Env) (cfg : Cfg) (s : PState) (key sel : Nat) (hon : cfg.phoneticSuggestion = true)
    (h : Inv env true s) : Inv env true (pKey env cfg s key sel).1 := by
  rw [pKey_fst]
  cases keycodeToChar key with
  | none =>
    simp only
    split
    · exact h
    · exact pCreate_inv_on env cfg s hon h.pre
  | some ch =>
    simp only
    apply pCreate_inv_on env cfg _ hon
    refine ⟨h.1, ?_⟩
    simp only [List.dropLast_concat]
    exact h.2 rfl

/-- a key press preserves the invariant (suggestions off: the memo is not touched) -/
theorem pKey_inv_off (env : Env) (cfg : Cfg) (s : PState) (key sel : Nat) (hoff : cfg.phoneticSuggestion = false)
    (h : Inv env false s) : Inv env false (pKey env cfg s key sel).1 := by
  rw [pKey_fst]
  cases keycodeToChar key with
  | none =>
    simp only
    split
    · exact h
    · rw [pCreate_off env cfg s hoff]; exact h
  | some ch =>
    simp only
    rw [pCreate_off env cfg _ hoff]
    exact ⟨h.1, fun h => by simp at h⟩

/-- backspace preserves the invariant (suggestions on) -/
theorem pBackspace_inv_on (env : Env) (cfg : Cfg) (s : PState) (ctrl : Bool) (hon : cfg.phoneticSuggestion = true)
    (h : Inv env true s) : Inv env true (pBackspace env cfg s ctrl).1 := by
  unfold pBackspace
  split
  · split
    · exact ⟨h.1, fun _ => prefixComplete_nil _⟩
    · have hd : PrefixComplete s.cache s.buffer.dropLast := (h.2 rfl).mono (List.dropLast_prefix _)
      simp only
      split
      · exact ⟨h.1, fun _ => hd⟩
      · apply pCreate_inv_on env cfg _ hon
        exact ⟨h.1, hd.mono (List.dropLast_prefix _)⟩
  · exact h

/-- backspace preserves the invariant (suggestions off) -/
theorem pBackspace_inv_off (env : Env) (cfg : Cfg) (s : PState) (ctrl : Bool) (hoff : cfg.phoneticSuggestion = false)
    (h : Inv env false s) : Inv env false (pBackspace env cfg s ctrl).1 := by
  unfold pBackspace
  split
  · split
    · exact ⟨h.1, fun h => by simp at h⟩
    · simp only
      split
      · exact ⟨h.1, fun h => by simp at h⟩
      · rw [pCreate_off env cfg _ hoff]; exact ⟨h.1, fun h => by simp at h⟩
  · exact h

/-- committing a candidate preserves the invariant (either setting) and leaves the context idle -/
theorem pCommit_inv (env : Env) (cfg : Cfg) (on on' : Bool) (s s' : PState) (i : Nat) (wr : Option Store)
    (h : Inv env on s) (hc : pCommit cfg s i = .ok (s', wr)) : Inv env on' s' ∧ s'.buffer = [] := by
  unfold pCommit at hc
  split at hc
  · split at hc
    · cases hc
    · simp only [Except.ok.injEq, Prod.mk.injEq] at hc
      obtain ⟨rfl, _⟩ := hc
      exact ⟨⟨h.1, fun _ => prefixComplete_nil _⟩, rfl⟩
  · simp only [Except.ok.injEq, Prod.mk.injEq] at hc
    obtain ⟨rfl, _⟩ := hc
    exact ⟨⟨h.1, fun _ => prefixComplete_nil _⟩, rfl⟩

/-- ending the word preserves the invariant (either setting) and leaves the context idle -/
theorem pFinish_inv (env : Env) (on on' : Bool) (s : PState) (h : Inv env on s) :
    Inv env on' (pFinish s) ∧ (pFinish s).buffer = [] :=
  ⟨⟨h.1, fun _ => prefixComplete_nil _⟩, rfl⟩

/-- `update_engine` while idle preserves the invariant: a reload of the user auto-correct list
    empties the memo, and the option may change -/
theorem pUpdate_inv (env : Env) (on on' : Bool) (fs : FS) (s : PState) (h : Inv env on s) (hb : s.buffer = []) :
    Inv env on' (pUpdate fs s) ∧ (pUpdate fs s).buffer = [] := by
  unfold pUpdate
  split
  · split
    · exact ⟨⟨soundMemo_nil env _, fun _ => hb ▸ prefixComplete_nil _⟩, hb⟩
    · exact ⟨h.idle hb, hb⟩
  · split
    · exact ⟨⟨soundMemo_nil env _, fun _ => hb ▸ prefixComplete_nil _⟩, hb⟩
    · exact ⟨h.idle hb, hb⟩

/-! ### derived selections (`get_prev_selection` extends the store with entries derived from learned bases) -/

/-- `prevSelLoop` over an arbitrary look-up function -/
def prevSelLoopF (env : Env) (look : Str → Option Str) : List (Str × Str) → Option Str
  | [] => none
  | (key, test) :: rest =>
    match env.suffix test with
    | none => prevSelLoopF env look rest
    | some sfx =>
      match look key with
      | none => prevSelLoopF env look rest
      | some base =>
        match joinChecked base sfx with
        | none => prevSelLoopF env look rest
        | some j => some j

/-- the model's derivation loop is the generic one over the store look-up -/
theorem prevSelLoop_eq_F (env : Env) (st : Store) (pts : List (Str × Str)) :
    prevSelLoop env st pts = prevSelLoopF env (alookup st) pts := by
  induction pts with
  | nil => rfl
  | cons x rest ih =>
    obtain ⟨key, test⟩ := x
    simp only [prevSelLoop, prevSelLoopF, ih]
    cases env.suffix test with
    | none => rfl
    | some sfx =>
      cases alookup st key with
      | none => rfl
      | some base => cases joinChecked base sfx <;> rfl

/-- the derivation loop only depends on the look-up at the keys of its split points -/
theorem prevSelLoopF_congr (env : Env) (look₁ look₂ : Str → Option Str) (pts : List (Str × Str))
    (h : ∀ ks ∈ pts, look₁ ks.1 = look₂ ks.1) : prevSelLoopF env look₁ pts = prevSelLoopF env look₂ pts := by
  induction pts with
  | nil => rfl
  | cons x rest ih =>
    obtain ⟨key, test⟩ := x
    have hk : look₁ key = look₂ key := h (key, test) (by simp)
    have ih' := ih (fun ks hks => h ks (by simp [hks]))
    simp only [prevSelLoopF, hk, ih']

/-- the EFFECTIVE learned value of a word over the store `S₀` as loaded / as of the last learning
    commit: the stored value, else — for fix-point words of two or more characters — what the
    derivation loop of `get_prev_selection` produces from the effective values of the proper
    prefixes.  A function of the data and `S₀` only. -/
def effSel (env : Env) (S₀ : Store) (k : Str) : Option Str :=
  match alookup S₀ k with
  | some v => some v
  | none =>
    if word k = k ∧ k.length ≥ 2 then
      prevSelLoopF env (fun k' => if _h : k'.length < k.length then effSel env S₀ k' else none) (splitPoints k).reverse
    else none
termination_by k.length

/-- recursion equation of `effSel` -/
theorem effSel_eq (env : Env) (S₀ : Store) (k : Str) :
    effSel env S₀ k =
      match alookup S₀ k with
      | some v => some v
      | none =>
        if word k = k ∧ k.length ≥ 2 then prevSelLoopF env (effSel env S₀) (splitPoints k).reverse else none := by
  rw [effSel]
  cases alookup S₀ k with
  | some v => rfl
  | none =>
    simp only
    split
    · apply prevSelLoopF_congr
      intro ks hks
      have hm := mem_splitPoints (List.mem_reverse.mp hks)
      have hlen : ks.1.length < k.length := by
        have h1 := hm.2.1.length_le
        have h2 : ks.1.length ≠ k.length := fun he => hm.2.2 (List.IsPrefix.eq_of_length hm.2.1 he)
        omega
      simp [hlen]
    · rfl

/-- a stored (loaded or learned) value is the effective value -/
theorem effSel_of_stored (env : Env) (S₀ : Store) (k v : Str) (h : alookup S₀ k = some v) :
    effSel env S₀ k = some v := by
  rw [effSel_eq, h]

/-- nothing is ever derived for a text that is not its own word part -/
theorem effSel_nonfix (env : Env) (S₀ : Store) (k : Str) (h : word k ≠ k) : effSel env S₀ k = alookup S₀ k := by
  rw [effSel_eq]
  cases alookup S₀ k with
  | some v => rfl
  | none => simp [h]

/-- every binding of the live store is a loaded/learned one or the effective value of its key -/
def StoreSound (env : Env) (S₀ st : Store) : Prop :=
  ∀ k, alookup st k = alookup S₀ k ∨ alookup st k = effSel env S₀ k

/-- the word part of every non-empty prefix of the text already has its effective value in the live store -/
def StoreComplete (env : Env) (S₀ st : Store) (buffer : Str) : Prop :=
  ∀ p, p <+: buffer → p ≠ [] → alookup st (word p) = effSel env S₀ (word p)

/-- a store is sound relative to itself (context creation, learning commit) -/
theorem storeSound_refl (env : Env) (S₀ : Store) : StoreSound env S₀ S₀ := fun _ => Or.inl rfl

/-- nothing needs to have been derived for the empty composition -/
theorem storeComplete_nil (env : Env) (S₀ st : Store) : StoreComplete env S₀ st [] := by
  intro p hp hne
  exact absurd (List.prefix_nil.mp hp) hne

/-- store completeness is inherited by shorter texts (backspace) -/
theorem StoreComplete.mono {env : Env} {S₀ st : Store} {b b' : Str} (h : StoreComplete env S₀ st b) (hb : b' <+: b) :
    StoreComplete env S₀ st b' :=
  fun p hp hne => h p (hp.trans hb) hne

/-- a sound live store that has seen every shorter prefix answers like `effSel` on every proper
    prefix of the word being looked up -/
theorem store_prefix_eq_eff (env : Env) (S₀ st : Store) (t k : Str)
    (hs : StoreSound env S₀ st) (hc : StoreComplete env S₀ st t.dropLast)
    (hk : k ≠ []) (hpre : k <+: word t) (hne : k ≠ word t) : alookup st k = effSel env S₀ k := by
  by_cases hfix : word k = k
  · obtain ⟨p, hp, hpne, hpk⟩ := key_is_visited_strict t k hk hpre hne hfix
    have := hc p hp hpne
    rwa [hpk] at this
  · rcases hs k with h | h
    · rw [h, effSel_nonfix env S₀ k hfix]
    · exact h

/-- what `get_prev_selection` finds and does to the store, in terms of `effSel` -/
theorem selectedFor_spec (env : Env) (S₀ st : Store) (t : Str)
    (hs : StoreSound env S₀ st) (hc : StoreComplete env S₀ st t.dropLast) :
    (selectedFor env st (word t)).1 = (effSel env S₀ (word t)).getD [] ∧
    alookup (selectedFor env st (word t)).2 (word t) = effSel env S₀ (word t) ∧
    ∀ k, k ≠ word t → alookup (selectedFor env st (word t)).2 k = alookup st k := by
  have hloop : prevSelLoop env st (splitPoints (word t)).reverse =
      prevSelLoopF env (effSel env S₀) (splitPoints (word t)).reverse := by
    rw [prevSelLoop_eq_F]
    apply prevSelLoopF_congr
    intro ks hks
    obtain ⟨h1, h2, h3⟩ := mem_splitPoints (List.mem_reverse.mp hks)
    exact store_prefix_eq_eff env S₀ st t ks.1 hs hc h1 h2 h3
  unfold selectedFor
  cases hl : alookup st (word t) with
  | some item =>
    simp only
    have he : effSel env S₀ (word t) = some item := by
      rcases hs (word t) with h | h
      · exact effSel_of_stored env S₀ _ _ (by rw [← h, hl])
      · rw [← h, hl]
    exact ⟨by rw [he]; rfl, by rw [hl, he], by intros; trivial⟩
  | none =>
    have h0 : alookup S₀ (word t) = none := by
      rcases hs (word t) with h | h
      · rw [← h, hl]
      · cases h0 : alookup S₀ (word t) with
        | none => rfl
        | some v => rw [effSel_of_stored env S₀ _ _ h0, hl] at h; cases h
    have he := effSel_eq env S₀ (word t)
    rw [h0] at he
    simp only at he
    simp only
    split
    · rename_i hlen
      rw [if_pos ⟨word_idem t, hlen⟩, ← hloop] at he
      cases hp : prevSelLoop env st (splitPoints (word t)).reverse with
      | none =>
        rw [hp] at he
        simp only
        exact ⟨by rw [he]; rfl, by rw [hl, he], by intros; trivial⟩
      | some j =>
        rw [hp] at he
        simp only
        exact ⟨by rw [he]; rfl, by rw [he]; exact alookup_ainsert_self _ _ _,
          fun k hk => alookup_ainsert_ne _ _ _ _ hk⟩
    · rename_i hlen
      rw [if_neg (fun h => hlen h.2)] at he
      exact ⟨by rw [he]; rfl, by rw [hl, he], by intros; trivial⟩

/-- `get_prev_selection` keeps the store sound -/
theorem selectedFor_sound (env : Env) (S₀ st : Store) (t : Str)
    (hs : StoreSound env S₀ st) (hc : StoreComplete env S₀ st t.dropLast) :
    StoreSound env S₀ (selectedFor env st (word t)).2 := by
  obtain ⟨_, h2, h3⟩ := selectedFor_spec env S₀ st t hs hc
  intro k
  by_cases hk : k = word t
  · subst hk; exact Or.inr h2
  · rw [h3 k hk]; exact hs k

/-- `get_prev_selection` makes the store complete for the text just looked up -/
theorem selectedFor_complete (env : Env) (S₀ st : Store) (t : Str)
    (hs : StoreSound env S₀ st) (hc : StoreComplete env S₀ st t.dropLast) :
    StoreComplete env S₀ (selectedFor env st (word t)).2 t := by
  obtain ⟨_, h2, h3⟩ := selectedFor_spec env S₀ st t hs hc
  intro p hp hne
  by_cases hk : word p = word t
  · rw [hk]; exact h2
  · rw [h3 _ hk]
    have hpt : p ≠ t := fun h => hk (h ▸ rfl)
    exact hc p (prefix_dropLast_of_ne hp hpt) hne

/-- the store invariant of reachable phonetic states, relative to the store `S₀` as loaded / as
    of the last learning commit -/
def SelInv (env : Env) (S₀ : Store) (on : Bool) (s : PState) : Prop :=
  StoreSound env S₀ s.selections ∧ (on = true → StoreComplete env S₀ s.selections s.buffer)

/-- what `create_suggestion` needs to find in the store -/
def PreSelInv (env : Env) (S₀ : Store) (s : PState) : Prop :=
  StoreSound env S₀ s.selections ∧ StoreComplete env S₀ s.selections s.buffer.dropLast

/-- the store invariant gives what `create_suggestion` needs -/
theorem SelInv.pre {env : Env} {S₀ : Store} {s : PState} (h : SelInv env S₀ true s) : PreSelInv env S₀ s :=
  ⟨h.1, (h.2 rfl).mono (List.dropLast_prefix _)⟩

/-- while idle the store invariant does not depend on the option -/
theorem SelInv.idle {env : Env} {S₀ : Store} {on on' : Bool} {s : PState} (h : SelInv env S₀ on s)
    (hb : s.buffer = []) : SelInv env S₀ on' s :=
  ⟨h.1, fun _ => hb ▸ storeComplete_nil _ _ _⟩

/-- an idle state satisfies the store invariant relative to its own store -/
theorem selInv_idle_self (env : Env) (on : Bool) (s : PState) (hb : s.buffer = []) :
    SelInv env s.selections on s :=
  ⟨storeSound_refl env _, fun _ => hb ▸ storeComplete_nil _ _ _⟩

/-- a brand-new context satisfies the store invariant relative to the loaded selections file -/
theorem selInv_pNew (env : Env) (on : Bool) (fs : FS) : SelInv env (fs.sel.content) on (pNew fs) := by
  have := selInv_idle_self env on (pNew fs) rfl
  simpa [pNew] using this

/-- the store after `suggest` -/
theorem suggest_selections (env : Env) (cfg : Cfg) (s : PState) (t : Str) :
    (suggest env cfg s t).1.selections = (selectedFor env s.selections (word t)).2 := by
  simp [suggest, getPrevSelection, preparedParts_word]

/-- the store after `create_suggestion` (suggestions on) -/
theorem pCreate_selections_on (env : Env) (cfg : Cfg) (s : PState) (hon : cfg.phoneticSuggestion = true) :
    (pCreateSuggestion env cfg s).1.selections = (selectedFor env s.selections (word s.buffer)).2 := by
  rw [pCreate_on env cfg s hon]; exact suggest_selections env cfg s s.buffer

/-- `create_suggestion` (suggestions on) establishes the store invariant for the text just looked up -/
theorem pCreate_selInv_on (env : Env) (cfg : Cfg) (S₀ : Store) (s : PState) (hon : cfg.phoneticSuggestion = true)
    (h : PreSelInv env S₀ s) : SelInv env S₀ true (pCreateSuggestion env cfg s).1 := by
  refine ⟨?_, fun _ => ?_⟩
  · rw [pCreate_selections_on env cfg s hon]
    exact selectedFor_sound env S₀ _ _ h.1 h.2
  · rw [pCreateSuggestion_buffer, pCreate_selections_on env cfg s hon]
    exact selectedFor_complete env S₀ _ _ h.1 h.2

/-- a key press preserves the store invariant (suggestions on) -/
theorem pKey_selInv_on (env : Env) (cfg : Cfg) (S₀ : Store) (s : PState) (key sel : Nat)
    (hon : cfg.phoneticSuggestion = true) (h : SelInv env S₀ true s) :
    SelInv env S₀ true (pKey env cfg s key sel).1 := by
  rw [pKey_fst]
  cases keycodeToChar key with
  | none =>
    simp only
    split
    · exact h
    · exact pCreate_selInv_on env cfg S₀ s hon h.pre
  | some ch =>
    simp only
    apply pCreate_selInv_on env cfg S₀ _ hon
    refine ⟨h.1, ?_⟩
    simp only [List.dropLast_concat]
    exact h.2 rfl

/-- a key press preserves the store invariant (suggestions off: the store is not touched) -/
theorem pKey_selInv_off (env : Env) (cfg : Cfg) (S₀ : Store) (s : PState) (key sel : Nat)
    (hoff : cfg.phoneticSuggestion = false) (h : SelInv env S₀ false s) :
    SelInv env S₀ false (pKey env cfg s key sel).1 := by
  rw [pKey_fst]
  cases keycodeToChar key with
  | none =>
    simp only
    split
    · exact h
    · rw [pCreate_off env cfg s hoff]; exact h
  | some ch =>
    simp only
    rw [pCreate_off env cfg _ hoff]
    exact ⟨h.1, fun h => by simp at h⟩

/-- backspace preserves the store invariant (suggestions on) -/
theorem pBackspace_selInv_on (env : Env) (cfg : Cfg) (S₀ : Store) (s : PState) (ctrl : Bool)
    (hon : cfg.phoneticSuggestion = true) (h : SelInv env S₀ true s) :
    SelInv env S₀ true (pBackspace env cfg s ctrl).1 := by
  unfold pBackspace
  split
  · split
    · exact ⟨h.1, fun _ => storeComplete_nil _ _ _⟩
    · have hd : StoreComplete env S₀ s.selections s.buffer.dropLast := (h.2 rfl).mono (List.dropLast_prefix _)
      simp only
      split
      · exact ⟨h.1, fun _ => hd⟩
      · apply pCreate_selInv_on env cfg S₀ _ hon
        exact ⟨h.1, hd.mono (List.dropLast_prefix _)⟩
  · exact h

/-- backspace preserves the store invariant (suggestions off) -/
theorem pBackspace_selInv_off (env : Env) (cfg : Cfg) (S₀ : Store) (s : PState) (ctrl : Bool)
    (hoff : cfg.phoneticSuggestion = false) (h : SelInv env S₀ false s) :
    SelInv env S₀ false (pBackspace env cfg s ctrl).1 := by
  unfold pBackspace
  split
  · split
    · exact ⟨h.1, fun h => by simp at h⟩
    · simp only
      split
      · exact ⟨h.1, fun h => by simp at h⟩
      · rw [pCreate_off env cfg _ hoff]; exact ⟨h.1, fun h => by simp at h⟩
  · exact h

/-- a commit leaves the context idle; relative to the store it leaves behind (which a learning
    commit also writes to the file) the store invariant holds again -/
theorem pCommit_selInv (env : Env) (cfg : Cfg) (on : Bool) (s s' : PState) (i : Nat) (wr : Option Store)
    (hc : pCommit cfg s i = .ok (s', wr)) : SelInv env s'.selections on s' := by
  apply selInv_idle_self
  unfold pCommit at hc
  split at hc
  · split at hc
    · cases hc
    · simp only [Except.ok.injEq, Prod.mk.injEq] at hc
      obtain ⟨rfl, _⟩ := hc; rfl
  · simp only [Except.ok.injEq, Prod.mk.injEq] at hc
    obtain ⟨rfl, _⟩ := hc; rfl

/-- a commit that learns nothing (nothing is written) keeps the store invariant relative to the same `S₀` -/
theorem pCommit_selInv_keep (env : Env) (cfg : Cfg) (S₀ : Store) (on on' : Bool) (s s' : PState) (i : Nat)
    (h : SelInv env S₀ on s) (hc : pCommit cfg s i = .ok (s', none)) : SelInv env S₀ on' s' := by
  unfold pCommit at hc
  split at hc
  · split at hc
    · cases hc
    · simp at hc
  · simp only [Except.ok.injEq, Prod.mk.injEq] at hc
    obtain ⟨rfl, _⟩ := hc
    exact ⟨h.1, fun _ => storeComplete_nil _ _ _⟩

/-- ending the word preserves the store invariant (either setting) -/
theorem pFinish_selInv (env : Env) (S₀ : Store) (on on' : Bool) (s : PState) (h : SelInv env S₀ on s) :
    SelInv env S₀ on' (pFinish s) :=
  ⟨h.1, fun _ => storeComplete_nil _ _ _⟩

/-- `update_engine` never touches the selection store -/
theorem pUpdate_selections (fs : FS) (s : PState) : (pUpdate fs s).selections = s.selections := by
  unfold pUpdate; split <;> split <;> rfl

/-- `update_engine` never touches the composition -/
theorem pUpdate_buffer (fs : FS) (s : PState) : (pUpdate fs s).buffer = s.buffer := by
  unfold pUpdate; split <;> split <;> rfl

/-- `update_engine` while idle preserves the store invariant; the option may change -/
theorem pUpdate_selInv (env : Env) (S₀ : Store) (on on' : Bool) (fs : FS) (s : PState) (h : SelInv env S₀ on s)
    (hb : s.buffer = []) : SelInv env S₀ on' (pUpdate fs s) := by
  refine ⟨?_, fun _ => ?_⟩
  · rw [pUpdate_selections]; exact h.1
  · rw [pUpdate_buffer, hb]; exact storeComplete_nil _ _ _

end Riti
