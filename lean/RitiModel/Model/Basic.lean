/-
Model/Basic — panic sites, text helpers.  Import-free (core Lean only) so the driver links.
Text is `List Char` everywhere.
-/
namespace Riti

/-- Every Rust panic site on the paths of the properties (DESIGN §1.3). -/
inductive Panic where
  | unknownKey        -- P1  keycodes.rs  `_ => panic!("Got unknown key!")`
  | rephEmpty         -- P2  is_reph_moveable `buf_chars.next().unwrap()` on an empty buffer
  | emptyBase         -- P3/P10 `base.chars().last().unwrap()`
  | emptySuffix       -- P10 `suffix.chars().next().unwrap()`
  | regexTooBig       -- P4/P5 `Regex::new(..).unwrap()`
  | bijoy             -- P6  poriborton `panic!`
  | userFile          -- P7  `serde_json::from_slice(..).unwrap()` on a user file
  | saveFailed        -- P8  `write(..).unwrap()`
  | indexOutOfRange   -- P9  `suggestions[index]`
  | lonelyAccessor    -- list accessor on a Single suggestion / vice versa
  deriving DecidableEq, Repr, Inhabited

def Panic.str : Panic → String
  | .unknownKey => "unknownKey" | .rephEmpty => "rephEmpty" | .emptyBase => "emptyBase"
  | .emptySuffix => "emptySuffix" | .regexTooBig => "regexTooBig" | .bijoy => "bijoy"
  | .userFile => "userFile" | .saveFailed => "saveFailed" | .indexOutOfRange => "indexOutOfRange"
  | .lonelyAccessor => "lonelyAccessor"

abbrev Res (α : Type) := Except Panic α

/-- association-list look-up (first match) -/
def alookup {α β : Type} [BEq α] : List (α × β) → α → Option β
  | [], _ => none
  | (k, v) :: rest, a => if k == a then some v else alookup rest a

/-- association-list insert: replace the first binding of the key or append a new one -/
def ainsert {α β : Type} [BEq α] : List (α × β) → α → β → List (α × β)
  | [], a, b => [(a, b)]
  | (k, v) :: rest, a, b => if k == a then (k, b) :: rest else (k, v) :: ainsert rest a b

def natsToChars (l : List Nat) : List Char := l.map Char.ofNat

end Riti
