/-
Model/Bijoy — executable transcription of poriborton 0.2.x `bijoy2000::unicode_to_bijoy`
(the encoder behind `Env.bijoy`, used when `ansi_encoding` is on).

Everything literal (the `MAP` phf_map, the kar replacement characters, the compared strings, the sets of
utility.rs) comes from `Gen/BijoyTables.lean`; the control flow below is transcribed by hand and pinned by the
"skeleton" check of tools/gen_bijoy.py.

Shape: `bijoy` = `encodeNat` on code points; `encodeNat` = `loop` (the `for` over `char_indices`) + final flush;
`step` = `exec (classify c st)`: `classify` picks the arm of the big `match c` (first match wins, guards
included), `exec` is the arm body; `convertBuffer`, `replaceKar`, `last`, `isFrontFacing` are the Rust helpers.
Agreement with the real crate: tools/BijoyRunAll.lean over tools/bijoy_pairs.tsv (all dictionary words),
Props/BijoySamples*.lean (kernel-checked).

Representation: the algorithm runs on `Nat` code points (`List Nat`); `output` is kept REVERSED (`rout`,
head = last pushed char), `buffer` is kept forward.  Rust byte offsets only matter in `last` (utility.rs),
which is modelled on UTF-8 byte lengths; the other byte constants (`drain(..6)`, `drain(3..6)`,
`len() - 6`) are two/one 3-byte chars — gen_bijoy.py checks that.
-/
import RitiModel.Model.Basic
import RitiModel.Gen.BijoyTables

namespace Riti.Bijoy
open Riti.Gen.Bijoy

/-- UTF-8 length of a code point (`char::len_utf8`). -/
def utf8Len (n : Nat) : Nat :=
  if n < 0x80 then 1 else if n < 0x800 then 2 else if n < 0x10000 then 3 else 4

def byteLen : List Nat → Nat
  | [] => 0
  | c :: cs => utf8Len c + byteLen cs

/-- `s.get(k..)`: the suffix starting at byte offset `k`, `none` when `k` is not a char boundary
(`k ≤ len` always holds at the call site). -/
def dropBytes : List Nat → Nat → Option (List Nat)
  | l, 0 => some l
  | [], _ + 1 => none
  | c :: cs, k + 1 => if k + 1 < utf8Len c then none else dropBytes cs (k + 1 - utf8Len c)

/-- utility.rs `last(string, n)` = `string.get(string.len().saturating_sub(n * 3)..)`. -/
def last (s : List Nat) (n : Nat) : Option (List Nat) :=
  dropBytes s (byteLen s - n * 3)

def isKar (c : Nat) : Bool := karLo ≤ c && c ≤ karHi
def isFrontKar (c : Nat) : Bool := frontKarSet.contains c
def isVowel (c : Nat) : Bool := vowelLo ≤ c && c ≤ vowelHi
def isConsonant (c : Nat) : Bool := consonantLo ≤ c && c ≤ consonantHi
/-- `char::is_ascii_whitespace`: U+0020, U+0009, U+000A, U+000C, U+000D. -/
def isAsciiWhitespace (c : Nat) : Bool := c == 0x20 || c == 0x09 || c == 0x0A || c == 0x0C || c == 0x0D

/-- `is_base_line_right_char(c: &str)` applied to an `Option<&str>` scrutinee bound by `Some(c)`. -/
def isBaseLineRight (s : List Nat) : Bool := baseLineRightSet.contains s

def isSpecialRFola : Option (List Nat) → Bool
  | some s => specialRFolaSet.contains s
  | none => false

def isSpecialL : Option (List Nat) → Bool
  | some s => specialLSet.contains s
  | none => false

/-- the loop of `is_front_facing` over `string.chars().rev()`; `eh` = encountered_hasanta,
`ec` = encountered_consonant -/
def frontFacingLoop : List Nat → Bool → Bool → Bool
  | [], _, _ => true
  | c :: cs, eh, ec =>
    if c = B_HASANTA then frontFacingLoop cs true ec
    else if isConsonant c && ec && !eh then false
    else if isConsonant c then frontFacingLoop cs false true
    else if isAsciiWhitespace c then true
    else if isVowel c || isKar c then false
    else frontFacingLoop cs eh ec

/-- `is_front_facing(&input[..pos])`, on the REVERSED prefix. -/
def isFrontFacing (rpre : List Nat) : Bool :=
  if rpre.isEmpty then true else frontFacingLoop rpre false false

/-- `replace_kar(kar, front, preceding)`; the final `_ => panic!` arm is `.error .bijoy`. -/
def replaceKar (kar : Nat) (front : Bool) (p : List Nat) : Res Nat :=
  if kar = kAa then .ok oAa
  else if kar = kIi then .ok oIi
  else if kar = kU then
    if p = sR then .ok oULig
    else match last p 1 with
      | some l1 =>
        if l1 = sR then
          if isSpecialRFola (last p 3) || isSpecialRFola (last p 5) then .ok oULig else .ok oUNarrow
        else if l1 = sL then
          if isSpecialL (last p 3) || last p 5 == some sSPL then .ok oULig else .ok oUNarrow
        else if l1 = sNn then
          if last p 3 == some sSsNn then .ok oUWide else .ok oUNarrow
        else if l1 = sSs then
          if last p 3 == some sKSs then .ok oUWide else .ok oUNarrow
        else if isBaseLineRight l1 then .ok oUNarrow
        else if l1 = sRr || l1 = sRh then .ok oURr
        else .ok oUWide
      | none => .ok oUWide
  else if kar = kUu then
    if p = sR then .ok oUuLig
    else match last p 1 with
      | some l1 =>
        if l1 = sR then
          if isSpecialRFola (last p 3) || isSpecialRFola (last p 5) then .ok oUuLig else .ok oUuNarrow
        else if l1 = sL then
          if isSpecialL (last p 3) || last p 5 == some sSPL then .ok oUuLig else .ok oUuNarrow
        else if l1 = sSs then
          if last p 3 == some sKSs then .ok oUuWide else .ok oUuNarrow
        else if isBaseLineRight l1 then .ok oUuNarrow
        else .ok oUuWide
      | none => .ok oUuWide
  else if kar = kRri then
    match last p 1 with
      | some l1 => if isBaseLineRight l1 then .ok oRriNarrow else .ok oRriWide
      | none => .ok oRriWide
  else if kar = kI then .ok oI
  else if kar = kE then (if front then .ok oEFront else .ok oE)
  else if kar = kOi then (if front then .ok oOiFront else .ok oOi)
  else .error .bijoy

def mapGet (k : List Nat) : Option (List Nat) := alookup bijoyMap k

/-- strip the suffix `suf` (`ends_with` + `truncate`) -/
def stripSuffix? (suf l : List Nat) : Option (List Nat) :=
  if suf.isSuffixOf l then some (l.take (l.length - suf.length)) else none

/-- `convert_buffer(&mut buffer, &mut output)`: returns the new (reversed) output; the buffer is always
cleared by the callee. -/
def convertBuffer (buf rout : List Nat) : List Nat :=
  -- Reph: `starts_with("র্")`, `drain(..6)`
  let reph := sReph.isPrefixOf buf
  let b1 := if reph then buf.drop 2 else buf
  -- R + ZWJ: `drain(3..6)` removes the ZWJ
  let b2 := if sRZwj.isPrefixOf b1 then b1.take 1 ++ b1.drop 2 else b1
  -- Z fola
  let zf := sZFola.isSuffixOf b2
  let b3 := if zf then b2.take (b2.length - 2) else b2
  -- trailing hasanta
  let hs := [cHas].isSuffixOf b3
  let b4 := if hs then b3.take (b3.length - 1) else b3
  let o1 := match mapGet b4 with
    | some r => r.reverse ++ rout
    | none => rout
  let o2 := if zf then oZFola :: o1 else o1
  let o3 := if reph then oReph :: o2 else o2
  if hs then oHasanta :: o3 else o3

structure St where
  rout : List Nat
  buf  : List Nat
  hs   : Bool
  deriving DecidableEq, Repr

/-- the arms of the `match c { … }` in the loop body of `unicode_to_bijoy`, in source order -/
inductive Arm where
  | oKar          -- B_O_KAR
  | ouKar         -- B_OU_KAR
  | frontKar      -- c if is_front_kar(c)
  | gU            -- B_U_KAR if buffer == "গ"
  | shU           -- B_U_KAR if buffer == "শ"
  | hU            -- B_U_KAR if buffer == "হ"
  | tU            -- B_U_KAR if buffer.ends_with("্ত")
  | hRri          -- B_RRI_KAR if buffer == "হ"
  | kar           -- c if is_kar(c)
  | hasanta       -- B_HASANTA
  | dari          -- B_DARI
  | ddari         -- B_DDARI
  | zwj           -- ZWJ
  | zwnj          -- ZWNJ
  | afterHasanta  -- c if encountered_hasanta
  | bengali       -- '\u{0980}'..='\u{09FF}' | '\u{2018}' | '\u{2019}' | '\u{201C}' | '\u{201D}'
  | other         -- c
  deriving DecidableEq, Repr

/-- which arm of the `match c` is taken (first match wins, guards included) -/
def classify (c : Nat) (st : St) : Arm :=
  if c = B_O_KAR then .oKar
  else if c = B_OU_KAR then .ouKar
  else if isFrontKar c then .frontKar
  else if c = B_U_KAR ∧ st.buf = sG then .gU
  else if c = B_U_KAR ∧ st.buf = sSh then .shU
  else if c = B_U_KAR ∧ st.buf = sH then .hU
  else if c = B_U_KAR ∧ sHasT.isSuffixOf st.buf = true then .tU
  else if c = B_RRI_KAR ∧ st.buf = sH then .hRri
  else if isKar c then .kar
  else if c = B_HASANTA then .hasanta
  else if c = B_DARI then .dari
  else if c = B_DDARI then .ddari
  else if c = ZWJ then .zwj
  else if c = ZWNJ then .zwnj
  else if st.hs then .afterHasanta
  else if (benLo ≤ c ∧ c ≤ benHi) ∨ c = q1 ∨ c = q2 ∨ c = q3 ∨ c = q4 then .bengali
  else .other

/-- the body of each arm; `rpre` = reversed `input[..pos]` -/
def exec (a : Arm) (rpre : List Nat) (c : Nat) (st : St) : Res St :=
  match a with
  | .oKar =>
    match replaceKar kE (isFrontFacing rpre) sEmpty with
    | .error e => .error e
    | .ok k => .ok { st with rout := oAaTail :: convertBuffer st.buf (k :: st.rout), buf := [] }
  | .ouKar =>
    match replaceKar kE (isFrontFacing rpre) sEmpty with
    | .error e => .error e
    | .ok k => .ok { st with rout := oAuTail :: convertBuffer st.buf (k :: st.rout), buf := [] }
  | .frontKar =>
    match replaceKar c (isFrontFacing rpre) sEmpty with
    | .error e => .error e
    | .ok k => .ok { st with rout := convertBuffer st.buf (k :: st.rout), buf := [] }
  | .gU => .ok { st with rout := oGU :: st.rout, buf := [] }
  | .shU => .ok { st with rout := oShU :: st.rout, buf := [] }
  | .hU => .ok { st with rout := oHU :: st.rout, buf := [] }
  | .tU =>
    -- convert_buffer; output.pop(); output.push('‘')
    .ok { st with rout := oTU :: (convertBuffer st.buf st.rout).tail, buf := [] }
  | .hRri => .ok { st with rout := oHRri :: st.rout, buf := [] }
  | .kar =>
    match replaceKar c false st.buf with
    | .error e => .error e
    | .ok k => .ok { st with rout := k :: convertBuffer st.buf st.rout, buf := [] }
  | .hasanta => .ok { st with buf := st.buf ++ [B_HASANTA], hs := true }
  | .dari => .ok { st with rout := oDari :: convertBuffer st.buf st.rout, buf := [] }
  | .ddari => .ok { st with rout := oDdari :: convertBuffer st.buf st.rout, buf := [] }
  | .zwj => .ok { st with buf := st.buf ++ [ZWJ] }
  | .zwnj =>
    if [B_HASANTA].isSuffixOf st.buf then
      .ok { rout := oHasanta :: convertBuffer (st.buf.take (st.buf.length - 1)) st.rout, buf := [], hs := false }
    else .ok st
  | .afterHasanta => .ok { st with buf := st.buf ++ [c], hs := false }
  | .bengali => .ok { st with rout := convertBuffer st.buf st.rout, buf := [c] }
  | .other => .ok { st with rout := c :: convertBuffer st.buf st.rout, buf := [] }

/-- one iteration of the `for (pos, c) in input.char_indices()` loop -/
def step (rpre : List Nat) (c : Nat) (st : St) : Res St :=
  exec (classify c st) rpre c st

def loop : List Nat → List Nat → St → Res St
  | _, [], st => .ok st
  | rpre, c :: cs, st =>
    match step rpre c st with
    | .error e => .error e
    | .ok st' => loop (c :: rpre) cs st'

/-- `unicode_to_bijoy` on code points -/
def encodeNat (input : List Nat) : Res (List Nat) :=
  match loop [] input { rout := [], buf := [], hs := false } with
  | .error e => .error e
  | .ok st =>
    let rout := if st.buf.isEmpty then st.rout else convertBuffer st.buf st.rout
    .ok rout.reverse

/-- decidable equality of results, so that `decide` can check concrete encodings (scoped: `open Riti.Bijoy`) -/
scoped instance resDecEq {α : Type} [DecidableEq α] : DecidableEq (Res α)
  | .ok a, .ok b => if h : a = b then isTrue (h ▸ rfl) else isFalse (fun e => h (Except.ok.inj e))
  | .error a, .error b => if h : a = b then isTrue (h ▸ rfl) else isFalse (fun e => h (Except.error.inj e))
  | .ok _, .error _ => isFalse (fun e => nomatch e)
  | .error _, .ok _ => isFalse (fun e => nomatch e)

end Riti.Bijoy

namespace Riti
/-- poriborton `bijoy2000::unicode_to_bijoy`; `.error .bijoy` = the crate's `panic!`. -/
def bijoy (s : List Char) : Res (List Char) :=
  match Bijoy.encodeNat (s.map Char.toNat) with
  | .error e => .error e
  | .ok l => .ok (l.map Char.ofNat)
end Riti
