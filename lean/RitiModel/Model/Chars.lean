/-
Model/Chars — character classes over the generated sets (src/utility.rs `Utility`,
src/fixed/chars.rs, src/fixed/method.rs `MARKS`, `is_left_standing_kar`).
-/
import RitiModel.Gen.CharClasses
import RitiModel.Model.Basic
namespace Riti
open Gen

def isVowel (c : Char) : Bool := vowelSet.contains c.toNat
def isKar (c : Char) : Bool := karSet.contains c.toNat
def isPureConsonant (c : Char) : Bool := pureConsonantSet.contains c.toNat
def isMeta (c : Char) : Bool := metaSet.contains c.toNat
def isMark (c : Char) : Bool := marksSet.contains c.toNat
def isLigatureKar (c : Char) : Bool := ligatureKarSet.contains c.toNat
def isLeftStandingKar (c : Char) : Bool := leftStandingKarSet.contains c.toNat
def isPunctOverride (c : Char) : Bool := punctOverrideSet.contains c.toNat
def isCleaned (c : Char) : Bool := cleanSet.contains c.toNat
def inRegexClass (c : Char) : Bool := regexClassSet.contains c.toNat

def cR : Char := Char.ofNat B_R
def cHasanta : Char := Char.ofNat B_HASANTA
def cChandra : Char := Char.ofNat B_CHANDRA
def cZWJ : Char := Char.ofNat ZWJ
def cZWNJ : Char := Char.ofNat ZWNJ
def cZ : Char := Char.ofNat B_Z
def cLengthMark : Char := Char.ofNat B_LENGTH_MARK
def cAAKar : Char := Char.ofNat B_AA_KAR
def cIKar : Char := Char.ofNat B_I_KAR
def cIIKar : Char := Char.ofNat B_II_KAR
def cUKar : Char := Char.ofNat B_U_KAR
def cUUKar : Char := Char.ofNat B_UU_KAR
def cRRIKar : Char := Char.ofNat B_RRI_KAR
def cEKar : Char := Char.ofNat B_E_KAR
def cOIKar : Char := Char.ofNat B_OI_KAR
def cOKar : Char := Char.ofNat B_O_KAR
def cOUKar : Char := Char.ofNat B_OU_KAR
def cAA : Char := Char.ofNat B_AA
def cI : Char := Char.ofNat B_I
def cII : Char := Char.ofNat B_II
def cU : Char := Char.ofNat B_U
def cUU : Char := Char.ofNat B_UU
def cRRI : Char := Char.ofNat B_RRI
def cE : Char := Char.ofNat B_E
def cOI : Char := Char.ofNat B_OI
def cO : Char := Char.ofNat B_O
def cOU : Char := Char.ofNat B_OU
def cKhandaTa : Char := Char.ofNat B_KHANDATTA
def cAnushar : Char := Char.ofNat B_ANUSHAR
def cNga : Char := Char.ofNat B_NGA
def cT : Char := Char.ofNat B_T
def cY : Char := Char.ofNat B_Y

/-- the `match character { B_AA_KAR => B_AA, … , _ => () }` table of process_key_value:
    the independent vowel of a sign, `none` for a sign without one (U+09C4) -/
def karToVowel (c : Char) : Option Char :=
  if c == cAAKar then some cAA
  else if c == cIKar then some cI
  else if c == cIIKar then some cII
  else if c == cUKar then some cU
  else if c == cUUKar then some cUU
  else if c == cRRIKar then some cRRI
  else if c == cEKar then some cE
  else if c == cOIKar then some cOI
  else if c == cOKar then some cO
  else if c == cOUKar then some cOU
  else none

end Riti
