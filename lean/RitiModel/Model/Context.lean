/-
Model/Context — `RitiContext`, the `Method` dispatch, `Suggestion` accessors and the user-file
state (src/context.rs, src/suggestion.rs, the file handling of src/phonetic/method.rs).
-/
import RitiModel.Model.Fixed
namespace Riti

/-- `Suggestion` accessors (src/suggestion.rs) -/
def Sugg.len : Sugg → Res Nat
  | .full _ l _ _ => .ok l.length
  | .single _ _ => .error .lonelyAccessor

def Sugg.getSuggestion : Sugg → Nat → Res Str
  | .full _ l _ _, i => match l[i]? with
    | some s => .ok s
    | none => .error .indexOutOfRange
  | .single _ _, _ => .error .lonelyAccessor

/-- `get_pre_edit_text` -/
def Sugg.getPreEdit (env : Env) : Sugg → Nat → Res Str
  | .full _ l _ ansi, i => match l[i]? with
    | some s => if ansi then env.bijoy s else .ok s
    | none => .error .indexOutOfRange
  | .single s ansi, _ => if ansi then env.bijoy s else .ok s

/-- a per-user file as the engine can see it.  Parsing (`serde_json`) is outside the model: a
    file is represented by its parse result. -/
inductive FileState where
  | absent                 -- cannot be read at all
  | unreadable             -- present, but not a JSON object of strings (truncated, wrong shape, garbage)
  | parsed (st : Store)    -- parses to the map `st`
  deriving Repr, Inhabited

/-- the content the engine uses: unreadable is treated as absent -/
def FileState.content : FileState → Store
  | .parsed st => st
  | _ => []

/-- what the engine sees of the two per-user files -/
structure FS where
  /-- learned-selections file -/
  sel : FileState := .absent
  /-- user auto-correct file: `none` = cannot be opened; `some (mtime, parse result)` -/
  ac : Option (Nat × Option Store) := none
  /-- does `std::fs::write` of the selections file succeed? -/
  writable : Bool := true
  deriving Repr, Inhabited

inductive MState where
  | phonetic (s : PState)
  | fixed (layout : Layout) (s : FState)

/-- how the fixed method orders its candidates: any function allowed by `sort_unstable`;
    the theorems quantify over it (see `Props/C15`) -/
abbrev Sorter := List Rank → List Rank

structure World where
  env : Env
  /-- layout path → parsed layout file (`Config::get_layout` + `Layout::parse`) -/
  layouts : String → Option Layout
  sorter : Sorter

structure Ctx where
  cfg : Cfg
  layoutPath : String
  m : MState

def isPhoneticPath (p : String) : Bool := p == "avro_phonetic"

/-- `PhoneticMethod::new`: unreadable files are treated as absent -/
def pNew (fs : FS) : PState :=
  let (modified, ua) : Nat × Store := match fs.ac with
    | some (t, some st) => (t, st)
    | _ => (0, [])
  { selections := fs.sel.content, userAutocorrect := ua, modified := modified }

/-- `<dyn Method>::new`; `none` = `FixedMethod::new` unwrap on a missing/ill-formed layout (out of contract) -/
def mNew (w : World) (fs : FS) (layoutPath : String) : Option MState :=
  if isPhoneticPath layoutPath then some (.phonetic (pNew fs))
  else match w.layouts layoutPath with
    | some l => some (.fixed l {})
    | none => none

def Ctx.new (w : World) (fs : FS) (cfg : Cfg) (layoutPath : String) : Option Ctx :=
  (mNew w fs layoutPath).map (fun m => ⟨cfg, layoutPath, m⟩)

/-- `PhoneticMethod::update_engine` -/
def pUpdate (fs : FS) (s : PState) : PState :=
  match fs.ac with
  | some (t, parsed) =>
    if t > s.modified then { s with userAutocorrect := parsed.getD [], cache := [], modified := t } else s
  | none =>
    if s.modified != 0 then { s with userAutocorrect := [], cache := [], modified := 0 } else s

/-- `create_dictionary_suggestion` with the ordering left to `sorter` -/
def fDictSuggestion (w : World) (cfg : Cfg) (s : FState) : FState × Sugg :=
  let fc := fixedCands w.env cfg s
  let l := (w.sorter fc.cands).take fc.keep ++ fc.english.toList
  ({ s with suggestions := l }, .full s.buffer (l.map Rank.text) 0 cfg.ansi)

/-- `FixedMethod::create_suggestion` -/
def fCreateSuggestion (w : World) (cfg : Cfg) (s : FState) : FState × Sugg :=
  if cfg.fixedSuggestion then fDictSuggestion w cfg s else (s, fLonely cfg s)

/-- `FixedMethod::current_suggestion` -/
def fCurrentSuggestion (cfg : Cfg) (s : FState) : Sugg :=
  if !s.rbuf.isEmpty then
    if cfg.fixedSuggestion then .full s.buffer (s.suggestions.map Rank.text) 0 cfg.ansi
    else fLonely cfg s
  else Sugg.empty

def fKey (w : World) (layout : Layout) (cfg : Cfg) (s : FState) (key modifier : Nat) : FState × Sugg :=
  match fKeyState layout cfg s key modifier with
  | none => (s, fCurrentSuggestion cfg s)
  | some s' => if s'.rbuf.isEmpty && s'.pending.isNone then (s', Sugg.empty) else fCreateSuggestion w cfg s'

def fBackspace (w : World) (cfg : Cfg) (s : FState) (ctrl : Bool) : FState × Sugg :=
  let (s', mk) := fBackspaceState s ctrl
  if mk then fCreateSuggestion w cfg s' else (s', Sugg.empty)

inductive Event where
  | key (code modifier selection : Nat)
  | backspace (ctrl : Bool)
  | commit (index : Nat)
  | finish
  | update (cfg : Cfg) (layoutPath : String)
  /-- the outside world changes the user files (edit, corruption, permissions) -/
  | setFs (fs : FS)

inductive Out where
  | sugg (s : Sugg)
  | unit
  deriving DecidableEq, Repr, Inhabited

/-- one API call.  `none` inside `Res` is not used; errors are the remaining panic sites
    (`commit` with an index outside the list — out of contract; a layout that does not load). -/
def step (w : World) (c : Ctx) (fs : FS) : Event → Res (Ctx × FS × Out)
  | .key code modifier selection =>
    match c.m with
    | .phonetic s =>
      let (s', sg) := pKey w.env c.cfg s code selection
      .ok ({ c with m := .phonetic s' }, fs, .sugg sg)
    | .fixed l s =>
      let (s', sg) := fKey w l c.cfg s code modifier
      .ok ({ c with m := .fixed l s' }, fs, .sugg sg)
  | .backspace ctrl =>
    match c.m with
    | .phonetic s =>
      let (s', sg) := pBackspace w.env c.cfg s ctrl
      .ok ({ c with m := .phonetic s' }, fs, .sugg sg)
    | .fixed l s =>
      let (s', sg) := fBackspace w c.cfg s ctrl
      .ok ({ c with m := .fixed l s' }, fs, .sugg sg)
  | .commit i =>
    match c.m with
    | .phonetic s =>
      match pCommit c.cfg s i with
      | .error e => .error e
      | .ok (s', wr) =>
        let fs' := match wr with
          | some st => if fs.writable then { fs with sel := .parsed st } else fs
          | none => fs
        .ok ({ c with m := .phonetic s' }, fs', .unit)
    | .fixed l s => .ok ({ c with m := .fixed l (fClear s) }, fs, .unit)
  | .finish =>
    match c.m with
    | .phonetic s => .ok ({ c with m := .phonetic (pFinish s) }, fs, .unit)
    | .fixed l s => .ok ({ c with m := .fixed l (fClear s) }, fs, .unit)
  | .update cfg layoutPath =>
    if c.layoutPath != layoutPath then
      match mNew w fs layoutPath with
      | some m => .ok (⟨cfg, layoutPath, m⟩, fs, .unit)
      | none => .error .userFile
    else
      match c.m with
      | .phonetic s => .ok (⟨cfg, layoutPath, .phonetic (pUpdate fs s)⟩, fs, .unit)
      | .fixed l s => .ok (⟨cfg, layoutPath, .fixed l s⟩, fs, .unit)
  | .setFs fs' => .ok (c, fs', .unit)

def Ctx.ongoing (c : Ctx) : Bool :=
  match c.m with
  | .phonetic s => pOngoing s
  | .fixed _ s => fOngoing s

/-- run a history; collects the outputs -/
def runFrom (w : World) : Ctx → FS → List Event → Res (Ctx × FS × List Out)
  | c, fs, [] => .ok (c, fs, [])
  | c, fs, e :: es =>
    match step w c fs e with
    | .error p => .error p
    | .ok (c', fs', o) =>
      match runFrom w c' fs' es with
      | .error p => .error p
      | .ok (c'', fs'', os) => .ok (c'', fs'', o :: os)

end Riti
