/-
Model/EmojiTables — the bundled tables of the `emojicon` crate (0.4.0) as look-up functions.

`Emojicon::new` / `BengaliEmoji::new` collect an array of rows into a `HashMap` (`.into_iter().collect()`, i.e.
`insert` row by row: a LATER row with the same key replaces an earlier one); `get_by_emoticon`, `get_by_name` and
`BengaliEmoji::get` are `HashMap::get` (+ iteration over the stored slice in its order).  The English name table is the
ONE file lib.rs selects (`if cfg!(feature = "custom") { emoji::emojis() } else { gemoji::gemojis() }`; riti asks for
`custom`): emoji.rs and gemoji.rs are alternatives and are never merged.  The translator (item `emojicon`) reads the
selected files into `Gen/EmojiTables.lean`, rows in source order, texts as lists of code points.

A `&str` key is compared as a sequence of code points: the look-ups below turn the query into its code points
(`Char.toNat`, injective), search the generated rows (last matching row wins) and turn the answer into text.
Imports the generated file and Model/Basic only (the trace validator links it).
-/
import RitiModel.Gen.EmojiTables
import RitiModel.Model.Basic
namespace Riti
open Gen

/-- look-up in an array of rows collected into a `HashMap`: the LAST row with the key (insertion replaces) -/
def alookupLast {α β : Type} [BEq α] : List (α × β) → α → Option β
  | [], _ => none
  | (k, v) :: rest, a =>
    match alookupLast rest a with
    | some w => some w
    | none => if k == a then some v else none

/-- the code points of a text -/
def codesOf (s : List Char) : List Nat := s.map Char.toNat

/-- `Emojicon::get_by_emoticon` over the bundled table -/
def emoticonLookup (s : List Char) : Option (List Char) :=
  (alookupLast emoticonRows (codesOf s)).map natsToChars

/-- `Emojicon::get_by_name(..).map(collect)` over the bundled English name table: the emoji in the order of the slice -/
def emojiNameLookup (s : List Char) : Option (List (List Char)) :=
  (alookupLast emojiNameRows (codesOf s)).map (fun l => l.map natsToChars)

/-- `BengaliEmoji::get(..).map(collect)` over the bundled Bengali name table -/
def bengaliNameLookup (s : List Char) : Option (List (List Char)) :=
  (alookupLast bengaliNameRows (codesOf s)).map (fun l => l.map natsToChars)

end Riti
