/-
Model/Ffi — the C interface (src/ffi.rs, include/riti.h) at the handle / protocol level.

A raw pointer handed to C is modelled by a `Nat` handle into a table of *values*; the four
kinds of heap object the 33 exported functions create are `Config` boxes, `RitiContext` boxes,
`Suggestion` boxes (a `Suggestion` owns its strings: it is a value, not a view of the context)
and `CString`s (`into_raw`).  `Box::into_raw`/`CString::into_raw` = allocate a fresh handle from
a monotone counter; `Box::from_raw`/`CString::from_raw` + drop = remove the handle.  Use of a
handle that is not live (dangling or NULL where the code asserts non-NULL) is an error: memory
safety itself is not representable here (it is observed under valgrind/ASan), the *protocol* is.

C scalar arguments (`u16` key, `u8` modifier/selection, `usize` index) are embedded in `Nat`.
-/
import RitiModel.Model.Context
namespace Riti

/-- the four kinds of heap object handed to C -/
inductive Kind where | config | context | suggestion | string
  deriving DecidableEq, Repr, Inhabited

/-- how a call of the C interface can go wrong -/
inductive FfiErr where
  /-- a pointer that is not live: dangling / already freed / foreign / NULL where the function
      asserts non-NULL (undefined behaviour or abort in C — out of contract) -/
  | deadHandle
  /-- a Rust panic site reached behind the interface (abort across `extern "C"`) -/
  | panic (p : Panic)
  deriving DecidableEq, Repr, Inhabited

abbrev FfiRes (α : Type) := Except FfiErr α

/-- the 13 `riti_config_set_*` functions with their argument.  For the two path setters the
    answer of `Path::exists` is an input from the outside world. -/
inductive CfgSet where
  | layoutFile (path : String) (pathExists : Bool)
  | databaseDir (path : String) (pathExists : Bool)
  | includeEnglish (b : Bool)
  | phoneticSuggestion (b : Bool)
  | fixedSuggestion (b : Bool)
  | fixedVowel (b : Bool)
  | fixedChandra (b : Bool)
  | fixedKar (b : Bool)
  | fixedOldReph (b : Bool)
  | fixedNumpad (b : Bool)
  | fixedKarOrder (b : Bool)
  | ansi (b : Bool)
  | smartQuote (b : Bool)
  deriving DecidableEq, Repr, Inhabited

/-- remove every binding of a handle -/
def aerase {β : Type} (l : List (Nat × β)) (h : Nat) : List (Nat × β) := l.filter (fun p => p.1 != h)

/-- the handle table: live objects of each kind and the allocation counter -/
structure Heap where
  /-- `Box<Config>`: the booleans and the layout path (database dir: see `World.env`) -/
  configs : List (Nat × (Cfg × String)) := []
  contexts : List (Nat × Ctx) := []
  suggestions : List (Nat × Sugg) := []
  strings : List (Nat × Str) := []
  /-- next fresh handle; never decreases, so a freed handle is never issued again -/
  next : Nat := 0

def Heap.empty : Heap := {}

/-- no live object of any kind -/
def Heap.isEmpty (hp : Heap) : Bool :=
  hp.configs.isEmpty && hp.contexts.isEmpty && hp.suggestions.isEmpty && hp.strings.isEmpty

/-- the live handles of a kind -/
def Heap.live (hp : Heap) : Kind → List Nat
  | .config => hp.configs.map (·.1)
  | .context => hp.contexts.map (·.1)
  | .suggestion => hp.suggestions.map (·.1)
  | .string => hp.strings.map (·.1)

/-- what a call returns to C -/
inductive FfiOut where
  | unit
  /-- a fresh pointer of the given kind -/
  | handle (k : Kind) (h : Nat)
  | bool (b : Bool)
  | nat (n : Nat)
  deriving DecidableEq, Repr, Inhabited

/-- the exported functions (`none` = the NULL pointer, accepted by the four `*_free`) -/
inductive FfiOp where
  | configNew                                           -- riti_config_new
  | configSet (h : Nat) (s : CfgSet)                    -- riti_config_set_* (13)
  | configFree (h : Option Nat)                         -- riti_config_free
  | contextNew (cfgH : Nat)                             -- riti_context_new_with_config
  | contextFree (h : Option Nat)                        -- riti_context_free
  | key (ctxH : Nat) (code modifier selection : Nat)    -- riti_get_suggestion_for_key
  | backspace (ctxH : Nat) (ctrl : Bool)                -- riti_context_backspace_event
  | commit (ctxH : Nat) (index : Nat)                   -- riti_context_candidate_committed
  | update (ctxH cfgH : Nat)                            -- riti_context_update_engine
  | ongoing (ctxH : Nat)                                -- riti_context_ongoing_input_session
  | finish (ctxH : Nat)                                 -- riti_context_finish_input_session
  | suggestionFree (h : Option Nat)                     -- riti_suggestion_free
  | getSuggestion (sugH : Nat) (index : Nat)            -- riti_suggestion_get_suggestion
  | getLonely (sugH : Nat)                              -- riti_suggestion_get_lonely_suggestion
  | getAux (sugH : Nat)                                 -- riti_suggestion_get_auxiliary_text
  | getPreEdit (sugH : Nat) (index : Nat)               -- riti_suggestion_get_pre_edit_text
  | prevIndex (sugH : Nat)                              -- riti_suggestion_previously_selected_index
  | length (sugH : Nat)                                 -- riti_suggestion_get_length
  | isLonely (sugH : Nat)                               -- riti_suggestion_is_lonely
  | isEmpty (sugH : Nat)                                -- riti_suggestion_is_empty
  | stringFree (h : Option Nat)                         -- riti_string_free
  deriving DecidableEq, Repr, Inhabited

/-! ### the remaining `Suggestion` accessors of the Rust API (src/suggestion.rs) -/

def Sugg.getLonely : Sugg → Res Str
  | .single s _ => .ok s
  | .full .. => .error .lonelyAccessor

def Sugg.getAux : Sugg → Res Str
  | .full aux _ _ _ => .ok aux
  | .single .. => .error .lonelyAccessor

def Sugg.prevIndex : Sugg → Res Nat
  | .full _ _ sel _ => .ok sel
  | .single .. => .error .lonelyAccessor

def Sugg.isLonely : Sugg → Bool
  | .single .. => true
  | .full .. => false

/-- one `riti_config_set_*` call on the boxed config; the value returned to C -/
def CfgSet.apply (c : Cfg × String) : CfgSet → (Cfg × String) × FfiOut
  | .layoutFile p ex =>
    if p == "avro_phonetic" || ex then ((c.1, p), .bool true) else (c, .bool false)
  | .databaseDir _ ex => (c, .bool ex)
  | .includeEnglish b => (({ c.1 with includeEnglish := b }, c.2), .unit)
  | .phoneticSuggestion b => (({ c.1 with phoneticSuggestion := b }, c.2), .unit)
  | .fixedSuggestion b => (({ c.1 with fixedSuggestion := b }, c.2), .unit)
  | .fixedVowel b => (({ c.1 with fixedVowel := b }, c.2), .unit)
  | .fixedChandra b => (({ c.1 with fixedChandra := b }, c.2), .unit)
  | .fixedKar b => (({ c.1 with fixedKar := b }, c.2), .unit)
  | .fixedOldReph b => (({ c.1 with fixedOldReph := b }, c.2), .unit)
  | .fixedNumpad b => (({ c.1 with fixedNumpad := b }, c.2), .unit)
  | .fixedKarOrder b => (({ c.1 with fixedKarOrder := b }, c.2), .unit)
  | .ansi b => (({ c.1 with ansi := b }, c.2), .unit)
  | .smartQuote b => (({ c.1 with smartQuote := b }, c.2), .unit)

/-- `Box::into_raw(Box::new(suggestion))` -/
def Heap.allocSugg (hp : Heap) (sg : Sugg) : Heap :=
  { hp with suggestions := (hp.next, sg) :: hp.suggestions, next := hp.next + 1 }

/-- `CString::from_vec_unchecked(s.into()).into_raw()` -/
def Heap.allocStr (hp : Heap) (s : Str) : Heap :=
  { hp with strings := (hp.next, s) :: hp.strings, next := hp.next + 1 }

/-- an API call on a live context; a returned `Suggestion` is boxed under a fresh handle -/
def ctxEvent (w : World) (hp : Heap) (fs : FS) (h : Nat) (ev : Event) : FfiRes (Heap × FS × FfiOut) :=
  match alookup hp.contexts h with
  | none => .error .deadHandle
  | some c =>
    match step w c fs ev with
    | .error p => .error (.panic p)
    | .ok (c', fs', .unit) => .ok ({ hp with contexts := ainsert hp.contexts h c' }, fs', .unit)
    | .ok (c', fs', .sugg sg) =>
      .ok (({ hp with contexts := ainsert hp.contexts h c' }).allocSugg sg, fs', .handle .suggestion hp.next)

/-- a string read-out through a live suggestion handle: the Rust-API value is copied into a
    fresh C string -/
def readStr (hp : Heap) (fs : FS) (h : Nat) (f : Sugg → Res Str) : FfiRes (Heap × FS × FfiOut) :=
  match alookup hp.suggestions h with
  | none => .error .deadHandle
  | some sg =>
    match f sg with
    | .error p => .error (.panic p)
    | .ok s => .ok (hp.allocStr s, fs, .handle .string hp.next)

/-- a scalar read-out through a live suggestion handle -/
def readVal (hp : Heap) (fs : FS) (h : Nat) (f : Sugg → Res FfiOut) : FfiRes (Heap × FS × FfiOut) :=
  match alookup hp.suggestions h with
  | none => .error .deadHandle
  | some sg =>
    match f sg with
    | .error p => .error (.panic p)
    | .ok o => .ok (hp, fs, o)

/-- one call of the C interface -/
def ffiStep (w : World) (hp : Heap) (fs : FS) : FfiOp → FfiRes (Heap × FS × FfiOut)
  | .configNew =>
    .ok ({ hp with configs := (hp.next, (({} : Cfg), "")) :: hp.configs, next := hp.next + 1 }, fs,
         .handle .config hp.next)
  | .configSet h st =>
    match alookup hp.configs h with
    | none => .error .deadHandle
    | some c => .ok ({ hp with configs := ainsert hp.configs h (st.apply c).1 }, fs, (st.apply c).2)
  | .configFree none => .ok (hp, fs, .unit)
  | .configFree (some h) =>
    match alookup hp.configs h with
    | none => .error .deadHandle
    | some _ => .ok ({ hp with configs := aerase hp.configs h }, fs, .unit)
  | .contextNew ch =>
    match alookup hp.configs ch with
    | none => .error .deadHandle
    | some c =>
      match Ctx.new w fs c.1 c.2 with
      | none => .error (.panic .userFile)
      | some ctx =>
        .ok ({ hp with contexts := (hp.next, ctx) :: hp.contexts, next := hp.next + 1 }, fs,
             .handle .context hp.next)
  | .contextFree none => .ok (hp, fs, .unit)
  | .contextFree (some h) =>
    match alookup hp.contexts h with
    | none => .error .deadHandle
    | some _ => .ok ({ hp with contexts := aerase hp.contexts h }, fs, .unit)
  | .key h code modifier selection => ctxEvent w hp fs h (.key code modifier selection)
  | .backspace h ctrl => ctxEvent w hp fs h (.backspace ctrl)
  | .commit h i => ctxEvent w hp fs h (.commit i)
  | .finish h => ctxEvent w hp fs h .finish
  | .update h ch =>
    match alookup hp.configs ch with
    | none => .error .deadHandle
    | some c => ctxEvent w hp fs h (.update c.1 c.2)
  | .ongoing h =>
    match alookup hp.contexts h with
    | none => .error .deadHandle
    | some c => .ok (hp, fs, .bool c.ongoing)
  | .suggestionFree none => .ok (hp, fs, .unit)
  | .suggestionFree (some h) =>
    match alookup hp.suggestions h with
    | none => .error .deadHandle
    | some _ => .ok ({ hp with suggestions := aerase hp.suggestions h }, fs, .unit)
  | .getSuggestion h i => readStr hp fs h (fun sg => sg.getSuggestion i)
  | .getLonely h => readStr hp fs h Sugg.getLonely
  | .getAux h => readStr hp fs h Sugg.getAux
  | .getPreEdit h i => readStr hp fs h (fun sg => sg.getPreEdit w.env i)
  | .prevIndex h => readVal hp fs h (fun sg => sg.prevIndex.map .nat)
  | .length h => readVal hp fs h (fun sg => sg.len.map .nat)
  | .isLonely h => readVal hp fs h (fun sg => .ok (.bool sg.isLonely))
  | .isEmpty h => readVal hp fs h (fun sg => .ok (.bool sg.isEmpty))
  | .stringFree none => .ok (hp, fs, .unit)
  | .stringFree (some h) =>
    match alookup hp.strings h with
    | none => .error .deadHandle
    | some _ => .ok ({ hp with strings := aerase hp.strings h }, fs, .unit)

/-- a sequence of calls; collects what was returned to C -/
def ffiRun (w : World) : Heap → FS → List FfiOp → FfiRes (Heap × FS × List FfiOut)
  | hp, fs, [] => .ok (hp, fs, [])
  | hp, fs, op :: ops =>
    match ffiStep w hp fs op with
    | .error e => .error e
    | .ok (hp', fs', o) =>
      match ffiRun w hp' fs' ops with
      | .error e => .error e
      | .ok (hp'', fs'', os) => .ok (hp'', fs'', o :: os)

end Riti
