/-
Model/Fixed — `FixedMethod` (src/fixed/method.rs) and the dictionary search of
src/fixed/search.rs.  The composition buffer is kept **reversed** (`rbuf`, head = right-most
code point): every rule of `process_key_value` looks at the right end.
-/
import RitiModel.Model.Phonetic
namespace Riti

structure FState where
  /-- composition buffer, reversed -/
  rbuf : Str := []
  /-- raw typed keys, reversed -/
  rtyped : Str := []
  /-- `pending_kar`: the left-standing sign waiting for its consonant (one of ি ে ৈ) -/
  pending : Option Char := none
  /-- `FixedMethod.suggestions` (the list last built) -/
  suggestions : List Rank := []
  deriving Repr, Inhabited

def FState.buffer (s : FState) : Str := s.rbuf.reverse
def FState.typed (s : FState) : Str := s.rtyped.reverse

def zoFola : Str := [cHasanta, cZ]
def rephValue : Str := [cR, cHasanta]

/-- `match character { B_I_KAR => Some(I), B_E_KAR => Some(E), B_OI_KAR => Some(OI), _ => None }` -/
def toPending (c : Char) : Option Char :=
  if c == cIKar || c == cEKar || c == cOIKar then some c else none

/-- `is_reph_moveable` on the reversed buffer (`unwrap_or_default()` gives U+0000) -/
def isRephMoveable (rbuf : Str) : Bool :=
  let c := rbuf.headD '\x00'
  let rest := rbuf.drop 1
  let (rm, rest') := if c == cChandra then (rest.headD '\x00', rest.drop 1) else (c, rest)
  let before := rest'.headD '\x00'
  isPureConsonant rm || (isVowel rm && isPureConsonant before)

/-- the right-to-left scan of `insert_old_style_reph`: number of code points to move -/
def rephScan : Str → Nat → Bool → Bool → Bool → Bool → Nat → Nat
  | [], _, _, _, _, _, step => step
  | c :: cs, idx, constant, vowel, hasanta, chandra, step =>
    if isPureConsonant c then
      if constant && !hasanta then step
      else rephScan cs (idx + 1) true vowel false chandra (step + 1)
    else if c == cHasanta then rephScan cs (idx + 1) constant vowel true chandra (step + 1)
    else if isVowel c then
      if vowel then step
      else if idx == 0 || chandra then rephScan cs (idx + 1) constant true hasanta chandra (step + 1)
      else step
    else if c == cChandra then
      if idx == 0 then rephScan cs (idx + 1) constant vowel hasanta true (step + 1)
      else step
    else rephScan cs (idx + 1) constant vowel hasanta chandra step

/-- `insert_old_style_reph` -/
def insertOldStyleReph (rbuf : Str) : Str :=
  if isRephMoveable rbuf then
    let step := rephScan rbuf 0 false false false false 0
    rbuf.take step ++ [cHasanta, cR] ++ rbuf.drop step
  else [cHasanta, cR] ++ rbuf

def pushStr (rbuf : Str) (v : Str) : Str := v.reverse ++ rbuf

def autoVowelPos (rbuf : Str) (rmc : Char) : Bool := rbuf.isEmpty || isVowel rmc || isMark rmc

/-- the kar branch of `process_key_value` from "Automatic Vowel Forming" on; `rmc` is the
    right-most character *as read at function entry* (the code does not refresh it) -/
def karTail (cfg : Cfg) (rbuf : Str) (rmc : Char) (character : Char) : Str :=
  if cfg.fixedVowel && autoVowelPos rbuf rmc then
    match karToVowel character with
    | some v => v :: rbuf
    | none => rbuf
  else if cfg.fixedChandra && rmc == cChandra then
    cChandra :: character :: rbuf.drop 1
  else if rmc == cHasanta then
    match karToVowel character with
    | some v => v :: rbuf.drop 1
    | none => rbuf
  else if cfg.fixedKar && isPureConsonant rmc then
    if isLigatureKar character then character :: cZWNJ :: rbuf else character :: rbuf
  else character :: rbuf

/-- body of `process_key_value`; `recur` stands for the recursive call (made once, with the
    pending sign already cleared) -/
def pkvBody (recur : FState → FState) (cfg : Cfg) (s : FState) (value : Str) : FState :=
  let rmc := s.rbuf.headD '\x00'
  if value == zoFola then
    let rbuf := if rmc == cR && (s.rbuf.drop 1).headD '\x00' != cHasanta then cZWJ :: s.rbuf else s.rbuf
    if cfg.fixedKarOrder && isLeftStandingKar rmc then
      match rbuf with
      | kar :: rest => { s with rbuf := kar :: pushStr rest value }
      | [] => { s with rbuf := pushStr rbuf value }
    else { s with rbuf := pushStr rbuf value }
  else if value == rephValue && cfg.fixedOldReph then
    { s with rbuf := insertOldStyleReph s.rbuf }
  else
    let fallthrough : FState → FState := fun s =>
      -- the code after `if let Some(character) = value.chars().next() { … }`
      if cfg.fixedKarOrder then
        match s.pending with
        | some lsk =>
          let rbuf := pushStr s.rbuf value
          if value.getLast? == some cHasanta then { s with rbuf := rbuf }
          else { s with rbuf := lsk :: rbuf, pending := none }
        | none => { s with rbuf := pushStr s.rbuf value }
      else { s with rbuf := pushStr s.rbuf value }
    match value.head? with
    | none => fallthrough s
    | some character =>
      if isKar character then
        if cfg.fixedKarOrder then
          if rmc != cHasanta && isLeftStandingKar character then
            { s with pending := toPending character }
          else if rmc == cEKar && (character == cAAKar || character == cOUKar) then
            { s with rbuf := (if character == cAAKar then cOKar else cOUKar) :: s.rbuf.drop 1 }
          else
            match s.pending with
            | some lsk =>
              if rmc == cHasanta then
                -- restore: pop hasanta, push sign, push hasanta; then continue with the stale rmc
                let rbuf := cHasanta :: lsk :: s.rbuf.drop 1
                { s with rbuf := karTail cfg rbuf rmc character, pending := none }
              else
                let rbuf := if cfg.fixedVowel && autoVowelPos s.rbuf rmc
                  then (match karToVowel lsk with | some v => v :: s.rbuf | none => s.rbuf) else s.rbuf
                recur { s with rbuf := rbuf, pending := none }
            | none => { s with rbuf := karTail cfg s.rbuf rmc character }
        else { s with rbuf := karTail cfg s.rbuf rmc character }
      else if character == cHasanta && rmc == cHasanta then
        { s with rbuf := cZWNJ :: s.rbuf }
      else if character == cLengthMark && rmc == cHasanta then
        { s with rbuf := cOU :: s.rbuf.drop 1 }
      else if cfg.fixedKarOrder && character == cHasanta && isLeftStandingKar rmc then
        if value.length == 1 then
          { s with rbuf := character :: s.rbuf.drop 1, pending := toPending rmc }
        else
          match s.rbuf with
          | kar :: rest => { s with rbuf := kar :: pushStr rest value }
          | [] => s
      else if cfg.fixedKarOrder && rmc == cEKar && character == cLengthMark then
        { s with rbuf := cOUKar :: s.rbuf.drop 1 }
      else fallthrough s

/-- `process_key_value` -/
def processKeyValue (cfg : Cfg) (s : FState) (value : Str) : FState :=
  pkvBody (fun s' => pkvBody id cfg s' value) cfg s value

/-- `clean_string` -/
def cleanString (w : Str) : Str := w.filter (fun c => !isCleaned c)

/-- insert ZWNJ before every ligature-making sign (traditional joining in `search_dictionary`) -/
def tradKarWord (w : Str) : Str := w.flatMap (fun c => if isLigatureKar c then [cZWNJ, c] else [c])

/-- does dictionary word `w` match `^clean[class]{0,need}$` ? -/
def fixedMatches (clean : Str) (need : Nat) (w : Str) : Bool :=
  clean.isPrefixOf w && (w.drop clean.length).all inRegexClass && (w.drop clean.length).length ≤ need

def fixedTableName (word : Str) : Option String :=
  match word.head? with
  | none => none
  | some c => alookup Gen.fixedFirstCharTable c.toNat

/-- the candidates `create_dictionary_suggestion` hands to `sort_unstable`, the truncation
    length and the optional trailing English item. -/
structure FixedCands where
  cands : List Rank
  keep : Nat
  english : Option Rank
  deriving Repr

def dedupAdjacent : List Rank → List Rank
  | [] => []
  | [x] => [x]
  | x :: y :: rest => if x.sameText y then dedupAdjacent (x :: rest) else x :: dedupAdjacent (y :: rest)

def fixedParts (cfg : Cfg) (buffer : Str) : Parts :=
  let p := split buffer true
  if cfg.smartQuote then smartQuoter p else p

/-- dictionary hits for the word part, ranked against it -/
def fixedHits (env : Env) (cfg : Cfg) (word : Str) : List Rank :=
  match fixedTableName word with
  | none => []
  | some t =>
    let clean := cleanString word
    let need := Gen.needCharsUpto clean.length
    let ws := (env.fixedTable t).filter (fixedMatches clean need)
    ws.map (fun w => Rank.newSuggestion (if cfg.fixedKar then tradKarWord w else w) word)

/-- the typed word first, then the hits, adjacent duplicates removed, wrapped -/
def fixedBase (env : Env) (cfg : Cfg) (parts : Parts) : List Rank :=
  wrapAll parts (dedupAdjacent (Rank.first parts.word :: fixedHits env cfg parts.word))

/-- the emoji items (emoticon of the raw keys, else the Bengali name of the word) -/
def fixedEmoji (env : Env) (cfg : Cfg) (parts : Parts) (typed : Str) : List Rank :=
  if cfg.ansi then []
  else
    match env.emoticon typed with
    | some e => [Rank.emoji e Gen.emojiDefaultRank]
    | none =>
      -- the ZWNJs inserted for traditional joining are not part of the name
      match env.emojiBengali (parts.word.filter (fun c => c != cZWNJ)) with
      | some es => (es.zipIdx 1).map (fun (x, r) => Rank.emoji (wrapText parts.pre parts.trail x) r)
      | none => []

def fixedCands (env : Env) (cfg : Cfg) (s : FState) : FixedCands :=
  let parts := fixedParts cfg s.buffer
  let cands := fixedBase env cfg parts ++ fixedEmoji env cfg parts s.typed
  if cfg.english && s.buffer != s.typed then ⟨cands, 8, some (Rank.last s.typed 1)⟩
  else ⟨cands, 9, none⟩

/-- is `L` an allowed result of `sort_unstable(); truncate(keep)` on `cands` (plus English)?
    Returns `none` if allowed, else the name of the first clause that fails. -/
def removeFirst (r : Rank) : List Rank → Option (List Rank)
  | [] => none
  | x :: xs => if x == r then some xs else (removeFirst r xs).map (x :: ·)

def subMultiset : List Rank → List Rank → Option (List Rank)
  | [], rest => some rest
  | x :: xs, pool => match removeFirst x pool with
    | none => none
    | some pool' => subMultiset xs pool'

def adjacentSorted : List Rank → Bool
  | [] => true
  | [_] => true
  | x :: y :: rest => Rank.le x y && adjacentSorted (y :: rest)

def fixedListOk (fc : FixedCands) (L : List Rank) : Option String :=
  let (main, eng) : List Rank × Option Rank :=
    match fc.english with
    | none => (L, none)
    | some _ => (L.dropLast, L.getLast?)
  if fc.english != eng then some "english-item"
  else if main.length != min fc.keep fc.cands.length then some "length"
  else match subMultiset main fc.cands with
    | none => some "not-a-submultiset"
    | some dropped =>
      if !adjacentSorted main then some "not-sorted"
      else match main.getLast? with
        | none => none
        | some lastKept => if dropped.all (fun d => Rank.le lastKept d) then none else some "dropped-a-smaller-item"

/-- `current_suggestion` / `create_suggestion` with suggestions **off** -/
def fLonely (cfg : Cfg) (s : FState) : Sugg := .single s.buffer cfg.ansi

/-- `backspace_event` state change; the `Bool` says whether a suggestion must be created
    (false = `Suggestion::empty()` is returned) -/
def fBackspaceState (s : FState) (ctrl : Bool) : FState × Bool :=
  if ctrl && !s.rbuf.isEmpty then ({ s with rbuf := [], rtyped := [], pending := none }, false)
  else if s.pending.isSome then
    if s.rbuf.isEmpty then ({ s with pending := none, rtyped := [] }, false)
    else ({ s with pending := none, rtyped := s.rtyped.drop 1 }, true)
  else if !s.rbuf.isEmpty then
    let rbuf := s.rbuf.drop 1
    if rbuf.isEmpty then ({ s with rbuf := rbuf, rtyped := [] }, false)
    else ({ s with rbuf := rbuf, rtyped := s.rtyped.drop 1 }, true)
  else (s, false)

def fClear (s : FState) : FState := { s with rbuf := [], rtyped := [], pending := none }
def fOngoing (s : FState) : Bool := !s.rbuf.isEmpty || s.pending.isSome

/-- the state change of `get_suggestion` for a key (before the suggestion is created);
    `none` = the key has no value, the state is untouched and `current_suggestion` is returned -/
def fKeyState (layout : Layout) (cfg : Cfg) (s : FState) (key : Nat) (modifier : Nat) : Option FState :=
  match getCharForKey layout key (getModifiers modifier) cfg.fixedNumpad with
  | none => none
  | some value =>
    let s' := processKeyValue cfg s value
    -- the value was dropped (a sign without independent form in a vowel-forming position) and nothing is being
    -- composed: no raw key text is kept and the empty suggestion is returned (`fKey`)  [repaired by 389b777]
    if s'.rbuf.isEmpty && s'.pending.isNone then some { s' with rtyped := [] }
    else if cfg.fixedSuggestion then
      match keycodeToChar key with
      | some ch => some { s' with rtyped := ch :: s'.rtyped }
      | none => some s'
    else some s'

end Riti
